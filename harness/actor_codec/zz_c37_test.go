//go:build verif

package actor

// C37 — spawn configuration survives the wire.
//
// Complete product of spawn-option alphabets (supervisor strategy × directive set × retry budget ×
// backoff, passivation, reentrancy, stashing, role, dependencies, init timeout). For every
// configuration four actors are created on the same hosting node H (a real actor system in a bubble):
//
//   local      H.Spawn(name, actor, opts...)                                  = the reference
//   relocated  local.toSerialize() -> proto.Marshal/Unmarshal -> H.recreateActorFromWire (the
//              relocation entry point: wireSpawnOptions + codec decode + Spawn)
//   remote     O.Spawn(name, actor, opts..., WithHostAndPort(H)) on an origin system O: the real
//              remoteclient.RemoteSpawn encodes the request, the frame crosses an in-memory
//              connection (inet proto framing, real marshal/unmarshal) into H.remoteSpawnHandler
//   placed     O.SpawnOn(name, actor, opts..., WithPlacement(Random)) with H as the only cluster peer:
//              same wire, request built by SpawnOn
//
// Oracle: the *effective in-memory configuration* of the relocated/remote/placed PID equals the one
// of the local PID: supervisor strategy, the directive the failure path would pick for each probe
// error type (Directive(err), else Directive(AnyError), else suspend — the lookup of
// PID.notifyParent), the complete rule table, retry budget, retry window, backoff delays,
// passivation strategy and parameters, reentrancy mode and limit, stash enabled, role,
// dependencies (id, type, state), explicit init timeout.

import (
	"bytes"
	"context"
	"errors"
	"fmt"
	"io"
	"math"
	"net"
	"runtime"
	"sort"
	"strings"
	"testing"
	"time"

	"google.golang.org/protobuf/proto"

	gerrors "github.com/tochemey/goakt/v4/errors"
	"github.com/tochemey/goakt/v4/extension"
	"github.com/tochemey/goakt/v4/internal/cluster"
	"github.com/tochemey/goakt/v4/internal/internalpb"
	inet "github.com/tochemey/goakt/v4/internal/net"
	"github.com/tochemey/goakt/v4/internal/verif/vsched"
	"github.com/tochemey/goakt/v4/passivation"
	"github.com/tochemey/goakt/v4/reentrancy"
	"github.com/tochemey/goakt/v4/supervisor"
)

// ---------------------------------------------------------------------------------------------
// test actor, dependency, error types
// ---------------------------------------------------------------------------------------------

type c37Actor struct{}

func (*c37Actor) PreStart(*Context) error { return nil }
func (*c37Actor) Receive(*ReceiveContext) {}
func (*c37Actor) PostStop(*Context) error { return nil }

type c37Dep struct {
	id      string
	payload string
}

func (d *c37Dep) ID() string                     { return d.id }
func (d *c37Dep) MarshalBinary() ([]byte, error) { return []byte(d.id + "\x00" + d.payload), nil }
func (d *c37Dep) UnmarshalBinary(b []byte) error {
	id, payload, ok := strings.Cut(string(b), "\x00")
	if !ok {
		return errors.New("c37Dep: bad encoding")
	}
	d.id, d.payload = id, payload
	return nil
}

var _ extension.Dependency = (*c37Dep)(nil)

type c37Err1 struct{}
type c37Err2 struct{}
type c37Err3 struct{}
type c37ErrUnknown struct{}

func (*c37Err1) Error() string       { return "e1" }
func (*c37Err2) Error() string       { return "e2" }
func (*c37Err3) Error() string       { return "e3" }
func (*c37ErrUnknown) Error() string { return "unknown" }

// ---------------------------------------------------------------------------------------------
// effective configuration
// ---------------------------------------------------------------------------------------------

func c37EffectiveDirective(sup *supervisor.Supervisor, err error) string {
	// the lookup PID.notifyParent performs
	if d, ok := sup.Directive(err); ok {
		return d.String()
	}
	if d, ok := sup.Directive(new(gerrors.AnyError)); ok {
		return d.String() + "(any)"
	}
	return "suspend(no-directive)"
}

// c37Effective returns one "key=value" line per configuration aspect.
func c37Effective(pid *PID) []string {
	var out []string
	add := func(k, format string, a ...any) { out = append(out, k+"="+fmt.Sprintf(format, a...)) }
	if sup := pid.supervisor; sup == nil {
		add("supervisor", "nil")
	} else {
		add("supervisor.strategy", "%s", sup.Strategy())
		probes := []struct {
			n string
			e error
		}{{"E1", new(c37Err1)}, {"E2", new(c37Err2)}, {"E3", new(c37Err3)}, {"unknown", new(c37ErrUnknown)},
			{"PanicError", &gerrors.PanicError{}}, {"PanicNilError", &runtime.PanicNilError{}}, {"AnyError", new(gerrors.AnyError)}}
		for _, p := range probes {
			add("supervisor.directive["+p.n+"]", "%s", c37EffectiveDirective(sup, p.e))
		}
		rules := sup.Rules()
		rs := make([]string, len(rules))
		for i, r := range rules {
			rs[i] = r.ErrorType + "->" + r.Directive.String()
		}
		sort.Strings(rs)
		add("supervisor.rules", "%s", strings.Join(rs, ","))
		add("supervisor.maxRetries", "%d", sup.MaxRetries())
		add("supervisor.timeout", "%d", int64(sup.Timeout()))
		add("supervisor.backoff.initialDelay", "%d", int64(sup.InitialDelay()))
		add("supervisor.backoff.maxDelay", "%d", int64(sup.MaxDelay()))
		add("supervisor.backoff.resetAfter", "%d", int64(sup.BackoffResetAfter()))
	}
	switch s := pid.PassivationStrategy().(type) {
	case nil:
		add("passivation", "nil")
	case *passivation.TimeBasedStrategy:
		add("passivation", "time(%d)", int64(s.Timeout()))
	case *passivation.MessagesCountBasedStrategy:
		add("passivation", "count(%d)", s.MaxMessages())
	case *passivation.LongLivedStrategy:
		add("passivation", "long-lived")
	default:
		add("passivation", "%T", s)
	}
	if st := pid.reentrancy.Load(); st == nil {
		add("reentrancy", "none")
	} else {
		add("reentrancy", "mode=%d maxInFlight=%d", st.getMode(), st.maxInFlight.Load())
	}
	add("stash", "%v", pid.stashState != nil && pid.stashState.box != nil)
	if r := pid.Role(); r == nil {
		add("role", "none")
	} else {
		add("role", "%q", *r)
	}
	var deps []string
	for _, d := range pid.Dependencies() {
		b, _ := d.MarshalBinary()
		deps = append(deps, fmt.Sprintf("%s:%T:%x", d.ID(), d, b))
	}
	sort.Strings(deps)
	add("dependencies", "[%s]", strings.Join(deps, " "))
	if it := pid.initTimeout.Load(); it == nil {
		add("initTimeout", "node-default")
	} else {
		add("initTimeout", "%d", int64(*it))
	}
	add("relocatable", "%v", pid.IsRelocatable())
	return out
}

// c37Diff returns the aspects in which got differs from want.
func c37Diff(got, want []string) []string {
	w := map[string]string{}
	for _, l := range want {
		k, v, _ := strings.Cut(l, "=")
		w[k] = v
	}
	var d []string
	seen := map[string]bool{}
	for _, l := range got {
		k, v, _ := strings.Cut(l, "=")
		seen[k] = true
		if wv, ok := w[k]; !ok || wv != v {
			d = append(d, fmt.Sprintf("%s: got %s, locally spawned has %s", k, v, w[k]))
		}
	}
	for k, v := range w {
		if !seen[k] {
			d = append(d, fmt.Sprintf("%s: missing, locally spawned has %s", k, v))
		}
	}
	sort.Strings(d)
	return d
}

// c37Aspect maps a differing key to a structural signature component.
func c37Aspect(diffLine string) string {
	k, _, _ := strings.Cut(diffLine, ":")
	switch {
	case strings.HasPrefix(k, "supervisor.backoff"):
		return "supervisor-backoff"
	case strings.HasPrefix(k, "supervisor.directive"), k == "supervisor.rules":
		return "supervisor-directives"
	case k == "supervisor.maxRetries", k == "supervisor.timeout":
		return "supervisor-retry"
	case strings.HasPrefix(k, "supervisor"):
		return "supervisor-strategy"
	}
	return k
}

// ---------------------------------------------------------------------------------------------
// configuration domain
// ---------------------------------------------------------------------------------------------

type c37Choice struct {
	label string
	opts  func() []SpawnOption // fresh option values per use
}

type c37SupPart struct {
	label string
	opts  func() []supervisor.SupervisorOption
}

func c37SupervisorChoices() []c37Choice {
	strategies := []c37SupPart{
		{"one-for-one", func() []supervisor.SupervisorOption { return []supervisor.SupervisorOption{supervisor.WithStrategy(supervisor.OneForOneStrategy)} }},
		{"one-for-all", func() []supervisor.SupervisorOption { return []supervisor.SupervisorOption{supervisor.WithStrategy(supervisor.OneForAllStrategy)} }},
	}
	d := supervisor.WithDirective
	e1, e2, e3 := new(c37Err1), new(c37Err2), new(c37Err3)
	directives := []c37SupPart{
		{"dir:none", func() []supervisor.SupervisorOption { return nil }},
		{"dir:E1=stop,E2=resume,E3=restart", func() []supervisor.SupervisorOption {
			return []supervisor.SupervisorOption{d(e1, supervisor.StopDirective), d(e2, supervisor.ResumeDirective), d(e3, supervisor.RestartDirective)}
		}},
		{"dir:E1=escalate,E2=stop", func() []supervisor.SupervisorOption {
			return []supervisor.SupervisorOption{d(e1, supervisor.EscalateDirective), d(e2, supervisor.StopDirective)}
		}},
		{"dir:E1=resume,E3=escalate,Panic=resume", func() []supervisor.SupervisorOption {
			return []supervisor.SupervisorOption{d(e1, supervisor.ResumeDirective), d(e3, supervisor.EscalateDirective), d(&gerrors.PanicError{}, supervisor.ResumeDirective)}
		}},
		{"dir:E1=restart,E2=escalate,E3=resume,PanicNil=stop", func() []supervisor.SupervisorOption {
			return []supervisor.SupervisorOption{d(e1, supervisor.RestartDirective), d(e2, supervisor.EscalateDirective), d(e3, supervisor.ResumeDirective), d(&runtime.PanicNilError{}, supervisor.StopDirective)}
		}},
		{"dir:any=stop", func() []supervisor.SupervisorOption { return []supervisor.SupervisorOption{supervisor.WithAnyErrorDirective(supervisor.StopDirective)} }},
		{"dir:any=resume", func() []supervisor.SupervisorOption { return []supervisor.SupervisorOption{supervisor.WithAnyErrorDirective(supervisor.ResumeDirective)} }},
		{"dir:any=restart", func() []supervisor.SupervisorOption { return []supervisor.SupervisorOption{supervisor.WithAnyErrorDirective(supervisor.RestartDirective)} }},
		{"dir:any=escalate", func() []supervisor.SupervisorOption { return []supervisor.SupervisorOption{supervisor.WithAnyErrorDirective(supervisor.EscalateDirective)} }},
		{"dir:E1=resume+any=restart", func() []supervisor.SupervisorOption {
			return []supervisor.SupervisorOption{d(e1, supervisor.ResumeDirective), supervisor.WithAnyErrorDirective(supervisor.RestartDirective)}
		}},
	}
	retries := []c37SupPart{
		{"retry:unset", func() []supervisor.SupervisorOption { return nil }},
		{"retry:3/1s", func() []supervisor.SupervisorOption { return []supervisor.SupervisorOption{supervisor.WithRetry(3, time.Second)} }},
		{"retry:0/5s", func() []supervisor.SupervisorOption { return []supervisor.SupervisorOption{supervisor.WithRetry(0, 5*time.Second)} }},
		{"retry:max/1ns", func() []supervisor.SupervisorOption { return []supervisor.SupervisorOption{supervisor.WithRetry(math.MaxUint32, time.Nanosecond)} }},
		{"retry:2/0", func() []supervisor.SupervisorOption { return []supervisor.SupervisorOption{supervisor.WithRetry(2, 0)} }},
	}
	backoffs := []c37SupPart{
		{"backoff:unset", func() []supervisor.SupervisorOption { return nil }},
		{"backoff:100ms/1s/default", func() []supervisor.SupervisorOption {
			return []supervisor.SupervisorOption{supervisor.WithExponentialBackoff(100*time.Millisecond, time.Second, 0)}
		}},
		{"backoff:1s/1s/10s", func() []supervisor.SupervisorOption {
			return []supervisor.SupervisorOption{supervisor.WithExponentialBackoff(time.Second, time.Second, 10*time.Second)}
		}},
	}
	if !vsched.Rep().Thorough() {
		retries = retries[:4]
	}
	out := []c37Choice{{"supervisor:node-default", func() []SpawnOption { return nil }}}
	for _, s := range strategies {
		for _, dd := range directives {
			for _, rt := range retries {
				for _, bo := range backoffs {
					out = append(out, c37Choice{"supervisor:" + s.label + "," + dd.label + "," + rt.label + "," + bo.label, func() []SpawnOption {
						var so []supervisor.SupervisorOption
						so = append(so, s.opts()...)
						so = append(so, dd.opts()...)
						so = append(so, rt.opts()...)
						so = append(so, bo.opts()...)
						return []SpawnOption{WithSupervisor(supervisor.NewSupervisor(so...))}
					}})
				}
			}
		}
	}
	return out
}

func c37Dimensions() [][]c37Choice {
	none := func() []SpawnOption { return nil }
	one := func(o func() SpawnOption) func() []SpawnOption { return func() []SpawnOption { return []SpawnOption{o()} } }
	thorough := vsched.Rep().Thorough()
	pick := func(all []c37Choice, quick int) []c37Choice {
		if thorough {
			return all
		}
		return all[:quick]
	}
	reent := func(mode reentrancy.Mode, n int) func() []SpawnOption {
		return one(func() SpawnOption { return WithReentrancy(reentrancy.New(reentrancy.WithMode(mode), reentrancy.WithMaxInFlight(n))) })
	}
	return [][]c37Choice{
		c37SupervisorChoices(),
		pick([]c37Choice{
			{"passivation:node-default", none},
			{"passivation:time(1s)", one(func() SpawnOption { return WithPassivationStrategy(passivation.NewTimeBasedStrategy(time.Second)) })},
			{"passivation:count(3)", one(func() SpawnOption { return WithPassivationStrategy(passivation.NewMessageCountBasedStrategy(3)) })},
			{"passivation:long-lived", one(func() SpawnOption { return WithLongLived() })},
			{"passivation:time(1ns)", one(func() SpawnOption { return WithPassivationStrategy(passivation.NewTimeBasedStrategy(time.Nanosecond)) })},
			{"passivation:time(max)", one(func() SpawnOption { return WithPassivationStrategy(passivation.NewTimeBasedStrategy(math.MaxInt64)) })},
			{"passivation:count(maxint32)", one(func() SpawnOption { return WithPassivationStrategy(passivation.NewMessageCountBasedStrategy(math.MaxInt32)) })},
		}, 4),
		pick([]c37Choice{
			{"reentrancy:unset", none},
			{"reentrancy:allow-all/2", reent(reentrancy.AllowAll, 2)},
			{"reentrancy:stash/0", reent(reentrancy.StashNonReentrant, 0)},
			{"reentrancy:off/5", reent(reentrancy.Off, 5)},
			{"reentrancy:allow-all/maxuint32", reent(reentrancy.AllowAll, math.MaxUint32)},
			{"reentrancy:stash/1", reent(reentrancy.StashNonReentrant, 1)},
		}, 4),
		{{"stash:off", none}, {"stash:on", one(func() SpawnOption { return WithStashing() })}},
		pick([]c37Choice{{"role:none", none}, {"role:r", one(func() SpawnOption { return WithRole("r") })}, {"role:r-2.x", one(func() SpawnOption { return WithRole("r-2.x") })}}, 2),
		pick([]c37Choice{
			{"deps:0", none},
			{"deps:2", one(func() SpawnOption {
				return WithDependencies(&c37Dep{id: "dep1", payload: ""}, &c37Dep{id: "dep2", payload: "second"})
			})},
			{"deps:1", one(func() SpawnOption { return WithDependencies(&c37Dep{id: "dep1", payload: "p\x01ü"}) })},
		}, 2),
		pick([]c37Choice{{"init:unset", none}, {"init:5s", one(func() SpawnOption { return WithInitTimeout(5 * time.Second) })}, {"init:1ns", one(func() SpawnOption { return WithInitTimeout(time.Nanosecond) })}}, 2),
	}
}

// ---------------------------------------------------------------------------------------------
// the wire between origin and host
// ---------------------------------------------------------------------------------------------

// c37Conn is a net.Conn whose peer is the proto server loop of the hosting system, executed
// synchronously: a written request frame is decoded exactly like inet.ProtoServer.handleConn does,
// dispatched to the handler, and the marshalled response is what Read returns.
type c37Conn struct {
	ser     *inet.ProtoSerializer
	handler func(ctx context.Context, req proto.Message) (proto.Message, error)
	in      bytes.Buffer
	out     bytes.Buffer
	frames  int
	bytes   int
	lastReq proto.Message
}

func (c *c37Conn) Write(p []byte) (int, error) {
	c.in.Write(p)
	for c.in.Len() >= 4 {
		b := c.in.Bytes()
		total := int(uint32(b[0])<<24 | uint32(b[1])<<16 | uint32(b[2])<<8 | uint32(b[3]))
		if total < 8 {
			return 0, errors.New("c37Conn: malformed frame")
		}
		if c.in.Len() < total {
			break
		}
		frame := append([]byte(nil), b[:total]...)
		c.in.Next(total)
		c.frames++
		c.bytes += total
		var msg proto.Message
		var md *inet.Metadata
		var err error
		if len(frame) >= 12 {
			msg, md, _, err = c.ser.UnmarshalBinaryWithMetadata(frame)
			if err == inet.ErrInvalidMessageLength {
				msg, _, err = c.ser.UnmarshalBinary(frame)
			}
		} else {
			msg, _, err = c.ser.UnmarshalBinary(frame)
		}
		if err != nil {
			return 0, fmt.Errorf("c37Conn: corrupt frame: %w", err)
		}
		ctx := context.Background()
		if md != nil {
			ctx = md.ToContext(ctx)
		}
		c.lastReq = msg
		resp, herr := c.handler(ctx, msg)
		if herr != nil {
			return 0, herr
		}
		if resp != nil {
			data, merr := c.ser.MarshalBinary(resp)
			if merr != nil {
				return 0, merr
			}
			c.out.Write(data)
		}
	}
	return len(p), nil
}

func (c *c37Conn) Read(p []byte) (int, error) {
	if c.out.Len() == 0 {
		return 0, io.EOF
	}
	return c.out.Read(p)
}
func (c *c37Conn) Close() error                     { return nil }
func (c *c37Conn) LocalAddr() net.Addr              { return &net.TCPAddr{IP: net.IPv4(127, 0, 0, 1), Port: 1} }
func (c *c37Conn) RemoteAddr() net.Addr             { return &net.TCPAddr{IP: net.IPv4(127, 0, 0, 1), Port: 2} }
func (c *c37Conn) SetDeadline(time.Time) error      { return nil }
func (c *c37Conn) SetReadDeadline(time.Time) error  { return nil }
func (c *c37Conn) SetWriteDeadline(time.Time) error { return nil }

// c37Cluster is the origin's view of a one-peer cluster; every other method of the interface is
// nil and panics if the code under test unexpectedly needs it.
type c37Cluster struct {
	cluster.Cluster
	peers []*cluster.Peer
}

func (c *c37Cluster) ActorExists(context.Context, string) (bool, error)   { return false, nil }
func (c *c37Cluster) Members(context.Context) ([]*cluster.Peer, error)     { return c.peers, nil }
func (c *c37Cluster) GetActor(context.Context, string) (*internalpb.Actor, error) {
	return nil, cluster.ErrActorNotFound
}

const (
	c37Host = "127.0.0.1"
	c37Port = 9000
)

type c37Result struct {
	local     []string
	variants  map[string][]string // path -> effective configuration
	errs      map[string]string   // path -> error
	wireBytes int
	panicked  string
}

func c37Stop(pid *PID) {
	if pid != nil {
		_ = pid.Shutdown(context.Background())
		vfSettle()
	}
}

// c37RunBatch runs a batch of configurations on one pair of systems inside one bubble (system
// start/stop dominates the cost otherwise). Every configuration uses its own actor names and all of
// its actors are stopped before the next one starts; nothing of a configuration is stored in the
// systems besides the dependency *types* in the registry. mk[i] returns fresh option values on
// every call.
func c37RunBatch(t *testing.T, mk []func() []SpawnOption) (results []c37Result, panicked any) {
	results = make([]c37Result, len(mk))
	panicked = vfBubble(t, func() {
		ctx := context.Background()
		host := vfNewSystem("c37")
		origin := vfNewSystem("c37")
		defer func() {
			origin.clusterEnabled.Store(false)
			origin.remotingEnabled.Store(false)
			host.remotingEnabled.Store(false)
			_ = vfStopSystem(origin)
			_ = vfStopSystem(host)
		}()
		// the hosting node answers remoting requests for 127.0.0.1:9000 (no listener: the frames
		// arrive through c37Conn), knows the actor type, and has an empty cluster registry view
		host.remotingEnabled.Store(true)
		host.remoteHostPort = net.JoinHostPort(c37Host, fmt.Sprint(c37Port))
		host.cluster = &c37Cluster{}
		if err := host.Register(ctx, new(c37Actor)); err != nil {
			panic(err)
		}
		origin.remotingEnabled.Store(true)
		origin.cluster = &c37Cluster{peers: []*cluster.Peer{{Host: c37Host, RemotingPort: c37Port, PeersPort: 9001, DiscoveryPort: 9002, Roles: []string{"r", "r-2.x"}, Coordinator: true}}}
		conn := &c37Conn{ser: inet.NewProtoSerializer(), handler: func(ctx context.Context, req proto.Message) (proto.Message, error) {
			switch req.(type) {
			case *internalpb.RemoteSpawnRequest:
				return host.remoteSpawnHandler(ctx, nil, req)
			default:
				return nil, fmt.Errorf("c37Conn: unexpected request %T", req)
			}
		}}
		for i := range mk {
			func() {
				defer func() {
					if p := recover(); p != nil {
						results[i].panicked = fmt.Sprint(p)
					}
				}()
				results[i] = c37RunOne(ctx, host, origin, conn, fmt.Sprintf("subject%d", i), mk[i])
			}()
		}
	})
	return results, panicked
}

func c37RunOne(ctx context.Context, host, origin *actorSystem, conn *c37Conn, name string, mk func() []SpawnOption) (res c37Result) {
	res.variants = map[string][]string{}
	res.errs = map[string]string{}
	hosted := func(name string) *PID {
		if node, ok := host.actors.nodeByName(name); ok {
			return node.value()
		}
		return nil
	}
	before := conn.bytes

	// --- local (reference)
	local, err := host.Spawn(ctx, name, new(c37Actor), mk()...)
	if err != nil {
		res.errs["local"] = err.Error()
		return
	}
	vfSettle()
	res.local = c37Effective(local)
	props, err := local.toSerialize()
	if err != nil {
		res.errs["relocated"] = "toSerialize: " + err.Error()
	}
	c37Stop(local)

	// --- relocated: the record of the stopped actor comes back over the wire
	if props != nil {
		b, merr := proto.Marshal(props)
		wire := new(internalpb.Actor)
		if merr == nil {
			merr = proto.Unmarshal(b, wire)
		}
		res.wireBytes += len(b)
		if merr != nil {
			res.errs["relocated"] = "wire: " + merr.Error()
		} else if rerr := host.recreateActorFromWire(ctx, wire, "10.9.9.9:9"); rerr != nil {
			res.errs["relocated"] = rerr.Error()
		} else if pid := hosted(name); pid == nil || !pid.IsRunning() || pid == local {
			res.errs["relocated"] = "recreateActorFromWire returned nil but no new running actor exists"
		} else {
			vfSettle()
			res.variants["relocated"] = c37Effective(pid)
			c37Stop(pid)
		}
	}

	// --- remote: Spawn with an explicit host and port
	origin.remoting.NetClient(c37Host, c37Port).Put(conn)
	if _, rerr := origin.Spawn(ctx, name+"-remote", new(c37Actor), append(mk(), WithHostAndPort(c37Host, c37Port))...); rerr != nil {
		res.errs["remote"] = rerr.Error()
	} else if pid := hosted(name + "-remote"); pid == nil {
		res.errs["remote"] = "remote spawn succeeded but the host has no such actor"
	} else {
		vfSettle()
		res.variants["remote"] = c37Effective(pid)
		c37Stop(pid)
	}

	// --- placed: SpawnOn through cluster placement with the host as the only peer
	origin.remoting.NetClient(c37Host, c37Port).Put(conn)
	origin.clusterEnabled.Store(true)
	_, perr := origin.SpawnOn(ctx, name+"-placed", new(c37Actor), append(mk(), WithPlacement(Random))...)
	origin.clusterEnabled.Store(false)
	if perr != nil {
		res.errs["placed"] = perr.Error()
	} else if pid := hosted(name + "-placed"); pid == nil {
		res.errs["placed"] = "SpawnOn succeeded but the host has no such actor"
	} else {
		vfSettle()
		res.variants["placed"] = c37Effective(pid)
		c37Stop(pid)
	}
	res.wireBytes += conn.bytes - before
	return res
}

// ---------------------------------------------------------------------------------------------
// the check
// ---------------------------------------------------------------------------------------------

func TestVerifC37(t *testing.T) {
	defer vsched.Finish(t)
	r := vsched.Rep()
	dims := c37Dimensions()
	total := 1
	sizes := make([]int, len(dims))
	for i, d := range dims {
		sizes[i] = len(d)
		total *= len(d)
	}
	e := vsched.NewEnum("spawn-config-product", map[string]any{"dimensions": sizes, "configurations": total,
		"paths": []string{"relocated (toSerialize -> wire -> recreateActorFromWire)", "remote (Spawn WithHostAndPort -> RemoteSpawn -> wire -> remoteSpawnHandler)", "placed (SpawnOn -> RemoteSpawn -> wire -> remoteSpawnHandler)"}})
	type pending struct {
		input      string
		nontrivial bool
		mk         func() []SpawnOption
	}
	const batchSize = 96
	var batch []pending
	flush := func() {
		if len(batch) == 0 {
			return
		}
		mks := make([]func() []SpawnOption, len(batch))
		for i := range batch {
			mks[i] = batch[i].mk
		}
		results, p := c37RunBatch(t, mks)
		for i, c := range batch {
			res := results[i]
			switch {
			case p != nil:
				e.Fail("harness-panic", c.input, "panic in the batch bubble: %v", p)
				e.Case(c.input, "panic", 0, false)
				continue
			case res.panicked != "":
				e.Fail("panic-while-spawning", c.input, "panic: %s", res.panicked)
				e.Case(c.input, "panic", 0, false)
				continue
			}
			if msg, bad := res.errs["local"]; bad {
				e.Fail("local-spawn-fails", c.input, "the configuration cannot be spawned locally: %s", msg)
				e.Case(c.input, "local-error", 1, false)
				continue
			}
			calls := 1
			for _, path := range []string{"relocated", "remote", "placed"} {
				calls++
				if msg, bad := res.errs[path]; bad {
					e.Fail(path+"-spawn-fails", c.input, "local spawn works, the %s path fails: %s", path, msg)
					continue
				}
				diff := c37Diff(res.variants[path], res.local)
				aspects := map[string][]string{}
				var names []string
				for _, d := range diff {
					a := c37Aspect(d)
					if _, ok := aspects[a]; !ok {
						names = append(names, a)
					}
					aspects[a] = append(aspects[a], d)
				}
				sort.Strings(names)
				for _, a := range names {
					e.Fail(path+"-differs-in-"+a, c.input, "effective configuration of the %s actor differs from the locally spawned one:\n  %s", path, strings.Join(aspects[a], "\n  "))
				}
			}
			e.Case(c.input, strings.Join(res.local, ";")+fmt.Sprintf(";wire=%d", res.wireBytes), calls, c.nontrivial)
		}
		batch = batch[:0]
	}
	idx := make([]int, len(dims))
	for n := 0; n < total; n++ {
		// mixed radix counter, last dimension fastest
		k := n
		for i := len(dims) - 1; i >= 0; i-- {
			idx[i] = k % len(dims[i])
			k /= len(dims[i])
		}
		if !e.Mine() {
			continue
		}
		labels := make([]string, len(dims))
		choice := make([]c37Choice, len(dims))
		nontrivial := false
		for i := range dims {
			choice[i] = dims[i][idx[i]]
			labels[i] = choice[i].label
			nontrivial = nontrivial || idx[i] != 0
		}
		batch = append(batch, pending{strings.Join(labels, " | "), nontrivial, func() []SpawnOption {
			var o []SpawnOption
			for _, c := range choice {
				o = append(o, c.opts()...)
			}
			return o
		}})
		if len(batch) >= batchSize {
			flush()
			// the engine checks the budget only on indices that shard 0 owns
			if !r.TimeLeft() && e.St.Capped == "" {
				e.St.Capped = fmt.Sprintf("wall budget reached after %d cases", e.St.Executions)
			}
		}
	}
	flush()
	e.Done()
}
