//go:build verif

package actor

// C25 — message serializers round-trip and are chosen by type.
//
// Scenarios (all bounded-exhaustive enumerations, reference = the original in-memory message and a
// boring model of the documented dispatch order):
//   roundtrip-<serializer>   every message of the serializer's generated value domain:
//                            Deserialize(Serialize(m)) equals m (Serialize may refuse: an error is an
//                            acceptable answer for values the serializer does not accept)
//   cross-acceptance         every serializer × every message kind of the other serializers:
//                            either an error, or (accepted) the frame round-trips through the same
//                            serializer: never bytes that decode to something else
//   dispatch                 every registration order (k-permutations, k<=4, of a pool of
//                            registrations) × every message kind: the serializer resolved by
//                            remoteclient.Client.Serializer(msg) is the one registered for the type
//                            (model: exact concrete type entry first, else first registered interface
//                            the message implements, else none), a message nobody supports gives no
//                            serializer / an error, and the frame produced by the resolved serializer
//                            comes back equal through the receive-path dispatcher Serializer(nil)
//   system-config            the client an actor system really builds (setupRemoting: built-in
//                            PoisonPill/Terminated/delivery/async serializers + user serializers
//                            forwarded from remote.Config): resolution and receive-path round trip of
//                            the whole value domain

import (
	"bytes"
	"os"
	"encoding/json"
	"errors"
	"fmt"
	"math"
	"reflect"
	"strings"
	"testing"
	"time"

	"google.golang.org/protobuf/proto"
	"google.golang.org/protobuf/types/known/anypb"
	"google.golang.org/protobuf/types/known/durationpb"

	"github.com/tochemey/goakt/v4/internal/address"
	"github.com/tochemey/goakt/v4/internal/commands"
	"github.com/tochemey/goakt/v4/internal/internalpb"
	"github.com/tochemey/goakt/v4/internal/remoteclient"
	"github.com/tochemey/goakt/v4/internal/verif/vsched"
	"github.com/tochemey/goakt/v4/remote"
	"github.com/tochemey/goakt/v4/test/data/testpb"
)

// ---------------------------------------------------------------------------------------------
// user message types
// ---------------------------------------------------------------------------------------------

type c25Inner struct {
	N int
	S string
}

type c25Msg struct {
	I     int64
	U     uint64
	F     float64
	B     bool
	S     string
	Bytes []byte
	L     []int
	M     map[string]int
	In    c25Inner
	P     *c25Inner
}

type c25JMsg struct {
	A string
	N int32
	L []string
}

type c25Other struct {
	X string
	Y int
}

type c25TimeMsg struct {
	T time.Time
}

type c25Unreg struct{ Z int } // never registered anywhere

type c25Iface interface{ c25Marker() }

func (*c25Msg) c25Marker()   {}
func (*c25Other) c25Marker() {}

type c25Iface2 interface{ c25Marker2() }

func (*c25JMsg) c25Marker2()  {}
func (*c25Other) c25Marker2() {}

// c25Custom is a user-registered serializer: self-describing frames (8 byte magic carrying the
// tag, then the index of the concrete type), encoding/json payload for harness structs, proto wire
// format for proto messages. It accepts exactly the pointer types listed in types.
type c25Custom struct {
	tag   byte
	types []reflect.Type
}

var errC25NotMine = errors.New("c25 custom serializer: not my frame/message")

func (s *c25Custom) magic() []byte { return []byte{0xC2, 0x5C, 0x25, 0x00, 0xFE, 0xED, 0x00, s.tag} }

func (s *c25Custom) Serialize(m any) ([]byte, error) {
	if m == nil {
		return nil, errC25NotMine
	}
	idx := -1
	for i, t := range s.types {
		if reflect.TypeOf(m) == t {
			idx = i
		}
	}
	if idx < 0 || reflect.ValueOf(m).IsNil() {
		return nil, errC25NotMine
	}
	var body []byte
	var err error
	if pm, ok := m.(proto.Message); ok {
		body, err = proto.Marshal(pm)
	} else {
		body, err = json.Marshal(m)
	}
	if err != nil {
		return nil, err
	}
	return append(append(s.magic(), byte(idx)), body...), nil
}

func (s *c25Custom) Deserialize(b []byte) (any, error) {
	if len(b) < 9 || !bytes.Equal(b[:8], s.magic()) || int(b[8]) >= len(s.types) {
		return nil, errC25NotMine
	}
	out := reflect.New(s.types[b[8]].Elem()).Interface()
	if pm, ok := out.(proto.Message); ok {
		return out, proto.Unmarshal(b[9:], pm)
	}
	return out, json.Unmarshal(b[9:], out)
}

// ---------------------------------------------------------------------------------------------
// equality (the reference notion of "an equal message")
// ---------------------------------------------------------------------------------------------

// c25Eq returns "" when got equals want, otherwise a description. Rules: same dynamic type; proto
// messages by proto.Equal; time.Time by instant (Equal); nil and empty slices/maps are the same
// value (encodings do not keep that distinction and nothing observable depends on it); a Path by
// its own Equals plus its accessors except the incarnation id (Path.Equals ignores it; the wire form
// is the path string).
func c25Eq(got, want any) string {
	if got == nil || want == nil {
		if got == nil && want == nil {
			return ""
		}
		return fmt.Sprintf("nil mismatch: got %T want %T", got, want)
	}
	if reflect.TypeOf(got) != reflect.TypeOf(want) {
		return fmt.Sprintf("type differs: got %T want %T", got, want)
	}
	switch w := want.(type) {
	case proto.Message:
		if !proto.Equal(got.(proto.Message), w) {
			return fmt.Sprintf("proto differs: got {%v} want {%v}", got, want)
		}
		return ""
	case *Terminated:
		g := got.(*Terminated)
		if !g.terminatedAt.Equal(w.terminatedAt) {
			return fmt.Sprintf("terminatedAt differs: got %v want %v", g.terminatedAt.UnixNano(), w.terminatedAt.UnixNano())
		}
		return c25PathEq(g.actorPath, w.actorPath)
	case *PoisonPill:
		return ""
	case *commands.AsyncRequest:
		g := got.(*commands.AsyncRequest)
		if g.CorrelationID != w.CorrelationID {
			return "correlation id differs"
		}
		if (g.ReplyTo == nil) != (w.ReplyTo == nil) {
			return "reply-to presence differs"
		}
		if w.ReplyTo != nil {
			if g.ReplyTo.Kind != w.ReplyTo.Kind || g.ReplyTo.Grain != w.ReplyTo.Grain {
				return fmt.Sprintf("reply-to differs: got %+v want %+v", *g.ReplyTo, *w.ReplyTo)
			}
			if (g.ReplyTo.Actor == nil) != (w.ReplyTo.Actor == nil) || (w.ReplyTo.Actor != nil && g.ReplyTo.Actor.String() != w.ReplyTo.Actor.String()) {
				return "reply-to actor differs"
			}
		}
		return c25Eq(g.Message, w.Message)
	case *commands.AsyncResponse:
		g := got.(*commands.AsyncResponse)
		if g.CorrelationID != w.CorrelationID || g.Error != w.Error {
			return fmt.Sprintf("response differs: got (%q,%q) want (%q,%q)", g.CorrelationID, g.Error, w.CorrelationID, w.Error)
		}
		return c25Eq(g.Message, w.Message)
	}
	return c25DeepEq(reflect.ValueOf(got), reflect.ValueOf(want), "")
}

func c25PathEq(g, w Path) string {
	gn, wn := g == nil || reflect.ValueOf(g).IsNil(), w == nil || reflect.ValueOf(w).IsNil()
	if gn || wn {
		if gn && wn {
			return ""
		}
		return fmt.Sprintf("path presence differs: got nil=%v want nil=%v", gn, wn)
	}
	if !g.Equals(w) || g.String() != w.String() || g.Host() != w.Host() || g.Port() != w.Port() || g.Name() != w.Name() || g.System() != w.System() || g.HostPort() != w.HostPort() {
		return fmt.Sprintf("path differs: got %s want %s", g.String(), w.String())
	}
	gp, wp := g.Parent(), w.Parent()
	gpn, wpn := gp == nil || reflect.ValueOf(gp).IsNil(), wp == nil || reflect.ValueOf(wp).IsNil()
	if gpn != wpn || (!wpn && gp.Name() != wp.Name()) {
		return "path parent differs"
	}
	return ""
}

var c25TimeT = reflect.TypeFor[time.Time]()

func c25DeepEq(g, w reflect.Value, at string) string {
	if g.Type() != w.Type() {
		return at + ": type differs"
	}
	if g.Type() == c25TimeT {
		gt := reflect.NewAt(c25TimeT, g.Addr().UnsafePointer()).Elem().Interface().(time.Time)
		wt := reflect.NewAt(c25TimeT, w.Addr().UnsafePointer()).Elem().Interface().(time.Time)
		if !gt.Equal(wt) {
			return fmt.Sprintf("%s: time differs: got %d.%09d want %d.%09d", at, gt.Unix(), gt.Nanosecond(), wt.Unix(), wt.Nanosecond())
		}
		return ""
	}
	switch w.Kind() {
	case reflect.Pointer, reflect.Interface:
		if g.IsNil() || w.IsNil() {
			if g.IsNil() && w.IsNil() {
				return ""
			}
			return at + ": nil-ness differs"
		}
		return c25DeepEq(g.Elem(), w.Elem(), at)
	case reflect.Struct:
		for i := 0; i < w.NumField(); i++ {
			if d := c25DeepEq(g.Field(i), w.Field(i), at+"."+w.Type().Field(i).Name); d != "" {
				return d
			}
		}
		return ""
	case reflect.Slice, reflect.Array:
		if g.Len() != w.Len() {
			return fmt.Sprintf("%s: length differs: got %d want %d", at, g.Len(), w.Len())
		}
		for i := 0; i < w.Len(); i++ {
			if d := c25DeepEq(g.Index(i), w.Index(i), fmt.Sprintf("%s[%d]", at, i)); d != "" {
				return d
			}
		}
		return ""
	case reflect.Map:
		if g.Len() != w.Len() {
			return fmt.Sprintf("%s: map size differs: got %d want %d", at, g.Len(), w.Len())
		}
		it := w.MapRange()
		for it.Next() {
			gv := g.MapIndex(it.Key())
			if !gv.IsValid() {
				return fmt.Sprintf("%s: key %v missing", at, it.Key())
			}
			if d := c25DeepEq(gv, it.Value(), fmt.Sprintf("%s[%v]", at, it.Key())); d != "" {
				return d
			}
		}
		return ""
	case reflect.String:
		if g.String() != w.String() {
			return fmt.Sprintf("%s: got %q want %q", at, g.String(), w.String())
		}
	case reflect.Bool:
		if g.Bool() != w.Bool() {
			return at + ": bool differs"
		}
	case reflect.Int, reflect.Int8, reflect.Int16, reflect.Int32, reflect.Int64:
		if g.Int() != w.Int() {
			return fmt.Sprintf("%s: got %d want %d", at, g.Int(), w.Int())
		}
	case reflect.Uint, reflect.Uint8, reflect.Uint16, reflect.Uint32, reflect.Uint64:
		if g.Uint() != w.Uint() {
			return fmt.Sprintf("%s: got %d want %d", at, g.Uint(), w.Uint())
		}
	case reflect.Float32, reflect.Float64:
		if math.Float64bits(g.Float()) != math.Float64bits(w.Float()) {
			return fmt.Sprintf("%s: got %v want %v", at, g.Float(), w.Float())
		}
	default:
		return at + ": unsupported kind " + w.Kind().String()
	}
	return ""
}

// c25Show writes a message out (replay case / distinct-input key).
func c25Show(m any) string {
	if m == nil {
		return "nil"
	}
	if rv := reflect.ValueOf(m); rv.Kind() == reflect.Pointer && rv.IsNil() {
		return fmt.Sprintf("(%T)(nil)", m)
	}
	switch x := m.(type) {
	case proto.Message:
		b, _ := proto.MarshalOptions{Deterministic: true}.Marshal(x)
		return fmt.Sprintf("%T{%x}", m, b)
	case *Terminated:
		return fmt.Sprintf("*Terminated{path=%q at=%d}", pathString(x.actorPath), x.terminatedAt.UnixNano())
	case *commands.AsyncRequest:
		rt := "nil"
		if x.ReplyTo != nil {
			rt = fmt.Sprintf("{%d %s %q}", x.ReplyTo.Kind, x.ReplyTo.Actor.String(), x.ReplyTo.Grain)
		}
		return fmt.Sprintf("*AsyncRequest{%q %s %s}", x.CorrelationID, rt, c25Show(x.Message))
	case *commands.AsyncResponse:
		return fmt.Sprintf("*AsyncResponse{%q %q %s}", x.CorrelationID, x.Error, c25Show(x.Message))
	case *c25Msg:
		p := "nil"
		if x.P != nil {
			p = fmt.Sprintf("&%+v", *x.P)
		}
		return fmt.Sprintf("*c25Msg{I:%d U:%d F:%v B:%v S:%q Bytes:%#v L:%#v M:%#v In:%+v P:%s}", x.I, x.U, x.F, x.B, x.S, x.Bytes, x.L, x.M, x.In, p)
	case *c25TimeMsg:
		return fmt.Sprintf("*c25TimeMsg{%d.%09d zero=%v}", x.T.Unix(), x.T.Nanosecond(), x.T.IsZero())
	}
	v := reflect.ValueOf(m)
	if v.Kind() == reflect.Pointer && !v.IsNil() {
		return fmt.Sprintf("%T%+v", m, v.Elem())
	}
	return fmt.Sprintf("%T(%#v)", m, m)
}

func c25Trunc(s string, n int) string {
	if len(s) > n {
		return s[:n] + fmt.Sprintf("...(%d bytes)", len(s))
	}
	return s
}

// ---------------------------------------------------------------------------------------------
// value domains
// ---------------------------------------------------------------------------------------------

var c25Strings = []string{"", "a", "ü☃", strings.Repeat("x", 300), "\x00", " a b "}

func c25ProtoDomain() []any {
	var out []any
	for _, s := range c25Strings {
		out = append(out, &testpb.Reply{Content: s}, &testpb.TestLog{Text: s})
	}
	for _, v := range []int32{0, 1, -1, math.MaxInt32, math.MinInt32} {
		out = append(out, &testpb.TestCount{Value: v})
	}
	for _, v := range []uint64{0, 1, math.MaxUint64} {
		out = append(out, &testpb.TestWait{Duration: v})
	}
	for _, id := range []string{"", "id"} {
		for _, f := range []float64{0, 1.5, -2.25, math.MaxFloat64, math.SmallestNonzeroFloat64, math.Inf(1), math.NaN()} {
			out = append(out, &testpb.Account{AccountId: id, AccountBalance: f})
		}
	}
	ints := []int64{0, -1, math.MaxInt64, math.MinInt64}
	for _, a := range ints {
		for _, b := range ints {
			for _, d := range []*durationpb.Duration{nil, durationpb.New(0), durationpb.New(1500 * time.Millisecond), durationpb.New(-time.Nanosecond)} {
				out = append(out, &testpb.TestSum{A: a, B: b, Delay: d})
			}
		}
	}
	for _, s := range []string{"", "nested"} {
		nested, _ := anypb.New(&testpb.Reply{Content: s})
		for _, p := range []int64{0, math.MinInt64} {
			out = append(out, &testpb.TestMessage{Message: nested, Priority: p})
		}
	}
	out = append(out, &testpb.TestMessage{}, &testpb.TestPing{}, &testpb.TestReply{}, &testpb.TestBye{})
	// internalpb samples: nested messages, repeated fields, oneofs, maps, optional scalars, enums
	role := "r"
	anyDir := internalpb.SupervisorDirective_SUPERVISOR_DIRECTIVE_RESUME
	out = append(out,
		&internalpb.Actor{Address: "goakt://s@h:1/a", Type: "t", Relocatable: true, EnableStash: true, Role: &role,
			PassivationStrategy: &internalpb.PassivationStrategy{Strategy: &internalpb.PassivationStrategy_TimeBased{TimeBased: &internalpb.TimeBasedPassivation{PassivateAfter: durationpb.New(time.Second)}}},
			Supervisor: &internalpb.SupervisorSpec{Strategy: internalpb.SupervisorStrategy_SUPERVISOR_STRATEGY_ONE_FOR_ALL, MaxRetries: 3, Timeout: durationpb.New(-1),
				Directives: []*internalpb.SupervisorDirectiveRule{{ErrorType: "e", Directive: internalpb.SupervisorDirective_SUPERVISOR_DIRECTIVE_RESTART}}},
			Dependencies: []*internalpb.Dependency{{Id: "d", TypeName: "tn", Bytea: []byte{0, 1}}},
			Reentrancy:   &internalpb.ReentrancyConfig{Mode: internalpb.ReentrancyMode_REENTRANCY_MODE_ALLOW_ALL, MaxInFlight: 2}},
		&internalpb.Actor{Supervisor: &internalpb.SupervisorSpec{AnyErrorDirective: &anyDir}},
		&internalpb.CRDTData{Type: &internalpb.CRDTData_OrSet{OrSet: &internalpb.ORSetData{
			Entries: []*internalpb.ORSetData_ORSetEntry{{Element: []byte("e"), Dots: []*internalpb.ORSetData_ORSetDot{{NodeId: "n", Counter: 1}}}}, Clock: map[string]uint64{"n": 1, "m": math.MaxUint64}}}},
		&internalpb.CRDTData{Type: &internalpb.CRDTData_Flag{Flag: &internalpb.FlagData{Enabled: true}}},
		&internalpb.DeliveryEnvelope{Command: &internalpb.DeliveryEnvelope_Ack{Ack: &internalpb.Ack{SessionId: "s", RegistrationNonce: "n", ConfirmedSeq: 7}}},
		&internalpb.RemoteSpawnRequest{Host: "h", Port: 1, ActorName: "a", ActorType: "t"},
	)
	return out
}

func c25StructDomain() []any {
	var out []any
	iv := []int64{0, math.MaxInt64, math.MinInt64}
	for _, i := range iv {
		for _, u := range []uint64{0, math.MaxUint64} {
			for _, f := range []float64{0, 1e300} {
				for _, b := range []bool{false, true} {
					for _, s := range []string{"", "ü☃"} {
						for _, by := range [][]byte{nil, {0xff, 0}} {
							for _, l := range [][]int{nil, {1, -2}} {
								for _, m := range []map[string]int{nil, {"k": 1, "": -1}} {
									for _, p := range []*c25Inner{nil, {N: -7, S: "in"}} {
										out = append(out, &c25Msg{I: i, U: u, F: f, B: b, S: s, Bytes: by, L: l, M: m, In: c25Inner{N: int(i % 1000), S: s}, P: p})
									}
								}
							}
						}
					}
				}
			}
		}
	}
	// one factor at a time for the remaining alphabet values
	out = append(out,
		&c25Msg{I: 1}, &c25Msg{I: -1}, &c25Msg{I: 1 << 53}, &c25Msg{I: 1<<53 + 1}, &c25Msg{U: 1<<53 + 1}, &c25Msg{U: 1 << 63},
		&c25Msg{F: 1.5}, &c25Msg{F: -2.25}, &c25Msg{F: math.SmallestNonzeroFloat64}, &c25Msg{F: math.MaxFloat64}, &c25Msg{F: 0.1},
		&c25Msg{S: "a"}, &c25Msg{S: strings.Repeat("x", 300)}, &c25Msg{S: "\x00"}, &c25Msg{S: "\"quoted\\"},
		&c25Msg{Bytes: []byte{}}, &c25Msg{Bytes: []byte{0}}, &c25Msg{Bytes: bytes.Repeat([]byte{0xAB}, 70000)},
		&c25Msg{L: []int{}}, &c25Msg{L: []int{math.MaxInt64, math.MinInt64}},
		&c25Msg{M: map[string]int{}}, &c25Msg{M: map[string]int{"ü☃": 0}},
		&c25Msg{P: &c25Inner{}},
	)
	for _, s := range c25Strings {
		out = append(out, &c25JMsg{A: s, N: math.MinInt32, L: []string{s, ""}}, &c25Other{X: s, Y: -1})
	}
	out = append(out, &c25JMsg{}, &c25Other{})
	return out
}

// c25JSONOnlyDomain: Go strings are byte strings; the JSON serializer (sonic ConfigFastest) passes
// bytes that are not valid UTF-8 through unchanged in both directions, so such values are in its
// supported domain (seeded change C25: a validating configuration silently rewrites them to U+FFFD).
// They are not offered to CBOR, whose text strings are UTF-8 by specification.
func c25JSONOnlyDomain() []any {
	bad := []string{"key-\xff\xfe\x80-end", "\xc3", "a\xe2\x82", "\xed\xa0\x80", "<&>\u2028"}
	var out []any
	for _, s := range bad {
		out = append(out, &c25JMsg{A: s, N: 1, L: []string{s}}, &c25Other{X: s, Y: 2}, s)
	}
	return out
}

func c25TimeDomain() []any {
	base := int64(946684800) // 2000-01-01
	var out []any
	for _, t := range []time.Time{time.Unix(0, 0), time.Unix(1, 0), time.Unix(base, 0), time.Unix(base, 500000000), time.Unix(base, 1000), time.Unix(base, 1), time.Unix(base, 123456789), time.Unix(-1, 0), time.Unix(4102444800, 999999999)} {
		out = append(out, &c25TimeMsg{T: t.UTC()})
	}
	return out
}

func c25PrimitiveDomain() []any {
	return []any{
		"", "a", "ü☃", "1", true, false,
		int(0), int(1), int(5), int(9), int(10), int(-1), int(23), int(24), int(-17), int(-18), int(-24), int(-25), int(-26), int(-27), int(255), int(256), int(math.MaxInt64), int(math.MinInt64),
		int8(-128), int8(127), int16(-32768), int32(math.MaxInt32), int64(0), int64(7), int64(-20), int64(math.MinInt64), int64(math.MaxInt64),
		uint(0), uint(3), uint(math.MaxUint64), uint8(255), uint16(65535), uint32(math.MaxUint32), uint64(0), uint64(8), uint64(math.MaxUint64),
		float32(0), float32(1.5), float32(2), float32(16777217), float64(0), float64(4), float64(1.5), float64(1e300), float64(1<<53 + 1), 0.1,
	}
}

func c25Addresses() []*address.Address {
	var out []*address.Address
	for _, h := range []string{"127.0.0.1", "localhost", "host-1.example.com"} {
		for _, p := range []int{0, 1, 65535} {
			out = append(out, address.New("actor-1", "sys", h, p))
		}
	}
	parent := address.New("parent", "sys", "127.0.0.1", 9000)
	out = append(out, address.NewWithParent("child", "sys", "127.0.0.1", 9000, parent), address.NewReference("ref_x.y", "Sys2", "10.0.0.1", 8080), address.New(strings.Repeat("n", 255), "s", "h", 1))
	return out
}

func c25TerminatedDomain() []any {
	var out []any
	times := []time.Time{time.Unix(0, 0), time.Unix(0, 1), time.Unix(0, -1), time.Unix(946684800, 123456789), time.Unix(0, math.MaxInt64), time.Unix(0, math.MinInt64), time.Unix(0, math.MaxInt64-1)}
	paths := []Path{nil}
	for _, a := range c25Addresses() {
		paths = append(paths, newPath(a))
	}
	for _, p := range paths {
		for _, t := range times {
			out = append(out, &Terminated{actorPath: p, terminatedAt: t.UTC()})
		}
	}
	return out
}

func c25DeliveryDomain() []any {
	var out []any
	must := func(m any, err error) {
		if err != nil {
			panic(fmt.Sprintf("c25 delivery domain: %v", err))
		}
		out = append(out, m)
	}
	ids := []string{"s", "ü☃-1", strings.Repeat("i", 300), " a "}
	seqs := []int64{1, 2, math.MaxInt64}
	for _, id := range ids {
		must(commands.NewRegisterConsumer(id))
		for _, s := range seqs {
			must(commands.NewRegistrationAck(id, s, "n-"+id))
			must(commands.NewAck(id, "n-"+id, s-1))
			for _, up := range []int64{s - 1, s, math.MaxInt64} {
				for _, via := range []bool{false, true} {
					must(commands.NewRequest(id, "n-"+id, s-1, up, via))
				}
			}
		}
	}
	protoFrame, _ := remote.NewProtoSerializer().Serialize(&testpb.Reply{Content: "payload"})
	ackCmd, _ := commands.NewAck("s", "n", 3)
	deliveryFrame, _ := new(commands.DeliverySerializer).Serialize(ackCmd)
	payloads := [][]byte{{0}, {0xFF, 0xFF, 0xFF, 0xFF, 'R', 'D', 'E', 'L'}, protoFrame, deliveryFrame, bytes.Repeat([]byte{0x5A}, 70000)}
	for _, id := range ids[:2] {
		for _, s := range seqs {
			for _, p := range payloads {
				must(commands.NewSequencedMessage(id, "m-"+id, s, p))
				for _, fl := range [][2]bool{{false, false}, {true, false}, {false, true}, {true, true}} {
					must(commands.NewChunkedSequencedMessage(id, "m-"+id, s, p, fl[0], fl[1]))
				}
			}
		}
	}
	return out
}

func c25AsyncDomain() []any {
	var out []any
	msgs := []proto.Message{&testpb.Reply{Content: "x"}, &testpb.TestPing{}, &testpb.TestSum{A: math.MinInt64, Delay: durationpb.New(time.Second)}}
	replyTos := []*commands.AsyncReplyTo{nil, {Kind: commands.ReplyToGrain, Grain: "kind/name"}, {Kind: commands.ReplyToGrain, Grain: "k/ü☃"}}
	for _, a := range c25Addresses() {
		replyTos = append(replyTos, &commands.AsyncReplyTo{Kind: commands.ReplyToActor, Actor: a})
	}
	for _, c := range []string{"", "corr-1", "ü☃"} {
		for _, rt := range replyTos {
			for _, m := range msgs {
				out = append(out, &commands.AsyncRequest{CorrelationID: c, ReplyTo: rt, Message: m})
			}
		}
		for _, e := range []string{"", "boom", "ü☃"} {
			out = append(out, &commands.AsyncResponse{CorrelationID: c, Error: e})
			for _, m := range msgs {
				out = append(out, &commands.AsyncResponse{CorrelationID: c, Error: e, Message: m})
			}
		}
	}
	return out
}

// ---------------------------------------------------------------------------------------------
// serializers under test
// ---------------------------------------------------------------------------------------------

type c25Ser struct {
	name   string
	s      remote.Serializer
	domain []any
}

var (
	c25CBOR  = remote.NewCBORSerializer()
	c25JSON  = remote.NewJSONSerializer()
	c25Proto = remote.NewProtoSerializer()
	c25X     = &c25Custom{tag: 'X', types: []reflect.Type{reflect.TypeFor[*c25Msg](), reflect.TypeFor[*c25Other]()}} // serves c25Iface
	c25Y     = &c25Custom{tag: 'Y', types: []reflect.Type{reflect.TypeFor[*testpb.Reply]()}}
	c25Z     = &c25Custom{tag: 'Z', types: []reflect.Type{reflect.TypeFor[*c25Other]()}}
)

func c25SerName(s remote.Serializer) string {
	switch x := s.(type) {
	case nil:
		return "none"
	case *remote.ProtoSerializer:
		return "proto"
	case *remote.CBORSerializer:
		return "cbor"
	case *remote.JSONSerializer:
		return "json"
	case *c25Custom:
		return "custom-" + string(x.tag)
	case *terminatedSerializer:
		return "terminated"
	case *poisonPillSerializer:
		return "poisonpill"
	case *commands.DeliverySerializer:
		return "delivery"
	case *commands.AsyncRequestSerializer:
		return "async-request"
	case *commands.AsyncResponseSerializer:
		return "async-response"
	default:
		return fmt.Sprintf("%T", s)
	}
}

// c25RegisterTypes puts the harness struct types into the process-global type registry once, the
// way remote.WithSerializables / WithClientSerializers do it, so that the registry content is the
// same for every case of the enumeration (c25Unreg stays unregistered).
func c25RegisterTypes() {
	_ = remoteclient.NewClient(
		remoteclient.WithClientSerializers(new(c25Msg), c25CBOR),
		remoteclient.WithClientSerializers(new(c25JMsg), c25JSON),
		remoteclient.WithClientSerializers(new(c25Other), c25JSON),
		remoteclient.WithClientSerializers(new(c25TimeMsg), c25CBOR),
	)
}

// c25RoundTrip checks Deserialize(Serialize(m)) == m on one serializer pair. ser and deser may
// differ (send-path serializer, receive-path dispatcher).
func c25RoundTrip(e *vsched.Enum, prefix, input string, ser, deser remote.Serializer, m any, mustAccept bool) (obs string, accepted bool) {
	b, err := ser.Serialize(m)
	if err != nil {
		if len(b) != 0 {
			e.Fail(prefix+"error-with-bytes", input, "Serialize returned an error (%v) together with %d bytes", err, len(b))
		}
		if mustAccept {
			e.Fail(prefix+"registered-message-refused", input, "%s refuses a well-formed message of a type it is registered for: %v", c25SerName(ser), err)
		}
		return "refused", false
	}
	got, derr := deser.Deserialize(b)
	if derr != nil {
		e.Fail(prefix+"accepted-but-not-decodable", input, "Serialize accepted the message (%d bytes) but Deserialize failed: %v", len(b), derr)
		return "undecodable", true
	}
	if d := c25Eq(got, m); d != "" {
		if os.Getenv("VERIF_C25_DEBUG") != "" {
			fmt.Printf("C25DEBUG %s | %s | %s\n", prefix, input, d)
		}
		sig := prefix + "decoded-message-differs"
		if strings.Contains(d, "time differs") {
			sig = prefix + "decoded-time-differs"
		}
		e.Fail(sig, input, "%s\n  decoded: %s\n  original: %s", d, c25Trunc(c25Show(got), 400), c25Trunc(c25Show(m), 400))
		return "differs", true
	}
	return fmt.Sprintf("ok:%d:%016x", len(b), vsched.Hash64(string(b))), true
}

// c25ReceivePath serializes m with the resolved send-path serializer and decodes the frame with the
// receive-path dispatcher. When the dispatcher's answer differs although the producing serializer
// itself decodes its frame correctly, the frame was claimed by another registered serializer: that
// failure mode gets its own signature.
func c25ReceivePath(e *vsched.Enum, prefix, input string, ser, dispatcher remote.Serializer, m any) string {
	b, err := ser.Serialize(m)
	if err != nil {
		e.Fail(prefix+"registered-message-refused", input, "the resolved serializer %s refuses the message it was resolved for: %v", c25SerName(ser), err)
		return "refused"
	}
	got, derr := dispatcher.Deserialize(b)
	if derr == nil && c25Eq(got, m) == "" {
		return fmt.Sprintf("ok:%d:%016x", len(b), vsched.Hash64(string(b)))
	}
	own, oerr := ser.Deserialize(b)
	ownOK := oerr == nil && c25Eq(own, m) == ""
	switch {
	case ownOK && derr != nil:
		e.Fail(prefix+"dispatcher-rejects-frame-of-registered-serializer", input, "the producing serializer %s decodes its frame, the dispatcher fails: %v", c25SerName(ser), derr)
	case ownOK:
		sig := prefix + "frame-claimed-by-another-serializer"
		if n := c25SerName(ser); (n == "cbor" || n == "json") && c25IsPrimitive(m) {
			// CBOR and JSON frames share header layout and type-name space; a one-byte primitive
			// payload is valid in both encodings with different meanings
			sig = prefix + "cbor-json-primitive-frame-claimed-by-other-format"
		}
		e.Fail(sig, input, "the frame of %s (%d bytes: %x) decodes to an equal message with %s itself, but the receive-path dispatcher returns %s (%s)", c25SerName(ser), len(b), b[:min(len(b), 24)], c25SerName(ser), c25Trunc(c25Show(got), 200), c25Eq(got, m))
	case derr != nil:
		e.Fail(prefix+"accepted-but-not-decodable", input, "Serialize accepted the message but neither the serializer (%v) nor the dispatcher (%v) decodes it", oerr, derr)
	default:
		sig := prefix + "decoded-message-differs"
		if strings.Contains(c25Eq(got, m), "time differs") {
			sig = prefix + "decoded-time-differs"
		}
		e.Fail(sig, input, "%s\n  decoded: %s\n  original: %s", c25Eq(got, m), c25Trunc(c25Show(got), 400), c25Trunc(c25Show(m), 400))
	}
	return "differs"
}

func c25IsPrimitive(m any) bool {
	switch reflect.TypeOf(m).Kind() {
	case reflect.Pointer, reflect.Struct, reflect.Slice, reflect.Map, reflect.Interface, reflect.Array:
		return false
	}
	return true
}

// ---------------------------------------------------------------------------------------------
// dispatch model
// ---------------------------------------------------------------------------------------------

type c25Reg struct {
	label    string
	typ      reflect.Type // concrete type, or interface type
	isIface  bool
	ser      remote.Serializer
	register any // first argument of WithClientSerializers
}

func c25RegPool() []c25Reg {
	return []c25Reg{
		{"*c25Msg->cbor", reflect.TypeFor[*c25Msg](), false, c25CBOR, new(c25Msg)},
		{"*c25JMsg->json", reflect.TypeFor[*c25JMsg](), false, c25JSON, new(c25JMsg)},
		{"c25Iface->X", reflect.TypeFor[c25Iface](), true, c25X, (*c25Iface)(nil)},
		{"*testpb.Reply->Y", reflect.TypeFor[*testpb.Reply](), false, c25Y, new(testpb.Reply)},
		{"*c25Other->Z", reflect.TypeFor[*c25Other](), false, c25Z, new(c25Other)},
		{"c25Iface2->json", reflect.TypeFor[c25Iface2](), true, c25JSON, (*c25Iface2)(nil)},
		{"int->json", reflect.TypeFor[int](), false, c25JSON, int(0)},
		{"int64->cbor", reflect.TypeFor[int64](), false, c25CBOR, int64(0)},
	}
}

// c25Model is the documented dispatch order of remoteclient.WithClientSerializers: 1. exact concrete
// type, 2. first registered interface the message implements (the built-in proto.Message entry is
// registered before every option), 3. nothing.
func c25Model(order []c25Reg, m any) (remote.Serializer, string) {
	mt := reflect.TypeOf(m)
	for _, r := range order {
		if !r.isIface && r.typ == mt {
			return r.ser, "concrete"
		}
	}
	if _, ok := m.(proto.Message); ok {
		return c25Proto, "iface"
	}
	for _, r := range order {
		if r.isIface && mt.Implements(r.typ) {
			return r.ser, "iface"
		}
	}
	return nil, "none"
}

func c25SameSerializer(a, b remote.Serializer) bool {
	if a == nil || b == nil {
		return a == nil && b == nil
	}
	if _, ok := a.(*remote.ProtoSerializer); ok { // zero-size: compare by type
		_, ok2 := b.(*remote.ProtoSerializer)
		return ok2
	}
	return a == b
}

func c25Permutations(n, maxK int, f func(idx []int)) {
	var rec func(cur []int, used uint)
	rec = func(cur []int, used uint) {
		f(cur)
		if len(cur) == maxK {
			return
		}
		for i := 0; i < n; i++ {
			if used&(1<<uint(i)) != 0 {
				continue
			}
			rec(append(append([]int(nil), cur...), i), used|1<<uint(i))
		}
	}
	rec(nil, 0)
}

func c25DispatchMessages() []any {
	return []any{
		&c25Msg{I: 1, S: "m", L: []int{1}}, &c25JMsg{A: "j", N: 2}, &c25Other{X: "o", Y: 3},
		&testpb.Reply{Content: "r"}, &testpb.TestPing{}, &c25Unreg{Z: 1}, new(PoisonPill),
		int(5), int(-3), int64(-18), int64(6), "str",
	}
}

// c25CheckDispatch checks one client (one registration order) against the model for one message.
func c25CheckDispatch(e *vsched.Enum, client remoteclient.Client, order []c25Reg, orderLabel string, m any) (string, int, bool) {
	input := "order=[" + orderLabel + "] msg=" + c25Trunc(c25Show(m), 200)
	want, how := c25Model(order, m)
	got := client.Serializer(m)
	calls := 1
	if !c25SameSerializer(got, want) {
		sig := "resolved-serializer-differs-from-registered"
		switch {
		case how == "concrete" && got != nil:
			// an entry registered for exactly this type exists but an earlier matching interface
			// entry was taken instead
			sig = "concrete-type-entry-shadowed-by-earlier-interface-entry"
		case got == nil:
			sig = "registered-type-resolves-to-no-serializer"
		case want == nil:
			sig = "unregistered-type-resolves-to-a-serializer"
		}
		e.Fail(sig, input, "Serializer(msg) = %s, registered for the type (%s match) = %s", c25SerName(got), how, c25SerName(want))
	}
	// observation: the resolved serializer and the position of the registration it came from
	// (0 = built-in proto.Message entry / none)
	pos := 0
	for i, rg := range order {
		if got != nil && rg.ser == got && (rg.typ == reflect.TypeOf(m) || (rg.isIface && reflect.TypeOf(m).Implements(rg.typ))) {
			pos = i + 1
			break
		}
	}
	obs := fmt.Sprintf("%s@%d/%d", c25SerName(got), pos, len(order))
	if got == nil {
		// nobody supports the message: the composite must refuse too (error, no bytes)
		b, err := client.Serializer(nil).Serialize(m)
		calls++
		if err == nil {
			// accepted by some serializer of the composite although no entry matches the type:
			// then at least it has to come back equal
			back, derr := client.Serializer(nil).Deserialize(b)
			if derr != nil || c25Eq(back, m) != "" {
				e.Fail("unsupported-message-yields-bytes", input, "no entry matches the type, yet the composite serializer produced %d bytes that do not decode to the message (err=%v)", len(b), derr)
			}
			obs += "/composite-accepted"
		} else {
			obs += "/refused"
		}
		return obs, calls, want != nil
	}
	o := c25ReceivePath(e, "receive-path-", input, got, client.Serializer(nil), m)
	calls += 3
	return obs + "/" + o, calls, len(order) > 1
}

// ---------------------------------------------------------------------------------------------
// the check
// ---------------------------------------------------------------------------------------------

func TestVerifC25(t *testing.T) {
	defer vsched.Finish(t)
	r := vsched.Rep()
	c25RegisterTypes()
	sers := []c25Ser{
		{"proto", c25Proto, c25ProtoDomain()},
		{"cbor", c25CBOR, append(append(c25TimeDomain(), c25PrimitiveDomain()...), c25StructDomain()...)},
		{"json", c25JSON, append(append(append(c25TimeDomain(), c25PrimitiveDomain()...), c25StructDomain()...), c25JSONOnlyDomain()...)},
		{"terminated", &terminatedSerializer{}, c25TerminatedDomain()},
		{"poisonpill", &poisonPillSerializer{}, []any{new(PoisonPill)}},
		{"delivery", new(commands.DeliverySerializer), c25DeliveryDomain()},
		{"async-request", new(commands.AsyncRequestSerializer), nil},
		{"async-response", new(commands.AsyncResponseSerializer), nil},
		{"custom-Y", c25Y, []any{&testpb.Reply{Content: "y"}, &testpb.Reply{}}},
		{"custom-Z", c25Z, []any{&c25Other{X: "z", Y: 1}, &c25Other{}}},
		{"custom-X", c25X, []any{&c25Other{X: "x", Y: 2}, &c25Msg{I: 3, S: "x"}}},
	}
	for _, m := range c25AsyncDomain() {
		if _, ok := m.(*commands.AsyncRequest); ok {
			sers[6].domain = append(sers[6].domain, m)
		} else {
			sers[7].domain = append(sers[7].domain, m)
		}
	}

	// --- scenario: round trip of every serializer over its own domain
	for _, s := range sers {
		e := vsched.NewEnum("roundtrip-"+s.name, map[string]any{"messages": len(s.domain)})
		for _, m := range s.domain {
			if !e.Mine() {
				continue
			}
			input := s.name + ": " + c25Trunc(c25Show(m), 300)
			obs, accepted := c25RoundTrip(e, "", input, s.s, s.s, m, true)
			e.Case(input, obs, 2, accepted)
		}
		e.Done()
	}

	// --- scenario: every serializer × representative messages of every kind
	{
		var reps []any
		for _, s := range sers {
			n := len(s.domain)
			for _, i := range []int{0, n / 2, n - 1} {
				reps = append(reps, s.domain[i])
			}
		}
		reps = append(reps, &c25Unreg{Z: 1}, c25Unreg{Z: 2}, PoisonPill{}, Terminated{}, struct{}{}, []byte("raw"), 3.5, uint8(7), new(PostStart), errors.New("an error value"))
		e := vsched.NewEnum("cross-acceptance", map[string]any{"serializers": len(sers), "messages": len(reps)})
		for _, s := range sers {
			for _, m := range reps {
				if !e.Mine() {
					continue
				}
				input := s.name + " <- " + c25Trunc(c25Show(m), 200)
				obs := c25Guarded(e, input, func() string {
					o, _ := c25RoundTrip(e, "foreign-", input, s.s, s.s, m, false)
					return o
				})
				e.Case(input, s.name+"/"+obs, 2, true)
			}
		}
		e.Done()
	}

	// --- scenario: dispatch over all registration orders
	{
		pool := c25RegPool()
		msgs := c25DispatchMessages()
		maxK := vsched.Pick(4, 5)
		e := vsched.NewEnum("dispatch", map[string]any{"pool": len(pool), "max_registrations": maxK, "message_kinds": len(msgs),
			"domain": "every k-permutation (k<=max) of the registration pool, passed in that order to remoteclient.WithClientSerializers"})
		c25Permutations(len(pool), maxK, func(idx []int) {
			order := make([]c25Reg, len(idx))
			labels := make([]string, len(idx))
			for i, k := range idx {
				order[i] = pool[k]
				labels[i] = pool[k].label
			}
			var client remoteclient.Client
			for _, m := range msgs {
				if !e.Mine() {
					continue
				}
				if client == nil {
					opts := make([]remoteclient.ClientOption, len(order))
					for i, rg := range order {
						opts[i] = remoteclient.WithClientSerializers(rg.register, rg.ser)
					}
					client = remoteclient.NewClient(opts...)
				}
				obs, calls, nontrivial := c25CheckDispatch(e, client, order, strings.Join(labels, ", "), m)
				e.Case("order=["+strings.Join(labels, ", ")+"] msg="+c25Trunc(c25Show(m), 120), obs, calls, nontrivial)
			}
			if client != nil {
				client.Close()
			}
		})
		e.Done()
	}

	// --- scenario: the client an actor system builds
	c25SystemConfig(t, r, sers)
}

func c25Guarded(e *vsched.Enum, input string, f func() string) (obs string) {
	defer func() {
		if p := recover(); p != nil {
			e.Fail("serializer-panics", input, "panic: %v", p)
			obs = "panic"
		}
	}()
	return f()
}

func c25SystemConfig(t *testing.T, r *vsched.Report, sers []c25Ser) {
	type kind struct {
		name string
		want string
		msgs []any
	}
	byName := map[string][]any{}
	for _, s := range sers {
		byName[s.name] = s.domain
	}
	var structsCBOR, structsJSON []any
	for _, m := range byName["cbor"] {
		switch m.(type) {
		case *c25Msg:
			structsCBOR = append(structsCBOR, m)
		case *c25JMsg:
			structsJSON = append(structsJSON, m)
		}
	}
	kinds := []kind{
		{"proto", "proto", byName["proto"]}, {"terminated", "terminated", byName["terminated"]}, {"poisonpill", "poisonpill", byName["poisonpill"]},
		{"delivery", "delivery", byName["delivery"]}, {"async-request", "async-request", byName["async-request"]}, {"async-response", "async-response", byName["async-response"]},
		{"unsupported", "none", []any{&c25Unreg{Z: 1}, "str", 42, new(PostStart)}},
	}
	userKinds := []kind{{"user-cbor", "cbor", structsCBOR}, {"user-json", "json", structsJSON}, {"user-custom", "custom-Z", byName["custom-Z"]}}

	for _, cfgCase := range []struct {
		name string
		cfg  *remote.Config
		ks   []kind
	}{
		{"default", nil, kinds},
		// user serializers with pairwise disjoint type matches (the forwarding order of
		// ClientSerializerOptions is a map iteration order, so only order-independent
		// expectations are deterministic here; overlapping registrations are covered by the
		// dispatch scenario in every order)
		{"user", remote.NewConfig("127.0.0.1", 0, remote.WithSerializables(new(c25Msg)), remote.WithJSONSerializables(new(c25JMsg)), remote.WithSerializers(new(c25Other), c25Z)), append(append([]kind(nil), kinds...), userKinds...)},
	} {
		e := vsched.NewEnum("system-config-"+cfgCase.name, map[string]any{"kinds": len(cfgCase.ks)})
		p := vfBubble(t, func() {
			sys := vfNewSystem("c25sys")
			defer func() { _ = vfStopSystem(sys) }()
			if cfgCase.cfg != nil {
				old := sys.remoting
				sys.remoteConfig = cfgCase.cfg
				if err := sys.setupRemoting(); err != nil {
					panic(err)
				}
				old.Close()
			}
			client := sys.remoting
			for _, k := range cfgCase.ks {
				for _, m := range k.msgs {
					if !e.Mine() {
						continue
					}
					input := cfgCase.name + "/" + k.name + ": " + c25Trunc(c25Show(m), 300)
					got := client.Serializer(m)
					if c25SerName(got) != k.want {
						sig := "system-resolves-wrong-serializer"
						if got == nil {
							sig = "system-resolves-no-serializer"
						}
						e.Fail(sig, input, "actor system client resolves %s for a %s message, want %s", c25SerName(got), k.name, k.want)
					}
					obs := c25SerName(got)
					nontrivial := false
					if got != nil {
						o := c25ReceivePath(e, "system-receive-path-", input, got, client.Serializer(nil), m)
						obs += "/" + o
						nontrivial = o != "refused"
					}
					e.Case(input, obs, 3, nontrivial)
				}
			}
		})
		if p != nil {
			e.Fail("system-config-harness-panic", cfgCase.name, "panic in bubble: %v", p)
		}
		e.Done()
	}
}
