//go:build verif

package actor

import (
	"context"
	"fmt"
	"strings"
	"testing"

	"github.com/tochemey/goakt/v4/internal/verif/vsched"
)

// ---------------------------------------------------------------------------------------------
// C14 — behaviour switching follows stack semantics.
//
// Every program of length 1..L over {none, Become(b1), Become(b2), BecomeStacked(b1),
// BecomeStacked(b2), UnBecomeStacked, UnBecome}: message i executes op i inside whatever behaviour
// handles it; one extra probe message observes the behaviour left by the last op. Each case runs on a
// fresh actor system in a bubble. Reference: a plain stack with the documented semantics.
//
// Unspecified corner: UnBecomeStacked when nothing is stacked (doc: "No effect if there is no stack",
// code: pops the base behaviour so that nothing handles the next message). It is only admitted as the
// LAST op of a program and the probe message is then checked against the weak oracle "handled by the
// base behaviour or by nobody" (a behaviour that the documented semantics removed from the stack can
// never handle a message). Programs that continue after that op are not enumerated.
// ---------------------------------------------------------------------------------------------

type c14Op int

const (
	c14None c14Op = iota
	c14BecomeB1
	c14BecomeB2
	c14StackB1
	c14StackB2
	c14UnStack
	c14UnBecome
	c14NumOps
)

var c14OpNames = [...]string{"none", "Become(b1)", "Become(b2)", "BecomeStacked(b1)", "BecomeStacked(b2)", "UnBecomeStacked", "UnBecome"}

func (o c14Op) String() string { return c14OpNames[o] }

// behaviour identities
const (
	c14D  = "D" // the actor's Receive (default)
	c14B1 = "b1"
	c14B2 = "b2"
)

type c14Step struct{ idx int } // message i of the program (idx == len(program) is the probe)

type c14Actor struct {
	prog []c14Op
	log  *vfLog
}

func (a *c14Actor) PreStart(*Context) error { return nil }
func (a *c14Actor) PostStop(*Context) error { return nil }

func (a *c14Actor) Receive(ctx *ReceiveContext) { a.handle(c14D, ctx) }
func (a *c14Actor) b1(ctx *ReceiveContext)      { a.handle(c14B1, ctx) }
func (a *c14Actor) b2(ctx *ReceiveContext)      { a.handle(c14B2, ctx) }

func (a *c14Actor) handle(id string, ctx *ReceiveContext) {
	m, ok := ctx.Message().(*c14Step)
	if !ok {
		return // PostStart etc.
	}
	a.log.add("enter %d %s", m.idx, id)
	if m.idx < len(a.prog) {
		switch a.prog[m.idx] {
		case c14BecomeB1:
			ctx.Become(a.b1)
		case c14BecomeB2:
			ctx.Become(a.b2)
		case c14StackB1:
			ctx.BecomeStacked(a.b1)
		case c14StackB2:
			ctx.BecomeStacked(a.b2)
		case c14UnStack:
			ctx.UnBecomeStacked()
		case c14UnBecome:
			ctx.UnBecome()
		}
	}
	a.log.add("exit %d %s", m.idx, id)
}

// c14Model is the reference: base = the non-stacked behaviour (default or the one set by Become),
// stacked = behaviours pushed by BecomeStacked (top last).
type c14Model struct {
	base    string
	stacked []string
}

func (m *c14Model) top() string {
	if n := len(m.stacked); n > 0 {
		return m.stacked[n-1]
	}
	return m.base
}

// apply returns false when op is the unspecified corner (UnBecomeStacked with nothing stacked).
func (m *c14Model) apply(op c14Op) bool {
	switch op {
	case c14BecomeB1:
		m.base, m.stacked = c14B1, nil
	case c14BecomeB2:
		m.base, m.stacked = c14B2, nil
	case c14StackB1:
		m.stacked = append(m.stacked, c14B1)
	case c14StackB2:
		m.stacked = append(m.stacked, c14B2)
	case c14UnStack:
		if len(m.stacked) == 0 {
			return false
		}
		m.stacked = m.stacked[:len(m.stacked)-1]
	case c14UnBecome:
		m.base, m.stacked = c14D, nil
	}
	return true
}

// c14Predict returns the handler predicted for messages 0..len(prog) (the last entry is the probe).
// corner == true: the last op is the unspecified UnBecomeStacked; the probe's prediction is then the
// base behaviour and "nobody" is accepted too. valid == false: the corner op is not the last op.
func c14Predict(prog []c14Op) (want []string, corner, valid bool) {
	m := &c14Model{base: c14D}
	for i, op := range prog {
		want = append(want, m.top())
		if !m.apply(op) {
			if i != len(prog)-1 {
				return nil, false, false
			}
			corner = true
		}
	}
	want = append(want, m.top())
	return want, corner, true
}

// c14PushDefaultModel is NOT an oracle: it is the classifier for one particular failure structure
// (UnBecome pushing the default behaviour on top of the stack instead of clearing it, and
// UnBecomeStacked popping whatever is on top). A failing case whose complete observation equals
// this structure gets the specific signature; every other failing case gets the generic ones.
func c14PushDefaultModel(prog []c14Op) []string {
	st := []string{c14D}
	top := func() string {
		if len(st) == 0 {
			return "-"
		}
		return st[len(st)-1]
	}
	var out []string
	for _, op := range prog {
		out = append(out, top())
		switch op {
		case c14BecomeB1:
			st = []string{c14B1}
		case c14BecomeB2:
			st = []string{c14B2}
		case c14StackB1:
			st = append(st, c14B1)
		case c14StackB2:
			st = append(st, c14B2)
		case c14UnStack:
			if len(st) > 0 {
				st = st[:len(st)-1]
			}
		case c14UnBecome:
			st = append(st, c14D)
		}
	}
	return append(out, top())
}

// c14Run executes prog on a fresh system and returns, per message, the behaviours that handled it
// ("-" = nobody) plus structural problems of the enter/exit log.
func c14Run(t *testing.T, prog []c14Op) (got []string, problem string) {
	l := &vfLog{}
	p := vfBubble(t, func() {
		sys := vfNewSystem("c14")
		pid, err := sys.Spawn(context.Background(), "a", &c14Actor{prog: prog, log: l}, WithLongLived())
		if err != nil {
			panic(err)
		}
		vfSettle()
		for i := 0; i <= len(prog); i++ {
			if err := Tell(context.Background(), pid, &c14Step{idx: i}); err != nil {
				panic(fmt.Sprintf("tell %d: %v", i, err))
			}
			vfSettle()
		}
		if err := vfStopSystem(sys); err != nil {
			panic(err)
		}
	})
	if p != nil {
		return nil, fmt.Sprintf("harness panic: %v", p)
	}
	got = make([]string, len(prog)+1)
	for i := range got {
		got[i] = "-"
	}
	ev := l.snapshot()
	for k := 0; k < len(ev); k++ {
		var idx int
		var id string
		if _, err := fmt.Sscanf(ev[k], "enter %d %s", &idx, &id); err != nil {
			return got, "exit-without-enter: " + strings.Join(ev, ",")
		}
		if k+1 >= len(ev) || ev[k+1] != fmt.Sprintf("exit %d %s", idx, id) {
			return got, "message-not-finished-by-the-behaviour-that-started-it: " + strings.Join(ev, ",")
		}
		k++
		if got[idx] != "-" {
			return got, "message-handled-more-than-once: " + strings.Join(ev, ",")
		}
		got[idx] = id
	}
	return got, ""
}

func c14ProgString(prog []c14Op) string {
	s := make([]string, len(prog))
	for i, o := range prog {
		s[i] = o.String()
	}
	return strings.Join(s, ";")
}

func TestVerifC14(t *testing.T) {
	defer vsched.Finish(t)
	maxLen := vsched.Pick(5, 6)
	e := vsched.NewEnum("behavior-programs", map[string]any{
		"alphabet": c14OpNames[:], "max_len": maxLen,
		"domain": "every program of length 1..max_len; UnBecomeStacked with nothing stacked only as last op",
	})
	for n := 1; n <= maxLen; n++ {
		prog := make([]c14Op, n)
		total := 1
		for i := 0; i < n; i++ {
			total *= int(c14NumOps)
		}
		for code := 0; code < total; code++ {
			c := code
			for i := n - 1; i >= 0; i-- {
				prog[i] = c14Op(c % int(c14NumOps))
				c /= int(c14NumOps)
			}
			want, corner, valid := c14Predict(prog)
			if !valid {
				continue // continues after the unspecified op: not part of the domain
			}
			if !e.Mine() {
				continue
			}
			in := c14ProgString(prog)
			got, problem := c14Run(t, prog)
			if strings.HasPrefix(problem, "harness panic") {
				e.Fail("harness-panic", in, "%s", problem)
				continue
			}
			switches := 0
			for i := 1; i < len(want); i++ {
				if want[i] != want[i-1] {
					switches++
				}
			}
			obs := strings.Join(got, ",")
			if problem != "" {
				e.Fail(strings.SplitN(problem, ":", 2)[0], in, "%s", problem)
			} else if ok, at := c14Compare(got, want, corner); !ok {
				sig := "handler-differs-from-stack-model"
				if at == len(prog) && corner {
					sig = "removed-behaviour-handles-after-unspecified-pop"
				}
				if strings.Join(got, ",") == strings.Join(c14PushDefaultModel(prog), ",") && c14HasUnBecome(prog) {
					sig = "unbecome-keeps-stacked-behaviours-under-default"
				}
				e.Fail(sig, in, "program [%s]: handlers observed %v, stack model predicts %v (corner=%v, first difference at message %d)", in, got, want, corner, at)
			}
			e.Case(in, obs, len(prog)+1, switches >= 2)
		}
	}
	e.Done()
}

func c14HasUnBecome(prog []c14Op) bool {
	for _, o := range prog {
		if o == c14UnBecome {
			return true
		}
	}
	return false
}

// c14Compare: every message must be handled by the predicted behaviour; in the corner case the probe
// may also be handled by nobody.
func c14Compare(got, want []string, corner bool) (bool, int) {
	for i := range want {
		if got[i] == want[i] {
			continue
		}
		if corner && i == len(want)-1 && got[i] == "-" {
			continue
		}
		return false, i
	}
	return true, -1
}
