//go:build verif

package actor

import (
	"context"
	"errors"
	"fmt"
	"strings"
	"sync"
	"testing"

	gerrors "github.com/tochemey/goakt/v4/errors"
	"github.com/tochemey/goakt/v4/internal/verif/vsched"
	"github.com/tochemey/goakt/v4/supervisor"
)

// ---------------------------------------------------------------------------------------------
// C13 — stashed messages are neither lost, duplicated nor reordered.
//
// Program = the action of the k-th handler invocation (k < N) over {handle, Stash, Unstash,
// UnstashAll}; invocations after the N-th only handle. Stream m1..mN from one sender. After the
// stream has drained a flush message F arrives whose handler calls UnstashAll.
//
// Scenarios (all N-letter programs each):
//   preloaded  the whole stream is in the mailbox before the first message is handled (the actor is
//              parked in a gate message), so unstashed messages compete with waiting stream messages;
//   paced      the next stream message is sent when the actor is quiescent, so re-delivered messages
//              are handled by program positions and can be stashed again;
//   nobuffer   actor spawned without WithStashing: every Stash must record ErrStashBufferNotSet and
//              the message stays handled by that invocation (nothing dropped, nothing re-delivered).
//
// Reference model = two FIFO queues driven by the OBSERVED invocation sequence (trace validation):
// `stash` (ids in stash order) and the batches of ids handed back by each Unstash/UnstashAll. The
// property does not say where a re-delivered message is placed relative to messages already waiting
// in the mailbox (the doc comments say "prepends", the code appends), so the oracle is insensitive to
// that: it demands exactly what the statement demands —
//   * a message is delivered for the first time, or again exactly once per Unstash/UnstashAll that
//     handed it back — never while the model still holds it in the stash (Unstash must hand back the
//     OLDEST), never after it was finally handled (duplicate);
//   * the members of one UnstashAll batch are re-delivered in stash order;
//   * at quiescence no handed-back message is still undelivered (lost); after the flush every stream
//     message has been finally handled exactly once.
// ---------------------------------------------------------------------------------------------

type c13Act int

const (
	c13Handle c13Act = iota
	c13Stash
	c13Unstash
	c13UnstashAll
	c13NumActs
)

var c13ActNames = [...]string{"h", "S", "U", "A"}

type c13Msg struct{ id int }
type c13Gate struct{ ch chan struct{} }
type c13Flush struct{}

type c13Inv struct {
	id       int // 0 = flush message
	act      c13Act
	stashErr error // error recorded on the context right after Stash() (nil if none / other action)
}

type c13Actor struct {
	mu    sync.Mutex
	prog  []c13Act
	invs  []c13Inv
	count int
}

func (a *c13Actor) PreStart(*Context) error { return nil }
func (a *c13Actor) PostStop(*Context) error { return nil }

func (a *c13Actor) Receive(ctx *ReceiveContext) {
	switch m := ctx.Message().(type) {
	case *c13Gate:
		<-m.ch
	case *c13Flush:
		a.record(c13Inv{id: 0, act: c13UnstashAll})
		ctx.UnstashAll()
	case *c13Msg:
		a.mu.Lock()
		k := a.count
		a.count++
		a.mu.Unlock()
		act := c13Handle
		if k < len(a.prog) {
			act = a.prog[k]
		}
		inv := c13Inv{id: m.id, act: act}
		switch act {
		case c13Stash:
			ctx.Stash()
			inv.stashErr = ctx.getError()
		case c13Unstash:
			ctx.Unstash()
		case c13UnstashAll:
			ctx.UnstashAll()
		}
		a.record(inv)
	}
}

func (a *c13Actor) record(i c13Inv) {
	a.mu.Lock()
	a.invs = append(a.invs, i)
	a.mu.Unlock()
}

func (a *c13Actor) snapshot() []c13Inv {
	a.mu.Lock()
	defer a.mu.Unlock()
	return append([]c13Inv(nil), a.invs...)
}

type c13Mode int

const (
	c13Preloaded c13Mode = iota
	c13Paced
	c13NoBuffer
)

var c13ModeNames = [...]string{"preloaded", "paced", "nobuffer"}

// c13Run executes one program; it returns the invocations seen until the stream drained (before the
// flush) and all invocations after the flush drained.
func c13Run(t *testing.T, mode c13Mode, mb *c13Mailbox, prog []c13Act) (before, all []c13Inv, problem string) {
	a := &c13Actor{prog: prog}
	p := vfBubble(t, func() {
		sys := vfNewSystem("c13")
		// failures recorded through ctx.Err (e.g. Unstash on an empty stash, Stash without a buffer)
		// must not take the actor out of service: resume on any error.
		opts := []SpawnOption{WithLongLived(), WithSupervisor(supervisor.NewSupervisor(supervisor.WithAnyErrorDirective(supervisor.ResumeDirective)))}
		if mode != c13NoBuffer {
			opts = append(opts, WithStashing())
		}
		if mb != nil && mb.make != nil {
			opts = append(opts, WithMailbox(mb.make()))
		}
		pid, err := sys.Spawn(context.Background(), "a", a, opts...)
		if err != nil {
			panic(err)
		}
		vfSettle()
		ctx := context.Background()
		tell := func(m any) {
			if err := Tell(ctx, pid, m); err != nil {
				panic(fmt.Sprintf("tell %v: %v", m, err))
			}
		}
		switch mode {
		case c13Preloaded:
			g := &c13Gate{ch: make(chan struct{})}
			tell(g)
			vfSettle() // the actor is parked inside the gate message
			for i := 1; i <= len(prog); i++ {
				tell(&c13Msg{id: i})
			}
			close(g.ch)
			vfSettle()
		default:
			for i := 1; i <= len(prog); i++ {
				tell(&c13Msg{id: i})
				vfSettle()
			}
		}
		before = a.snapshot()
		tell(&c13Flush{})
		vfSettle()
		all = a.snapshot()
		if err := vfStopSystem(sys); err != nil {
			panic(err)
		}
	})
	if p != nil {
		return nil, nil, fmt.Sprintf("harness panic: %v", p)
	}
	return before, all, ""
}

// c13Validate replays the observed invocations on the two-queue model. n = stream length;
// nBefore = number of invocations observed before the flush was sent.
func c13Validate(n int, hasBuffer, batchOrder bool, nBefore int, invs []c13Inv) (sig, detail string) {
	const (
		fresh = iota
		stashed
		handedBack
		done
	)
	loc := make([]int, n+1)
	var stash []int
	var batches [][]int // handed back, not yet re-delivered; each in stash order
	pendingCount := func() int {
		c := 0
		for _, b := range batches {
			c += len(b)
		}
		return c
	}
	for k, inv := range invs {
		if k == nBefore {
			if c := pendingCount(); c != 0 {
				return "unstashed-message-not-redelivered", fmt.Sprintf("%d handed-back message(s) %v never re-delivered although the actor is quiescent", c, batches)
			}
		}
		if inv.id != 0 {
			if inv.id < 1 || inv.id > n {
				return "unknown-message", fmt.Sprintf("message id %d", inv.id)
			}
			switch loc[inv.id] {
			case fresh:
			case stashed:
				return "redelivered-while-older-stash-entry-expected", fmt.Sprintf("invocation %d delivers m%d which the model still holds in the stash %v (handed back: %v)", k, inv.id, stash, batches)
			case done:
				return "message-delivered-again-after-final-handling", fmt.Sprintf("invocation %d delivers m%d a second time without an unstash", k, inv.id)
			case handedBack:
				found := false
				for bi, b := range batches {
					for pi, id := range b {
						if id != inv.id {
							continue
						}
						if pi != 0 && batchOrder {
							return "unstashall-batch-redelivered-out-of-stash-order", fmt.Sprintf("invocation %d delivers m%d before m%d of the same UnstashAll batch %v", k, inv.id, b[0], b)
						}
						batches[bi] = append(append([]int(nil), b[:pi]...), b[pi+1:]...)
						found = true
					}
				}
				if !found {
					return "model-internal", "handed back id not in a batch"
				}
			}
		}
		switch inv.act {
		case c13Handle:
			loc[inv.id] = done
		case c13Stash:
			if hasBuffer {
				if inv.stashErr != nil {
					return "stash-with-buffer-reports-error", fmt.Sprintf("invocation %d: Stash of m%d recorded %v", k, inv.id, inv.stashErr)
				}
				stash = append(stash, inv.id)
				loc[inv.id] = stashed
			} else {
				if !errors.Is(inv.stashErr, gerrors.ErrStashBufferNotSet) {
					return "stash-without-buffer-not-reported", fmt.Sprintf("invocation %d: Stash of m%d without stash buffer recorded %v, want ErrStashBufferNotSet", k, inv.id, inv.stashErr)
				}
				loc[inv.id] = done
			}
		case c13Unstash:
			if inv.id != 0 {
				loc[inv.id] = done
			}
			if len(stash) > 0 {
				batches = append(batches, []int{stash[0]})
				loc[stash[0]] = handedBack
				stash = stash[1:]
			}
		case c13UnstashAll:
			if inv.id != 0 {
				loc[inv.id] = done
			}
			if len(stash) > 0 {
				batches = append(batches, append([]int(nil), stash...))
				for _, id := range stash {
					loc[id] = handedBack
				}
				stash = nil
			}
		}
	}
	if len(invs) >= nBefore && len(invs) > 0 {
		if c := pendingCount(); c != 0 {
			return "unstashed-message-not-redelivered", fmt.Sprintf("%d handed-back message(s) %v never re-delivered although the actor is quiescent", c, batches)
		}
	}
	flushed := false
	for _, inv := range invs {
		if inv.id == 0 {
			flushed = true
		}
	}
	if !flushed {
		return "flush-not-handled", "the flush message was never handled"
	}
	for id := 1; id <= n; id++ {
		if loc[id] != done {
			return "message-not-handled-after-final-unstashall", fmt.Sprintf("m%d is in state %d after the final UnstashAll drained (stash %v)", id, loc[id], stash)
		}
	}
	return "", ""
}

func c13Trace(invs []c13Inv) string {
	var sb strings.Builder
	for i, inv := range invs {
		if i > 0 {
			sb.WriteByte(' ')
		}
		if inv.id == 0 {
			sb.WriteString("F")
			continue
		}
		fmt.Fprintf(&sb, "%d%s", inv.id, c13ActNames[inv.act])
	}
	return sb.String()
}

// c13Mailbox is the actor's MAIN mailbox type (the stash buffer itself is always goakt's own). The
// handed-out ReceiveContext has a different life cycle per mailbox (intrusive list node, recycled on
// the next Dequeue, plain queue element), which is exactly what stash/unstash must be immune to.
// Priority mailboxes get a priority function that ranks all messages equal. The stable ones then
// deliver in arrival order, so the full oracle applies; the two heap-only (non-stable) ones may
// permute equally ranked messages themselves, so for them the UnstashAll-batch-order clause is not
// applied (exactly-once, oldest-first hand-back, nothing lost/duplicated still are).
type c13Mailbox struct {
	name       string
	make       func() Mailbox // nil = default mailbox
	batchOrder bool
}

func c13EqualPriority(any, any) bool { return false }

var c13Mailboxes = []c13Mailbox{
	{"nonblocking-bounded", func() Mailbox { return NewNonBlockingBoundedMailbox(64) }, true},
	{"bounded", func() Mailbox { return NewBoundedMailbox(64) }, true},
	{"unbounded-stable-priority", func() Mailbox { return NewUnboundedStablePriorityMailbox(c13EqualPriority) }, true},
	{"bounded-stable-priority", func() Mailbox { return NewBoundedStablePriorityMailbox(64, c13EqualPriority) }, true},
	{"unbounded-priority", func() Mailbox { return NewUnboundedPriorityMailBox(c13EqualPriority) }, false},
	{"bounded-priority", func() Mailbox { return NewBoundedPriorityMailbox(64, c13EqualPriority) }, false},
	{"unbounded-fair", func() Mailbox { return NewUnboundedFairMailbox() }, true},
	{"unbounded-segmented", func() Mailbox { return NewUnboundedSegmentedMailbox() }, true},
}

// c13Enumerate runs all 4^n programs of the given modes with one mailbox as one scenario.
func c13Enumerate(t *testing.T, scenario string, n int, modes []c13Mode, mb *c13Mailbox) {
	params := map[string]any{
		"stream_len": n, "alphabet": "h=handle S=Stash U=Unstash A=UnstashAll", "programs": "all 4^stream_len",
		"mailbox": "default (UnboundedMailbox)", "batch_order_clause": true,
	}
	batchOrder := true
	if mb != nil {
		params["mailbox"], params["batch_order_clause"] = mb.name, mb.batchOrder
		batchOrder = mb.batchOrder
	}
	e := vsched.NewEnum(scenario, params)
	total := 1
	for i := 0; i < n; i++ {
		total *= int(c13NumActs)
	}
	prog := make([]c13Act, n)
	for _, mode := range modes {
		for code := 0; code < total; code++ {
			if !e.Mine() {
				continue
			}
			c := code
			for i := n - 1; i >= 0; i-- {
				prog[i] = c13Act(c % int(c13NumActs))
				c /= int(c13NumActs)
			}
			var ps strings.Builder
			for _, a := range prog {
				ps.WriteString(c13ActNames[a])
			}
			in := c13ModeNames[mode] + ":" + ps.String()
			if mb != nil {
				in = mb.name + "/" + in
			}
			before, all, problem := c13Run(t, mode, mb, prog)
			if problem != "" {
				e.Fail("harness-panic", in, "%s", problem)
				continue
			}
			if sig, detail := c13Validate(n, mode != c13NoBuffer, batchOrder, len(before), all); sig != "" {
				e.Fail(sig, in, "program %s: %s; invocations (id+action, F=flush): %s", in, detail, c13Trace(all))
			}
			// non-trivial: at least one message was delivered more than once (a re-delivery happened)
			// — for nobuffer: at least one Stash was attempted.
			redelivered := len(all)-1 > n
			if mode == c13NoBuffer {
				redelivered = strings.Contains(ps.String(), "S")
			}
			e.Case(in, c13Trace(all), len(all), redelivered)
		}
	}
	e.Done()
}

func TestVerifC13(t *testing.T) {
	defer vsched.Finish(t)
	n := vsched.Pick(5, 7)
	for mode := c13Preloaded; mode <= c13NoBuffer; mode++ {
		c13Enumerate(t, "stash-"+c13ModeNames[mode], n, []c13Mode{mode}, nil)
	}
	// the same programs (preloaded + paced) over every other main-mailbox type
	nm := vsched.Pick(5, 6)
	for i := range c13Mailboxes {
		c13Enumerate(t, "stash-mailbox-"+c13Mailboxes[i].name, nm, []c13Mode{c13Preloaded, c13Paced}, &c13Mailboxes[i])
	}
}
