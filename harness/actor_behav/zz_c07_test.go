//go:build verif

package actor

import (
	"context"
	"errors"
	"fmt"
	"strings"
	"sync"
	"testing"
	"time"

	"github.com/tochemey/goakt/v4/internal/verif/vsched"
	"github.com/tochemey/goakt/v4/supervisor"
)

// ---------------------------------------------------------------------------------------------
// C07 — failures are handled by exactly the configured supervision directive.
//
// Family G -> P -> {C1, C2} on a fresh actor system in a bubble. Both children carry an equal
// supervisor configuration; P applies it. Complete product of
//   strategy {OneForOne, OneForAll}
//   directive for c07ErrA {unset, Stop, Restart, Resume, Escalate} installed by WithDirective, and -
//     when an any-error directive exists - also installed AFTER construction by SetDirectiveByType
//     (the only way a typed rule and the any-error rule coexist, see the Supervisor doc comment)
//   any-error directive {unset, Stop, Restart, Resume, Escalate}
//   retry {none, (1,1s), (2,1s), (2,0)} x backoff {off, 100ms..400ms}   (only when Restart is reachable;
//     (2,0) x backoff-on is left out: the docs do not say which of "non-positive timeout disables the
//     budget" and "resetAfter takes precedence over this value" wins)
//   P's reaction to a PanicSignal {absorb, re-raise under an Escalate supervisor}  (when Escalate reachable)
// x every fault sequence of length <= L over {C1,C2} x {Err(c07ErrA), Err(c07ErrB), panic} x gap {0, 2s}.
//
// Every step: sleep gap, Tell the fault to the (running) target, settle, advance 20ms of virtual time
// (a restart of a running actor polls every 10ms), settle, compare the whole family with the model,
// then Tell an increment to every running member and compare the handler-local counters.
//
// The reference model (c07Model) is written from the documentation comments of package supervisor,
// of PanicSignal and of PID.Restart - see the comments on each rule. Situations those comments and
// the property statement leave open are not enumerated ("cut"):
//   * one-for-all + no directive found (is the sibling suspended too?) and one-for-all + Escalate
//     (what happens to the sibling?): the case ends after that step and only the faulty child, P and
//     G are compared;
//   * a fault that hits a group which still has a delayed (backoff) restart pending;
//   * faults aimed at a member that is not running; anything after P itself got suspended.
// ---------------------------------------------------------------------------------------------

type c07ErrA struct{}

func (*c07ErrA) Error() string { return "c07 error A" }

type c07ErrB struct{}

func (*c07ErrB) Error() string { return "c07 error B" }

type c07Kind int

const (
	c07KErrA c07Kind = iota
	c07KErrB
	c07KPanic
	c07NumKinds
)

var c07KindNames = [...]string{"errA", "errB", "panic"}

type c07Fail struct{ kind c07Kind }
type c07Inc struct{}

// ---- actors ---------------------------------------------------------------------------------

type c07Child struct {
	mu       sync.Mutex
	preStart int
	postStop int
	counter  int // handler-local state: reset by PreStart, kept by Resume
}

func (a *c07Child) PreStart(*Context) error {
	a.mu.Lock()
	a.preStart++
	a.counter = 0
	a.mu.Unlock()
	return nil
}

func (a *c07Child) PostStop(*Context) error {
	a.mu.Lock()
	a.postStop++
	a.mu.Unlock()
	return nil
}

func (a *c07Child) Receive(ctx *ReceiveContext) {
	switch m := ctx.Message().(type) {
	case *c07Inc:
		a.mu.Lock()
		a.counter++
		a.mu.Unlock()
	case *c07Fail:
		switch m.kind {
		case c07KErrA:
			ctx.Err(&c07ErrA{})
		case c07KErrB:
			ctx.Err(&c07ErrB{})
		case c07KPanic:
			panic(errors.New("c07 boom"))
		}
	}
}

func (a *c07Child) snap() (pre, post, cnt int) {
	a.mu.Lock()
	defer a.mu.Unlock()
	return a.preStart, a.postStop, a.counter
}

// c07Super is used for P (reraise selects its reaction to PanicSignal) and for G.
type c07Super struct {
	mu      sync.Mutex
	reraise bool
	signals []string // "<sender>:<type of the original message>"
}

func (a *c07Super) PreStart(*Context) error { return nil }
func (a *c07Super) PostStop(*Context) error { return nil }
func (a *c07Super) Receive(ctx *ReceiveContext) {
	if m, ok := ctx.Message().(*PanicSignal); ok {
		a.mu.Lock()
		a.signals = append(a.signals, fmt.Sprintf("%s:%T", ctx.Sender().Name(), m.Message()))
		a.mu.Unlock()
		if a.reraise {
			ctx.Err(&c07ErrA{})
		}
	}
}
func (a *c07Super) snap() string {
	a.mu.Lock()
	defer a.mu.Unlock()
	return strings.Join(a.signals, "|")
}

// ---- configuration domain -----------------------------------------------------------------------

const c07Unset = -1

type c07Retry struct {
	set     bool
	max     uint32
	timeout time.Duration
}

type c07Config struct {
	strategy  supervisor.Strategy
	typedA    int  // c07Unset or a supervisor.Directive
	typedLate bool // typed rule installed by SetDirectiveByType after construction
	anyDir    int  // c07Unset or a supervisor.Directive
	retry     c07Retry
	backoff   bool // WithExponentialBackoff(100ms, 400ms, 0)
	reraise   bool // P re-raises a PanicSignal as its own failure (P's supervisor: any error -> Escalate)
}

const (
	c07BackoffInit = 100 * time.Millisecond
	c07BackoffMax  = 400 * time.Millisecond
	c07Quantum     = 20 * time.Millisecond
)

func c07DirName(d int) string {
	if d == c07Unset {
		return "unset"
	}
	return supervisor.Directive(d).String()
}

func (c c07Config) String() string {
	late := ""
	if c.typedLate {
		late = "(SetDirectiveByType)"
	}
	r := "none"
	if c.retry.set {
		r = fmt.Sprintf("(%d,%v)", c.retry.max, c.retry.timeout)
	}
	return fmt.Sprintf("strategy=%s errA=%s%s any=%s retry=%s backoff=%v reraise=%v", c.strategy, c07DirName(c.typedA), late, c07DirName(c.anyDir), r, c.backoff, c.reraise)
}

func (c c07Config) build() *supervisor.Supervisor {
	opts := []supervisor.SupervisorOption{supervisor.WithStrategy(c.strategy)}
	if c.typedA != c07Unset && !c.typedLate {
		opts = append(opts, supervisor.WithDirective(&c07ErrA{}, supervisor.Directive(c.typedA)))
	}
	if c.anyDir != c07Unset {
		opts = append(opts, supervisor.WithAnyErrorDirective(supervisor.Directive(c.anyDir)))
	}
	if c.retry.set {
		opts = append(opts, supervisor.WithRetry(c.retry.max, c.retry.timeout))
	}
	if c.backoff {
		opts = append(opts, supervisor.WithExponentialBackoff(c07BackoffInit, c07BackoffMax, 0))
	}
	s := supervisor.NewSupervisor(opts...)
	if c.typedA != c07Unset && c.typedLate {
		s.SetDirectiveByType("actor.c07ErrA", supervisor.Directive(c.typedA))
	}
	return s
}

// lookup: the directive for a failure kind as documented.
//   - NewSupervisor defaults: PanicError -> Stop (a handler panic is reported as PanicError).
//   - "If you set an any-error directive via WithAnyErrorDirective, it becomes the sole rule and
//     overrides any error-specific directives" (Supervisor doc) - this covers rules given as options.
//   - SetDirectiveByType "does not clear or override existing rules": typed and any-error rule coexist,
//     and the property statement fixes the order: error type first, then any-error, then suspension.
func (c c07Config) lookup(k c07Kind) (supervisor.Directive, bool) {
	if c.anyDir != c07Unset {
		if k == c07KErrA && c.typedA != c07Unset && c.typedLate {
			return supervisor.Directive(c.typedA), true
		}
		return supervisor.Directive(c.anyDir), true
	}
	switch k {
	case c07KErrA:
		if c.typedA != c07Unset {
			return supervisor.Directive(c.typedA), true
		}
	case c07KPanic:
		return supervisor.StopDirective, true
	}
	return 0, false
}

func (c c07Config) reachable(d supervisor.Directive) bool {
	for k := c07Kind(0); k < c07NumKinds; k++ {
		if got, ok := c.lookup(k); ok && got == d {
			return true
		}
	}
	return false
}

func c07Configs() []c07Config {
	var out []c07Config
	dirs := []int{c07Unset, int(supervisor.StopDirective), int(supervisor.RestartDirective), int(supervisor.ResumeDirective), int(supervisor.EscalateDirective)}
	retries := []c07Retry{{}, {true, 1, time.Second}, {true, 2, time.Second}, {true, 2, 0}}
	for _, strat := range []supervisor.Strategy{supervisor.OneForOneStrategy, supervisor.OneForAllStrategy} {
		for _, anyDir := range dirs {
			for _, typed := range dirs {
				for _, late := range []bool{false, true} {
					if late && (typed == c07Unset || anyDir == c07Unset) {
						continue // late installation only differs when both rules exist
					}
					base := c07Config{strategy: strat, typedA: typed, typedLate: late, anyDir: anyDir}
					var rb []c07Config
					if base.reachable(supervisor.RestartDirective) {
						for _, r := range retries {
							for _, bo := range []bool{false, true} {
								if bo && r.set && r.timeout <= 0 {
									continue
								}
								c := base
								c.retry, c.backoff = r, bo
								rb = append(rb, c)
							}
						}
					} else {
						rb = []c07Config{base}
					}
					for _, c := range rb {
						out = append(out, c)
						if c.reachable(supervisor.EscalateDirective) {
							c.reraise = true
							out = append(out, c)
						}
					}
				}
			}
		}
	}
	return out
}

// ---- fault sequences ----------------------------------------------------------------------------

type c07Step struct {
	target int // 0 = C1, 1 = C2
	kind   c07Kind
	gap    time.Duration
}

func (s c07Step) String() string {
	return fmt.Sprintf("+%v fail(C%d,%s)", s.gap, s.target+1, c07KindNames[s.kind])
}

func c07SeqString(seq []c07Step) string {
	p := make([]string, len(seq))
	for i, s := range seq {
		p[i] = s.String()
	}
	return strings.Join(p, "; ")
}

// c07Sequences returns every sequence of length 1..maxLen over the given gaps (gap of the first
// step fixed to 0).
func c07Sequences(maxLen int, gaps []time.Duration) [][]c07Step {
	var steps []c07Step
	for t := 0; t < 2; t++ {
		for k := c07Kind(0); k < c07NumKinds; k++ {
			for _, g := range gaps {
				steps = append(steps, c07Step{t, k, g})
			}
		}
	}
	var out [][]c07Step
	var rec func(prefix []c07Step)
	rec = func(prefix []c07Step) {
		if len(prefix) > 0 {
			out = append(out, append([]c07Step(nil), prefix...))
		}
		if len(prefix) == maxLen {
			return
		}
		for _, s := range steps {
			if len(prefix) == 0 && s.gap != 0 {
				continue
			}
			rec(append(prefix, s))
		}
	}
	rec(nil)
	return out
}

// ---- reference model ----------------------------------------------------------------------------

type c07Member struct {
	exists       bool // not stopped
	running      bool
	suspended    bool
	preStart     int
	postStop     int
	restartCount int
	counter      int
	faults       int64         // consecutive fault counter (WithRetry / WithExponentialBackoff docs)
	lastFault    time.Duration // model time of the previous counted fault; <0 = none
	pendingAt    time.Duration // model time at which a delayed restart fires; <0 = none
}

type c07Model struct {
	cfg c07Config
	// rcFromOne is NOT part of the oracle. It turns the model into the classifier of one particular
	// failure structure: the restart count of a member that is restarted WHILE RUNNING (a one-for-all
	// sibling) starts again from one instead of being bumped. A failing case that this variant
	// explains completely gets the specific signature, every other failing case the generic ones.
	rcFromOne bool
	now       time.Duration
	c         [2]c07Member
	pRun      bool
	pSusp     bool
	pSig      []string
	gSig      []string
}

func c07NewModel(cfg c07Config) *c07Model {
	m := &c07Model{cfg: cfg, pRun: true}
	for i := range m.c {
		m.c[i] = c07Member{exists: true, running: true, preStart: 1, lastFault: -1, pendingAt: -1}
	}
	return m
}

func (m *c07Model) restart(g *c07Member) {
	// "Restart re-runs PreStart with fresh state and bumps the restart count"
	if m.rcFromOne && g.running {
		g.restartCount = 0
	}
	g.running, g.suspended = true, false
	g.preStart++
	g.restartCount++
	g.counter = 0
	g.pendingAt = -1
}

// advance moves model time and fires delayed restarts that became due.
func (m *c07Model) advance(d time.Duration) {
	m.now += d
	for i := range m.c {
		if g := &m.c[i]; g.exists && g.pendingAt >= 0 && g.pendingAt < m.now {
			m.restart(g)
		}
	}
}

func (m *c07Model) group(target int) []int {
	if m.cfg.strategy == supervisor.OneForAllStrategy {
		g := []int{target}
		if m.c[1-target].exists {
			g = append(g, 1-target)
		}
		return g
	}
	return []int{target}
}

// enabled reports whether the fault can be injected within the documented territory.
func (m *c07Model) enabled(s c07Step) bool {
	if !m.pRun || m.pSusp || !m.c[s.target].running {
		return false
	}
	for _, i := range m.group(s.target) {
		if m.c[i].pendingAt >= 0 {
			return false
		}
	}
	return true
}

// fail applies one failure of the running member target. It returns the applied rule's name and
// whether the case must end here (cut) with the sibling left out of the comparison.
func (m *c07Model) fail(target int, k c07Kind) (rule string, cut bool) {
	t := &m.c[target]
	oneForAll := m.cfg.strategy == supervisor.OneForAllStrategy
	d, ok := m.cfg.lookup(k)
	if !ok {
		// "(... or suspension if none)"
		t.running, t.suspended = false, true
		return "nodirective", oneForAll
	}
	switch d {
	case supervisor.ResumeDirective:
		// "Resume keeps the child's state and it processes later messages"
		return "resume", false
	case supervisor.StopDirective:
		// "Stop stops the child (and its siblings under one-for-all)"
		for _, i := range m.group(target) {
			g := &m.c[i]
			g.exists, g.running, g.suspended = false, false, false
			g.postStop++
		}
		return "stop", false
	case supervisor.EscalateDirective:
		// PanicSignal doc: "automatically sent when the Escalate supervision directive is invoked ...
		// The child actor is suspended, and the parent actor is expected to take appropriate action";
		// it carries "the original message that triggered the failure".
		t.running, t.suspended = false, true
		m.pSig = append(m.pSig, fmt.Sprintf("C%d:*actor.c07Fail", target+1))
		if m.cfg.reraise {
			// P fails in turn; P's supervisor says Escalate: P is suspended and G gets the signal.
			m.pRun, m.pSusp = false, true
			m.gSig = append(m.gSig, "P:*actor.PanicSignal")
			return "escalate-chain", true
		}
		return "escalate", oneForAll
	case supervisor.RestartDirective:
		// window: "When WithExponentialBackoff is configured, its resetAfter ... take precedence";
		// resetAfter "When zero it defaults to maxDelay".
		window := time.Duration(-1)
		if m.cfg.retry.set {
			window = m.cfg.retry.timeout
		}
		if m.cfg.backoff {
			window = c07BackoffMax
		}
		grp := m.group(target)
		for _, i := range grp {
			g := &m.c[i]
			// "The fault-free period after which the consecutive failure counter resets"
			if window > 0 && g.lastFault >= 0 && m.now-g.lastFault > window {
				g.faults = 0
			}
			g.lastFault = m.now
			g.faults++
		}
		// "maxRetries: The maximum number of consecutive restarts. One more fault within the window
		// suspends the actor instead of restarting it." / "A non-positive timeout disables both the
		// reset window and the budget" / statement: "the group is suspended instead of restarted".
		if m.cfg.retry.set && m.cfg.retry.max > 0 && window > 0 && t.faults > int64(m.cfg.retry.max) {
			for _, i := range grp {
				m.c[i].running, m.c[i].suspended = false, true
			}
			return "restart-budget-exhausted", false
		}
		// "The nth consecutive restart is delayed by min(initialDelay << (n-1), maxDelay)."
		delay := time.Duration(0)
		if m.cfg.backoff {
			delay = c07BackoffInit << uint(t.faults-1)
			if delay > c07BackoffMax {
				delay = c07BackoffMax
			}
		}
		t.running, t.suspended = false, true // the faulty child waits suspended for the parent's decision
		if delay == 0 {
			for _, i := range grp {
				m.restart(&m.c[i])
			}
			return "restart", false
		}
		for _, i := range grp {
			m.c[i].pendingAt = m.now + delay
		}
		return "restart-delayed", false
	}
	return "unknown", true
}

// ---- the real family ----------------------------------------------------------------------------

type c07Family struct {
	sys  *actorSystem
	g, p *PID
	ga   *c07Super
	pa   *c07Super
	c    [2]*PID
	ca   [2]*c07Child
}

func c07Spawn(cfg c07Config) *c07Family {
	f := &c07Family{}
	ctx := context.Background()
	f.sys = vfNewSystem("c07")
	var err error
	f.ga = &c07Super{}
	if f.g, err = f.sys.Spawn(ctx, "G", f.ga, WithLongLived()); err != nil {
		panic(err)
	}
	f.pa = &c07Super{reraise: cfg.reraise}
	if f.p, err = f.g.SpawnChild(ctx, "P", f.pa, WithLongLived(),
		WithSupervisor(supervisor.NewSupervisor(supervisor.WithAnyErrorDirective(supervisor.EscalateDirective)))); err != nil {
		panic(err)
	}
	for i := 0; i < 2; i++ {
		f.ca[i] = &c07Child{}
		if f.c[i], err = f.p.SpawnChild(ctx, fmt.Sprintf("C%d", i+1), f.ca[i], WithLongLived(), WithSupervisor(cfg.build())); err != nil {
			panic(err)
		}
	}
	vfSettle()
	return f
}

// field-wise observation of one member, in the same layout as the model's.
type c07Obs struct {
	running, suspended          bool
	preStart, restartCount, cnt int
	postStop                    int
	stopped                     bool
}

func (f *c07Family) observe(i int) c07Obs {
	pre, post, cnt := f.ca[i].snap()
	run, sus := f.c[i].IsRunning(), f.c[i].IsSuspended()
	return c07Obs{running: run, suspended: sus, preStart: pre, postStop: post, cnt: cnt, restartCount: f.c[i].RestartCount(), stopped: !run && !sus}
}

func (m *c07Model) observe(i int) c07Obs {
	g := m.c[i]
	return c07Obs{running: g.running, suspended: g.suspended, preStart: g.preStart, postStop: g.postStop, cnt: g.counter, restartCount: g.restartCount, stopped: !g.exists}
}

// c07Diff names the first field in which got differs from want ("" = equal). The restart count of
// a stopped member is not compared (its meaning after a stop is not documented); PostStop is only
// compared for stopped members (a stop runs PostStop exactly once more; whether a restart does is not
// part of the statement).
func c07Diff(got, want c07Obs) string {
	switch {
	case got.running != want.running:
		return "running-flag"
	case got.suspended != want.suspended:
		return "suspended-flag"
	case got.preStart != want.preStart:
		return "prestart-count"
	case !want.stopped && got.restartCount != want.restartCount:
		return "restart-count"
	case got.cnt != want.cnt:
		return "handler-state"
	case want.stopped && got.postStop < want.postStop:
		return "poststop-not-run"
	}
	return ""
}

func c07ObsString(o c07Obs) string {
	return fmt.Sprintf("run=%v sus=%v pre=%d rc=%d cnt=%d post=%d", o.running, o.suspended, o.preStart, o.restartCount, o.cnt, o.postStop)
}

// c07Compare compares the family with the model; only == target index when the sibling is excluded.
func (f *c07Family) compare(m *c07Model, rule string, target int, siblingExcluded bool, phase string) (sig, detail string, obs string) {
	var sb strings.Builder
	for i := 0; i < 2; i++ {
		got := f.observe(i)
		fmt.Fprintf(&sb, "C%d[%s] ", i+1, c07ObsString(got))
		if siblingExcluded && i != target {
			continue
		}
		if d := c07Diff(got, m.observe(i)); d != "" && sig == "" {
			role := "faulty-child"
			if i != target {
				role = "sibling"
			}
			sig = fmt.Sprintf("%s-%s-%s-%s", rule, role, d, phase)
			detail = fmt.Sprintf("C%d observed {%s}, model {%s}", i+1, c07ObsString(got), c07ObsString(m.observe(i)))
		}
	}
	pRun, pSus, pSig, gSig := f.p.IsRunning(), f.p.IsSuspended(), f.pa.snap(), f.ga.snap()
	fmt.Fprintf(&sb, "P[run=%v sus=%v sig=%s] G[sig=%s]", pRun, pSus, pSig, gSig)
	if sig == "" {
		switch {
		case pSig != strings.Join(m.pSig, "|"):
			sig, detail = rule+"-parent-panic-signals-"+phase, fmt.Sprintf("P received PanicSignals [%s], model [%s]", pSig, strings.Join(m.pSig, "|"))
		case gSig != strings.Join(m.gSig, "|"):
			sig, detail = rule+"-grandparent-panic-signals-"+phase, fmt.Sprintf("G received PanicSignals [%s], model [%s]", gSig, strings.Join(m.gSig, "|"))
		case pRun != m.pRun || pSus != m.pSusp:
			sig, detail = rule+"-parent-state-"+phase, fmt.Sprintf("P running=%v suspended=%v, model running=%v suspended=%v", pRun, pSus, m.pRun, m.pSusp)
		}
	}
	return sig, detail, sb.String()
}

// c07KnownRC is the signature of the failure structure described at c07Model.rcFromOne.
const c07KnownRC = "restart-count-starts-over-when-a-running-member-is-restarted"

// c07Run executes one (config, sequence) case. It returns the violation (if any) and the
// observation trace. The oracle is model m. alt (m with rcFromOne) only classifies: after the first
// difference from m the case goes on against alt, so that a case which alt explains completely gets
// c07KnownRC and any difference alt does not explain is still reported under its generic signature.
func c07Run(t *testing.T, cfg c07Config, seq []c07Step) (sig, detail, trace string, steps int) {
	var tr []string
	p := vfBubble(t, func() {
		f := c07Spawn(cfg)
		defer func() {
			// a delayed restart still sleeping would outlive the bubble: let it fire first
			time.Sleep(2 * time.Second)
			vfSettle()
			if err := vfStopSystem(f.sys); err != nil {
				panic(err)
			}
		}()
		m := c07NewModel(cfg)
		alt := c07NewModel(cfg)
		alt.rcFromOne = true
		diverged := false
		ctx := context.Background()
		sleep := func(d time.Duration) {
			if d > 0 {
				time.Sleep(d)
			}
			vfSettle()
			m.advance(d)
			alt.advance(d)
		}
		// check compares at quiescence; false = stop the case (sig/detail are final).
		check := func(label, rule string, target int, cut bool, phase, where string) bool {
			var o string
			if !diverged {
				var s, d string
				s, d, o = f.compare(m, rule, target, cut, phase)
				if s != "" {
					diverged = true
					sig, detail = s, d+where
				}
			}
			if diverged {
				s, d, o2 := f.compare(alt, rule, target, cut, phase)
				o = o2
				if s != "" {
					// not (or no longer) explained by the classifier: generic signature stands
					if sig == c07KnownRC {
						sig, detail = s, d+where+" (in addition to "+c07KnownRC+")"
					}
					tr = append(tr, label+o)
					return false
				}
				if sig != c07KnownRC {
					sig, detail = c07KnownRC, detail+" [every other observation of the case equals the model]"
				}
			}
			tr = append(tr, label+o)
			return true
		}
		rule := "initial"
		if !check("start: ", rule, 0, false, "at-start", "") {
			return
		}
		// give every member non-initial handler state, so that "state kept" (Resume) and "fresh
		// state" (Restart) differ from the first fault on
		for i := 0; i < 2; i++ {
			if err := Tell(ctx, f.c[i], &c07Inc{}); err != nil {
				panic(err)
			}
			m.c[i].counter++
			alt.c[i].counter++
		}
		vfSettle()
		if !check("inc: ", rule, 0, false, "at-start", "") {
			return
		}
		for _, st := range seq {
			sleep(st.gap)
			if !m.enabled(st) {
				panic("c07: sequence not enabled in the model (enumeration bug)")
			}
			if err := Tell(ctx, f.c[st.target], &c07Fail{kind: st.kind}); err != nil {
				sig, detail = rule+"-then-running-member-rejects-message", fmt.Sprintf("Tell(%s): %v", st, err)
				return
			}
			vfSettle()
			var cut bool
			rule, cut = m.fail(st.target, st.kind)
			alt.fail(st.target, st.kind)
			sleep(c07Quantum)
			steps++
			if !check(st.String()+" => "+rule+": ", rule, st.target, cut, "after-fault", " after "+st.String()) {
				return
			}
			if cut {
				return
			}
			// later messages: every running member handles an increment
			for i := 0; i < 2; i++ {
				if m.c[i].running {
					if err := Tell(ctx, f.c[i], &c07Inc{}); err != nil {
						sig, detail = rule+"-then-running-member-rejects-message", fmt.Sprintf("Tell(C%d, inc) after %s: %v", i+1, st, err)
						return
					}
					m.c[i].counter++
					alt.c[i].counter++
				}
			}
			vfSettle()
			if !check("inc: ", rule, st.target, false, "after-later-message", " after "+st.String()+" and one increment to every running member") {
				return
			}
		}
		// delayed restarts: the model knows when each one is due ("The nth consecutive restart is
		// delayed by min(initialDelay << (n-1), maxDelay)"); look at the family 10ms before and 30ms
		// after every due time, so that the length of the delay is compared too
		last := seq[len(seq)-1].target
		for {
			next := time.Duration(-1)
			for i := range m.c {
				if g := m.c[i]; g.exists && g.pendingAt >= 0 && (next < 0 || g.pendingAt < next) {
					next = g.pendingAt
				}
			}
			if next < 0 {
				break
			}
			if d := next - 10*time.Millisecond - m.now; d > 0 {
				sleep(d)
				if !check("before-due: ", rule, last, false, "before-delayed-restart-is-due", " 10ms before the delayed restart is due") {
					return
				}
			}
			sleep(next + 30*time.Millisecond - m.now)
			if !check("after-due: ", rule, last, false, "after-delayed-restart-is-due", " 30ms after the delayed restart is due") {
				return
			}
		}
		// finally nothing may change any more
		sleep(2 * time.Second)
		check("end: ", rule, last, false, "at-the-end", " 2s after the last fault or delayed restart")
	})
	if p != nil {
		return "harness-panic", fmt.Sprintf("%v", p), strings.Join(tr, " / "), steps
	}
	return sig, detail, strings.Join(tr, " / "), steps
}

// c07Enabled replays seq on the model alone: the sequence belongs to the domain when every step is
// enabled and no step follows a cut.
func c07Enabled(cfg c07Config, seq []c07Step) bool {
	m := c07NewModel(cfg)
	for i, st := range seq {
		m.advance(st.gap)
		if !m.enabled(st) {
			return false
		}
		_, cut := m.fail(st.target, st.kind)
		m.advance(c07Quantum)
		if cut && i != len(seq)-1 {
			return false
		}
	}
	return true
}

// c07CrashLoops returns the steady crash loops of a configuration with a positive-window restart
// budget: every sequence of exactly three faults that all resolve to the Restart directive, the
// second and third one arriving 300ms or 700ms after the previous step (300ms < backoff window
// 400ms, 700ms < retry window 1s, so consecutive faults are inside the window while the streak as a
// whole outlasts it: "the fault-free period after which the consecutive failure counter resets" is
// measured from the LATEST fault).
// allKinds == false (quick tier): only the first failure kind that resolves to Restart is used.
func c07CrashLoops(cfg c07Config, allKinds bool) [][]c07Step {
	if !cfg.retry.set || cfg.retry.timeout <= 0 {
		return nil
	}
	var faults []c07Step
	for t := 0; t < 2; t++ {
		for k := c07Kind(0); k < c07NumKinds; k++ {
			if d, ok := cfg.lookup(k); ok && d == supervisor.RestartDirective {
				faults = append(faults, c07Step{target: t, kind: k})
				if !allKinds {
					break
				}
			}
		}
	}
	gaps := []time.Duration{300 * time.Millisecond, 700 * time.Millisecond}
	var out [][]c07Step
	for _, a := range faults {
		for _, b := range faults {
			for _, gb := range gaps {
				for _, c := range faults {
					for _, gc := range gaps {
						b2, c2 := b, c
						b2.gap, c2.gap = gb, gc
						out = append(out, []c07Step{a, b2, c2})
					}
				}
			}
		}
	}
	return out
}

func TestVerifC07(t *testing.T) {
	defer vsched.Finish(t)
	maxLen := vsched.Pick(2, 3)
	gaps := vsched.Pick([]time.Duration{0, 2 * time.Second}, []time.Duration{0, 700 * time.Millisecond, 2 * time.Second})
	cfgs := c07Configs()
	seqs := c07Sequences(maxLen, gaps)
	run := func(e *vsched.Enum, cfg c07Config, seq []c07Step) {
		in := cfg.String() + " :: " + c07SeqString(seq)
		sig, detail, trace, steps := c07Run(t, cfg, seq)
		if sig != "" {
			e.Fail(sig, in, "%s\n  config: %s\n  faults: %s\n  trace: %s", detail, cfg, c07SeqString(seq), trace)
		}
		e.Case(in, trace, steps+1, len(seq) >= 2)
	}
	e := vsched.NewEnum("supervision-config-x-fault-sequences", map[string]any{
		"configs": len(cfgs), "max_sequence_len": maxLen, "sequences_before_pruning": len(seqs),
		"family": "G -> P -> {C1,C2}", "faults": "Err(c07ErrA) | Err(c07ErrB) | panic(error)", "gaps": fmt.Sprint(gaps),
	})
	for _, cfg := range cfgs {
		for _, seq := range seqs {
			if !c07Enabled(cfg, seq) {
				continue
			}
			if !e.Mine() {
				continue
			}
			run(e, cfg, seq)
		}
	}
	e.Done()

	e2 := vsched.NewEnum("restart-budget-crash-loops", map[string]any{
		"configs": "every configuration with WithRetry(n>0, 1s)", "sequence_len": 3, "gaps": "300ms | 700ms (second and third fault)",
		"faults": vsched.Pick("C1/C2 x the first failure kind that resolves to the Restart directive", "C1/C2 x every failure kind that resolves to the Restart directive"),
	})
	for _, cfg := range cfgs {
		for _, seq := range c07CrashLoops(cfg, vsched.Pick(false, true)) {
			if !c07Enabled(cfg, seq) {
				continue
			}
			if !e2.Mine() {
				continue
			}
			run(e2, cfg, seq)
		}
	}
	e2.Done()
}
