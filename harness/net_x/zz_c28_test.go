//go:build verif

package net

import (
	"context"
	"fmt"
	"net"
	"strings"
	"sync"
	"testing"
	"time"

	"google.golang.org/protobuf/proto"
	"google.golang.org/protobuf/reflect/protoreflect"
	"google.golang.org/protobuf/types/known/wrapperspb"

	"github.com/tochemey/goakt/v4/internal/verif/vsched"
	"github.com/tochemey/goakt/v4/internal/verif/vsync"
)

// C28 (transport part) — concurrent request/response exchanges over the REAL inet.Client connection
// pool each get the response to their own request or an error; SendBatchProto returns its responses
// in request order; a connection that sits in the idle pool never has bytes of an earlier exchange
// in transit or promised to it.
//
// Client side: the real Client (Get/Put/Discard, SendProto, SendBatchProto, readProtoFrame,
// unmarshalProtoResponse, the real bufferedConn read side). Its idle pool is pre-seeded (in-package)
// with m in-memory connections; the address has no port, so a dial fails at once and a caller that
// finds the pool empty gets an error (allowed by the property).
// Server side: the REAL ProtoServer.handleConn read/dispatch/write loop on the other end of each
// connection, with a handler that parks every request until the harness lets it answer with
// "re:<request id>": the responder's delay is an enumerated event.
// Connection = two net.Pipe pairs joined by two pump goroutines with an unbounded buffer in between
// (c28Link), which gives the buffering of a TCP socket: pipelined frames of a batch do not deadlock
// and a reply written after the client gave up is kept in transit, exactly the bytes that must never
// reach the next user of a pooled connection. Deadlines work on both ends (pipe deadlines).
//
// Events: start(caller j) — caller j issues its next operation; reply(conn i) — the parked handler
// of conn i answers; faults (cost 1): the callers' deadline passes (virtual time +1s), the server
// closes conn i instead of answering, the server answers conn i but the connection is cut in the
// middle of the reply frame, a caller cancels the context of its in-flight batch. After each event the bubble is settled.

type c28Pump struct {
	mu       sync.Mutex
	inflight int // bytes read from the source and not yet written to the destination
}

type c28Link struct {
	idx      int
	cli, srv net.Conn // ends used by the client / the server
	a, b     net.Conn // inner ends used by the pumps
	c2s, s2c *c28Pump
	cutS2C   int // >0: the server->client pump forwards only this many more bytes, then cuts the link
	wg       sync.WaitGroup
}

func c28NewLink(idx int) *c28Link {
	l := &c28Link{idx: idx, c2s: &c28Pump{}, s2c: &c28Pump{}, cutS2C: -1}
	l.cli, l.a = net.Pipe()
	l.b, l.srv = net.Pipe()
	l.wg.Add(4)
	l.pump(l.a, l.b, l.c2s, false)
	l.pump(l.b, l.a, l.s2c, true)
	return l
}

func (l *c28Link) closeAll() {
	_ = l.cli.Close()
	_ = l.a.Close()
	_ = l.b.Close()
	_ = l.srv.Close()
}

func (l *c28Link) pump(src, dst net.Conn, p *c28Pump, s2c bool) {
	ch := make(chan []byte, 1024)
	go func() {
		defer l.wg.Done()
		buf := make([]byte, 64<<10)
		for {
			n, err := src.Read(buf)
			if n > 0 {
				p.mu.Lock()
				p.inflight += n
				p.mu.Unlock()
				ch <- append([]byte(nil), buf[:n]...)
			}
			if err != nil {
				close(ch)
				return
			}
		}
	}()
	go func() {
		defer l.wg.Done()
		dead := false
		for chunk := range ch {
			if !dead {
				if s2c {
					p.mu.Lock()
					cut := l.cutS2C
					p.mu.Unlock()
					if cut >= 0 && cut < len(chunk) {
						// the link breaks in the middle of this chunk: both directions see the peer go away
						_, _ = dst.Write(chunk[:cut])
						dead = true
						_ = l.a.Close()
						_ = l.b.Close()
					} else if cut >= 0 {
						p.mu.Lock()
						l.cutS2C -= len(chunk)
						p.mu.Unlock()
					}
				}
				if !dead {
					// A failed write means the destination's user closed its end. The data is dropped; the
					// close itself travels in the other pump (EOF after the data already in transit, as
					// with TCP), so that what the peer still reads does not depend on goroutine timing.
					if _, err := dst.Write(chunk); err != nil {
						dead = true
					}
				}
			}
			p.mu.Lock()
			p.inflight -= len(chunk)
			p.mu.Unlock()
		}
		_ = dst.Close() // the source reached EOF: pass it on after the buffered data
	}()
}

func (p *c28Pump) pending() int {
	p.mu.Lock()
	defer p.mu.Unlock()
	return p.inflight
}

// ---------------------------------------------------------------------------------------------

type c28Cmd int

const (
	c28Reply c28Cmd = iota
	c28Close
	c28Cut
)

type c28Parked struct {
	link *c28Link
	id   string
	cmd  chan c28Cmd
}

type c28Server struct {
	mu     sync.Mutex
	ps     *ProtoServer
	parked []*c28Parked
	byConn map[net.Conn]*c28Link
	wg     sync.WaitGroup
	log    []string
	auto   bool // answer at once (fine-grained scenarios: no responder events)
}

func c28NewServer() *c28Server {
	s := &c28Server{byConn: map[net.Conn]*c28Link{}}
	s.ps = &ProtoServer{
		handlers:     map[protoreflect.FullName]ProtoHandler{},
		serializer:   NewProtoSerializer(),
		framePool:    NewFramePool(),
		maxFrameSize: defaultMaxFrameSize,
		server:       &TCPServer{ctx: context.Background()},
	}
	s.ps.handlers[proto.MessageName(&wrapperspb.StringValue{})] = s.handle
	return s
}

type c28ClosedByServer struct{}

func (c28ClosedByServer) Error() string { return "server closes the connection" }

func (s *c28Server) handle(ctx context.Context, conn Connection, req proto.Message) (proto.Message, error) {
	if s.auto {
		return wrapperspb.String("re:" + req.(*wrapperspb.StringValue).GetValue()), nil
	}
	s.mu.Lock()
	l := s.byConn[conn.NetConn()]
	pk := &c28Parked{link: l, id: req.(*wrapperspb.StringValue).GetValue(), cmd: make(chan c28Cmd)}
	s.parked = append(s.parked, pk)
	s.mu.Unlock()
	cmd := <-pk.cmd
	s.mu.Lock()
	for i, x := range s.parked {
		if x == pk {
			s.parked = append(s.parked[:i:i], s.parked[i+1:]...)
			break
		}
	}
	s.mu.Unlock()
	switch cmd {
	case c28Close:
		return nil, c28ClosedByServer{}
	case c28Cut:
		l.s2c.mu.Lock()
		l.cutS2C = 9 // the length prefix, the name length and one byte of the type name get through
		l.s2c.mu.Unlock()
	}
	return wrapperspb.String("re:" + pk.id), nil
}

// serve runs the real per-connection loop of the ProtoServer on the link's server end (what
// TCPServer.serveConn does around the request handler, minus accounting).
func (s *c28Server) serve(l *c28Link) {
	s.mu.Lock()
	s.byConn[l.srv] = l
	s.mu.Unlock()
	s.wg.Add(1)
	go func() {
		defer s.wg.Done()
		conn := &TCPConn{}
		conn.Reset(l.srv)
		conn.Start()
		s.ps.handleConn(conn)
		_ = conn.Close()
	}()
}

func (s *c28Server) parkedList() []*c28Parked {
	s.mu.Lock()
	defer s.mu.Unlock()
	return append([]*c28Parked(nil), s.parked...)
}

// ---------------------------------------------------------------------------------------------

type c28Op struct {
	batch   []string // request ids (one id = SendProto, several = SendBatchProto)
	timeout time.Duration
	cancel  bool // the caller's context can be cancelled while the operation is in flight (event)
}

type c28Result struct {
	op   c28Op
	got  []string
	err  error
	done bool
}

type c28Scenario struct {
	name  string
	conns int
	ops   [][]c28Op // per caller
	bound int
}

func c28Run(t *testing.T, sc c28Scenario, c *vsched.Chooser) (out vsched.Outcome) {
	vsync.ResetPools()
	p := vsched.Bubble(t, func() {
		srv := c28NewServer()
		cl := NewClient("c28-no-dial", WithMaxIdleConns(sc.conns))
		links := make([]*c28Link, sc.conns)
		byClientConn := map[net.Conn]*c28Link{}
		for i := range links {
			links[i] = c28NewLink(i)
			srv.serve(links[i])
			bc := newBufferedConn(links[i].cli)
			byClientConn[bc] = links[i]
			cl.Put(bc)
		}
		var cmdChans []chan int
		defer func() { // a panic of the root goroutine must not leave blocked goroutines behind
			if p := recover(); p != nil {
				for _, ch := range cmdChans {
					close(ch)
				}
				for _, pk := range srv.parkedList() {
					select {
					case pk.cmd <- c28Close:
					default:
					}
				}
				for _, l := range links {
					l.closeAll()
				}
				_ = cl.Close()
				time.Sleep(time.Minute)
				panic(p)
			}
		}()
		var mu sync.Mutex
		type caller struct {
			cmd      chan int
			next     int
			busy     bool
			res      []*c28Result
			cancelFn func() // non-nil while a cancellable operation is in flight and not yet cancelled
		}
		callers := make([]*caller, len(sc.ops))
		var cwg sync.WaitGroup
		for j := range callers {
			cr := &caller{cmd: make(chan int)}
			callers[j] = cr
			cmdChans = append(cmdChans, cr.cmd)
			for _, op := range sc.ops[j] {
				cr.res = append(cr.res, &c28Result{op: op})
			}
			cwg.Add(1)
			go func() {
				defer cwg.Done()
				for k := range cr.cmd {
					r := cr.res[k]
					ctx, cancel := context.Background(), func() {}
					if r.op.timeout > 0 {
						ctx, cancel = context.WithTimeout(ctx, r.op.timeout)
					}
					if r.op.cancel {
						var cf context.CancelFunc
						ctx, cf = context.WithCancel(ctx)
						mu.Lock()
						cr.cancelFn = cf
						mu.Unlock()
					}
					var got []string
					var err error
					if len(r.op.batch) == 1 {
						var resp proto.Message
						resp, err = cl.SendProto(ctx, wrapperspb.String(r.op.batch[0]))
						if err == nil {
							got = []string{c28Show(resp)}
						}
					} else {
						reqs := make([]proto.Message, len(r.op.batch))
						for i, id := range r.op.batch {
							reqs[i] = wrapperspb.String(id)
						}
						var resps []proto.Message
						resps, err = cl.SendBatchProto(ctx, reqs)
						if err == nil {
							for _, x := range resps {
								got = append(got, c28Show(x))
							}
						}
					}
					cancel()
					mu.Lock()
					r.got, r.err, r.done = got, err, true
					cr.busy = false
					if cr.cancelFn != nil {
						cr.cancelFn()
						cr.cancelFn = nil
					}
					mu.Unlock()
				}
			}()
		}
		var v []vsched.Violation
		var trace []string
		seen := map[string]bool{}
		poolCheck := func() {
			cl.mu.Lock()
			idle := append([]idleConn(nil), cl.idle...)
			cl.mu.Unlock()
			for _, ic := range idle {
				l := byClientConn[ic.conn]
				if l == nil {
					continue
				}
				promised := 0
				for _, pk := range srv.parkedList() {
					if pk.link == l {
						promised++
					}
				}
				buffered := 0
				if bc, ok := ic.conn.(*bufferedConn); ok && bc.reader != nil {
					buffered = bc.reader.Buffered()
				}
				if (promised > 0 || l.s2c.pending() > 0 || l.c2s.pending() > 0 || buffered > 0) && !seen["pool"] {
					seen["pool"] = true
					v = append(v, vsched.Fail("pooled-connection-carries-bytes-of-an-earlier-exchange", "conn%d sits in the idle pool while an earlier exchange is unfinished on it: requests still to be answered=%d, reply bytes in transit=%d, request bytes in transit=%d, read-ahead=%d; trace: %s", l.idx, promised, l.s2c.pending(), l.c2s.pending(), buffered, strings.Join(trace, " | ")))
				}
			}
		}
		timeouts := false
		for _, ops := range sc.ops {
			for _, op := range ops {
				timeouts = timeouts || op.timeout > 0
			}
		}
		type ev struct {
			name string
			cost int
			fire func()
		}
		advanced := 0
		for step := 0; step < 100; step++ {
			var zero, faults []ev
			mu.Lock()
			inflightWithDeadline := false
			for j, cr := range callers {
				if !cr.busy && cr.next < len(cr.res) {
					cr, j := cr, j
					zero = append(zero, ev{name: fmt.Sprintf("start c%d %v", j, cr.res[cr.next].op.batch), fire: func() {
						mu.Lock()
						cr.busy = true
						k := cr.next
						cr.next++
						mu.Unlock()
						cr.cmd <- k
					}})
				}
				if cr.busy && cr.res[cr.next-1].op.timeout > 0 {
					inflightWithDeadline = true
				}
				if cr.busy && cr.cancelFn != nil {
					cr, j := cr, j
					faults = append(faults, ev{name: fmt.Sprintf("fault caller c%d cancels its context", j), cost: 1, fire: func() {
						mu.Lock()
						cf := cr.cancelFn
						cr.cancelFn = nil
						mu.Unlock()
						if cf != nil {
							cf()
						}
					}})
				}
			}
			mu.Unlock()
			for _, pk := range srv.parkedList() {
				pk := pk
				zero = append(zero, ev{name: fmt.Sprintf("reply conn%d %s", pk.link.idx, pk.id), fire: func() { pk.cmd <- c28Reply }})
				faults = append(faults, ev{name: fmt.Sprintf("fault server-closes conn%d at %s", pk.link.idx, pk.id), cost: 1, fire: func() { pk.cmd <- c28Close }})
				faults = append(faults, ev{name: fmt.Sprintf("fault reply-cut conn%d at %s", pk.link.idx, pk.id), cost: 1, fire: func() { pk.cmd <- c28Cut }})
			}
			if timeouts && inflightWithDeadline && advanced < 2 {
				faults = append(faults, ev{name: "fault deadline-passes(+1s)", cost: 1, fire: func() { advanced++; time.Sleep(time.Second) }})
			}
			if len(zero) == 0 {
				break // only faults left: nothing in flight can make progress by itself; end of the execution
			}
			evs := append(zero, faults...)
			costs := make([]int, len(evs))
			for i := range evs {
				costs[i] = evs[i].cost
			}
			pick := c.Choose("event", len(evs), costs, func(i int) string { return evs[i].name })
			trace = append(trace, evs[pick].name)
			evs[pick].fire()
			vsched.Settle()
			poolCheck()
		}
		// teardown: let everything finish. Callers without a deadline that still wait are released by
		// closing the links (they get an error).
		for _, pk := range srv.parkedList() {
			pk.cmd <- c28Close
		}
		vsched.Settle()
		for _, l := range links {
			l.closeAll()
		}
		_ = cl.Close()
		vsched.Settle()
		for _, cr := range callers {
			close(cr.cmd)
		}
		cwg.Wait()
		srv.wg.Wait()
		for _, l := range links {
			l.wg.Wait()
		}
		// oracle
		var b strings.Builder
		for j, cr := range callers {
			for k, r := range cr.res {
				if k >= cr.next {
					b.WriteString("-;")
					continue
				}
				if !r.done {
					v = append(v, vsched.Fail("exchange-never-returned", "c%d op %v; trace: %s", j, r.op.batch, strings.Join(trace, " | ")))
					continue
				}
				if r.err != nil {
					b.WriteString("err;")
					continue
				}
				b.WriteString(strings.Join(r.got, ",") + ";")
				if len(r.got) != len(r.op.batch) {
					v = append(v, vsched.Fail("wrong-number-of-responses", "c%d sent %v and got %v; trace: %s", j, r.op.batch, r.got, strings.Join(trace, " | ")))
					continue
				}
				for i, id := range r.op.batch {
					if r.got[i] == "re:"+id {
						continue
					}
					own := false
					for _, other := range r.op.batch {
						own = own || r.got[i] == "re:"+other
					}
					if own {
						v = append(v, vsched.Fail("batch-responses-out-of-request-order", "c%d sent %v and got %v; trace: %s", j, r.op.batch, r.got, strings.Join(trace, " | ")))
					} else {
						v = append(v, vsched.Fail("caller-received-another-requests-response", "c%d sent %v and got %v (position %d); trace: %s", j, r.op.batch, r.got, i, strings.Join(trace, " | ")))
					}
					break
				}
			}
			b.WriteString("/")
		}
		out.Violations = v
		out.Obs = b.String()
	})
	if p != nil {
		out.Violations = append(out.Violations, vsched.Fail("panic", "panic in execution: %v", p))
	}
	return out
}

// c28PointConn adds explicit scheduling points before every Read and Write of a client-side
// connection (outside the bufferedConn, whose mutex would otherwise be held at the point), so that two callers that (wrongly) hold the same connection are interleaved between
// their writes and reads.
type c28PointConn struct{ net.Conn }

func (c c28PointConn) Read(p []byte) (int, error) {
	vsched.Point("conn-read")
	return c.Conn.Read(p)
}

func (c c28PointConn) Write(p []byte) (int, error) {
	vsched.Point("conn-write")
	return c.Conn.Write(p)
}

// c28Fine — thread interleavings of the pool operations (Get/Put/Discard under Client.mu, the closed
// flag) of concurrent SendProto calls, under the controlled scheduler: points at the shimmed
// sync/atomic operations of client.go and before every read/write of a client connection; the server
// answers at once. Each caller must get its own
// reply or an error (pool empty -> dial error), and at the end no pooled connection may hold bytes.
func c28Fine(t *testing.T, name string, conns int, ops [][]string, c *vsched.Chooser) (out vsched.Outcome) {
	vsync.ResetPools()
	p := vsched.Bubble(t, func() {
		srv := c28NewServer()
		srv.auto = true
		cl := NewClient("c28-no-dial", WithMaxIdleConns(conns))
		links := make([]*c28Link, conns)
		for i := range links {
			links[i] = c28NewLink(i)
			srv.serve(links[i])
			cl.Put(c28PointConn{newBufferedConn(links[i].cli)})
		}
		s := vsched.New(c)
		s.Scope = func(file, fn string) bool { return strings.HasSuffix(file, "internal/net/client.go") }
		s.MaxSteps = 3000
		var mu sync.Mutex
		type res struct {
			id, got string
			err     error
		}
		var results []res
		for j, ids := range ops {
			ids := ids
			s.Go(fmt.Sprintf("caller%d", j), func() {
				for _, id := range ids {
					resp, err := cl.SendProto(context.Background(), wrapperspb.String(id))
					r := res{id: id, err: err}
					if err == nil {
						r.got = c28Show(resp)
					}
					mu.Lock()
					results = append(results, r)
					mu.Unlock()
				}
			})
		}
		s.Cleanup(func() {
			for _, l := range links {
				l.closeAll()
			}
		})
		s.Start()
		s.Run()
		s.Stop()
		vsched.Settle()
		var v []vsched.Violation
		for _, tp := range s.ThreadPanics {
			v = append(v, vsched.Fail("panic-in-thread", "%s", tp))
		}
		if s.Deadlock || s.Livelock {
			v = append(v, vsched.Fail("exchange-never-returned", "blocked: %v", s.Blocked))
		}
		if s.Wedged != "" {
			out.Invalid = "wedged: " + s.Wedged
		}
		cl.mu.Lock()
		idle := append([]idleConn(nil), cl.idle...)
		cl.mu.Unlock()
		seen := map[net.Conn]bool{}
		for _, ic := range idle {
			if seen[ic.conn] {
				v = append(v, vsched.Fail("connection-pooled-twice", "the same connection sits in the idle pool twice"))
			}
			seen[ic.conn] = true
			inner := ic.conn
			if pc, ok := inner.(c28PointConn); ok {
				inner = pc.Conn
			}
			if bc, ok := inner.(*bufferedConn); ok && bc.reader != nil && bc.reader.Buffered() > 0 {
				v = append(v, vsched.Fail("pooled-connection-carries-bytes-of-an-earlier-exchange", "read-ahead of %d bytes on an idle connection", bc.reader.Buffered()))
			}
		}
		for _, l := range links {
			if l.s2c.pending() > 0 {
				v = append(v, vsched.Fail("pooled-connection-carries-bytes-of-an-earlier-exchange", "conn%d: %d reply bytes in transit at the end", l.idx, l.s2c.pending()))
			}
		}
		mu.Lock()
		var b strings.Builder
		for _, r := range results {
			switch {
			case r.err != nil:
				fmt.Fprintf(&b, "%s=err;", r.id)
			case r.got != "re:"+r.id:
				v = append(v, vsched.Fail("caller-received-another-requests-response", "request %s got %s", r.id, r.got))
			default:
				fmt.Fprintf(&b, "%s=ok;", r.id)
			}
		}
		mu.Unlock()
		out.Violations = v
		out.Obs = b.String() + fmt.Sprintf("idle=%d", len(idle))
		for _, l := range links {
			l.closeAll()
		}
		_ = cl.Close()
		vsched.Settle()
		srv.wg.Wait()
		for _, l := range links {
			l.wg.Wait()
		}
	})
	if p != nil {
		out.Violations = append(out.Violations, vsched.Fail("panic", "panic in execution: %v", p))
	}
	return out
}

func c28Show(m proto.Message) string {
	if s, ok := m.(*wrapperspb.StringValue); ok {
		return s.GetValue()
	}
	return fmt.Sprintf("<%T>", m)
}

func TestVerifC28(t *testing.T) {
	defer vsched.Finish(t)
	r := vsched.Rep()
	r.Assumption("events are atomic (the system runs to quiescence after each); in-memory connections with unbounded buffering stand in for TCP sockets; the server end runs the real ProtoServer.handleConn loop")
	one := func(id string, to time.Duration) c28Op { return c28Op{batch: []string{id}, timeout: to} }
	b := vsched.Pick(1, 2)
	scs := []c28Scenario{
		// 3 callers over 2 pooled connections; a1 and the batch carry a deadline (thorough: a second round reuses connections)
		{name: "3callers/2conns/ask+ask+batch", conns: 2, bound: b, ops: [][]c28Op{
			{one("a1", time.Second)},
			{one("b1", 0)},
			{{batch: []string{"c1", "c2"}, timeout: time.Second, cancel: true}},
		}},
		// connection reuse after a timed out exchange: everything goes through a single pooled connection
		{name: "2callers/1conn/reuse-after-timeout", conns: 1, bound: b, ops: [][]c28Op{
			{one("a1", time.Second), one("a2", time.Second)},
			{one("b1", time.Second), {batch: []string{"b2", "b3"}, cancel: true}},
		}},
	}
	if r.Thorough() {
		scs = append(scs, c28Scenario{name: "3callers/2conns/ask,ask+ask+batch", conns: 2, bound: 2, ops: [][]c28Op{
			{one("a1", time.Second), one("a2", 0)},
			{one("b1", 0)},
			{{batch: []string{"c1", "c2"}, timeout: time.Second, cancel: true}},
		}})
		scs = append(scs, c28Scenario{name: "2callers/2conns/two-rounds", conns: 2, bound: 2, ops: [][]c28Op{
			{one("a1", time.Second), one("a2", time.Second)},
			{one("b1", 0), {batch: []string{"b2", "b3"}, timeout: time.Second, cancel: true}},
		}})
	}
	var all []vsched.Scenario
	for _, sc := range scs {
		sc := sc
		all = append(all, vsched.Scenario{
			Cfg: vsched.Config{Scenario: sc.name, Bound: sc.bound, Params: map[string]any{"pooled_conns": sc.conns, "callers": len(sc.ops)}},
			Run: func(c *vsched.Chooser) vsched.Outcome { return c28Run(t, sc, c) },
		})
	}
	fine := []struct {
		name  string
		conns int
		ops   [][]string
		bound int
	}{
		{"fine/3callers-x1/1conn", 1, [][]string{{"a1"}, {"b1"}, {"c1"}}, vsched.Pick(2, 3)},
		{"fine/2callers-x2/2conns", 2, [][]string{{"a1", "a2"}, {"b1", "b2"}}, vsched.Pick(2, 3)},
	}
	for _, f := range fine {
		f := f
		all = append(all, vsched.Scenario{
			Cfg: vsched.Config{Scenario: f.name, Bound: f.bound, Params: map[string]any{"pooled_conns": f.conns, "callers": len(f.ops), "points": "shimmed sync/atomic operations of internal/net/client.go"}},
			Run: func(c *vsched.Chooser) vsched.Outcome { return c28Fine(t, f.name, f.conns, f.ops, c) },
		})
	}
	vsched.ExploreAll(all)
}
