//go:build verif

package cluster

// C34 — membership events are emitted once and only after rebalancing settles.
//
// vsched.BFS over every history of notifications delivered to the real, in-package event tracking of
// `cluster` (handleClusterEvent with the JSON payloads olric publishes; the struct is built like the
// package's own newEventTestCluster: no olric, no memberlist, no sockets):
//   Join(p), Left(p)            p ∈ {self, a, b}
//   RebalanceStart(e, node-left), RebalanceStart(e, node-join, a), RebalanceStart(e, node-join, self)
//   RebalanceComplete(e)        e ∈ {1,2,3}
//   advance(T/2), advance(T)    T = nodeLeftEmitTimeout (virtual time of a synctest bubble; the
//                               overdue timers armed by time.AfterFunc fire exactly as in production)
// duplicates and arbitrary orders included by construction. After every notification the bubble is
// settled and the Events() channel drained; the emitted events feed monitors that state no more
// than the property:
//   M1 the local node never reports itself: no NodeJoined/NodeLeft whose address is the local one;
//   M2 at most one NodeLeft per departure: the first NodeLeft(p) needs a Left(p) notification before
//      it; between two NodeLeft(p) there must be an opposite event (a Join(p) notification or an
//      emitted NodeJoined(p)) — weakest reading of "until the opposite event";
//   M3 symmetric for NodeJoined(p) (opposite = Left(p) notification or emitted NodeLeft(p));
//   M4 NodeLeft(p) is emitted only when some node-left rebalance epoch has both its start and its
//      complete notification received (in any order, at any earlier point: the statement includes
//      reorderings, so an epoch that completed before the Left(p) notification arrived may be the
//      one covering it), or when at least T has elapsed since the earliest Left(p) notification that
//      is not already answered by an emitted NodeLeft(p).
// Nothing is required to be emitted (the statement bounds emissions, it does not demand them).

import (
	"encoding/json"
	"fmt"
	"os"
	"sort"
	"strconv"
	"strings"
	"testing"
	"time"

	goset "github.com/deckarep/golang-set/v2"
	"github.com/tochemey/olric/events"
	"go.uber.org/atomic"

	"github.com/tochemey/goakt/v4/discovery"
	"github.com/tochemey/goakt/v4/internal/verif/vsched"
	"github.com/tochemey/goakt/v4/log"
)

const (
	c34SelfHost = "127.0.0.1"
	c34SelfPort = 4000
	c34A        = "10.0.0.1:4000"
	c34B        = "10.0.0.2:4000"
	c34Stamp    = int64(946684800123456789)
)

var c34Self = fmt.Sprintf("%s:%d", c34SelfHost, c34SelfPort)

func c34Peers() []string { return []string{c34Self, c34A, c34B} }

func c34Name(p string) string {
	switch p {
	case c34Self:
		return "self"
	case c34A:
		return "a"
	case c34B:
		return "b"
	}
	return p
}

type c34Op struct {
	kind   int // 0 join, 1 left, 2 start, 3 complete, 4 advance
	p      string
	e      uint64
	reason string
	d      time.Duration
}

func (o c34Op) String() string {
	switch o.kind {
	case 0:
		return "Join(" + c34Name(o.p) + ")"
	case 1:
		return "Left(" + c34Name(o.p) + ")"
	case 2:
		return fmt.Sprintf("RebalanceStart(%d,%s,%s)", o.e, o.reason, c34Name(o.p))
	case 3:
		return fmt.Sprintf("RebalanceComplete(%d)", o.e)
	default:
		return "advance(" + o.d.String() + ")"
	}
}

var c34Payloads = map[string]string{}

func (o c34Op) payload() string {
	key := o.String()
	if s, ok := c34Payloads[key]; ok {
		return s
	}
	var v any
	switch o.kind {
	case 0:
		v = events.NodeJoinEvent{Kind: events.KindNodeJoinEvent, Source: "src", NodeJoin: o.p, Timestamp: c34Stamp}
	case 1:
		v = events.NodeLeftEvent{Kind: events.KindNodeLeftEvent, Source: "src", NodeLeft: o.p, Timestamp: c34Stamp}
	case 2:
		v = events.RebalanceStartEvent{Kind: events.KindRebalanceStartEvent, Source: "src", Epoch: o.e, Reason: o.reason, Node: o.p, Timestamp: c34Stamp}
	case 3:
		v = events.RebalanceCompleteEvent{Kind: events.KindRebalanceCompleteEvent, Source: "src", Epoch: o.e, Timestamp: c34Stamp}
	}
	b, err := json.Marshal(v)
	if err != nil {
		panic(err)
	}
	c34Payloads[key] = string(b)
	return string(b)
}

func c34Alphabet(peers []string, epochs int, selfJoinStart bool) []c34Op {
	var ops []c34Op
	for _, p := range peers {
		ops = append(ops, c34Op{kind: 0, p: p})
	}
	for _, p := range peers {
		ops = append(ops, c34Op{kind: 1, p: p})
	}
	for e := uint64(1); e <= uint64(epochs); e++ {
		ops = append(ops,
			c34Op{kind: 2, e: e, reason: rebalanceReasonNodeLeft, p: c34A},
			c34Op{kind: 2, e: e, reason: rebalanceReasonNodeJoin, p: c34A})
		if selfJoinStart {
			ops = append(ops, c34Op{kind: 2, e: e, reason: rebalanceReasonNodeJoin, p: c34Self})
		}
		ops = append(ops, c34Op{kind: 3, e: e})
	}
	return append(ops, c34Op{kind: 4, d: nodeLeftEmitTimeout / 2}, c34Op{kind: 4, d: nodeLeftEmitTimeout})
}

func c34NewCluster() *cluster {
	return &cluster{
		node:                    &discovery.Node{Host: c34SelfHost, PeersPort: c34SelfPort},
		events:                  make(chan *Event, defaultEventsBufSize),
		nodeJoinedEventsFilter:  goset.NewSet[string](),
		nodeLeftEventsFilter:    goset.NewSet[string](),
		nodeJoinTimestamps:      make(map[string]int64),
		nodeLeftTimestamps:      make(map[string]int64),
		rebalanceJoinNodeEpochs: make(map[string]uint64),
		rebalanceLeftNodeEpochs: make(map[string]uint64),
		rebalanceStartSeen:      make(map[uint64]struct{}),
		rebalanceCompleteSeen:   make(map[uint64]struct{}),
		logger:                  log.DiscardLogger,
		shutdownTimeout:         5 * time.Second,
		running:                 atomic.NewBool(true),
	}
}

// ---------------------------------------------------------------------------------------------
// monitors
// ---------------------------------------------------------------------------------------------

type c34PeerMon struct {
	leftNotifs    []time.Time // times of the Left(p) notifications received so far
	leftEmitted   int
	joinedEmitted int
	oppSinceLeft  bool      // an opposite event happened since the last emitted NodeLeft(p)
	oppSinceJoin  bool      // an opposite event happened since the last emitted NodeJoined(p)
	joinNotified  bool      // some Join(p) notification was received
	firstLeft     time.Time // earliest Left(p) notification not answered by an emitted NodeLeft(p)
	hasFirstLeft  bool
	leftSeq       int64  // position of that notification in the history
	latestAtLeft  uint64 // node-left epoch most recently started when it was received (0 = none)
}

type c34Mon struct {
	peers      map[string]*c34PeerMon
	startLeft  map[uint64]bool
	complete   map[uint64]bool
	atNotif    int64            // statistics: NodeLeft emitted while processing the Left notification itself
	seq        int64            // notifications received so far
	startAny   map[uint64]bool  // some start notification (any reason) of this epoch was received
	startSeq   map[uint64]int64 // position of the FIRST start notification of each node-left epoch
	latestLeft uint64           // node-left epoch whose first start notification is the most recent one
}

func c34NewMon() *c34Mon {
	m := &c34Mon{peers: map[string]*c34PeerMon{}, startLeft: map[uint64]bool{}, complete: map[uint64]bool{}, startSeq: map[uint64]int64{}, startAny: map[uint64]bool{}}
	for _, p := range c34Peers() {
		m.peers[p] = &c34PeerMon{}
	}
	return m
}

func (m *c34Mon) peer(p string) *c34PeerMon {
	pm := m.peers[p]
	if pm == nil {
		pm = &c34PeerMon{}
		m.peers[p] = pm
	}
	return pm
}

// notify records a delivered notification (before the emissions it causes are examined).
func (m *c34Mon) notify(o c34Op, now time.Time) {
	m.seq++
	switch o.kind {
	case 0:
		pm := m.peer(o.p)
		pm.joinNotified = true
		pm.oppSinceLeft = true
	case 1:
		pm := m.peer(o.p)
		pm.leftNotifs = append(pm.leftNotifs, now)
		pm.oppSinceJoin = true
		if !pm.hasFirstLeft {
			pm.hasFirstLeft, pm.firstLeft = true, now
			pm.leftSeq, pm.latestAtLeft = m.seq, m.latestLeft
		}
	case 2:
		// an epoch is identified by its number: a second start notification of an epoch already seen
		// (re-delivered, or carrying another reason) is not a new epoch
		if !m.startAny[o.e] && o.reason == rebalanceReasonNodeLeft {
			m.startSeq[o.e] = m.seq
			m.latestLeft = o.e
		}
		if o.reason == rebalanceReasonNodeLeft || o.reason == rebalanceReasonNodeJoin {
			m.startAny[o.e] = true
		}
		if o.reason == rebalanceReasonNodeLeft {
			m.startLeft[o.e] = true
		}
	case 3:
		m.complete[o.e] = true
	}
}

func (m *c34Mon) settledLeftEpoch() (uint64, bool) {
	for e := uint64(1); e <= 8; e++ {
		if m.startLeft[e] && m.complete[e] {
			return e, true
		}
	}
	return 0, false
}

// emitted checks one emitted event.
func (m *c34Mon) emitted(ev *Event, now time.Time) []vsched.Violation {
	var v []vsched.Violation
	switch pl := ev.Payload.(type) {
	case *NodeLeftEvent:
		p := pl.Address
		pm := m.peer(p)
		if p == c34Self {
			v = append(v, vsched.Fail("local-node-reported-as-left", "NodeLeft emitted with the local node's own address %s", p))
		}
		switch {
		case len(pm.leftNotifs) == 0:
			v = append(v, vsched.Fail("nodeleft-without-departure", "NodeLeft(%s) emitted but no Left(%s) notification was ever received", c34Name(p), c34Name(p)))
		case pm.leftEmitted > 0 && !pm.oppSinceLeft:
			v = append(v, vsched.Fail("nodeleft-emitted-twice-for-one-departure", "second NodeLeft(%s) with neither a Join(%s) notification nor an emitted NodeJoined(%s) since the previous one", c34Name(p), c34Name(p), c34Name(p)))
		}
		_, settled := m.settledLeftEpoch()
		overdue := pm.hasFirstLeft && now.Sub(pm.firstLeft) >= nodeLeftEmitTimeout
		// "the rebalance epoch covering it": a settled node-left epoch covers the departure when its
		// (first) start notification arrived after the Left notification, or when it was the most
		// recently started node-left epoch at the time the Left notification arrived (notifications
		// may be reordered, so the departure's own rebalance can start before its Left arrives).
		// A settled epoch that is older than both is not the departure's epoch.
		if settled && !overdue && pm.hasFirstLeft {
			covered := false
			for e := uint64(1); e <= 8; e++ {
				if _, first := m.startSeq[e]; first && m.complete[e] && (m.startSeq[e] > pm.leftSeq || e == pm.latestAtLeft) {
					covered = true
				}
			}
			if !covered {
				v = append(v, vsched.Fail("nodeleft-justified-only-by-an-older-epoch", "NodeLeft(%s) emitted although every settled node-left epoch had started before its Left notification and was not the latest one then (starts %v, completes %v, latest at Left = %d)", c34Name(p), m.startLeft, m.complete, pm.latestAtLeft))
			}
		}
		if !settled && !overdue && len(pm.leftNotifs) > 0 {
			since := "n/a"
			if pm.hasFirstLeft {
				since = now.Sub(pm.firstLeft).String()
			}
			v = append(v, vsched.Fail("nodeleft-before-rebalance-complete-or-timeout", "NodeLeft(%s) emitted %s after its Left notification (timeout %s) while no node-left rebalance epoch has both start and complete received (starts %v, completes %v)",
				c34Name(p), since, nodeLeftEmitTimeout, c34Set(m.startLeft), c34Set(m.complete)))
		}
		pm.leftEmitted++
		pm.oppSinceLeft = false
		pm.oppSinceJoin = true
		pm.hasFirstLeft = false
	case *NodeJoinedEvent:
		p := pl.Address
		pm := m.peer(p)
		if p == c34Self {
			v = append(v, vsched.Fail("local-node-reported-as-joined", "NodeJoined emitted with the local node's own address %s", p))
		}
		switch {
		case !pm.joinNotified:
			v = append(v, vsched.Fail("nodejoined-without-arrival", "NodeJoined(%s) emitted but no Join(%s) notification was ever received", c34Name(p), c34Name(p)))
		case pm.joinedEmitted > 0 && !pm.oppSinceJoin:
			v = append(v, vsched.Fail("nodejoined-emitted-twice-for-one-arrival", "second NodeJoined(%s) with neither a Left(%s) notification nor an emitted NodeLeft(%s) since the previous one", c34Name(p), c34Name(p), c34Name(p)))
		}
		pm.joinedEmitted++
		pm.oppSinceJoin = false
		pm.oppSinceLeft = true
	case *LeaderChangedEvent:
		// not part of the property (and impossible here: no engine client)
	default:
		v = append(v, vsched.Fail("unknown-event-emitted", "%T", ev.Payload))
	}
	return v
}

func c34Set(m map[uint64]bool) []uint64 {
	var s []uint64
	for e := range m {
		s = append(s, e)
	}
	sort.Slice(s, func(i, j int) bool { return s[i] < s[j] })
	return s
}

func c34SortedKeys[V any](m map[string]V) []string {
	s := make([]string, 0, len(m))
	for k := range m {
		s = append(s, k)
	}
	sort.Strings(s)
	return s
}

// c34Canon dumps (a) every private field of the tracking logic that its future depends on — the two
// filters, the pending join/left maps (keys only: the stored timestamps are the constant payload
// timestamp and are only copied into events), the node->epoch assignments, the latest epochs and the
// start/complete de-duplication sets; (b) the pending timers, represented implementation-independently
// by the ages (< T) of all Left(p) notifications (a timer can only have been armed by such a
// notification and fires T after it; older ones have fired); (c) the monitors' own state. Not dumped:
// lastRebalanceEventNanos (read only by LastRebalanceEvent, outside the property), lastCoordinatorAddr
// (constant: no engine client), the already drained events channel. Everything is dumped relative
// to the current virtual time; the code uses time only through the AfterFunc delays.
func c34Canon(cl *cluster, m *c34Mon, now time.Time) string {
	var b strings.Builder
	cl.eventsLock.Lock()
	jf := cl.nodeJoinedEventsFilter.ToSlice()
	lf := cl.nodeLeftEventsFilter.ToSlice()
	sort.Strings(jf)
	sort.Strings(lf)
	fmt.Fprintf(&b, "jf%v lf%v pj%v pl%v", jf, lf, c34SortedKeys(cl.nodeJoinTimestamps), c34SortedKeys(cl.nodeLeftTimestamps))
	b.WriteString(" je[")
	for _, k := range c34SortedKeys(cl.rebalanceJoinNodeEpochs) {
		fmt.Fprintf(&b, "%s=%d ", k, cl.rebalanceJoinNodeEpochs[k])
	}
	b.WriteString("] le[")
	for _, k := range c34SortedKeys(cl.rebalanceLeftNodeEpochs) {
		fmt.Fprintf(&b, "%s=%d ", k, cl.rebalanceLeftNodeEpochs[k])
	}
	ss := map[uint64]bool{}
	for e := range cl.rebalanceStartSeen {
		ss[e] = true
	}
	cs := map[uint64]bool{}
	for e := range cl.rebalanceCompleteSeen {
		cs[e] = true
	}
	fmt.Fprintf(&b, "] lj%d ll%d ss%v cs%v", cl.rebalanceJoinLatestEpoch, cl.rebalanceLeftLatestEpoch, c34Set(ss), c34Set(cs))
	cl.eventsLock.Unlock()
	b.WriteString(" |M sl")
	fmt.Fprintf(&b, "%v c%v", c34Set(m.startLeft), c34Set(m.complete))
	for _, p := range c34Peers() {
		pm := m.peers[p]
		fmt.Fprintf(&b, " %s:", c34Name(p))
		for _, t := range pm.leftNotifs {
			if age := now.Sub(t); age < nodeLeftEmitTimeout {
				fmt.Fprintf(&b, "t%d,", age/time.Second)
			}
		}
		fl := "-"
		if pm.hasFirstLeft {
			age := now.Sub(pm.firstLeft)
			if age > nodeLeftEmitTimeout {
				age = nodeLeftEmitTimeout
			}
			fl = fmt.Sprint(int64(age / time.Second))
		}
		fmt.Fprintf(&b, "n%v le%v ol%v je%v oj%v jn%v fl%s", len(pm.leftNotifs) > 0, pm.leftEmitted > 0, pm.oppSinceLeft, pm.joinedEmitted > 0, pm.oppSinceJoin, pm.joinNotified, fl)
	}
	return b.String()
}

func c34Drain(cl *cluster) []*Event {
	var out []*Event
	for {
		select {
		case e := <-cl.events:
			out = append(out, e)
		default:
			return out
		}
	}
}

func c34Show(evs []*Event) string {
	var s []string
	for _, e := range evs {
		switch pl := e.Payload.(type) {
		case *NodeLeftEvent:
			s = append(s, "NodeLeft("+c34Name(pl.Address)+")")
		case *NodeJoinedEvent:
			s = append(s, "NodeJoined("+c34Name(pl.Address)+")")
		default:
			s = append(s, fmt.Sprintf("%T", e.Payload))
		}
	}
	sort.Strings(s) // emission order across different nodes follows map iteration: compared as a multiset
	return strings.Join(s, ",")
}

var c34AtNotif, c34Emissions int64

func c34Exec(t *testing.T) func(hist []c34Op) vsched.StepResult {
	return func(hist []c34Op) vsched.StepResult {
		var res vsched.StepResult
		p := vsched.Bubble(t, func() {
			cl := c34NewCluster()
			m := c34NewMon()
			var viol []vsched.Violation
			obs := ""
			for i, o := range hist {
				if o.kind == 4 {
					time.Sleep(o.d)
				} else {
					m.notify(o, time.Now())
					if err := cl.handleClusterEvent(o.payload()); err != nil {
						viol = append(viol, vsched.Fail("valid-notification-rejected", "%s: %v", o, err))
					}
				}
				vsched.Settle()
				evs := c34Drain(cl)
				for _, e := range evs {
					if _, ok := e.Payload.(*NodeLeftEvent); ok && i == len(hist)-1 {
						c34Emissions++
						if o.kind == 1 {
							c34AtNotif++
						}
					}
					viol = append(viol, m.emitted(e, time.Now())...)
				}
				obs = o.String() + "->[" + c34Show(evs) + "]"
			}
			canon := c34Canon(cl, m, time.Now())
			// observation = last notification with the events it caused + filters and pending sets
			// (the prefix of the canonical dump; coarser so that the distinct sets stay small)
			short := canon
			if k := strings.Index(canon, " je["); k > 0 {
				short = canon[:k]
			}
			res = vsched.StepResult{Canon: canon, Obs: obs + " " + short, Violations: viol}
			// let the armed overdue timers fire so that the bubble ends without pending work; what
			// they emit is monitored as well (it is what advance(T) would produce next)
			time.Sleep(nodeLeftEmitTimeout)
			vsched.Settle()
			for _, e := range c34Drain(cl) {
				for _, v := range m.emitted(e, time.Now()) {
					v.Detail += " [emitted by an overdue timer during the closing advance(" + nodeLeftEmitTimeout.String() + ") that ends every history]"
					res.Violations = append(res.Violations, v)
				}
			}
		})
		if p != nil {
			res.Violations = append(res.Violations, vsched.Fail("panic-in-event-tracking", "%v", p))
			if res.Canon == "" {
				res.Canon, res.Dead = fmt.Sprintf("panic:%v", p), true
			}
		}
		return res
	}
}

var c34Start = time.Now()

func c34Budget() float64 {
	if f, err := strconv.ParseFloat(os.Getenv("VERIF_BUDGET_S"), 64); err == nil && f > 0 {
		return f
	}
	return 3600
}

func TestVerifC34(t *testing.T) {
	defer vsched.Finish(t)
	r := vsched.Rep()
	r.Assumption("notifications are delivered one at a time (as by the single consume goroutine); the overdue timers run in a synctest bubble with virtual time")
	r.Assumption("cluster value built in-package with only the event-tracking fields (as the package's newEventTestCluster); no engine client, hence no LeaderChanged events")
	for _, sc := range []struct {
		name   string
		peers  []string
		epochs int
		self   bool
		depth  int
	}{
		{"events-3peers-3epochs", c34Peers(), 3, true, vsched.Pick(5, 7)},
		{"events-2peers-2epochs-deeper", []string{c34Self, c34A}, 2, false, vsched.Pick(6, 9)},
	} {
		alpha := c34Alphabet(sc.peers, sc.epochs, sc.self)
		var names, peers []string
		for _, o := range alpha {
			names = append(names, o.String())
		}
		for _, p := range sc.peers {
			peers = append(peers, c34Name(p))
		}
		// the first scenario may use at most 60% of the wall budget, so that an overloaded machine
		// does not starve the second one (a deadline only lowers coverage: exhaustive=false)
		var dl time.Time
		if sc.self {
			dl = c34Start.Add(time.Duration(0.6 * c34Budget() * float64(time.Second)))
		}
		vsched.BFS(vsched.BFSConfig{Scenario: sc.name, Depth: sc.depth, ShardFirstOp: true, Deadline: dl,
			Params: map[string]any{"peers": peers, "epochs": sc.epochs, "timeout": nodeLeftEmitTimeout.String(), "alphabet": names}},
			func([]c34Op) []c34Op { return alpha }, c34Exec(t), func(o c34Op) string { return o.String() })
	}
	r.Note("shard %d: %d NodeLeft emissions observed as last step of a history, %d of them while processing the Left notification itself (an earlier, already completed node-left epoch was taken as covering it)", r.Shard, c34Emissions, c34AtNotif)
}
