//go:build verif

package net

// C23 — wire frames round-trip; malformed frames are rejected safely.
//
// Part 1 (this file): message corpus built from the internalpb descriptors by reflection, metadata
// variants at the wire limits, the in-memory client/server plumbing (no sockets) and the scenarios
// "roundtrip" (encode -> every decode path -> equal) and "concat" (frames read back one by one).
// Part 2 (zz_c23_robust_test.go): boring reference parsers for the two documented frame layouts and
// the robustness scenarios (prefixes, length-field mutations, header grids, allocation bound).
//
// Every case is one entry of a fixed, deterministic enumeration; the reference model is equality of
// the decoded (message, type name, headers, deadline) with what was encoded.

import (
	"bytes"
	"context"
	"encoding/json"
	"fmt"
	"hash/crc32"
	"io"
	"math"
	"net"
	"os"
	"sort"
	"strings"
	"testing"
	"time"

	"google.golang.org/protobuf/proto"
	"google.golang.org/protobuf/reflect/protoreflect"
	"google.golang.org/protobuf/reflect/protoregistry"

	_ "github.com/tochemey/goakt/v4/internal/internalpb"
	"github.com/tochemey/goakt/v4/internal/verif/vsched"
)

// ---------------------------------------------------------------------------------------------
// replay support: an Enum replay file carries {"scenario":..., "case":{"input":...}}; when
// VERIF_REPLAY is set only that case is executed.

type c23ReplayReq struct {
	Scenario string `json:"scenario"`
	Case     struct {
		Input string `json:"input"`
	} `json:"case"`
}

func c23Replay() *c23ReplayReq {
	f := os.Getenv("VERIF_REPLAY")
	if f == "" {
		return nil
	}
	b, err := os.ReadFile(f)
	if err != nil {
		panic(err)
	}
	var r c23ReplayReq
	if err := json.Unmarshal(b, &r); err != nil {
		panic(err)
	}
	return &r
}

// c23Skip reports whether the case must be skipped because another case is being replayed.
func (r *c23ReplayReq) skip(scenario, input string) bool {
	if r == nil {
		return false
	}
	return r.Scenario != scenario || r.Case.Input != input
}

// ---------------------------------------------------------------------------------------------
// message corpus

type c23Msg struct {
	label string
	m     proto.Message
}

// c23Descs returns every message descriptor of package internalpb (nested ones included, synthetic
// map entries excluded) sorted by full name.
func c23Descs() []protoreflect.MessageDescriptor {
	var out []protoreflect.MessageDescriptor
	var walk func(ms protoreflect.MessageDescriptors)
	walk = func(ms protoreflect.MessageDescriptors) {
		for i := 0; i < ms.Len(); i++ {
			d := ms.Get(i)
			if d.IsMapEntry() {
				continue
			}
			out = append(out, d)
			walk(d.Messages())
		}
	}
	protoregistry.GlobalFiles.RangeFiles(func(fd protoreflect.FileDescriptor) bool {
		if fd.Package() == "internalpb" {
			walk(fd.Messages())
		}
		return true
	})
	sort.Slice(out, func(i, j int) bool { return out[i].FullName() < out[j].FullName() })
	return out
}

func c23Pattern(n int, seed byte) []byte {
	b := make([]byte, n)
	x := uint32(seed)*2654435761 + 12345
	for i := range b {
		x = x*1664525 + 1013904223 // fixed LCG: a deterministic byte pattern, not sampling
		b[i] = byte(x >> 24)
	}
	return b
}

// c23ScalarSamples: the non-default boundary values of a scalar kind.
func c23ScalarSamples(fd protoreflect.FieldDescriptor) []protoreflect.Value {
	V := protoreflect.ValueOf
	switch fd.Kind() {
	case protoreflect.BoolKind:
		return []protoreflect.Value{V(true)}
	case protoreflect.Int32Kind, protoreflect.Sint32Kind, protoreflect.Sfixed32Kind:
		return []protoreflect.Value{V(int32(1)), V(int32(-1)), V(int32(math.MaxInt32)), V(int32(math.MinInt32))}
	case protoreflect.Int64Kind, protoreflect.Sint64Kind, protoreflect.Sfixed64Kind:
		return []protoreflect.Value{V(int64(1)), V(int64(-1)), V(int64(math.MaxInt64)), V(int64(math.MinInt64))}
	case protoreflect.Uint32Kind, protoreflect.Fixed32Kind:
		return []protoreflect.Value{V(uint32(1)), V(uint32(math.MaxUint32))}
	case protoreflect.Uint64Kind, protoreflect.Fixed64Kind:
		return []protoreflect.Value{V(uint64(1)), V(uint64(math.MaxUint64))}
	case protoreflect.FloatKind:
		return []protoreflect.Value{V(float32(1.5)), V(float32(math.Inf(1))), V(float32(math.NaN()))}
	case protoreflect.DoubleKind:
		return []protoreflect.Value{V(float64(1.5)), V(math.Inf(-1)), V(math.NaN())}
	case protoreflect.StringKind:
		// 1 byte; 128 bytes (length varint grows to 2 bytes); multi-byte UTF-8
		return []protoreflect.Value{V("a"), V(strings.Repeat("x", 128)), V("é世")}
	case protoreflect.BytesKind:
		return []protoreflect.Value{V([]byte{0}), V(bytes.Repeat([]byte{0xff}, 200)), V(c23Pattern(300, 7))}
	case protoreflect.EnumKind:
		var out []protoreflect.Value
		vals := fd.Enum().Values()
		for i := 0; i < vals.Len() && len(out) < 3; i++ {
			if n := vals.Get(i).Number(); n != 0 {
				out = append(out, protoreflect.ValueOfEnum(n))
			}
		}
		if !fd.Enum().IsClosed() {
			out = append(out, protoreflect.ValueOfEnum(9999)) // open enum: unknown number is preserved
		}
		return out
	}
	return nil
}

func c23IsMsg(fd protoreflect.FieldDescriptor) bool {
	return fd.Kind() == protoreflect.MessageKind || fd.Kind() == protoreflect.GroupKind
}

// c23Fill sets every field of m to its first sample (first arm of each real oneof), nested
// messages down to depth.
func c23Fill(m protoreflect.Message, depth int) { c23FillIdx(m, depth, 0) }

// c23FillIdx: like c23Fill with sample number idx of every scalar (modulo the number of samples) and
// arm number idx of every real oneof.
func c23FillIdx(m protoreflect.Message, depth int, idx int) {
	fields := m.Descriptor().Fields()
	for i := 0; i < fields.Len(); i++ {
		fd := fields.Get(i)
		if oo := fd.ContainingOneof(); oo != nil && !oo.IsSynthetic() && oo.Fields().Get(idx%oo.Fields().Len()) != fd {
			continue
		}
		switch {
		case fd.IsMap():
			mp := m.Mutable(fd).Map()
			ks := c23ScalarSamples(fd.MapKey())
			mp.Set(ks[idx%len(ks)].MapKey(), c23ElemValue(func() protoreflect.Value { return mp.NewValue() }, fd.MapValue(), idx, depth-1))
		case fd.IsList():
			l := m.Mutable(fd).List()
			l.Append(c23ElemValue(func() protoreflect.Value { return l.NewElement() }, fd, idx, depth-1))
		case c23IsMsg(fd):
			sub := m.Mutable(fd).Message()
			if depth > 0 {
				c23FillIdx(sub, depth-1, idx)
			}
		default:
			ss := c23ScalarSamples(fd)
			m.Set(fd, ss[idx%len(ss)])
		}
	}
}

// c23ElemValue builds a list element / map value: sample idx of a scalar, or a message filled to depth
// (depth < 0: empty message).
func c23ElemValue(newv func() protoreflect.Value, fd protoreflect.FieldDescriptor, idx int, depth int) protoreflect.Value {
	if c23IsMsg(fd) {
		v := newv()
		if depth >= 0 {
			c23Fill(v.Message(), depth)
		}
		return v
	}
	s := c23ScalarSamples(fd)
	return s[idx%len(s)]
}

type c23Variant struct {
	label string
	apply func(m protoreflect.Message)
}

// c23FieldVariants: the ways one field is populated on an otherwise empty message.
func c23FieldVariants(fd protoreflect.FieldDescriptor) []c23Variant {
	var vs []c23Variant
	name := string(fd.Name())
	switch {
	case fd.IsMap():
		ks := c23ScalarSamples(fd.MapKey())
		vs = append(vs, c23Variant{name + "=map1", func(m protoreflect.Message) {
			mp := m.Mutable(fd).Map()
			mp.Set(ks[0].MapKey(), c23ElemValue(func() protoreflect.Value { return mp.NewValue() }, fd.MapValue(), 0, 0))
		}})
		if len(ks) > 1 {
			vs = append(vs, c23Variant{name + "=map2", func(m protoreflect.Message) {
				mp := m.Mutable(fd).Map()
				mp.Set(ks[0].MapKey(), c23ElemValue(func() protoreflect.Value { return mp.NewValue() }, fd.MapValue(), 0, -1))
				mp.Set(ks[len(ks)-1].MapKey(), c23ElemValue(func() protoreflect.Value { return mp.NewValue() }, fd.MapValue(), 1, 1))
			}})
		}
	case fd.IsList():
		vs = append(vs, c23Variant{name + "=list1", func(m protoreflect.Message) {
			l := m.Mutable(fd).List()
			l.Append(c23ElemValue(func() protoreflect.Value { return l.NewElement() }, fd, 0, -1))
		}})
		vs = append(vs, c23Variant{name + "=list3", func(m protoreflect.Message) {
			l := m.Mutable(fd).List()
			l.Append(c23ElemValue(func() protoreflect.Value { return l.NewElement() }, fd, 0, 1))
			l.Append(c23ElemValue(func() protoreflect.Value { return l.NewElement() }, fd, 1, -1))
			l.Append(c23ElemValue(func() protoreflect.Value { return l.NewElement() }, fd, 2, 0))
		}})
	case c23IsMsg(fd):
		vs = append(vs, c23Variant{name + "=present-empty", func(m protoreflect.Message) { m.Mutable(fd) }})
		vs = append(vs, c23Variant{name + "=nested", func(m protoreflect.Message) { c23Fill(m.Mutable(fd).Message(), 1) }})
	default:
		for i, s := range c23ScalarSamples(fd) {
			s := s
			vs = append(vs, c23Variant{fmt.Sprintf("%s=s%d", name, i), func(m protoreflect.Message) { m.Set(fd, s) }})
		}
	}
	return vs
}

// c23Corpus: for every internalpb message type: all-default, every field alone at each of its
// samples (this visits every oneof arm), and all fields together (first samples two levels deep,
// second samples / second oneof arms two levels deep, third samples / third arms three levels deep).
func c23Corpus() []c23Msg {
	var out []c23Msg
	for _, d := range c23Descs() {
		mt, err := protoregistry.GlobalTypes.FindMessageByName(d.FullName())
		if err != nil {
			continue // descriptor without a Go type: not a message that can be put on the wire
		}
		add := func(label string, apply func(m protoreflect.Message)) {
			m := mt.New()
			apply(m)
			out = append(out, c23Msg{label: string(d.FullName()) + "/" + label, m: m.Interface()})
		}
		add("empty", func(protoreflect.Message) {})
		fields := d.Fields()
		for i := 0; i < fields.Len(); i++ {
			for _, v := range c23FieldVariants(fields.Get(i)) {
				add(v.label, v.apply)
			}
		}
		add("full", func(m protoreflect.Message) { c23Fill(m, 2) })
		add("full-alt1", func(m protoreflect.Message) { c23FillIdx(m, 2, 1) })
		add("full-alt2-deep", func(m protoreflect.Message) { c23FillIdx(m, 3, 2) })
	}
	return out
}

// c23SizedMsg returns a message (first internalpb type with a singular bytes field) whose LEGACY
// frame has exactly total bytes (total must be large enough); used to hit the pool-bucket and
// read-buffer boundaries of the code with exact frame sizes.
func c23SizedMsg(total int) (c23Msg, bool) {
	for _, d := range c23Descs() {
		fields := d.Fields()
		for i := 0; i < fields.Len(); i++ {
			fd := fields.Get(i)
			if fd.Kind() != protoreflect.BytesKind || fd.IsList() || fd.IsMap() || fd.ContainingOneof() != nil {
				continue
			}
			mt, err := protoregistry.GlobalTypes.FindMessageByName(d.FullName())
			if err != nil {
				continue
			}
			n := total - 8 - len(d.FullName()) - 2
			for try := 0; try < 8 && n > 0; try++ {
				m := mt.New()
				m.Set(fd, protoreflect.ValueOfBytes(c23Pattern(n, byte(total))))
				got := 8 + len(d.FullName()) + proto.Size(m.Interface())
				if got == total {
					return c23Msg{label: fmt.Sprintf("%s/%s=sized-frame-%d", d.FullName(), fd.Name(), total), m: m.Interface()}, true
				}
				n += total - got
			}
		}
	}
	return c23Msg{}, false
}

// ---------------------------------------------------------------------------------------------
// metadata variants

type c23MD struct {
	label  string
	legacy bool // frame without the metadata section (MarshalBinary)
	isNil  bool // MarshalBinaryWithMetadata(msg, nil)
	hdr    map[string]string
	hasDL  bool
	dlOff  time.Duration // deadline = now + dlOff at encode time
	delay  time.Duration // virtual transit time between encode and decode
	big    bool          // only combined with a few messages
}

func c23MDVariants() []c23MD {
	k65535 := strings.Repeat("K", 65535)
	v65535 := strings.Repeat("v", 65535)
	many := make(map[string]string, 65535)
	for i := 0; i < 65535; i++ {
		many[fmt.Sprintf("%05d", i)] = ""
	}
	return []c23MD{
		{label: "legacy", legacy: true},
		{label: "md-nil", isNil: true},
		{label: "md-empty", hdr: map[string]string{}},
		{label: "md-1hdr", hdr: map[string]string{"k": "v"}},
		{label: "md-emptykey-emptyval", hdr: map[string]string{"": ""}},
		{label: "md-2hdr", hdr: map[string]string{"a": "1", "b": "2"}},
		{label: "md-keylen255-vallen256", hdr: map[string]string{strings.Repeat("k", 255): strings.Repeat("v", 256)}},
		{label: "md-1hdr-deadline+1s", hdr: map[string]string{"k": "v"}, hasDL: true, dlOff: time.Second},
		{label: "md-deadline+1s", hdr: map[string]string{}, hasDL: true, dlOff: time.Second},
		{label: "md-deadline-now", hdr: map[string]string{}, hasDL: true, dlOff: 0},
		{label: "md-deadline+1ns", hdr: map[string]string{}, hasDL: true, dlOff: 1},
		{label: "md-deadline-expired", hdr: map[string]string{}, hasDL: true, dlOff: -time.Second},
		{label: "md-deadline+1s-transit1ms", hdr: map[string]string{}, hasDL: true, dlOff: time.Second, delay: time.Millisecond},
		{label: "md-3hdr-deadline-far-transit1ms", hdr: map[string]string{"trace": "t", "auth": strings.Repeat("z", 40), "x": ""},
			hasDL: true, dlOff: 200 * 365 * 24 * time.Hour, delay: time.Millisecond},
		{label: "md-keylen65535", hdr: map[string]string{k65535: "v"}, big: true},
		{label: "md-vallen65535", hdr: map[string]string{"k": v65535}, big: true},
		{label: "md-keylen65535-vallen65535-deadline", hdr: map[string]string{k65535: v65535}, hasDL: true, dlOff: time.Second, big: true},
		{label: "md-65535-headers", hdr: many, big: true},
	}
}

func (v c23MD) build() *Metadata {
	if v.legacy || v.isNil {
		return nil
	}
	md := NewMetadata()
	for k, val := range v.hdr {
		md.Set(k, val)
	}
	if v.hasDL {
		md.SetDeadline(time.Now().Add(v.dlOff))
	}
	return md
}

// ---------------------------------------------------------------------------------------------
// plumbing: chunked stream, fake connection, in-memory server and client

type c23ChunkReader struct {
	data  []byte
	pos   int
	chunk int // max bytes per Read; 0 = unlimited
	reads int
}

func (r *c23ChunkReader) Read(p []byte) (int, error) {
	r.reads++
	if r.pos >= len(r.data) {
		return 0, io.EOF
	}
	n := len(p)
	if r.chunk > 0 && n > r.chunk {
		n = r.chunk
	}
	n = copy(p[:n], r.data[r.pos:])
	r.pos += n
	return n, nil
}

type c23Addr struct{}

func (c23Addr) Network() string { return "c23" }
func (c23Addr) String() string  { return "c23" }

type c23Conn struct {
	r *c23ChunkReader
	w bytes.Buffer
}

func (c *c23Conn) Read(p []byte) (int, error)       { return c.r.Read(p) }
func (c *c23Conn) Write(p []byte) (int, error)      { return c.w.Write(p) }
func (c *c23Conn) Close() error                     { return nil }
func (c *c23Conn) LocalAddr() net.Addr              { return c23Addr{} }
func (c *c23Conn) RemoteAddr() net.Addr             { return c23Addr{} }
func (c *c23Conn) SetDeadline(time.Time) error      { return nil }
func (c *c23Conn) SetReadDeadline(time.Time) error  { return nil }
func (c *c23Conn) SetWriteDeadline(time.Time) error { return nil }

type c23Got struct {
	msg  proto.Message
	md   *Metadata
	name string
}

// c23Serve feeds stream to the real ProtoServer.handleConn (real read loop, format detection,
// pooled buffers, handler dispatch) over a fake connection; the fallback handler records what it is
// given and, when echo is set, returns the message so that the response path is exercised too.
// Returns what the handler saw, the bytes the server wrote, and a recovered panic.
func c23Serve(stream []byte, chunk int, maxFrame uint32, echo bool) (got []c23Got, written []byte, panicked any) {
	ps := &ProtoServer{
		handlers:     map[protoreflect.FullName]ProtoHandler{},
		serializer:   NewProtoSerializer(),
		framePool:    c23Pool,
		maxFrameSize: maxFrame,
		server:       &TCPServer{},
	}
	ps.fallback = func(ctx context.Context, _ Connection, req proto.Message) (proto.Message, error) {
		g := c23Got{msg: req, name: string(proto.MessageName(req))}
		if md, ok := FromContext(ctx); ok {
			g.md = md
		}
		got = append(got, g)
		if echo {
			return req, nil
		}
		return nil, nil
	}
	fc := &c23Conn{r: &c23ChunkReader{data: stream, chunk: chunk}}
	conn := &TCPConn{Conn: fc}
	func() {
		defer func() { panicked = recover() }()
		ps.handleConn(conn)
	}()
	return got, fc.w.Bytes(), panicked
}

var (
	c23Pool   = NewFramePool()
	c23Ser    = NewProtoSerializer()
	c23Client = NewClient("127.0.0.1:0")
)

// c23Digest: canonical content of a decoded (message, metadata) used as the observation.
func c23Digest(name string, m proto.Message, md *Metadata, dlDelta int64) string {
	b, _ := proto.MarshalOptions{Deterministic: true}.Marshal(m)
	h := "nomd"
	if md != nil {
		ks := make([]string, 0, len(md.headers))
		for k, v := range md.headers {
			ks = append(ks, fmt.Sprintf("%d:%08x=%d:%08x", len(k), crc32.ChecksumIEEE([]byte(k)), len(v), crc32.ChecksumIEEE([]byte(v))))
		}
		sort.Strings(ks)
		hh := crc32.ChecksumIEEE([]byte(strings.Join(ks, ",")))
		h = fmt.Sprintf("md[%d]%08x dl=%v/%d", len(ks), hh, md.deadlineNano != 0, dlDelta)
	}
	return fmt.Sprintf("%s len=%d crc=%08x %s", name, len(b), crc32.ChecksumIEEE(b), h)
}

type c23Want struct {
	m      proto.Message
	name   string
	v      c23MD
	origDL int64 // UnixNano set at encode time (0 = none)
}

// check compares one decode result with what was encoded; returns "" or a structural signature.
func (w *c23Want) check(path string, m proto.Message, name string, md *Metadata) (sig, detail string) {
	if m == nil {
		return "decoded-message-nil@" + path, "nil message without error"
	}
	if name != w.name || string(proto.MessageName(m)) != w.name {
		return "type-name-differs@" + path, fmt.Sprintf("got name %q / message %q, want %q", name, proto.MessageName(m), w.name)
	}
	if !proto.Equal(m, w.m) {
		return "message-differs@" + path, fmt.Sprintf("decoded %v", m)
	}
	if w.v.legacy || w.v.isNil {
		if md != nil && (len(md.headers) != 0 || md.deadlineNano != 0) {
			return "metadata-appears-from-nothing@" + path, fmt.Sprintf("%d headers, deadline %d", len(md.headers), md.deadlineNano)
		}
		return "", ""
	}
	if md == nil {
		return "metadata-lost@" + path, "decoded metadata is nil"
	}
	if len(md.headers) != len(w.v.hdr) {
		return "header-count-differs@" + path, fmt.Sprintf("got %d want %d", len(md.headers), len(w.v.hdr))
	}
	for k, v := range w.v.hdr {
		gv, ok := md.Get(k)
		if !ok || gv != v {
			return "header-differs@" + path, fmt.Sprintf("key len %d: present=%v value len %d want len %d", len(k), ok, len(gv), len(v))
		}
	}
	dl, has := md.GetDeadline()
	if has != (w.origDL != 0) {
		return "deadline-presence-differs@" + path, fmt.Sprintf("got %v want %v", has, w.origDL != 0)
	}
	if has {
		// clock tolerance = the (virtual) transit time plus the 1ns nudge of an exactly-zero remainder
		d := dl.UnixNano() - w.origDL
		if d < -1 || d > int64(w.v.delay)+1 {
			return "deadline-outside-tolerance@" + path, fmt.Sprintf("decoded-original = %dns, transit %v", d, w.v.delay)
		}
	}
	return "", ""
}

func c23Chunks(n int) []int {
	if n <= 1024 {
		return []int{1, 3, 0}
	}
	return []int{4099, 0}
}

// c23RoundTripCase encodes (m, v) with the plain and the pooled encoder and pushes each frame through
// every decode path. Runs inside a bubble (frozen clock => exact deadline arithmetic).
func c23RoundTripCase(m proto.Message, v c23MD) (obs string, calls int, sig, detail string) {
	name := string(proto.MessageName(m))
	md := v.build()
	w := &c23Want{m: m, name: name, v: v}
	if md != nil {
		w.origDL = md.deadlineNano
	}
	var frames [2][]byte
	var err error
	if v.legacy {
		frames[0], err = c23Ser.MarshalBinary(m)
		if err == nil {
			frames[1], err = c23Ser.MarshalBinaryTo(c23Pool, m)
		}
	} else {
		frames[0], err = c23Ser.MarshalBinaryWithMetadata(m, md)
		if err == nil {
			frames[1], err = c23Ser.MarshalBinaryWithMetadataTo(c23Pool, m, md)
		}
	}
	if err != nil {
		return "", 1, "encode-fails", err.Error()
	}
	defer c23Pool.Put(frames[1])
	if len(frames[0]) != len(frames[1]) {
		return "", 2, "pooled-encoder-length-differs", fmt.Sprintf("%d vs %d", len(frames[0]), len(frames[1]))
	}
	if v.delay > 0 {
		time.Sleep(v.delay)
	}
	fail := func(s, d string) (string, int, string, string) { return "", calls, s, d }
	for fi, f := range frames {
		tag := []string{"plain", "pooled"}[fi]
		// P1: the matching decoder
		var gm proto.Message
		var gmd *Metadata
		var gn protoreflect.FullName
		if v.legacy {
			gm, gn, err = c23Ser.UnmarshalBinary(f)
		} else {
			gm, gmd, gn, err = c23Ser.UnmarshalBinaryWithMetadata(f)
		}
		calls++
		if err != nil {
			return fail("valid-frame-rejected@direct-"+tag, err.Error())
		}
		if s, d := w.check("direct-"+tag, gm, string(gn), gmd); s != "" {
			return fail(s, d)
		}
		if fi == 0 {
			dd := int64(0)
			if gmd != nil && gmd.deadlineNano != 0 {
				dd = gmd.deadlineNano - w.origDL
			}
			obs = c23Digest(string(gn), gm, gmd, dd)
		}
		// P2: client side format detection
		gm, gmd, err = c23Client.unmarshalProtoResponse(f)
		calls++
		if err != nil {
			return fail("valid-frame-rejected@client-autodetect-"+tag, err.Error())
		}
		if s, d := w.check("client-autodetect-"+tag, gm, string(proto.MessageName(gm)), gmd); s != "" {
			return fail(s, d)
		}
		if fi == 1 && len(f) > 2048 {
			continue // stream paths of big frames once
		}
		for _, chunk := range c23Chunks(len(f)) {
			// P3: frame reader (pooled and unpooled buffers)
			for _, pool := range []*FramePool{nil, c23Pool} {
				rd := &c23ChunkReader{data: f, chunk: chunk}
				fr, err := readProtoFrame(rd, pool, defaultMaxFrameSize)
				calls++
				if err != nil {
					return fail("valid-frame-rejected@readProtoFrame-"+tag, err.Error())
				}
				if !bytes.Equal(fr, f) {
					return fail("frame-reader-returns-different-bytes@"+tag, fmt.Sprintf("len %d vs %d", len(fr), len(f)))
				}
				if pool != nil {
					pool.Put(fr)
				}
				if _, err := readProtoFrame(rd, pool, defaultMaxFrameSize); err == nil {
					return fail("frame-reader-invents-frame-after-end@"+tag, "second read succeeded")
				}
			}
			// P4: server read loop + handler + echo response + client decode of the response
			got, resp, p := c23Serve(f, chunk, defaultMaxFrameSize, true)
			calls++
			if p != nil {
				return fail("panic@server-"+tag, fmt.Sprint(p))
			}
			if len(got) != 1 {
				return fail("server-handler-call-count@"+tag, fmt.Sprintf("handler called %d times for one valid frame", len(got)))
			}
			if s, d := w.check("server-"+tag, got[0].msg, got[0].name, got[0].md); s != "" {
				return fail(s, d)
			}
			rf, err := readProtoFrame(bytes.NewReader(resp), c23Pool, defaultMaxFrameSize)
			if err != nil {
				return fail("server-response-unreadable@"+tag, err.Error())
			}
			rm, _, err := c23Client.unmarshalProtoResponse(rf)
			calls += 2
			if err != nil || rm == nil || !proto.Equal(rm, m) {
				return fail("server-response-differs@"+tag, fmt.Sprintf("err=%v", err))
			}
			c23Pool.Put(rf)
		}
	}
	return obs, calls, "", ""
}

func c23Roundtrip(t *testing.T, corpus []c23Msg, rp *c23ReplayReq) {
	const scen = "roundtrip"
	mds := c23MDVariants()
	e := vsched.NewEnum(scen, map[string]any{
		"messages":          len(corpus),
		"metadata_variants": len(mds),
		"domain":            "every internalpb message type x {all-default, each field alone at each boundary sample (every oneof arm), all fields 2 levels deep} + exact-size frames at pool/read-buffer boundaries  x  metadata {legacy frame, nil, 0/1/2/3 headers, key/value lengths 0,1,255,256,65535, 65535 headers, deadline none/now/+1ns/+1s/expired/far, transit 0/1ms}  x  {plain, pooled encoder}  x  decode paths {direct, client autodetect, readProtoFrame chunk 1/3/all pooled/unpooled, server read loop + echo}",
	})
	for mi, cm := range corpus {
		for _, v := range mds {
			if v.big && mi%97 != 0 && !strings.Contains(cm.label, "sized-frame") {
				continue // the 65535-limit metadata is combined with every 97th message and the exact-size frames
			}
			in := "msg=" + cm.label + " md=" + v.label
			if !e.Mine() || rp.skip(scen, in) {
				continue
			}
			var obs, sig, detail string
			var calls int
			if p := vsched.Bubble(t, func() { obs, calls, sig, detail = c23RoundTripCase(cm.m, v) }); p != nil {
				sig, detail = "panic@roundtrip", fmt.Sprint(p)
			}
			if sig != "" {
				e.Fail(sig, in, "%s", detail)
			}
			e.Case(in, obs, calls, !strings.HasSuffix(cm.label, "/empty") || !(v.legacy || v.isNil))
		}
	}
	e.Done()
}

// ---------------------------------------------------------------------------------------------
// concatenated frames

type c23Frame struct {
	label string
	b     []byte
	want  *c23Want
}

// c23BaseFrames: a small set of valid frames in both formats (built inside the caller's bubble).
func c23BaseFrames(corpus []c23Msg, nMsgs int) []c23Frame {
	var picks []c23Msg
	// spread over the corpus: empty/full variants of the first types plus evenly spaced entries
	step := len(corpus) / nMsgs
	if step == 0 {
		step = 1
	}
	for i := 0; i < len(corpus) && len(picks) < nMsgs; i += step {
		picks = append(picks, corpus[i])
	}
	mds := c23MDVariants()
	var out []c23Frame
	for _, cm := range picks {
		for _, v := range mds {
			if v.big || v.delay != 0 {
				continue
			}
			switch v.label {
			case "legacy", "md-nil", "md-empty", "md-1hdr", "md-2hdr", "md-1hdr-deadline+1s", "md-emptykey-emptyval":
			default:
				continue
			}
			md := v.build()
			var f []byte
			var err error
			if v.legacy {
				f, err = c23Ser.MarshalBinary(cm.m)
			} else {
				f, err = c23Ser.MarshalBinaryWithMetadata(cm.m, md)
			}
			if err != nil {
				panic(err)
			}
			w := &c23Want{m: cm.m, name: string(proto.MessageName(cm.m)), v: v}
			if md != nil {
				w.origDL = md.deadlineNano
			}
			out = append(out, c23Frame{label: cm.label + "+" + v.label, b: f, want: w})
		}
	}
	return out
}

func c23Concat(t *testing.T, corpus []c23Msg, rp *c23ReplayReq) {
	const scen = "concat"
	nm := vsched.Pick(2, 8)
	e := vsched.NewEnum(scen, map[string]any{
		"domain": "all sequences of 2 and 3 frames over the base frames (both formats mixed) concatenated on one stream; read back through readProtoFrame (pooled/unpooled, chunk 1/7/all) and through the server read loop",
	})
	vsched.Bubble(t, func() {
		base := c23BaseFrames(corpus, nm)
		// exact-size frames around the 32 KiB buffered-reader size are part of the alphabet of pairs
		var big []c23Frame
		for _, n := range []int{readBufferSize - 1, readBufferSize, readBufferSize + 1} {
			if sm, ok := c23SizedMsg(n); ok {
				f, _ := c23Ser.MarshalBinary(sm.m)
				big = append(big, c23Frame{label: sm.label, b: f, want: &c23Want{m: sm.m, name: string(proto.MessageName(sm.m)), v: c23MD{legacy: true}}})
			}
		}
		e.St.Params["base_frames"] = len(base)
		run := func(seq []c23Frame) {
			var in strings.Builder
			var stream []byte
			for i, f := range seq {
				if i > 0 {
					in.WriteString(" | ")
				}
				in.WriteString(f.label)
				stream = append(stream, f.b...)
			}
			if !c23Mine(e) || rp.skip(scen, in.String()) {
				return
			}
			calls := 0
			obs := fmt.Sprintf("n=%d len=%d crc=%08x", len(seq), len(stream), crc32.ChecksumIEEE(stream))
			fail := func(sig, format string, a ...any) { e.Fail(sig, in.String(), format, a...) }
			func() {
				defer func() {
					if p := recover(); p != nil {
						fail("panic@concat", "%v", p)
					}
				}()
				for _, chunk := range []int{1, 7, 0} {
					if chunk == 1 && len(stream) > 8192 {
						continue
					}
					for _, pool := range []*FramePool{nil, c23Pool} {
						rd := &c23ChunkReader{data: stream, chunk: chunk}
						for i, f := range seq {
							fr, err := readProtoFrame(rd, pool, defaultMaxFrameSize)
							calls++
							if err != nil {
								fail("concatenated-frame-unreadable", "frame %d: %v", i, err)
								return
							}
							if !bytes.Equal(fr, f.b) {
								fail("concatenated-frame-differs-or-out-of-order", "frame %d", i)
								return
							}
							gm, gmd, err := c23Client.unmarshalProtoResponse(fr)
							calls++
							if err != nil {
								fail("concatenated-frame-undecodable", "frame %d: %v", i, err)
								return
							}
							if s, d := f.want.check("concat-client", gm, string(proto.MessageName(gm)), gmd); s != "" {
								fail(s, "frame %d: %s", i, d)
								return
							}
							if pool != nil {
								pool.Put(fr)
							}
						}
						if _, err := readProtoFrame(rd, pool, defaultMaxFrameSize); err == nil {
							fail("frame-reader-invents-frame-after-end", "extra frame after %d", len(seq))
							return
						}
					}
					got, _, p := c23Serve(stream, chunk, defaultMaxFrameSize, false)
					calls++
					if p != nil {
						fail("panic@server-concat", "%v", p)
						return
					}
					if len(got) != len(seq) {
						fail("server-handler-call-count", "handler called %d times for %d frames", len(got), len(seq))
						return
					}
					for i, f := range seq {
						if s, d := f.want.check("concat-server", got[i].msg, got[i].name, got[i].md); s != "" {
							fail(s, "frame %d: %s", i, d)
							return
						}
					}
				}
			}()
			e.Case(in.String(), obs, calls, true)
		}
		for _, a := range base {
			for _, b := range base {
				run([]c23Frame{a, b})
			}
		}
		for _, a := range base {
			for _, b := range base {
				for _, c := range base {
					run([]c23Frame{a, b, c})
				}
			}
		}
		for _, a := range big {
			for _, b := range base {
				run([]c23Frame{a, b})
				run([]c23Frame{b, a})
				run([]c23Frame{b, a, b})
			}
			for _, b := range big {
				run([]c23Frame{a, b})
			}
		}
	})
	e.Done()
}

func TestVerifC23(t *testing.T) {
	defer vsched.Finish(t)
	r := vsched.Rep()
	rp := c23Replay()
	c23WatchBudget()
	corpus := c23Corpus()
	// exact-size frames: FramePool buckets (256 B min, 4 MiB max), bufio read buffer (32 KiB), 64 KiB
	sizes := []int{255, 256, 257, readBufferSize - 1, readBufferSize, readBufferSize + 1, 65535, 65536, 65537}
	if r.Thorough() {
		sizes = append(sizes, 1<<maxBucketShift-1, 1<<maxBucketShift, 1<<maxBucketShift+1)
	}
	for _, n := range sizes {
		if sm, ok := c23SizedMsg(n); ok {
			corpus = append(corpus, sm)
		}
	}
	r.Note("corpus: %d messages over %d internalpb message types", len(corpus), len(c23Descs()))
	c23Roundtrip(t, corpus, rp)
	c23Concat(t, corpus, rp)
	c23Robust(t, corpus, rp)
}
