//go:build verif

package net

// C24 — connection compression is transparent.
//
// Every case builds, inside a synctest bubble, a net.Pipe whose two ends are wrapped by the same
// ConnWrapper instance (gzip / zstd / brotli, or left unwrapped), optionally under the read-side
// stacks the client (bufferedConn) and the server (pooled bufio reader) put on top, and plays a
// request/echo exchange: side A writes segment i, side B must have received exactly the bytes
// written so far once the system is quiescent; B writes a reply segment, A must have received it.
// Then the connection is closed (trailer bytes must not surface as data) and the whole exchange is
// repeated on a NEW pipe wrapped by the same wrapper, so that the pooled compressedConn, encoders
// and decoders are used in a non-initial state.
//
// Reference model: a byte queue per direction (bytes read == bytes written, in order).

import (
	"bufio"
	"bytes"
	"encoding/hex"
	"encoding/json"
	"fmt"
	"hash/crc32"
	"io"
	"net"
	"os"
	"runtime/debug"
	"strings"
	"sync"
	"testing"
	"time"

	"github.com/tochemey/goakt/v4/internal/verif/vsched"
)

type c24ReplayReq struct {
	Scenario string `json:"scenario"`
	Case     struct {
		Input string `json:"input"`
	} `json:"case"`
}

func c24Replay() *c24ReplayReq {
	f := os.Getenv("VERIF_REPLAY")
	if f == "" {
		return nil
	}
	b, err := os.ReadFile(f)
	if err != nil {
		panic(err)
	}
	var r c24ReplayReq
	if err := json.Unmarshal(b, &r); err != nil {
		panic(err)
	}
	return &r
}

func (r *c24ReplayReq) skip(scenario, input string) bool {
	return r != nil && (r.Scenario != scenario || r.Case.Input != input)
}

var c24Kinds = []string{"gzip", "zstd", "brotli", "none"}

func c24NewWrapper(kind string) ConnWrapper {
	switch kind {
	case "gzip":
		w, err := NewGzipConnWrapper()
		if err != nil {
			panic(err)
		}
		return w
	case "zstd":
		w, err := NewZstdConnWrapper()
		if err != nil {
			panic(err)
		}
		return w
	case "brotli":
		return NewBrotliConnWrapper()
	}
	return nil
}

// c24Sink collects what one side reads.
type c24Sink struct {
	mu    sync.Mutex
	buf   []byte
	done  bool
	err   error
	spin  bool
	panic any
}

func (s *c24Sink) snapshot() (n int, done bool) {
	s.mu.Lock()
	defer s.mu.Unlock()
	return len(s.buf), s.done
}

func c24Reader(r io.Reader, rbuf int, s *c24Sink) {
	defer func() {
		if p := recover(); p != nil {
			s.mu.Lock()
			s.panic, s.done = p, true
			s.mu.Unlock()
		}
	}()
	p := make([]byte, rbuf)
	zero := 0
	for {
		n, err := r.Read(p)
		s.mu.Lock()
		s.buf = append(s.buf, p[:n]...)
		if err != nil {
			s.err, s.done = err, true
		}
		s.mu.Unlock()
		if err != nil {
			return
		}
		if n == 0 {
			if zero++; zero > 100000 {
				s.mu.Lock()
				s.spin, s.done = true, true
				s.mu.Unlock()
				return
			}
		} else {
			zero = 0
		}
	}
}

func c24Reply(seg []byte) []byte {
	out := make([]byte, len(seg))
	for i, b := range seg {
		out[len(seg)-1-i] = b ^ 0x5a
	}
	return out
}

type c24Fail struct{ sig, detail string }

// GC is held off from the close of the first connection until the second one is wrapped, so that
// what Close put into the sync.Pools is what Wrap gets back (pool reuse independent of GC timing).
var c24GCOff, c24GCOld = false, 100

func c24HoldGC() {
	if !c24GCOff {
		c24GCOld, c24GCOff = debug.SetGCPercent(-1), true
	}
}

func c24ReleaseGC() {
	if c24GCOff {
		debug.SetGCPercent(c24GCOld)
		c24GCOff = false
	}
}

// c24Exchange runs one connection lifetime: wrap, request/echo per segment, close. reused reports
// whether A's compressedConn struct is the one recorded in *prev (pool reuse), and records it.
func c24Exchange(w ConnWrapper, stack string, rbuf int, segs [][]byte, pass int, prev *[]*compressedConn) (crcAB, crcBA uint32, calls int, reused bool, f *c24Fail) {
	c1, c2 := net.Pipe()
	defer c1.Close()
	defer c2.Close()
	var a, b net.Conn = c1, c2
	if w != nil {
		var err error
		if a, err = w.Wrap(c1); err != nil {
			return 0, 0, calls, false, &c24Fail{"wrap-fails", err.Error()}
		}
		if b, err = w.Wrap(c2); err != nil {
			return 0, 0, calls, false, &c24Fail{"wrap-fails", err.Error()}
		}
		c24ReleaseGC()
		for _, cc := range []net.Conn{a, b} {
			if p, ok := cc.(*compressedConn); ok {
				for _, old := range *prev {
					if old == p {
						reused = true
					}
				}
				*prev = append(*prev, p)
			}
		}
	}
	// a blocked Write can never deadlock the bubble: it times out in virtual time and is reported
	dl := time.Now().Add(time.Hour)
	_ = a.SetWriteDeadline(dl)
	_ = b.SetWriteDeadline(dl)
	var ra io.Reader = a
	var rb io.Reader = b
	var pooled *bufio.Reader
	if stack == "buffered" {
		a = newBufferedConn(a) // what Client.dial puts on top of the wrappers
		ra = a
		pooled = getPooledReader(b) // what ProtoServer.handleConn reads through
		rb = pooled
	}
	sa, sb := &c24Sink{}, &c24Sink{}
	go c24Reader(ra, rbuf, sa)
	go c24Reader(rb, rbuf, sb)

	var sentAB, sentBA []byte
	tag := fmt.Sprintf("@pass%d", pass)
	verify := func(s *c24Sink, sent []byte, dir string) *c24Fail {
		vsched.Settle()
		s.mu.Lock()
		defer s.mu.Unlock()
		switch {
		case s.panic != nil:
			return &c24Fail{"reader-panics" + tag, fmt.Sprint(s.panic)}
		case s.spin:
			return &c24Fail{"reader-spins-on-empty-reads" + tag, dir}
		case len(s.buf) > len(sent):
			return &c24Fail{"more-bytes-read-than-written" + tag, fmt.Sprintf("%s: read %d, written %d", dir, len(s.buf), len(sent))}
		case !bytes.Equal(s.buf, sent[:len(s.buf)]):
			return &c24Fail{"bytes-read-differ-from-bytes-written" + tag, fmt.Sprintf("%s: after %d bytes written", dir, len(sent))}
		case s.done:
			return &c24Fail{"read-error-on-open-connection" + tag, fmt.Sprintf("%s: %v after %d of %d bytes", dir, s.err, len(s.buf), len(sent))}
		case len(s.buf) < len(sent):
			return &c24Fail{"written-bytes-not-delivered-at-quiescence" + tag, fmt.Sprintf("%s: read %d of %d written bytes; reader is blocked", dir, len(s.buf), len(sent))}
		}
		return nil
	}
	abort := func(f *c24Fail) (uint32, uint32, int, bool, *c24Fail) {
		// unblock everything: raw pipes closed, readers end
		c1.Close()
		c2.Close()
		vsched.Settle()
		if pooled != nil {
			putPooledReader(pooled)
		}
		return 0, 0, calls, reused, f
	}
	for i, seg := range segs {
		n, err := a.Write(seg)
		calls++
		if err != nil || n != len(seg) {
			return abort(&c24Fail{"write-short-or-error" + tag, fmt.Sprintf("A segment %d: n=%d of %d err=%v", i, n, len(seg), err)})
		}
		sentAB = append(sentAB, seg...)
		if f := verify(sb, sentAB, "A->B"); f != nil {
			return abort(f)
		}
		rep := c24Reply(seg)
		n, err = b.Write(rep)
		calls++
		if err != nil || n != len(rep) {
			return abort(&c24Fail{"write-short-or-error" + tag, fmt.Sprintf("B segment %d: n=%d of %d err=%v", i, n, len(rep), err)})
		}
		sentBA = append(sentBA, rep...)
		if f := verify(sa, sentBA, "B->A"); f != nil {
			return abort(f)
		}
	}
	// close A: stop A's own reader first (a connection owner does not read and close concurrently),
	// then Close; B's reader consumes the compressor's trailer and must see end-of-stream, no data.
	if pass == 1 {
		c24HoldGC()
	}
	_ = a.SetReadDeadline(time.Unix(1, 0))
	vsched.Settle()
	if _, done := sa.snapshot(); !done {
		return abort(&c24Fail{"reader-not-released-by-deadline" + tag, "A"})
	}
	_ = a.Close()
	calls++
	vsched.Settle()
	if _, done := sb.snapshot(); !done {
		return abort(&c24Fail{"peer-reader-not-released-by-close" + tag, "B still blocked after A closed"})
	}
	if pooled != nil {
		putPooledReader(pooled)
		pooled = nil
	}
	_ = b.Close()
	calls++
	vsched.Settle()
	for _, chk := range []struct {
		s    *c24Sink
		sent []byte
		dir  string
	}{{sb, sentAB, "A->B"}, {sa, sentBA, "B->A"}} {
		chk.s.mu.Lock()
		got := chk.s.buf
		p := chk.s.panic
		chk.s.mu.Unlock()
		if p != nil {
			return 0, 0, calls, reused, &c24Fail{"reader-panics" + tag, fmt.Sprint(p)}
		}
		if len(got) > len(chk.sent) {
			return 0, 0, calls, reused, &c24Fail{"more-bytes-read-than-written" + tag, fmt.Sprintf("%s after close: read %d, written %d", chk.dir, len(got), len(chk.sent))}
		}
		if !bytes.Equal(got, chk.sent) {
			return 0, 0, calls, reused, &c24Fail{"bytes-read-differ-from-bytes-written" + tag, chk.dir + " after close"}
		}
	}
	return crc32.ChecksumIEEE(sentAB), crc32.ChecksumIEEE(sentBA), calls, reused, nil
}

// c24Case: two connection lifetimes over one wrapper instance; the second one plays the segments in
// reverse order (so the pooled encoder/decoder/conn state left by the first differs from what the
// second needs).
func c24Case(t *testing.T, kind, stack string, rbuf int, segs [][]byte) (obs string, calls int, reused bool, f *c24Fail) {
	defer c24ReleaseGC()
	p := vsched.Bubble(t, func() {
		w := c24NewWrapper(kind)
		var prev []*compressedConn
		x1, y1, n1, _, f1 := c24Exchange(w, stack, rbuf, segs, 1, &prev)
		calls += n1
		if f1 != nil {
			f = f1
			return
		}
		rev := make([][]byte, len(segs))
		for i, s := range segs {
			rev[len(segs)-1-i] = s
		}
		x2, y2, n2, ru, f2 := c24Exchange(w, stack, rbuf, rev, 2, &prev)
		reused = ru
		calls += n2
		if f2 != nil {
			f = f2
			return
		}
		total := 0
		for _, s := range segs {
			total += len(s)
		}
		obs = fmt.Sprintf("%s/%s n=%d total=%d ab=%08x/%08x ba=%08x/%08x", kind, stack, len(segs), total, x1, x2, y1, y2)
	})
	if p != nil {
		return obs, calls, reused, &c24Fail{"panic", fmt.Sprint(p)}
	}
	return obs, calls, reused, f
}

const c24Chunk = 16

var c24Start = time.Now() // process start (outside any bubble: real clock)

func c24BudgetS() float64 {
	b := 3600.0
	if v := os.Getenv("VERIF_BUDGET_S"); v != "" {
		fmt.Sscanf(v, "%g", &b)
	}
	return b
}

// c24Mine: Enum.Mine plus a wall-budget test on every case (cases here take milliseconds; Mine itself
// looks at the clock only on every 256th global index, which a single shard may never own). frac is
// the share of the process budget after which this scenario stops, so that a budget cut leaves
// something for the scenarios behind it. Called outside the bubbles (real clock).
func c24Mine(e *vsched.Enum, frac float64) bool {
	ok := e.Mine()
	if e.St.Capped == "" && (!vsched.Rep().TimeLeft() || time.Since(c24Start).Seconds() > frac*c24BudgetS()) {
		e.St.Capped = fmt.Sprintf("wall budget reached after %d cases", e.St.Executions)
	}
	return ok && e.St.Capped == ""
}

func c24SegsString(segs [][]byte) string {
	parts := make([]string, len(segs))
	for i, s := range segs {
		parts[i] = hex.EncodeToString(s)
	}
	return "[" + strings.Join(parts, "|") + "]"
}

func c24Content(kind string, n int, salt int) []byte {
	b := make([]byte, n)
	switch kind {
	case "zero":
	case "text":
		const t = "the quick brown fox jumps over the lazy dog; "
		for i := range b {
			b[i] = t[(i+salt)%len(t)]
		}
	case "lcg": // deterministic incompressible pattern (fixed LCG, not sampling)
		x := uint32(salt)*2654435761 + 99991
		for i := range b {
			x = x*1664525 + 1013904223
			b[i] = byte(x >> 24)
		}
	}
	return b
}

func TestVerifC24(t *testing.T) {
	defer vsched.Finish(t)
	rp := c24Replay()

	// ---- scenario 1: all payloads over {00,'a',ff} up to a total length, all write segmentations
	func() {
		const scen = "compositions"
		maxLen := vsched.Pick(4, 5)
		rbufs := []int{1, 2, 7} // 7 >= every total length here: larger reader buffers behave identically (they are in "blocks")
		e := vsched.NewEnum(scen, map[string]any{
			"max_total_len": maxLen, "alphabet": "00,61,ff", "reader_buffers": rbufs, "kinds": c24Kinds,
			"domain": "every payload over the alphabet of total length 1..max x every composition of it into consecutive writes x reader buffer size x wrapper; request/echo in both directions, close, re-open on the same wrapper with the segments reversed",
		})
		alpha := []byte{0x00, 'a', 0xff}
		type base struct {
			segs [][]byte
			rbuf int
		}
		var bases []base
		for n := 1; n <= maxLen; n++ {
			total := 1
			for i := 0; i < n; i++ {
				total *= len(alpha)
			}
			for pi := 0; pi < total; pi++ {
				payload := make([]byte, n)
				x := pi
				for i := range payload {
					payload[i] = alpha[x%len(alpha)]
					x /= len(alpha)
				}
				for cuts := 0; cuts < 1<<(n-1); cuts++ { // bit i set = boundary after byte i
					var segs [][]byte
					start := 0
					for i := 0; i < n-1; i++ {
						if cuts&(1<<i) != 0 {
							segs = append(segs, payload[start:i+1])
							start = i + 1
						}
					}
					segs = append(segs, payload[start:])
					for _, rbuf := range rbufs {
						bases = append(bases, base{segs, rbuf})
					}
				}
			}
		}
		// order: chunks of 16 (segmentation, reader buffer) pairs, each chunk under every wrapper kind in
		// turn: 16 consecutive indices (= the shards) share the kind, so all shards carry the same mix of
		// cheap and expensive compressors, and a budget cut removes all kinds evenly
		for c := 0; c < len(bases); c += c24Chunk {
			for _, kind := range c24Kinds {
				for k := c; k < c+c24Chunk && k < len(bases); k++ {
					b := bases[k]
					in := fmt.Sprintf("kind=%s stack=plain rbuf=%d segs=%s", kind, b.rbuf, c24SegsString(b.segs))
					if !c24Mine(e, 0.6) || rp.skip(scen, in) {
						continue
					}
					obs, calls, reused, f := c24Case(t, kind, "plain", b.rbuf, b.segs)
					if f != nil {
						e.Fail(f.sig, in, "%s", f.detail)
					}
					e.Case(in, obs, calls, kind != "none" && reused)
				}
			}
		}
		e.Done()
	}()

	// ---- scenario 2: block sizes around the 4096 / 32768 / 65536 boundaries
	func() {
		const scen = "blocks"
		small := []int{0, 1, 4095, 4096, 4097}
		big := []int{65535, 65536, 65537}
		sizes := append(append([]int{}, small...), big...)
		// quick: singles and pairs over the small sizes, each big size alone and paired with {0,1,4097}
		// on either side, triples over {0,1,4097}; thorough: singles, pairs and triples over all sizes
		triple := vsched.Pick([]int{0, 1, 4097}, sizes)
		// 131072/131073 = the zstd block size and one byte more: a write policy that depends on "bulk"
		// thresholds shows at and just above a compressor block boundary (seeded change C24)
		extra := vsched.Pick([]int{readBufferSize, readBufferSize + 1, 131072, 131073}, []int{readBufferSize - 1, readBufferSize, readBufferSize + 1, 131071, 131072, 131073, 262145, 1<<20 + 1})
		byteWiseMax := vsched.Pick(8200, 140000)
		rbufs := []int{1, 7, 4096, 70000}
		contents := []string{"zero", "text", "lcg"}
		stacks := []string{"plain", "buffered"}
		e := vsched.NewEnum(scen, map[string]any{
			"sizes": sizes, "triple_sizes": triple, "extra_pair_sizes": extra, "reader_buffers": rbufs, "contents": contents, "stacks": stacks, "kinds": c24Kinds,
			"bytewise_reader_max_total": byteWiseMax,
			"domain": "write-size sequences: singles over sizes; pairs over sizes (quick: pairs over the sizes <= 4097 plus every size >= 65535 paired on either side with 0,1,4097); triples over triple_sizes; (x),(x,s),(s,x) for x in extra_pair_sizes, s in {1,4097}  x content {zeros, repeating text, incompressible pattern} x reader buffer x {plain, client bufferedConn + server pooled bufio} x wrapper; request/echo, close, re-open reversed",
		})
		var seqs [][]int
		for i := len(sizes) - 1; i >= 0; i-- { // largest single blocks first: a budget cut keeps the 64 KiB boundary
			seqs = append(seqs, []int{sizes[i]})
		}
		if vsched.Rep().Thorough() {
			for _, a := range sizes {
				for _, b := range sizes {
					seqs = append(seqs, []int{a, b})
				}
			}
		} else {
			for _, a := range small {
				for _, b := range small {
					seqs = append(seqs, []int{a, b})
				}
			}
			for _, x := range big {
				for _, s := range []int{0, 1, 4097} {
					seqs = append(seqs, []int{x, s}, []int{s, x})
				}
			}
		}
		for _, a := range triple {
			for _, b := range triple {
				for _, c := range triple {
					seqs = append(seqs, []int{a, b, c})
				}
			}
		}
		for _, x := range extra {
			seqs = append(seqs, []int{x})
			for _, s := range []int{1, 4097} {
				seqs = append(seqs, []int{x, s}, []int{s, x})
			}
		}
		type base struct {
			seq     []int
			content string
			rbuf    int
			stack   string
		}
		var bases []base
		for _, seq := range seqs {
			total := 0
			for _, n := range seq {
				total += n
			}
			for _, content := range contents {
				for _, rbuf := range rbufs {
					if rbuf == 1 && total > byteWiseMax {
						continue // byte-wise reading only up to bytewise_reader_max_total
					}
					for _, stack := range stacks {
						bases = append(bases, base{seq, content, rbuf, stack})
					}
				}
			}
		}
		for c := 0; c < len(bases); c += c24Chunk { // same ordering scheme as in "compositions"
			for _, kind := range c24Kinds {
				for k := c; k < c+c24Chunk && k < len(bases); k++ {
					b := bases[k]
					in := fmt.Sprintf("kind=%s stack=%s rbuf=%d content=%s sizes=%v", kind, b.stack, b.rbuf, b.content, b.seq)
					if !c24Mine(e, 1) || rp.skip(scen, in) {
						continue
					}
					segs := make([][]byte, len(b.seq))
					total := 0
					for i, n := range b.seq {
						segs[i] = c24Content(b.content, n, i+1)
						total += n
					}
					obs, calls, reused, f := c24Case(t, kind, b.stack, b.rbuf, segs)
					if f != nil {
						e.Fail(f.sig, in, "%s", f.detail)
					}
					e.Case(in, obs+" "+b.content, calls, kind != "none" && reused && total > 0)
				}
			}
		}
		e.Done()
	}()
}
