//go:build verif

package net

// C23 part 2 — robustness: reference parsers of the two documented frame layouts (boring Go, 64-bit
// arithmetic, no unsafe) and the enumerations of malformed input built from the code's own
// boundaries. Verdicts are limited to what the property states:
//   (a) no decoder panics (an out-of-range read in Go is a panic);
//   (b) input that is truncated / malformed / oversized by the documented layout yields an error
//       (for the server loop: the handler is not invoked for it);
//   (c) no call allocates beyond the frame limit in force (+ power-of-two pool rounding + slack);
//   (d) when a decoder accepts an exact, well-formed frame, what it returns is what the layout says.
// Whether a well-formed-but-unusual frame (trailing bytes after totalLen, slack or duplicate keys
// in the metadata section) is accepted is not specified by the property: no verdict.

import (
	"bytes"
	"encoding/binary"
	"errors"
	"fmt"
	"hash/crc32"
	"io"
	"runtime"
	"sort"
	"strings"
	"sync/atomic"
	"testing"
	"time"

	"google.golang.org/protobuf/proto"
	"google.golang.org/protobuf/reflect/protoreflect"
	"google.golang.org/protobuf/reflect/protoregistry"

	"github.com/tochemey/goakt/v4/internal/verif/vsched"
)

// wall-budget flag set by a goroutine outside every bubble (inside a bubble time.Now is virtual, so
// Enum.Mine cannot see the wall clock there).
var c23Expired atomic.Bool

func c23WatchBudget() {
	go func() {
		for vsched.Rep().TimeLeft() {
			time.Sleep(50 * time.Millisecond)
		}
		c23Expired.Store(true)
	}()
}

func c23Mine(e *vsched.Enum) bool {
	ok := e.Mine()
	if c23Expired.Load() && e.St.Capped == "" {
		e.St.Capped = fmt.Sprintf("wall budget reached after %d cases", e.St.Executions)
	}
	return ok && e.St.Capped == ""
}

// ---------------------------------------------------------------------------------------------
// reference parsers

type c23Ref struct {
	ok      bool
	why     string // class of malformation when !ok
	loose   bool   // well-formed but acceptance unspecified (trailing bytes, metadata slack, duplicate keys)
	name    string
	msg     proto.Message
	hasMeta bool
	hdr     map[string]string
	remain  int64
}

func c23RefPayload(name, payload []byte) (proto.Message, string) {
	mt, err := protoregistry.GlobalTypes.FindMessageByName(protoreflect.FullName(string(name)))
	if err != nil {
		return nil, "unknown-type"
	}
	m := mt.New().Interface()
	if err := proto.Unmarshal(payload, m); err != nil {
		return nil, "bad-payload"
	}
	return m, ""
}

// c23RefLegacy: [totalLen u32][nameLen u32][name][proto]; totalLen covers the whole frame.
func c23RefLegacy(x []byte) c23Ref {
	if len(x) < 8 {
		return c23Ref{why: "short-header"}
	}
	T := uint64(binary.BigEndian.Uint32(x[0:4]))
	N := uint64(binary.BigEndian.Uint32(x[4:8]))
	if T < 8 {
		return c23Ref{why: "total-below-minimum"}
	}
	if uint64(len(x)) < T {
		return c23Ref{why: "truncated"}
	}
	if 8+N > T {
		return c23Ref{why: "name-overruns-frame"}
	}
	m, why := c23RefPayload(x[8:8+N], x[8+N:T])
	if why != "" {
		return c23Ref{why: why}
	}
	return c23Ref{ok: true, loose: uint64(len(x)) > T, name: string(x[8 : 8+N]), msg: m}
}

// c23RefMetaSection: [count u16]{[klen u16][key][vlen u16][val]}*[remaining i64].
func c23RefMetaSection(s []byte) (ok bool, hdr map[string]string, remain int64, loose bool) {
	if len(s) < 10 {
		return false, nil, 0, false
	}
	count := int(binary.BigEndian.Uint16(s))
	pos := 2
	hdr = map[string]string{}
	for i := 0; i < count; i++ {
		if pos+2 > len(s) {
			return false, nil, 0, false
		}
		kl := int(binary.BigEndian.Uint16(s[pos:]))
		pos += 2
		if pos+kl > len(s) {
			return false, nil, 0, false
		}
		k := string(s[pos : pos+kl])
		pos += kl
		if pos+2 > len(s) {
			return false, nil, 0, false
		}
		vl := int(binary.BigEndian.Uint16(s[pos:]))
		pos += 2
		if pos+vl > len(s) {
			return false, nil, 0, false
		}
		v := string(s[pos : pos+vl])
		pos += vl
		if _, dup := hdr[k]; dup {
			loose = true
		}
		hdr[k] = v
	}
	if pos+8 > len(s) {
		return false, nil, 0, false
	}
	remain = int64(binary.BigEndian.Uint64(s[pos:]))
	if pos+8 < len(s) {
		loose = true
	}
	return true, hdr, remain, loose
}

// c23RefMeta: [totalLen u32][nameLen u32][metaLen u32][name][metadata][proto].
func c23RefMeta(x []byte) c23Ref {
	if len(x) < 12 {
		return c23Ref{why: "short-header"}
	}
	T := uint64(binary.BigEndian.Uint32(x[0:4]))
	N := uint64(binary.BigEndian.Uint32(x[4:8]))
	K := uint64(binary.BigEndian.Uint32(x[8:12]))
	if T < 12 {
		return c23Ref{why: "total-below-minimum"}
	}
	if uint64(len(x)) < T {
		return c23Ref{why: "truncated"}
	}
	if 12+N+K > T {
		return c23Ref{why: "sections-overrun-frame"}
	}
	r := c23Ref{loose: uint64(len(x)) > T, name: string(x[12 : 12+N])}
	if K > 0 {
		ok, hdr, remain, loose := c23RefMetaSection(x[12+N : 12+N+K])
		if !ok {
			return c23Ref{why: "bad-metadata"}
		}
		r.hasMeta, r.hdr, r.remain = true, hdr, remain
		r.loose = r.loose || loose
	}
	m, why := c23RefPayload(x[12:12+N], x[12+N+K:T])
	if why != "" {
		return c23Ref{why: why}
	}
	r.ok, r.msg = true, m
	return r
}

// same reports whether a decode result equals the reference decode (now = frozen bubble clock).
func (r *c23Ref) same(m proto.Message, md *Metadata, now int64) bool {
	if m == nil || string(proto.MessageName(m)) != r.name || !proto.Equal(m, r.msg) {
		return false
	}
	if !r.hasMeta {
		return md == nil
	}
	if md == nil || len(md.headers) != len(r.hdr) {
		return false
	}
	for k, v := range r.hdr {
		if g, ok := md.headers[k]; !ok || g != v {
			return false
		}
	}
	want := int64(0)
	if r.remain != 0 {
		want = now + r.remain
	}
	return md.deadlineNano == want
}

func c23ErrName(err error) string {
	switch {
	case err == nil:
		return "ok"
	case errors.Is(err, ErrInvalidMessageLength):
		return "len"
	case errors.Is(err, ErrUnknownMessageType):
		return "type"
	case errors.Is(err, ErrInvalidMetadata):
		return "meta"
	case errors.Is(err, ErrUnmarshalBinaryFailed):
		return "proto"
	case errors.Is(err, ErrFrameTooLarge):
		return "big"
	case errors.Is(err, io.ErrUnexpectedEOF):
		return "ueof"
	case errors.Is(err, io.EOF):
		return "eof"
	}
	return "other"
}

// c23OversizeBroken is set once this process has seen the frame-size limit not being enforced (a
// violation is already recorded). From then on inputs that claim more than 64 MiB are no longer fed
// to the stream readers: a reader that ignores the limit would allocate the claimed gigabytes and
// take the process (and the recorded violation) down. Never set on code that enforces the limit.
var c23OversizeBroken bool

// c23StreamModel parses a byte stream the way the property describes frame reading: returns for each
// complete frame its bytes; stops at the first frame the reader must reject.
func c23StreamFirst(x []byte, max uint32) (frame []byte, ok bool) {
	if len(x) < 4 {
		return nil, false
	}
	T := uint64(binary.BigEndian.Uint32(x[0:4]))
	if T < 8 || T > uint64(max) || uint64(len(x)) < T {
		return nil, false
	}
	return x[:T], true
}

// c23CheckBytes pushes one byte string through every decoder and compares with the reference
// parsers. heavy=false skips the stream paths (used when totalLen claims a multi-MiB frame inside a
// large product, where the stream paths would only repeat the same header decision).
func c23CheckBytes(x []byte, stream bool) (obs string, calls int, sig, detail string) {
	if c23OversizeBroken && len(x) >= 4 && binary.BigEndian.Uint32(x) > 64<<20 {
		stream = false
	}
	now := time.Now().UnixNano()
	rl, rm := c23RefLegacy(x), c23RefMeta(x)
	var ob strings.Builder
	fail := func(s, f string, a ...any) (string, int, string, string) { return ob.String(), calls, s, fmt.Sprintf(f, a...) }

	// D1 legacy decoder
	var m proto.Message
	var md *Metadata
	var err error
	var p any
	func() {
		defer func() { p = recover() }()
		m, _, err = c23Ser.UnmarshalBinary(x)
	}()
	calls++
	if p != nil {
		return fail("panic@UnmarshalBinary", "%v", p)
	}
	fmt.Fprintf(&ob, "L:%s/%s ", c23ErrName(err), rl.why)
	if !rl.ok && err == nil {
		return fail("malformed-accepted@UnmarshalBinary:"+rl.why, "decoded %v", m)
	}
	if rl.ok && !rl.loose && err == nil && !rl.same(m, nil, now) {
		return fail("wellformed-decoded-differently@UnmarshalBinary", "decoded %v", m)
	}

	// D2 metadata decoder
	func() {
		defer func() { p = recover() }()
		m, md, _, err = c23Ser.UnmarshalBinaryWithMetadata(x)
	}()
	calls++
	if p != nil {
		return fail("panic@UnmarshalBinaryWithMetadata", "%v", p)
	}
	fmt.Fprintf(&ob, "M:%s/%s ", c23ErrName(err), rm.why)
	if !rm.ok && err == nil {
		return fail("malformed-accepted@UnmarshalBinaryWithMetadata:"+rm.why, "decoded %v", m)
	}
	if rm.ok && !rm.loose && err == nil && !rm.same(m, md, now) {
		return fail("wellformed-decoded-differently@UnmarshalBinaryWithMetadata", "decoded %v md=%v", m, md)
	}
	if err == nil && rm.ok {
		b, _ := proto.MarshalOptions{Deterministic: true}.Marshal(m)
		fmt.Fprintf(&ob, "m=%08x ", crc32.ChecksumIEEE(b))
	}

	// D3 client format detection
	func() {
		defer func() { p = recover() }()
		m, md, err = c23Client.unmarshalProtoResponse(x)
	}()
	calls++
	if p != nil {
		return fail("panic@unmarshalProtoResponse", "%v", p)
	}
	fmt.Fprintf(&ob, "A:%s ", c23ErrName(err))
	if err == nil {
		if !rl.ok && !rm.ok {
			return fail("malformed-accepted@unmarshalProtoResponse", "legacy:%s meta:%s decoded %v", rl.why, rm.why, m)
		}
		okL := rl.ok && (rl.loose || rl.same(m, md, now))
		okM := rm.ok && (rm.loose || rm.same(m, md, now))
		if !okL && !okM {
			return fail("wellformed-decoded-differently@unmarshalProtoResponse", "decoded %v md=%v", m, md)
		}
	}
	if !stream {
		return ob.String(), calls, "", ""
	}

	// D4 frame reader
	for _, pool := range []*FramePool{nil, c23Pool} {
		rd := &c23ChunkReader{data: x}
		var fr []byte
		func() {
			defer func() { p = recover() }()
			fr, err = readProtoFrame(rd, pool, defaultMaxFrameSize)
		}()
		calls++
		if p != nil {
			return fail("panic@readProtoFrame", "%v", p)
		}
		want, wok := c23StreamFirst(x, defaultMaxFrameSize)
		if pool == nil {
			fmt.Fprintf(&ob, "R:%s ", c23ErrName(err))
		}
		if !wok && err == nil {
			return fail("malformed-accepted@readProtoFrame", "returned %d bytes", len(fr))
		}
		if wok && err == nil {
			if !bytes.Equal(fr, want) {
				return fail("frame-reader-returns-different-bytes", "len %d want %d", len(fr), len(want))
			}
			if rd.pos != len(want) {
				return fail("frame-reader-consumes-beyond-frame", "consumed %d, frame %d", rd.pos, len(want))
			}
		}
		if err == nil && pool != nil {
			pool.Put(fr)
		}
	}

	// D5 server read loop: handler calls must be a prefix of what the stream model admits
	var exp []*[2]c23Ref
	rest := x
	unspecified := false
	for {
		f, ok := c23StreamFirst(rest, defaultMaxFrameSize)
		if !ok {
			break
		}
		pair := &[2]c23Ref{c23RefLegacy(f), c23RefMeta(f)}
		if !pair[0].ok && !pair[1].ok {
			break
		}
		if (pair[0].ok && pair[0].loose) || (pair[1].ok && pair[1].loose) {
			unspecified = true
			break
		}
		exp = append(exp, pair)
		rest = rest[len(f):]
	}
	got, _, sp := c23Serve(x, 0, defaultMaxFrameSize, false)
	calls++
	if sp != nil {
		return fail("panic@server", "%v", sp)
	}
	fmt.Fprintf(&ob, "S:%d/%d", len(got), len(exp))
	if !unspecified && len(got) > len(exp) {
		return fail("malformed-dispatched-to-handler@server", "handler called %d times, stream admits %d frames", len(got), len(exp))
	}
	for i := 0; i < len(got) && i < len(exp); i++ {
		okL := exp[i][0].ok && exp[i][0].same(got[i].msg, got[i].md, now)
		okM := exp[i][1].ok && exp[i][1].same(got[i].msg, got[i].md, now)
		if !okL && !okM {
			return fail("wellformed-decoded-differently@server", "frame %d: %v", i, got[i].msg)
		}
	}
	return ob.String(), calls, "", ""
}

// ---------------------------------------------------------------------------------------------
// length fields of a valid frame

type c23Field struct {
	name  string
	off   int
	width int // 4 or 2
	val   uint64
	room  int // bytes after the field up to the end of its section (2-byte fields)
}

func c23Fields(f c23Frame) []c23Field {
	b := f.b
	T := uint64(binary.BigEndian.Uint32(b[0:4]))
	N := uint64(binary.BigEndian.Uint32(b[4:8]))
	fs := []c23Field{{"totalLen", 0, 4, T, 0}, {"nameLen", 4, 4, N, 0}}
	if f.want.v.legacy {
		return fs
	}
	K := uint64(binary.BigEndian.Uint32(b[8:12]))
	fs = append(fs, c23Field{"metaLen", 8, 4, K, 0})
	if K == 0 {
		return fs
	}
	s := int(12 + N)
	end := s + int(K)
	cnt := int(binary.BigEndian.Uint16(b[s:]))
	fs = append(fs, c23Field{"hdrCount", s, 2, uint64(cnt), end - s - 2})
	pos := s + 2
	for i := 0; i < cnt && i < 3; i++ {
		kl := int(binary.BigEndian.Uint16(b[pos:]))
		fs = append(fs, c23Field{fmt.Sprintf("keyLen%d", i), pos, 2, uint64(kl), end - pos - 2})
		pos += 2 + kl
		vl := int(binary.BigEndian.Uint16(b[pos:]))
		fs = append(fs, c23Field{fmt.Sprintf("valLen%d", i), pos, 2, uint64(vl), end - pos - 2})
		pos += 2 + vl
	}
	return fs
}

func c23Uniq(vs []int64, max int64) []uint64 {
	seen := map[int64]bool{}
	var out []uint64
	for _, v := range vs {
		if v < 0 || v > max || seen[v] {
			continue
		}
		seen[v] = true
		out = append(out, uint64(v))
	}
	sort.Slice(out, func(i, j int) bool { return out[i] < out[j] })
	return out
}

// c23Values4: boundary values of a 4-byte length field of frame f (actual value a).
func c23Values4(f c23Frame, fld c23Field, full bool) []uint64 {
	L := int64(len(f.b))
	a := int64(fld.val)
	N := int64(binary.BigEndian.Uint32(f.b[4:8]))
	vs := []int64{0, 1, 7, 8, 9, 11, 12, 13, a - 1, a, a + 1, L - 1, L, L + 1, 1<<31 - 1, 1 << 31, 1<<32 - 1,
		1<<32 - 12 - N, 1<<32 + L - 12 - N, 1<<32 - 8 - N} // the last three wrap 12+N+K / 8+N to 0 / L in 32-bit arithmetic
	if full {
		vs = append(vs, 4, 255, 256, 65535, 65536, 1<<24, 1<<25, 1<<26, int64(defaultMaxFrameSize)-1, int64(defaultMaxFrameSize), int64(defaultMaxFrameSize)+1,
			L-8, L-12, L-12-N, L-8-N, L-12-N+1, 1<<32-2)
	}
	return c23Uniq(vs, 1<<32-1)
}

func c23Values2(fld c23Field) []uint64 {
	a, r := int64(fld.val), int64(fld.room)
	return c23Uniq([]int64{0, 1, 2, a - 1, a, a + 1, r - 9, r - 8, r - 7, r - 1, r, r + 1, 255, 256, 32767, 32768, 65535}, 65535)
}

func c23Put(b []byte, fld c23Field, v uint64) {
	if fld.width == 4 {
		binary.BigEndian.PutUint32(b[fld.off:], uint32(v))
	} else {
		binary.BigEndian.PutUint16(b[fld.off:], uint16(v))
	}
}

// ---------------------------------------------------------------------------------------------
// allocation accounting

func c23Alloc(f func()) uint64 {
	var a, b runtime.MemStats
	runtime.ReadMemStats(&a)
	f()
	runtime.ReadMemStats(&b)
	return b.TotalAlloc - a.TotalAlloc
}

func c23Pow2Ceil(n uint64) uint64 {
	p := uint64(256)
	for p < n {
		p <<= 1
	}
	return p
}

// c23Allowed: the frame buffer (limit rounded up to the pool's power-of-two bucket) + the decoded
// representation of the bytes actually received (generous constant factor) + fixed slack.
func c23Allowed(limit uint32, inputLen int) uint64 {
	return c23Pow2Ceil(uint64(limit)) + 64*uint64(inputLen) + 128<<10
}

// c23CountUnfittable: read as a metadata-format frame, the input has a metadata section whose header
// count cannot fit into the section (every header needs >= 4 bytes, the trailer 8). Used to give the
// allocation excess caused by such a count its own structural signature.
func c23CountUnfittable(x []byte) bool {
	if len(x) < 12 {
		return false
	}
	T := uint64(binary.BigEndian.Uint32(x[0:4]))
	N := uint64(binary.BigEndian.Uint32(x[4:8]))
	K := uint64(binary.BigEndian.Uint32(x[8:12]))
	if T < 12 || uint64(len(x)) < T || 12+N+K > T || K < 10 {
		return false
	}
	count := uint64(binary.BigEndian.Uint16(x[12+N:]))
	return count > (K-10)/4
}

func c23ClientPipeline(x []byte, limit uint32) {
	fr, err := readProtoFrame(&c23ChunkReader{data: x}, c23Pool, limit)
	if err != nil {
		return
	}
	_, _, _ = c23Client.unmarshalProtoResponse(fr)
	c23Pool.Put(fr)
}

// ---------------------------------------------------------------------------------------------
// scenarios

func c23Robust(t *testing.T, corpus []c23Msg, rp *c23ReplayReq) {
	nm := vsched.Pick(2, 8)
	full := vsched.Rep().Thorough()

	// ---- complete frames against frame limits around their own size
	func() {
		const scen = "frame-limit"
		e := vsched.NewEnum(scen, map[string]any{"domain": "every base frame and the exact 255/256/257/4096/4097-byte frames (length L), complete on the stream, read under limit in {8, L-1, L, L+1, 2L}: readProtoFrame and the server loop must reject iff L > limit"})
		vsched.Bubble(t, func() {
			base := c23BaseFrames(corpus, nm)
			for _, n := range []int{255, 256, 257, 4096, 4097} {
				if sm, ok := c23SizedMsg(n); ok {
					f, _ := c23Ser.MarshalBinary(sm.m)
					base = append(base, c23Frame{label: sm.label, b: f, want: &c23Want{m: sm.m, name: string(proto.MessageName(sm.m)), v: c23MD{legacy: true}}})
				}
			}
			for _, f := range base {
				L := len(f.b)
				for _, limit := range []int{8, L - 1, L, L + 1, 2 * L} {
					in := fmt.Sprintf("frame=%s len=%d limit=%d", f.label, L, limit)
					if !c23Mine(e) || rp.skip(scen, in) {
						continue
					}
					over := L > limit
					var obs strings.Builder
					func() {
						defer func() {
							if p := recover(); p != nil {
								e.Fail("panic@frame-limit", in, "%v", p)
							}
						}()
						for _, pool := range []*FramePool{nil, c23Pool} {
							fr, err := readProtoFrame(&c23ChunkReader{data: f.b}, pool, uint32(limit))
							fmt.Fprintf(&obs, "R:%s ", c23ErrName(err))
							if over && err == nil {
								c23OversizeBroken = true
								e.Fail("oversized-frame-accepted@readProtoFrame", in, "frame of %d bytes returned under limit %d", L, limit)
							}
							if !over && (err != nil || !bytes.Equal(fr, f.b)) {
								e.Fail("frame-within-limit-rejected@readProtoFrame", in, "err=%v", err)
							}
							if err == nil && pool != nil {
								pool.Put(fr)
							}
						}
						got, _, p := c23Serve(f.b, 0, uint32(limit), false)
						fmt.Fprintf(&obs, "S:%d", len(got))
						if p != nil {
							e.Fail("panic@server", in, "%v", p)
						}
						if over && len(got) != 0 {
							c23OversizeBroken = true
							e.Fail("oversized-frame-dispatched@server", in, "frame of %d bytes reached the handler under limit %d", L, limit)
						}
						if !over {
							if len(got) != 1 {
								e.Fail("frame-within-limit-rejected@server", in, "handler calls: %d", len(got))
							} else if sg, d := f.want.check("frame-limit-server", got[0].msg, got[0].name, got[0].md); sg != "" {
								e.Fail(sg, in, "%s", d)
							}
						}
					}()
					e.Case(in, fmt.Sprintf("L=%d limit=%d over=%v %s", L, limit, over, obs.String()), 3, true)
				}
			}
		})
		e.Done()
	}()

	// ---- allocation bound under configured frame limits
	func() {
		const scen = "alloc-bound"
		limits := []uint32{4096, 65536, 1 << 20, defaultMaxFrameSize}
		e := vsched.NewEnum(scen, map[string]any{"limits": limits, "domain": "every single length-field mutation of every base frame, read through readProtoFrame(limit)+unmarshalProtoResponse and through the server read loop (maxFrameSize=limit); bytes allocated during the call (runtime.MemStats.TotalAlloc delta) must stay <= pow2ceil(limit) + 64*len(input) + 128 KiB"})
		vsched.Bubble(t, func() {
			base := c23BaseFrames(corpus, nm)
			for _, f := range base { // warm-up: type registry cache, protobuf lazy tables, pools
				c23ClientPipeline(f.b, defaultMaxFrameSize)
				c23Serve(f.b, 0, defaultMaxFrameSize, false)
			}
			for _, f := range base {
				for _, fld := range c23Fields(f) {
					var vals []uint64
					if fld.width == 4 {
						vals = c23Values4(f, fld, true)
					} else {
						vals = c23Values2(fld)
					}
					for _, v := range vals {
						for _, limit := range limits {
							in := fmt.Sprintf("frame=%s %s=%d limit=%d", f.label, fld.name, v, limit)
							if !c23Mine(e) || rp.skip(scen, in) {
								continue
							}
							if c23OversizeBroken && fld.name == "totalLen" && v > 64<<20 {
								continue // see c23OversizeBroken
							}
							x := append([]byte(nil), f.b...)
							c23Put(x, fld, v)
							kind := strings.TrimRight(fld.name, "0123456789")
							if c23CountUnfittable(x) {
								kind = "unfittable-header-count"
							}
							allowed := c23Allowed(limit, len(x))
							measure := func(run func()) uint64 {
								best := c23Alloc(run)
								for i := 0; i < 2 && best > allowed; i++ { // repeat: only a reproducible excess counts
									if a := c23Alloc(run); a < best {
										best = a
									}
								}
								return best
							}
							var p any
							func() {
								defer func() { p = recover() }()
								ac := measure(func() { c23ClientPipeline(x, limit) })
								as := measure(func() { c23Serve(x, 0, limit, false) })
								if (ac > allowed || as > allowed) && fld.name == "totalLen" {
									c23OversizeBroken = true
								}
								if ac > allowed {
									e.Fail("allocation-exceeds-frame-limit:"+kind+"@client", in, "allocated %d bytes reading a %d-byte input under frame limit %d (allowed %d)", ac, len(x), limit, allowed)
								}
								if as > allowed {
									e.Fail("allocation-exceeds-frame-limit:"+kind+"@server", in, "allocated %d bytes reading a %d-byte input under frame limit %d (allowed %d)", as, len(x), limit, allowed)
								}
								bucket := func(a uint64) string {
									switch {
									case a > allowed:
										return "over"
									case a > uint64(limit):
										return "pool-rounding"
									case a > 64<<10:
										return ">64K"
									case a > 4<<10:
										return ">4K"
									}
									return "small"
								}
								e.Case(in, fmt.Sprintf("%s limit=%d client=%s server=%s", kind, limit, bucket(ac), bucket(as)), 2, v != fld.val)
							}()
							if p != nil {
								e.Fail("panic@alloc-bound", in, "%v", p)
							}
						}
					}
				}
			}
		})
		e.Done()
	}()

	// ---- prefixes
	func() {
		const scen = "prefixes"
		e := vsched.NewEnum(scen, map[string]any{"domain": "every proper prefix (length 0..len-1) of every base frame (both formats, metadata 0/1/2 headers, with/without deadline) and of the exact 256/257-byte frames; decoders: UnmarshalBinary, UnmarshalBinaryWithMetadata, unmarshalProtoResponse, readProtoFrame, server read loop"})
		vsched.Bubble(t, func() {
			base := c23BaseFrames(corpus, nm)
			for _, n := range []int{256, 257} {
				if sm, ok := c23SizedMsg(n); ok {
					f, _ := c23Ser.MarshalBinary(sm.m)
					base = append(base, c23Frame{label: sm.label, b: f, want: &c23Want{v: c23MD{legacy: true}}})
				}
			}
			for _, f := range base {
				for n := 0; n < len(f.b); n++ {
					in := fmt.Sprintf("frame=%s prefix=%d/%d", f.label, n, len(f.b))
					if !c23Mine(e) || rp.skip(scen, in) {
						continue
					}
					x := append([]byte(nil), f.b[:n]...)
					obs, calls, sig, detail := c23CheckBytes(x, true)
					if sig != "" {
						e.Fail(sig, in, "%s", detail)
					}
					e.Case(in, fmt.Sprintf("n=%d %s", n, obs), calls, n >= 8)
				}
			}
		})
		e.Done()
	}()

	// ---- single length-field mutations and products of the three 4-byte fields
	func() {
		const scen = "length-mutations"
		e := vsched.NewEnum(scen, map[string]any{"domain": "for every base frame: (1) each length field (totalLen, nameLen, metaLen, header count, each key/value length) set to each boundary value {0,1,2,7,8,9,11,12,13, actual-1/actual/actual+1, frameLen-1/+0/+1, remaining-room-9..+1, 255,256,32767,32768,65535,65536, 2^24, maxFrame-1/+0/+1, 2^31-1, 2^31, 2^32-1 and the values that wrap 8+N / 12+N+K in 32-bit arithmetic}; (2) the full product of the boundary sets of (totalLen, nameLen[, metaLen])"})
		vsched.Bubble(t, func() {
			base := c23BaseFrames(corpus, nm)
			e.St.Params["base_frames"] = len(base)
			runCase := func(in string, x []byte, stream bool) {
				obs, calls, sig, detail := c23CheckBytes(x, stream)
				if sig != "" {
					e.Fail(sig, in, "%s", detail)
				}
				e.Case(in, obs, calls, len(x) >= 12)
			}
			for _, f := range base {
				flds := c23Fields(f)
				for _, fld := range flds {
					var vals []uint64
					if fld.width == 4 {
						vals = c23Values4(f, fld, true)
					} else {
						vals = c23Values2(fld)
					}
					for _, v := range vals {
						in := fmt.Sprintf("frame=%s %s=%d", f.label, fld.name, v)
						if !c23Mine(e) || rp.skip(scen, in) {
							continue
						}
						x := append([]byte(nil), f.b...)
						c23Put(x, fld, v)
						runCase(in, x, true)
					}
				}
				// products
				var sets [][]uint64
				n4 := 0
				for _, fld := range flds {
					if fld.width == 4 {
						sets = append(sets, c23Values4(f, fld, full))
						n4++
					}
				}
				idx := make([]int, n4)
				for {
					var sb strings.Builder
					fmt.Fprintf(&sb, "frame=%s", f.label)
					for i := 0; i < n4; i++ {
						fmt.Fprintf(&sb, " %s=%d", flds[i].name, sets[i][idx[i]])
					}
					in := sb.String()
					if c23Mine(e) && !rp.skip(scen, in) {
						x := append([]byte(nil), f.b...)
						for i := 0; i < n4; i++ {
							c23Put(x, flds[i], sets[i][idx[i]])
						}
						// stream paths only while the claimed frame is small (they allocate totalLen)
						runCase(in, x, sets[0][idx[0]] <= 1<<20)
					}
					k := n4 - 1
					for k >= 0 {
						idx[k]++
						if idx[k] < len(sets[k]) {
							break
						}
						idx[k] = 0
						k--
					}
					if k < 0 {
						break
					}
				}
			}
		})
		e.Done()
	}()

	// ---- synthetic header grid on short buffers
	func() {
		const scen = "header-grid"
		e := vsched.NewEnum(scen, map[string]any{"domain": "buffers of length 0..24 and 40 filled with 0x00 / 0xff / a registered type name, headers (totalLen, nameLen, metaLen) over {0,1,7,8,11,12,13,L-1,L,L+1,2^31,2^32-1} where the buffer is long enough to hold them"})
		vsched.Bubble(t, func() {
			name := []byte(c23Descs()[0].FullName())
			lens := []int{}
			for l := 0; l <= 24; l++ {
				lens = append(lens, l)
			}
			lens = append(lens, 40, 12+len(name), 12+len(name)+10)
			for _, L := range lens {
				vals := c23Uniq([]int64{0, 1, 7, 8, 11, 12, 13, int64(L) - 1, int64(L), int64(L) + 1, int64(len(name)), int64(L) - int64(len(name)), 1 << 31, 1<<32 - 1}, 1<<32-1)
				nf := L / 4
				if nf > 3 {
					nf = 3
				}
				for fill := 0; fill < 4; fill++ {
					idx := make([]int, nf)
					for {
						in := fmt.Sprintf("L=%d fill=%d", L, fill)
						for i := 0; i < nf; i++ {
							in += fmt.Sprintf(" h%d=%d", i, vals[idx[i]])
						}
						if c23Mine(e) && !rp.skip(scen, in) {
							x := make([]byte, L)
							switch fill {
							case 1:
								for i := range x {
									x[i] = 0xff
								}
							case 2: // type name right after an 8-byte header
								if L > 8 {
									copy(x[8:], name)
								}
							case 3: // type name right after a 12-byte header
								if L > 12 {
									copy(x[12:], name)
								}
							}
							for i := 0; i < nf; i++ {
								binary.BigEndian.PutUint32(x[4*i:], uint32(vals[idx[i]]))
							}
							obs, calls, sig, detail := c23CheckBytes(x, nf == 0 || vals[idx[0]] <= 1<<20)
							if sig != "" {
								e.Fail(sig, in, "%s", detail)
							}
							e.Case(in, obs, calls, L >= 8)
						}
						k := nf - 1
						for k >= 0 {
							idx[k]++
							if idx[k] < len(vals) {
								break
							}
							idx[k] = 0
							k--
						}
						if k < 0 {
							break
						}
					}
				}
			}
		})
		e.Done()
	}()

	// ---- metadata section codec against the reference parser
	func() {
		const scen = "metadata-bytes"
		e := vsched.NewEnum(scen, map[string]any{"domain": "Metadata.UnmarshalBinary on: every prefix of the encodings of metadata with 0..3 headers (key/value lengths 0,1,3) with and without deadline; every 2-byte length (count, key, value) set to {0,1,2,actual±1,room-9..room+1,255,256,32767,32768,65535}; all pairs of two mutated length fields"})
		vsched.Bubble(t, func() {
			now := time.Now().UnixNano()
			type sec struct {
				label string
				b     []byte
				flds  []c23Field
			}
			var secs []sec
			kv := []string{"", "a", "abc"}
			build := func(label string, hdr [][2]string, dl bool) {
				md := NewMetadata()
				// deterministic layout: encode one header at a time (map order is irrelevant for <=1 header;
				// for more the section is assembled by hand from single-header encodings)
				var body []byte
				for _, h := range hdr {
					one := NewMetadata()
					one.Set(h[0], h[1])
					enc := one.MarshalBinary()
					body = append(body, enc[2:len(enc)-8]...)
				}
				if dl {
					md.SetDeadline(time.Unix(0, now).Add(time.Second))
				}
				tail := md.MarshalBinary()
				b := make([]byte, 2, 2+len(body)+8)
				binary.BigEndian.PutUint16(b, uint16(len(hdr)))
				b = append(b, body...)
				b = append(b, tail[2:]...)
				s := sec{label: label, b: b}
				s.flds = append(s.flds, c23Field{"hdrCount", 0, 2, uint64(len(hdr)), len(b) - 2})
				pos := 2
				for i, h := range hdr {
					s.flds = append(s.flds, c23Field{fmt.Sprintf("keyLen%d", i), pos, 2, uint64(len(h[0])), len(b) - pos - 2})
					pos += 2 + len(h[0])
					s.flds = append(s.flds, c23Field{fmt.Sprintf("valLen%d", i), pos, 2, uint64(len(h[1])), len(b) - pos - 2})
					pos += 2 + len(h[1])
				}
				secs = append(secs, s)
			}
			for _, dl := range []bool{false, true} {
				build(fmt.Sprintf("h0-dl%v", dl), nil, dl)
				for _, k := range kv {
					for _, v := range kv {
						build(fmt.Sprintf("h1[%q=%q]-dl%v", k, v, dl), [][2]string{{k, v}}, dl)
					}
				}
				build(fmt.Sprintf("h2-dl%v", dl), [][2]string{{"a", "1"}, {"bc", ""}}, dl)
				build(fmt.Sprintf("h2dup-dl%v", dl), [][2]string{{"a", "1"}, {"a", "2"}}, dl)
				build(fmt.Sprintf("h3-dl%v", dl), [][2]string{{"a", "1"}, {"", "xyz"}, {"abc", "d"}}, dl)
			}
			check := func(in string, x []byte) {
				ok, hdr, remain, loose := c23RefMetaSection(x)
				md := &Metadata{}
				var err error
				var p any
				func() {
					defer func() { p = recover() }()
					err = md.UnmarshalBinary(x)
				}()
				obs := fmt.Sprintf("len=%d ref=%v impl=%s n=%d", len(x), ok, c23ErrName(err), len(md.headers))
				switch {
				case p != nil:
					e.Fail("panic@Metadata.UnmarshalBinary", in, "%v", p)
				case !ok && err == nil:
					e.Fail("malformed-accepted@Metadata.UnmarshalBinary", in, "decoded %d headers", len(md.headers))
				case ok && !loose && err == nil:
					r := c23Ref{hasMeta: true, hdr: hdr, remain: remain}
					want := int64(0)
					if remain != 0 {
						want = now + remain
					}
					if len(md.headers) != len(r.hdr) || md.deadlineNano != want {
						e.Fail("wellformed-decoded-differently@Metadata.UnmarshalBinary", in, "headers %d want %d, deadline %d want %d", len(md.headers), len(hdr), md.deadlineNano, want)
					}
					for k, v := range hdr {
						if g, ok := md.headers[k]; !ok || g != v {
							e.Fail("wellformed-decoded-differently@Metadata.UnmarshalBinary", in, "header %q", k)
						}
					}
					obs += fmt.Sprintf(" dl=%d", md.deadlineNano-now)
				}
				e.Case(in, obs, 1, len(x) >= 2)
			}
			for _, s := range secs {
				for n := 0; n < len(s.b); n++ {
					in := fmt.Sprintf("sec=%s prefix=%d", s.label, n)
					if c23Mine(e) && !rp.skip(scen, in) {
						check(in, append([]byte(nil), s.b[:n]...))
					}
				}
				for i, f1 := range s.flds {
					for _, v1 := range c23Values2(f1) {
						in := fmt.Sprintf("sec=%s %s=%d", s.label, f1.name, v1)
						if c23Mine(e) && !rp.skip(scen, in) {
							x := append([]byte(nil), s.b...)
							c23Put(x, f1, v1)
							check(in, x)
						}
						for _, f2 := range s.flds[i+1:] {
							for _, v2 := range c23Values2(f2) {
								in := fmt.Sprintf("sec=%s %s=%d %s=%d", s.label, f1.name, v1, f2.name, v2)
								if c23Mine(e) && !rp.skip(scen, in) {
									x := append([]byte(nil), s.b...)
									c23Put(x, f1, v1)
									c23Put(x, f2, v2)
									check(in, x)
								}
							}
						}
					}
				}
			}
		})
		e.Done()
	}()

}
