//go:build verif

package actor

// C16 — every reentrant request completes exactly once, on the requester's turn.
//
// Event-order exploration on a real actor system inside a synctest bubble (guide §2c + §2d, gate
// mode). One execution = one fresh system in one fresh bubble:
//
//	R   requester actor (WithReentrancy(mode, maxInFlight)), its mailbox is an UnboundedMailbox wrapped
//	    by c16Mailbox (public WithMailbox option) so that every dequeue of R's turn is logged;
//	S_k one responder per request k (actor for Request/RequestName, grain for RequestGrain); its handler
//	    blocks on gate k (a bubble channel) before replying.
//
// The harness root goroutine plays the environment: it picks one enabled event (vsched.Chooser),
// fires it, waits for quiescence (vsched.Settle) and evaluates the invariants. Nothing else runs
// concurrently with an event, so the order of what is enqueued into R's mailbox is exactly the order
// of the events; real mailbox-level races (reply vs timeout vs cancel vs ordinary message vs
// PoisonPill all queued at once) are produced by the "hold" option: the handler of the first "go"
// blocks on a gate *after* it has issued its request, so everything fired before "relR" piles up in
// R's mailbox and is processed in one go afterwards. The "burst" option lets the first "go" issue two
// requests from the same handler invocation (two blocking calls outstanding at once).
//
// Oracle (only what the statement says, see TestVerifC16 for the skipped corners):
//
//	continuation-ran-twice                 Then callback of call k ran more than once
//	continuation-never-ran                 R stayed running, call k was accepted, quiescence, no callback
//	continuation-off-turn                  callback ran while R.schedState != Processing or on a goroutine
//	                                       other than the one that did the latest dequeue of R's mailbox
//	continuation-overlaps-handler          callback ran while another handler/callback of R was open
//	continuation-result-shape              callback got neither / both of (result, error), or a foreign reply
//	ordinary-handled-while-blocking        ordinary message handler entered while a StashNonReentrant
//	                                       request was outstanding (model count and R.blockingCount)
//	held-message-not-handled-once          a held (stashed) message was handled 0 or ≥2 times at quiescence
//	held-messages-out-of-arrival-order     held messages released by the same unstash were handled in an order
//	                                       other than arrival order
//	held-message-requeued-behind-later-arrival  same clause, other structure: a held message was released
//	                                       behind a later arrival that was already waiting in the mailbox, both
//	                                       were held again and then handled in the swapped order (known finding)
//	in-flight-limit-exceeded               outstanding calls / R.inFlightCount > maxInFlight (limit set)
//	counters-not-zero-at-quiescence        R.inFlightCount / R.blockingCount != 0 at the end

import (
	"bytes"
	"context"
	"errors"
	"fmt"
	"runtime"
	"strconv"
	"strings"
	"sync"
	"sync/atomic"
	"testing"
	"time"

	gerrors "github.com/tochemey/goakt/v4/errors"
	"github.com/tochemey/goakt/v4/internal/commands"
	"github.com/tochemey/goakt/v4/internal/verif/vsched"
	"github.com/tochemey/goakt/v4/reentrancy"
)

const (
	c16MaxReq   = 3
	c16AdvStep  = 10 * time.Second
	c16APIPid   = 0
	c16APIName  = 1
	c16APIGrain = 2
)

// c16Timeouts: per-request timeouts (10 s, 13 s, 17 s; reversed when cfg.tmoRev). Virtual time only
// moves by the event "adv" (sleep until the earliest deadline of a pending call) and requests are only
// issued at time 0 or at such a deadline, so two pending calls never share a deadline (all sums of
// one or two of the values are distinct): timers fire one by one, in a deterministic order.
var c16Timeouts = [c16MaxReq]time.Duration{10 * time.Second, 13 * time.Second, 17 * time.Second}

func (c c16Cfg) timeout(k int) time.Duration {
	if c.tmoRev {
		return c16Timeouts[c.nReq-1-k]
	}
	return c16Timeouts[k]
}

type c16Msg struct {
	kind string // go | m | cancel | then (to R)   req (to S)   rep (reply)
	id   int
	seq  int  // arrival index of messages told to R by the (single) client
	held bool // grain requester only: told while R.blockingCount>0 (the grain keeps such messages queued)
}

func (m *c16Msg) key() string { return m.kind + strconv.Itoa(m.id) }

type c16Cfg struct {
	name        string
	defMode     reentrancy.Mode    // actor default
	override    [c16MaxReq]int     // per call: 0 none, 1 WithReentrancyMode(AllowAll), 2 WithReentrancyMode(StashNonReentrant)
	api         [c16MaxReq]int     // c16APIPid / c16APIName / c16APIGrain
	maxInFlight int
	nReq        int
	nMsg        int
	hold        bool // handler of the first go blocks (after issuing) until event relR
	cancelTurn  bool // Cancel() is called from inside R's turn (message) instead of from the client goroutine
	lateThen    bool // Then is registered by a later message ("then k") instead of by the issuing handler
	clientStop  bool // offer PID.Shutdown from the client goroutine in addition to PoisonPill
	tmoRev      bool // later requests have the shorter timeout
	burst       bool // the first go issues calls 0 and 1 from the same handler invocation
	grainReq    bool // the requester is a grain (GrainContext.RequestGrain / RequestActor)
	horizon     int
	bound       int
}

func (c c16Cfg) nGo() int {
	if c.burst {
		return c.nReq - 1
	}
	return c.nReq
}

func (c c16Cfg) effMode(k int) reentrancy.Mode {
	switch c.override[k] {
	case 1:
		return reentrancy.AllowAll
	case 2:
		return reentrancy.StashNonReentrant
	}
	return c.defMode
}

type c16Ent struct {
	typ  byte // 'D' dequeue from R's mailbox, 'H' handler entry, 'C' continuation
	key  string
	seq  int
	info string
}

type c16World struct {
	cfg c16Cfg
	r   *PID      // requester actor ...
	g   *grainPID // ... or requester grain

	mu       sync.Mutex
	trace    []c16Ent
	viol     []vsched.Violation
	calls    [c16MaxReq]RequestCall
	issued   [c16MaxReq]bool
	accepted [c16MaxReq]bool
	thenSet  [c16MaxReq]bool
	rejected [c16MaxReq]string
	deadline [c16MaxReq]time.Time
	cbCount  [c16MaxReq]int
	cbRes    [c16MaxReq]string
	nextReq  int
	stopReq  bool // a stop event has been fired (R no longer "stays running")
	events   []string

	open     atomic.Int32 // open handler / continuation invocations of R
	deqGoid  atomic.Int64 // goroutine of the latest dequeue from R's mailbox
	rHeld    atomic.Bool
	sBlocked [c16MaxReq]atomic.Bool
	gateR    chan struct{}
	gateS    [c16MaxReq]chan struct{}
	sPid     [c16MaxReq]*PID
	sGrain   [c16MaxReq]*GrainIdentity
}

func (w *c16World) fail(sig, format string, a ...any) {
	w.mu.Lock()
	defer w.mu.Unlock()
	for _, v := range w.viol {
		if v.Signature == sig {
			return
		}
	}
	w.viol = append(w.viol, vsched.Fail(sig, "scenario=%s events=[%s]: %s", w.cfg.name, strings.Join(w.events, " "), fmt.Sprintf(format, a...)))
}

func (w *c16World) log(e c16Ent) {
	w.mu.Lock()
	w.trace = append(w.trace, e)
	w.mu.Unlock()
}

func c16Goid() int64 {
	var buf [64]byte
	n := runtime.Stack(buf[:], false)
	f := bytes.Fields(buf[:n])
	if len(f) < 2 {
		return -1
	}
	id, _ := strconv.ParseInt(string(f[1]), 10, 64)
	return id
}

// ---- R's mailbox: an UnboundedMailbox whose Dequeue is logged ---------------------------------

type c16Mailbox struct {
	*UnboundedMailbox
	w *c16World
}

func (m *c16Mailbox) Dequeue() *ReceiveContext {
	rc := m.UnboundedMailbox.Dequeue()
	if rc != nil {
		m.w.deqGoid.Store(c16Goid())
		switch msg := rc.Message().(type) {
		case *c16Msg:
			m.w.log(c16Ent{typ: 'D', key: msg.key(), seq: msg.seq})
		case *commands.AsyncResponse:
			m.w.log(c16Ent{typ: 'D', key: "resp", seq: -1})
		}
	}
	return rc
}

// ---- model helpers (call with w.mu held) --------------------------------------------------------

// outstanding = accepted calls whose continuation has not run yet (only meaningful while R runs and
// Then is registered by the issuing handler).
func (w *c16World) outstandingLocked() (all, blocking int) {
	for k := 0; k < w.cfg.nReq; k++ {
		if w.accepted[k] && w.cbCount[k] == 0 {
			all++
			if w.cfg.effMode(k) == reentrancy.StashNonReentrant {
				blocking++
			}
		}
	}
	return
}

// ---- requester (actor or grain; the handler logic is shared) ----------------------------------------

// c16Issuer sends request k with the requester's own API. call==nil means the request was refused
// (actor API: nil call + error on the context); the grain API always returns a call (a refused one
// has completed with the error already, so its Then fires at once).
type c16Issuer func(k int, req *c16Msg, opts []RequestOption) (call RequestCall, refused string)

func (w *c16World) counters() (bc, ifc int64) {
	var re *reentrancyState
	if w.g != nil {
		re = w.g.reentrancy.Load()
	} else if w.r != nil {
		re = w.r.reentrancy.Load()
	}
	if re != nil {
		bc, ifc = re.blockingCount.Load(), re.inFlightCount.Load()
	}
	return
}

func (w *c16World) turnState() uint32 {
	if w.g != nil {
		return w.g.schedState.Load()
	}
	return w.r.schedState.Load()
}

// handle is the body of the requester's message handler.
func (w *c16World) handle(msg *c16Msg, issue c16Issuer) {
	w.open.Add(1)
	defer w.open.Add(-1)

	// --- stash clause: an ordinary message handler starts while a blocking request is outstanding?
	bc, ifc := w.counters()
	w.mu.Lock()
	_, blocking := w.outstandingLocked()
	stop := w.stopReq
	w.trace = append(w.trace, c16Ent{typ: 'H', key: msg.key(), seq: msg.seq, info: fmt.Sprintf("bc=%d if=%d", bc, ifc)})
	w.mu.Unlock()
	if !stop {
		if !w.cfg.lateThen && blocking > 0 {
			w.fail("ordinary-handled-while-blocking", "handler of %s entered while %d StashNonReentrant request(s) had not completed (blockingCount=%d)", msg.key(), blocking, bc)
		}
		if bc > 0 {
			w.fail("ordinary-handled-while-blocking", "handler of %s entered while R.blockingCount=%d", msg.key(), bc)
		}
	}

	switch msg.kind {
	case "go":
		w.issue(issue)
		if w.cfg.burst && msg.id == 0 {
			w.issue(issue) // the first go issues two requests from the same handler invocation
		}
		if w.cfg.hold && msg.id == 0 {
			w.rHeld.Store(true)
			<-w.gateR
			w.rHeld.Store(false)
		}
	case "cancel":
		w.mu.Lock()
		call := w.calls[msg.id]
		w.mu.Unlock()
		if call != nil {
			_ = call.Cancel()
		}
	case "then":
		w.mu.Lock()
		call := w.calls[msg.id]
		already := w.thenSet[msg.id]
		w.thenSet[msg.id] = true
		w.mu.Unlock()
		if call != nil && !already {
			w.then(call, msg.id)
		}
	}
}

// then registers the continuation. If the call has completed already, Then runs the continuation
// synchronously inside the calling handler (documented): that is still R's turn, and the "other open
// invocation" is that handler itself, so it steps aside for the duration of the Then call.
func (w *c16World) then(call RequestCall, k int) {
	w.open.Add(-1)
	call.Then(w.continuation(k))
	w.open.Add(1)
}

func (w *c16World) issue(issue c16Issuer) {
	cfg := w.cfg
	w.mu.Lock()
	k := w.nextReq
	w.nextReq++
	w.mu.Unlock()
	if k >= cfg.nReq {
		return
	}
	opts := []RequestOption{WithRequestTimeout(cfg.timeout(k))}
	deadline := time.Now().Add(cfg.timeout(k))
	switch cfg.override[k] {
	case 1:
		opts = append(opts, WithReentrancyMode(reentrancy.AllowAll))
	case 2:
		opts = append(opts, WithReentrancyMode(reentrancy.StashNonReentrant))
	}
	call, refused := issue(k, &c16Msg{kind: "req", id: k}, opts)
	w.mu.Lock()
	w.issued[k] = true
	if call == nil {
		w.rejected[k] = refused
		w.mu.Unlock()
		return
	}
	w.accepted[k] = true
	w.calls[k] = call
	w.deadline[k] = deadline
	w.mu.Unlock()
	if !cfg.lateThen {
		w.mu.Lock()
		w.thenSet[k] = true
		w.mu.Unlock()
		w.then(call, k) // a call refused by the grain API completes right here
	}
	w.mu.Lock()
	all, _ := w.outstandingLocked()
	stop := w.stopReq
	w.mu.Unlock()
	if cfg.maxInFlight > 0 && !cfg.lateThen && !stop && all > cfg.maxInFlight {
		w.fail("in-flight-limit-exceeded", "call %d accepted: %d calls outstanding, limit %d", k, all, cfg.maxInFlight)
	}
}

type c16Requester struct{ w *c16World }

func (a *c16Requester) PreStart(*Context) error { return nil }
func (a *c16Requester) PostStop(*Context) error { return nil }

func (a *c16Requester) Receive(rctx *ReceiveContext) {
	w := a.w
	msg, ok := rctx.Message().(*c16Msg)
	if !ok {
		return // PostStart etc.
	}
	w.handle(msg, func(k int, req *c16Msg, opts []RequestOption) (RequestCall, string) {
		var call RequestCall
		switch w.cfg.api[k] {
		case c16APIName:
			call = rctx.RequestName(w.sPid[k].Name(), req, opts...)
		case c16APIGrain:
			call = rctx.RequestGrain(w.sGrain[k], req, opts...)
		default:
			call = rctx.Request(w.sPid[k], req, opts...)
		}
		if call == nil {
			name := c16ErrName(rctx.getError())
			rctx.Err(nil) // the refusal is observed here; do not fail (suspend) the actor for it
			return nil, name
		}
		return call, ""
	})
}

// c16ReqGrain is the requester of the grain scenarios (GrainContext.RequestGrain / RequestActor).
type c16ReqGrain struct{ w *c16World }

func (g *c16ReqGrain) OnActivate(context.Context, *GrainProps) error   { return nil }
func (g *c16ReqGrain) OnDeactivate(context.Context, *GrainProps) error { return nil }
func (g *c16ReqGrain) OnReceive(gctx *GrainContext) {
	w := g.w
	msg, ok := gctx.Message().(*c16Msg)
	if !ok {
		gctx.Unhandled()
		return
	}
	defer gctx.NoErr() // releases the TellGrain caller
	w.handle(msg, func(k int, req *c16Msg, opts []RequestOption) (RequestCall, string) {
		if w.cfg.api[k] == c16APIGrain {
			return gctx.RequestGrain(w.sGrain[k], req, opts...), ""
		}
		return gctx.RequestActor(w.sPid[k].Name(), req, opts...), ""
	})
}

func c16ErrName(err error) string {
	switch {
	case err == nil:
		return "nil"
	case errors.Is(err, gerrors.ErrRequestTimeout):
		return "timeout"
	case errors.Is(err, gerrors.ErrRequestCanceled):
		return "canceled"
	case errors.Is(err, gerrors.ErrReentrancyInFlightLimit):
		return "limit"
	case errors.Is(err, gerrors.ErrDead):
		return "dead"
	}
	return "err(" + err.Error() + ")"
}

func (w *c16World) continuation(k int) func(any, error) {
	return func(res any, err error) {
		n := w.open.Add(1)
		defer w.open.Add(-1)
		st := w.turnState()
		gid, dq := c16Goid(), w.deqGoid.Load()
		bc, ifc := w.counters()
		if n != 1 {
			w.fail("continuation-overlaps-handler", "continuation of call %d ran while %d other handler/continuation invocation(s) of R were open", k, n-1)
		}
		// A Then registered after completion runs synchronously in the caller (documented); the caller
		// is R's handler here, so the turn check applies to every invocation.
		if st != dispatchProcessing {
			w.fail("continuation-off-turn", "continuation of call %d ran while R.schedState=%d (Processing=%d)", k, st, dispatchProcessing)
		} else if w.g == nil && gid != dq {
			w.fail("continuation-off-turn", "continuation of call %d ran on a goroutine that is not the one that did the latest dequeue of R's mailbox", k)
		}
		var what string
		switch {
		case err != nil && res != nil:
			what = "both"
			w.fail("continuation-result-shape", "continuation of call %d got a result and an error (%v)", k, err)
		case err != nil:
			what = c16ErrName(err)
		default:
			rep, ok := res.(*c16Msg)
			if !ok || rep.kind != "rep" || rep.id != k {
				what = fmt.Sprintf("foreign(%v)", res)
				w.fail("continuation-result-shape", "continuation of call %d got %v, neither its own reply nor an error", k, res)
			} else {
				what = "reply"
			}
		}
		w.mu.Lock()
		w.cbCount[k]++
		cnt := w.cbCount[k]
		w.cbRes[k] += what + ";"
		w.trace = append(w.trace, c16Ent{typ: 'C', key: "call" + strconv.Itoa(k), seq: -1, info: fmt.Sprintf("%s bc=%d if=%d", what, bc, ifc)})
		w.mu.Unlock()
		if cnt > 1 {
			w.fail("continuation-ran-twice", "continuation of call %d ran %d times (%s)", k, cnt, w.cbRes[k])
		}
	}
}

// ---- responders ----------------------------------------------------------------------------------

type c16Responder struct {
	w *c16World
}

func (a *c16Responder) PreStart(*Context) error { return nil }
func (a *c16Responder) PostStop(*Context) error { return nil }
func (a *c16Responder) Receive(rctx *ReceiveContext) {
	msg, ok := rctx.Message().(*c16Msg)
	if !ok || msg.kind != "req" {
		return
	}
	w := a.w
	w.sBlocked[msg.id].Store(true)
	<-w.gateS[msg.id]
	w.sBlocked[msg.id].Store(false)
	rctx.Response(&c16Msg{kind: "rep", id: msg.id})
	rctx.Err(nil) // replying to a requester that has stopped meanwhile is not this responder's failure
}

type c16Grain struct{ w *c16World }

func (g *c16Grain) OnActivate(context.Context, *GrainProps) error   { return nil }
func (g *c16Grain) OnDeactivate(context.Context, *GrainProps) error { return nil }
func (g *c16Grain) OnReceive(gctx *GrainContext) {
	msg, ok := gctx.Message().(*c16Msg)
	if !ok || msg.kind != "req" {
		gctx.Unhandled()
		return
	}
	w := g.w
	w.sBlocked[msg.id].Store(true)
	<-w.gateS[msg.id]
	w.sBlocked[msg.id].Store(false)
	gctx.Response(&c16Msg{kind: "rep", id: msg.id})
}

// ---- one execution ---------------------------------------------------------------------------------

type c16Event struct {
	label string
	cost  int
	fire  func()
}

func c16Run(t *testing.T, cfg c16Cfg, c *vsched.Chooser) vsched.Outcome {
	var out vsched.Outcome
	var stopErr error
	w := &c16World{cfg: cfg}
	p := vfBubble(t, func() {
		ctx := context.Background()
		w.gateR = make(chan struct{})
		for k := range w.gateS {
			w.gateS[k] = make(chan struct{})
		}
		released := [c16MaxReq]bool{}
		rReleased := false
		relS := func(k int) {
			if !released[k] {
				released[k] = true
				close(w.gateS[k])
			}
		}
		relR := func() {
			if !rReleased {
				rReleased = true
				close(w.gateR)
			}
		}
		sys := vfNewSystem("c16")
		defer func() {
			// whatever happens: no goroutine may stay blocked on a gate
			relR()
			for k := range w.gateS {
				relS(k)
			}
		}()
		for k := 0; k < cfg.nReq; k++ {
			if cfg.api[k] == c16APIGrain {
				id, err := sys.GrainIdentity(ctx, "c16-g"+strconv.Itoa(k), func(context.Context) (Grain, error) { return &c16Grain{w: w}, nil })
				if err != nil {
					panic(err)
				}
				w.sGrain[k] = id
				continue
			}
			s, err := sys.Spawn(ctx, "c16-s"+strconv.Itoa(k), &c16Responder{w: w}, WithLongLived())
			if err != nil {
				panic(err)
			}
			w.sPid[k] = s
		}
		var r *PID
		var gid *GrainIdentity
		var reent *reentrancyState
		if cfg.grainReq {
			id, err := sys.GrainIdentity(ctx, "c16-rg", func(context.Context) (Grain, error) { return &c16ReqGrain{w: w}, nil },
				WithLongLivedGrain(),
				WithGrainReentrancy(reentrancy.New(reentrancy.WithMode(cfg.defMode), reentrancy.WithMaxInFlight(cfg.maxInFlight))))
			if err != nil {
				panic(err)
			}
			gp, ok := sys.grains.Get(id.String())
			if !ok {
				panic("c16: requester grain not activated")
			}
			gid, w.g = id, gp
			reent = gp.reentrancy.Load()
		} else {
			a, err := sys.Spawn(ctx, "c16-r", &c16Requester{w: w}, WithLongLived(),
				WithMailbox(&c16Mailbox{UnboundedMailbox: NewUnboundedMailbox(), w: w}),
				WithReentrancy(reentrancy.New(reentrancy.WithMode(cfg.defMode), reentrancy.WithMaxInFlight(cfg.maxInFlight))))
			if err != nil {
				panic(err)
			}
			r, w.r = a, a
			reent = r.reentrancy.Load()
		}
		if reent == nil {
			panic("c16: requester has no reentrancy state")
		}
		vfSettle()

		goTold, mTold, seq := 0, 0, 0
		var told []*c16Msg
		cancelFired := [c16MaxReq]bool{}
		thenTold := [c16MaxReq]bool{}
		var shutdownDone atomic.Bool
		shutdownStarted := false
		tellR := func(m *c16Msg) {
			m.seq = seq
			seq++
			told = append(told, m)
			if cfg.grainReq {
				// TellGrain returns when the handler has finished (or after DefaultGrainRequestTimeout of
				// virtual time), so every tell gets its own client goroutine; events are still separated
				// by quiescence, hence arrival order = event order.
				m.held = reent.blockingCount.Load() > 0
				go func() { _ = sys.TellGrain(ctx, gid, m) }()
				return
			}
			_ = Tell(ctx, r, m)
		}

		invariants := func() {
			if cfg.maxInFlight > 0 {
				if n := reent.inFlightCount.Load(); n > int64(cfg.maxInFlight) {
					w.fail("in-flight-limit-exceeded", "R.inFlightCount=%d > maxInFlight=%d at a quiescent point", n, cfg.maxInFlight)
				}
				w.mu.Lock()
				all, _ := w.outstandingLocked()
				stop := w.stopReq
				w.mu.Unlock()
				if !stop && !cfg.lateThen && all > cfg.maxInFlight {
					w.fail("in-flight-limit-exceeded", "%d calls outstanding > maxInFlight=%d at a quiescent point", all, cfg.maxInFlight)
				}
			}
		}

		for step := 0; step < cfg.horizon; step++ {
			w.mu.Lock()
			stopped := w.stopReq
			var haveCall [c16MaxReq]bool
			var nextDeadline time.Time
			now := time.Now()
			for k := range w.calls {
				haveCall[k] = w.calls[k] != nil
				if w.accepted[k] && w.cbCount[k] == 0 && w.deadline[k].After(now) && (nextDeadline.IsZero() || w.deadline[k].Before(nextDeadline)) {
					nextDeadline = w.deadline[k]
				}
			}
			w.mu.Unlock()
			var evs []c16Event
			if !stopped && goTold < cfg.nGo() {
				evs = append(evs, c16Event{"go", 0, func() { tellR(&c16Msg{kind: "go", id: goTold}); goTold++ }})
			}
			if !stopped && mTold < cfg.nMsg {
				evs = append(evs, c16Event{"m", 0, func() { tellR(&c16Msg{kind: "m", id: mTold}); mTold++ }})
			}
			if w.rHeld.Load() && !rReleased {
				evs = append(evs, c16Event{"relR", 0, relR})
			}
			for k := 0; k < cfg.nReq; k++ {
				if w.sBlocked[k].Load() && !released[k] {
					evs = append(evs, c16Event{"relS" + strconv.Itoa(k), 0, func() { relS(k) }})
				}
			}
			if cfg.lateThen && !stopped {
				for k := 0; k < cfg.nReq; k++ {
					if haveCall[k] && !thenTold[k] {
						evs = append(evs, c16Event{"then" + strconv.Itoa(k), 0, func() { thenTold[k] = true; tellR(&c16Msg{kind: "then", id: k}) }})
					}
				}
			}
			if len(evs) == 0 {
				evs = append(evs, c16Event{"finish", 0, nil})
			}
			if !nextDeadline.IsZero() {
				evs = append(evs, c16Event{"adv", 1, func() { time.Sleep(nextDeadline.Sub(now)) }})
			}
			for k := 0; k < cfg.nReq; k++ {
				if haveCall[k] && !cancelFired[k] && (!cfg.cancelTurn || !stopped) {
					evs = append(evs, c16Event{"cancel" + strconv.Itoa(k), 1, func() {
						cancelFired[k] = true
						if cfg.cancelTurn {
							tellR(&c16Msg{kind: "cancel", id: k})
							return
						}
						w.mu.Lock()
						call := w.calls[k]
						w.mu.Unlock()
						_ = call.Cancel()
					}})
				}
			}
			if !stopped {
				evs = append(evs, c16Event{"pill", 1, func() {
					w.mu.Lock()
					w.stopReq = true
					w.mu.Unlock()
					if cfg.grainReq {
						go func() { _ = sys.TellGrain(ctx, gid, new(PoisonPill)) }()
						return
					}
					_ = Tell(ctx, r, new(PoisonPill))
				}})
				if cfg.clientStop && !cfg.grainReq {
					evs = append(evs, c16Event{"shutdown", 1, func() {
						w.mu.Lock()
						w.stopReq = true
						w.mu.Unlock()
						shutdownStarted = true
						go func() {
							_ = r.Shutdown(ctx)
							shutdownDone.Store(true)
						}()
					}})
				}
			}
			costs := make([]int, len(evs))
			for i := range evs {
				costs[i] = evs[i].cost
			}
			i := c.Choose("event", len(evs), costs, func(i int) string { return evs[i].label })
			ev := evs[i]
			if ev.fire == nil {
				break
			}
			w.mu.Lock()
			w.events = append(w.events, ev.label)
			w.mu.Unlock()
			ev.fire()
			vfSettle()
			invariants()
		}

		// ---- epilogue: let everything complete (deterministic order) ----
		w.mu.Lock()
		w.events = append(w.events, "|drain")
		w.mu.Unlock()
		if w.rHeld.Load() {
			relR()
			vfSettle()
			invariants()
		}
		for k := 0; k < cfg.nReq; k++ {
			if w.sBlocked[k].Load() {
				relS(k)
				vfSettle()
				invariants()
			}
		}
		if cfg.lateThen {
			w.mu.Lock()
			stopped := w.stopReq
			w.mu.Unlock()
			for k := 0; k < cfg.nReq && !stopped; k++ {
				w.mu.Lock()
				need := w.calls[k] != nil && !thenTold[k]
				w.mu.Unlock()
				if need {
					thenTold[k] = true
					tellR(&c16Msg{kind: "then", id: k})
					vfSettle()
				}
			}
		}
		for i := 0; i < 6; i++ { // past every request deadline: pending timer goroutines fire or have been stopped
			time.Sleep(c16AdvStep)
			vfSettle()
			invariants()
		}

		// ---- quiescence oracle ----
		w.mu.Lock()
		stopped := w.stopReq
		trace := append([]c16Ent(nil), w.trace...)
		accepted, cbCount, cbRes, rejected, issued := w.accepted, w.cbCount, w.cbRes, w.rejected, w.issued
		w.mu.Unlock()
		if shutdownStarted && !shutdownDone.Load() {
			out.Invalid = "client Shutdown did not return"
		}
		if !stopped {
			for k := 0; k < cfg.nReq; k++ {
				if accepted[k] && cbCount[k] == 0 {
					w.fail("continuation-never-ran", "call %d was accepted, R stayed running, everything drained, but its continuation never ran", k)
				}
			}
		}
		if ifc, bc := reent.inFlightCount.Load(), reent.blockingCount.Load(); ifc != 0 || bc != 0 {
			w.fail("counters-not-zero-at-quiescence", "inFlightCount=%d blockingCount=%d at the end (R stopped=%v)", ifc, bc, stopped)
		}
		// held messages: dequeued from R's mailbox more often than handled+... = dequeued without being handled
		type acct struct {
			deq, handled int
			seq          int
		}
		per := map[string]*acct{}
		var order []string
		for _, e := range trace {
			if e.typ == 'C' || e.key == "resp" {
				continue
			}
			a := per[e.key]
			if a == nil {
				a = &acct{seq: e.seq}
				per[e.key] = a
				order = append(order, e.key)
			}
			if e.typ == 'D' {
				a.deq++
			} else {
				a.handled++
			}
		}
		held := map[string]bool{}
		if cfg.grainReq {
			// a grain keeps the messages that arrive while a blocking call is pending in its mailbox
			for _, m := range told {
				if per[m.key()] == nil {
					per[m.key()] = &acct{seq: m.seq}
					order = append(order, m.key())
				}
				held[m.key()] = m.held
			}
		} else {
			for _, k := range order {
				a := per[k]
				if a.deq >= 2 || (a.deq == 1 && a.handled == 0) {
					held[k] = true
				}
			}
		}
		if !stopped {
			for _, k := range order {
				if held[k] && per[k].handled != 1 {
					w.fail("held-message-not-handled-once", "message %s was held (dequeued %d times) and handled %d times at quiescence", k, per[k].deq, per[k].handled)
				}
			}
			last, lastKey := -1, ""
			for _, e := range trace {
				if e.typ != 'H' || !held[e.key] {
					continue
				}
				if e.seq < last {
					// e arrived before lastKey but is handled after it. If e went through more stash
					// rounds than lastKey it was released behind a later arrival that was already waiting in
					// the mailbox and then held again (own signature); otherwise both were released by
					// the same unstash, in the wrong order.
					sig := "held-messages-out-of-arrival-order"
					if per[e.key].deq > per[lastKey].deq {
						sig = "held-message-requeued-behind-later-arrival"
					}
					w.fail(sig, "held message %s (arrival #%d, dequeued %d times) was handled after held message %s (arrival #%d, dequeued %d times)", e.key, e.seq, per[e.key].deq, lastKey, last, per[lastKey].deq)
				}
				if e.seq > last {
					last, lastKey = e.seq, e.key
				}
			}
		}

		// ---- observation ----
		var sb strings.Builder
		for _, e := range trace {
			fmt.Fprintf(&sb, "%c%s", e.typ, e.key)
			if e.info != "" {
				fmt.Fprintf(&sb, "(%s)", e.info)
			}
			sb.WriteByte(' ')
		}
		for k := 0; k < cfg.nReq; k++ {
			fmt.Fprintf(&sb, "| call%d issued=%v acc=%v rej=%s cb=%d:%s ", k, issued[k], accepted[k], rejected[k], cbCount[k], cbRes[k])
		}
		running := false
		if cfg.grainReq {
			running = w.g.isActive()
		} else {
			running = r.IsRunning()
		}
		fmt.Fprintf(&sb, "| stopped=%v running=%v", stopped, running)
		out.Obs = cfg.name + " " + sb.String()

		relR()
		for k := range w.gateS {
			relS(k)
		}
		vfSettle()
		if err := vfStopSystem(sys); err != nil && !errors.Is(err, context.Canceled) {
			stopErr = err
		}
	})
	w.mu.Lock()
	out.Violations = append(out.Violations, w.viol...)
	evs := strings.Join(w.events, " ")
	w.mu.Unlock()
	// An execution whose teardown failed or that panicked is no verdict - unless the oracle had already
	// found a violation (evaluated at quiescence, before the teardown): that one stands (the explorer
	// re-executes it before reporting).
	if len(out.Violations) == 0 {
		if p != nil {
			out.Invalid = fmt.Sprintf("panic in execution: %v (events %s)", p, evs)
		} else if stopErr != nil {
			out.Invalid = fmt.Sprintf("system stop failed: %v (events %s)", stopErr, evs)
		}
	}
	return out
}

func TestVerifC16(t *testing.T) {
	defer vsched.Finish(t)
	r := vsched.Rep()
	r.Assumption("events are separated by quiescence: the order of R's mailbox is the order of the events; simultaneous arrivals are produced by holding R's first 'go' handler (after it issued its request) and by the gated responders")
	r.Assumption("requester shutdown: only 'at most one continuation per call', the turn rules and 'counters are zero at the end' are demanded once a stop has been requested (goakt cancels pending calls on shutdown without running their continuations)")
	r.Assumption("a message is 'held' iff R's mailbox handed it out without its handler being entered (observed through a logging UnboundedMailbox wrapper installed with WithMailbox); arrival order = order of the single client's Tells")
	A, S := reentrancy.AllowAll, reentrancy.StashNonReentrant
	type opt func(*c16Cfg)
	mk := func(name string, def reentrancy.Mode, max int, hold bool, opts ...opt) c16Cfg {
		c := c16Cfg{name: name, defMode: def, maxInFlight: max, hold: hold, nReq: 2, nMsg: 2,
			horizon: vsched.Pick(6, 9), bound: vsched.Pick(1, 2)}
		c.api = [c16MaxReq]int{c16APIPid, c16APIName, c16APIPid}
		if max >= 2 {
			c.nReq, c.nMsg = 3, 1
			c.horizon = vsched.Pick(6, 9)
		}
		for _, o := range opts {
			o(&c)
		}
		return c
	}
	mode := map[reentrancy.Mode]string{A: "allowall", S: "stash"}
	var cfgs []c16Cfg
	for _, m := range []reentrancy.Mode{A, S} {
		for _, max := range []int{0, 1, 2} {
			for _, hold := range []bool{false, true} {
				n := fmt.Sprintf("%s-max%d", mode[m], max)
				if hold {
					n += "-hold"
				}
				cfgs = append(cfgs, mk(n, m, max, hold))
			}
		}
	}
	for _, hold := range []bool{false, true} {
		sfx := map[bool]string{false: "", true: "-hold"}[hold]
		// per-call overrides: default AllowAll with one StashNonReentrant call and vice versa
		cfgs = append(cfgs,
			mk("allowall-call1stash"+sfx, A, 0, hold, func(c *c16Cfg) { c.override[1] = 2; c.tmoRev = true }),
			mk("allowall-call0stash"+sfx, A, 0, hold, func(c *c16Cfg) { c.override[0] = 2 }),
			mk("stash-call1allowall"+sfx, S, 0, hold, func(c *c16Cfg) { c.override[1] = 1; c.tmoRev = true }),
			mk("stash-call0allowall"+sfx, S, 2, hold, func(c *c16Cfg) { c.override[0] = 1; c.nReq, c.nMsg = 2, 2 }),
			// Cancel() from inside R's turn
			mk("allowall-cancelturn"+sfx, A, 0, hold, func(c *c16Cfg) { c.cancelTurn = true }),
			mk("stash-cancelturn"+sfx, S, 0, hold, func(c *c16Cfg) { c.cancelTurn = true; c.tmoRev = true }),
			// Then registered by a later message
			mk("allowall-latethen"+sfx, A, 0, hold, func(c *c16Cfg) { c.lateThen = true; c.nMsg = 1 }),
			// RequestGrain (responder 0 is a grain)
			mk("allowall-grain"+sfx, A, 1, hold, func(c *c16Cfg) { c.api[0] = c16APIGrain; c.tmoRev = true }),
			mk("stash-grain"+sfx, S, 0, hold, func(c *c16Cfg) { c.api[0] = c16APIGrain; c.api[1] = c16APIGrain }),
			// PID.Shutdown from the client goroutine in addition to PoisonPill
			mk("allowall-clientstop"+sfx, A, 0, hold, func(c *c16Cfg) { c.clientStop = true; c.nMsg = 1 }),
			mk("stash-clientstop"+sfx, S, 0, hold, func(c *c16Cfg) { c.clientStop = true; c.nMsg = 1 }),
			// two requests issued by the same handler invocation (two blocking calls outstanding at once)
			mk("stash-burst"+sfx, S, 0, hold, func(c *c16Cfg) { c.burst = true }),
			mk("stash-burst-max2"+sfx, S, 2, hold, func(c *c16Cfg) { c.burst = true; c.tmoRev = true }),
			mk("allowall-burst-max1"+sfx, A, 1, hold, func(c *c16Cfg) { c.burst = true; c.override[1] = 2 }),
		)
	}
	// the requester is a grain (GrainContext.RequestGrain / RequestActor)
	for _, hold := range []bool{false, true} {
		sfx := map[bool]string{false: "", true: "-hold"}[hold]
		gr := func(c *c16Cfg) { c.grainReq = true; c.api = [c16MaxReq]int{c16APIGrain, c16APIName, c16APIGrain} }
		cfgs = append(cfgs,
			mk("grainreq-allowall-max1"+sfx, A, 1, hold, gr),
			mk("grainreq-stash-max0"+sfx, S, 0, hold, gr),
			mk("grainreq-stash-burst-max2"+sfx, S, 2, hold, gr, func(c *c16Cfg) { c.burst = true; c.tmoRev = true }),
			mk("grainreq-allowall-call1stash-cancelturn"+sfx, A, 0, hold, gr, func(c *c16Cfg) { c.override[1] = 2; c.cancelTurn = true }),
		)
	}
	// The configurations are grouped into four exploration scenarios (the configuration is the first
	// choice of an execution), smallest group first: ExploreAll gives every scenario an equal share of
	// the remaining budget, which would starve 48 separate scenarios under load.
	groupOf := func(c c16Cfg) string {
		n := "c16-actor"
		if c.grainReq {
			n = "c16-grain"
		}
		if c.hold {
			n += "-hold"
		}
		return n
	}
	groups := map[string][]c16Cfg{}
	for _, cfg := range cfgs {
		groups[groupOf(cfg)] = append(groups[groupOf(cfg)], cfg)
	}
	var scs []vsched.Scenario
	for _, name := range []string{"c16-grain", "c16-grain-hold", "c16-actor", "c16-actor-hold"} {
		g := groups[name]
		var members []map[string]any
		for _, cfg := range g {
			members = append(members, map[string]any{"config": cfg.name, "maxInFlight": cfg.maxInFlight, "nReq": cfg.nReq, "nMsg": cfg.nMsg,
				"default_mode": mode[cfg.defMode], "override": fmt.Sprint(cfg.override[:cfg.nReq]), "api": fmt.Sprint(cfg.api[:cfg.nReq]),
				"cancel_in_turn": cfg.cancelTurn, "late_then": cfg.lateThen, "client_shutdown": cfg.clientStop, "timeouts_reversed": cfg.tmoRev, "burst": cfg.burst})
		}
		scs = append(scs, vsched.Scenario{
			Cfg: vsched.Config{Scenario: name, Bound: vsched.Pick(1, 2), SplitDepth: 2,
				Params: map[string]any{"horizon": vsched.Pick(6, 9), "hold": strings.HasSuffix(name, "-hold"),
					"requester": map[bool]string{false: "actor", true: "grain"}[strings.Contains(name, "grain")], "configs": members}},
			Run: func(c *vsched.Chooser) vsched.Outcome {
				i := c.Choose("config", len(g), nil, func(i int) string { return g[i].name })
				return c16Run(t, g[i], c)
			},
		})
	}
	vsched.ExploreAll(scs)
}
