//go:build verif

package actor

import (
	"errors"
	"fmt"
	"strings"
	"testing"
	"time"

	"github.com/tochemey/goakt/v4/internal/verif/vsched"
)

// C09 — stopping an actor stops its whole subtree, children first; the tree stays consistent.
//
// One scenario per rooted tree shape (<= 4 user actors). The first choices of an execution pick the
// program: stop operation 1 (kind x node), optional stop operation 2 (cost 1), optional third
// operation (SpawnChild under a node, or Restart of a node; cost 1), optionally a delayed death watch
// (cost 1), optionally one node suspended beforehand (cost 1). Then every order of: start operation k, release a PostStop gate, release the PreStart
// gate of the racing child / of a restarted incarnation and, when the death watch is delayed, let it
// handle Terminated(x) (= tree removal).
//
// Oracle:
//   (1) log: when PostStop of X starts, no descendant of X has an open incarnation (PreStart
//       completed and PostStop not completed)
//   (2) when Kill / parent.Stop / system.Stop returns nil: no actor of the stopped subtree IsRunning
//       and none is resolvable by name (ActorOf) — skipped when a Restart races
//   (3) at every quiescent step: every registered node's parent is registered; no running actor has
//       a fully stopped parent
//   (4) at the final quiescence: no stopped actor is still registered

type c09Shape struct {
	name   string
	parent []int
}

var c09Shapes = []c09Shape{
	{"1", []int{-1}},
	{"2", []int{-1, 0}},
	{"3wide", []int{-1, 0, 0}},
	{"3deep", []int{-1, 0, 1}},
	{"4wide", []int{-1, 0, 0, 0}},
	{"4fork-leaf", []int{-1, 0, 0, 1}},
	{"4stem-fork", []int{-1, 0, 1, 1}},
	{"4chain", []int{-1, 0, 1, 2}},
}

func c09Name(i int) string { return fmt.Sprintf("n%d", i) }

// c09Alive: the actor is live and nobody is stopping it: running, or suspended (a suspended actor
// keeps its state and children and can be reinstated).
func c09Alive(pid *PID) bool {
	return pid != nil && (pid.IsRunning() || (pid.IsSuspended() && !pid.IsStopping()))
}

type c09World struct {
	*lfWorld
	shape   c09Shape
	xParent int // index of the node under which "x" is spawned (-1: none)
	restart bool
	stopOps int  // number of operations in the program that stop actors (Restart included)
	stopped bool // system stopped by an operation
	// restartOp / restartNode: the racing Restart operation and its target (nil / -1: none)
	restartOp   *lfOp
	restartNode int
}

// descendants of node i by shape (names), including the dynamic child x.
func (cw *c09World) descendants(i int) []string {
	var out []string
	var rec func(j int)
	rec = func(j int) {
		for k, p := range cw.shape.parent {
			if p == j {
				out = append(out, c09Name(k))
				rec(k)
			}
		}
		if cw.xParent == j {
			out = append(out, "x")
		}
	}
	rec(i)
	return out
}

func (cw *c09World) index(name string) int {
	if name == "x" {
		return -2
	}
	var i int
	fmt.Sscanf(name, "n%d", &i)
	return i
}

func (cw *c09World) parentName(name string) string {
	if name == "x" {
		return c09Name(cw.xParent)
	}
	p := cw.shape.parent[cw.index(name)]
	if p < 0 {
		return ""
	}
	return c09Name(p)
}

// subtreeReturnCheck implements clause (2) for a stop of node i that returned nil.
func (cw *c09World) subtreeReturnCheck(i int, api string) []vsched.Violation {
	var out []vsched.Violation
	names := append([]string{c09Name(i)}, cw.descendants(i)...)
	for _, n := range names {
		pid := cw.pid(n)
		if pid == nil {
			continue // x not (yet) created
		}
		cause := "subtree-member"
		if n == "x" {
			cause = "racing-spawnchild"
		}
		if c09Alive(pid) {
			out = append(out, vsched.Fail("running-after-stop-returned/"+cause, "%s returned nil for %s but %s is still alive (running=%v suspended=%v)", api, c09Name(i), n, pid.IsRunning(), pid.IsSuspended()))
		}
		if !cw.sys.Running() {
			continue
		}
		if got, err := cw.sys.ActorOf(c06Ctx, n); err == nil && got != nil {
			sig := "resolvable-after-stop-returned/stopped-instance-still-registered"
			if c09Alive(got) {
				sig = "resolvable-after-stop-returned/running-instance-" + cause
			}
			out = append(out, vsched.Fail(sig, "%s returned nil for %s but ActorOf(%s) still resolves (running=%v, same instance=%v)", api, c09Name(i), n, got.IsRunning(), got == pid))
		}
	}
	return out
}

type c09StopOpt struct {
	label string
	mk    func(cw *c09World) *lfOp
}

func c09StopOpts(cw *c09World) []c09StopOpt {
	var out []c09StopOpt
	n := len(cw.shape.parent)
	for i := 0; i < n; i++ {
		i := i
		name := c09Name(i)
		out = append(out, c09StopOpt{"kill(" + name + ")", func(cw *c09World) *lfOp {
			op := lfOpKill(name)
			op.after = func(w *lfWorld, op *lfOp) []vsched.Violation {
				if op.result != "ok" || cw.restart {
					return nil
				}
				return cw.subtreeReturnCheck(i, "kill")
			}
			return op
		}})
		out = append(out, c09StopOpt{"poisonpill(" + name + ")", func(cw *c09World) *lfOp {
			op := lfOpPoison(name)
			// a PoisonPill parks the target's own turn on the PostStop gate; restartSubtree spin-waits
			// for such a turn when it reaches that actor, so the pill is not sent into the subtree of a
			// Restart that is in flight (it is sent before the Restart starts or after it returned)
			op.enabled = func(w *lfWorld) bool {
				if cw.restartOp == nil || !cw.restartOp.started || w.opDone(cw.restartOp) {
					return true
				}
				if cw.restartNode == i {
					return false
				}
				for _, d := range cw.descendants(cw.restartNode) {
					if d == name {
						return false
					}
				}
				return true
			}
			return op
		}})
		if p := cw.shape.parent[i]; p >= 0 {
			pn := c09Name(p)
			out = append(out, c09StopOpt{pn + ".stop(" + name + ")", func(cw *c09World) *lfOp {
				op := lfOpStopChild(pn, name)
				op.after = func(w *lfWorld, op *lfOp) []vsched.Violation {
					if op.result != "ok" || cw.restart {
						return nil
					}
					return cw.subtreeReturnCheck(i, "stop-child")
				}
				return op
			}})
		}
	}
	out = append(out, c09StopOpt{"system.stop", func(cw *c09World) *lfOp {
		op := lfOpSystemStop(cw.lfWorld, c09Name(0))
		inner := op.run
		op.run = func(w *lfWorld) string { r := inner(w); cw.stopped = true; return r }
		op.after = func(w *lfWorld, op *lfOp) []vsched.Violation {
			if op.result != "ok" || cw.restart {
				return nil
			}
			return cw.subtreeReturnCheck(0, "system-stop")
		}
		return op
	}})
	return out
}

// c09LogCheck implements clause (1).
func c09LogCheck(cw *c09World, evs []lfEv) []vsched.Violation {
	open := map[string]bool{}     // PreStart completed, PostStop not completed
	stopping := map[string]bool{} // PostStop entered, not completed
	var out []vsched.Violation
	for i, e := range evs {
		switch e.kind {
		case lfPreExit:
			open[e.actor] = true
		case lfPostExit:
			open[e.actor] = false
			stopping[e.actor] = false
		case lfPostEnter:
			stopping[e.actor] = true
			idx := cw.index(e.actor)
			if idx < 0 {
				continue
			}
			for _, d := range cw.descendants(idx) {
				if open[d] {
					inProgress := stopping[d]
					for _, sn := range e.stoppingNow {
						if sn == d {
							inProgress = true
						}
					}
					var cause string
					switch {
					case d == "x":
						cause = "racing-spawnchild"
					case inProgress && cw.stopOps >= 2:
						// the descendant is being stopped by another, concurrent stop operation
						cause = "concurrent-stop-of-descendant-in-progress"
					case inProgress:
						cause = "descendant-stop-not-awaited"
					case cw.restart:
						cause = "descendant-not-stopped-after-restart"
					default:
						cause = "descendant-not-stopped"
					}
					out = append(out, vsched.Fail("ancestor-poststop-before-descendant-poststop-complete/"+cause,
						"event %d %s (stop path %s): PostStop of %s starts while descendant %s has started and its PostStop has not completed | log: %s", i, e, e.path, e.actor, d, lfLogString(evs)))
				}
			}
		}
	}
	return out
}

// c09StepInv implements clause (3).
func c09StepInv(cw *c09World) []vsched.Violation {
	var out []vsched.Violation
	if cw.stopped || !cw.sys.Running() || cw.sys.isStopping() {
		return nil
	}
	tr := cw.sys.tree()
	for _, n := range tr.nodes() {
		v := n.value()
		if v == nil || n.parentNode == nil || !c09Alive(v) {
			continue
		}
		if pn, ok := tr.node(n.parentNode.id); !ok || pn != n.parentNode {
			out = append(out, vsched.Fail("registered-running-node-with-unregistered-parent", "node %s is registered and running but its parent node %s is not registered", n.name, n.parentNode.name))
		}
	}
	names := []string{"x"}
	for i := range cw.shape.parent {
		names = append(names, c09Name(i))
	}
	for _, n := range names {
		pid := cw.pid(n)
		pn := cw.parentName(n)
		if pid == nil || pn == "" || !c09Alive(pid) {
			continue
		}
		cause := "other"
		if n == "x" {
			cause = "racing-spawnchild"
		} else if cw.restart {
			cause = "restart"
		}
		pp := cw.pid(pn)
		if !pp.isStateSet(runningState) {
			out = append(out, vsched.Fail("live-actor-with-stopped-parent/"+cause, "%s is alive (running=%v suspended=%v) but its parent %s is stopped", n, pid.IsRunning(), pid.IsSuspended(), pn))
		} else if node, ok := tr.node(pp.ID()); !ok || node.value() != pp {
			out = append(out, vsched.Fail("live-actor-with-unregistered-parent/"+cause, "%s is running, its parent %s is live (running=%v) but not registered in the tree", n, pn, pp.IsRunning()))
		}
	}
	return out
}

// c09FinalCheck implements clause (4) (system still up, everything released and quiescent).
func c09FinalCheck(cw *c09World) []vsched.Violation {
	var out []vsched.Violation
	if cw.stopped || !cw.sys.Running() {
		return nil
	}
	tr := cw.sys.tree()
	names := []string{"x"}
	for i := range cw.shape.parent {
		names = append(names, c09Name(i))
	}
	for _, n := range names {
		pid := cw.pid(n)
		if pid == nil {
			continue
		}
		if !pid.isStateSet(runningState) {
			if node, ok := tr.node(pid.ID()); ok && node.value() == pid {
				sig := "stopped-actor-still-registered"
				if cw.restart {
					sig += "/after-restart"
				}
				out = append(out, vsched.Fail(sig, "%s is stopped but still registered in the tree at quiescence", n))
			}
		}
	}
	return out
}

func c09Run(t *testing.T, shape c09Shape, cost3 int) func(c *vsched.Chooser) vsched.Outcome {
	return func(c *vsched.Chooser) vsched.Outcome {
		var out vsched.Outcome
		w := &lfWorld{}
		p := vfBubble(t, func() {
			lfGuard(w, &out, func() {
				cw := &c09World{lfWorld: w, shape: shape, xParent: -1, restartNode: -1}
				w.sys = lfNewSystem("c09")
				w.wrapDeathWatch()
				for i, p := range shape.parent {
					if p < 0 {
						c06Spawn(w, c09Name(i), WithLongLived())
					} else {
						c06SpawnChild(w, w.pid(c09Name(p)), c09Name(i), WithLongLived())
					}
				}
				vsched.Settle()

				// ---- program selection (part of the enumerated choice sequence)
				opts := c09StopOpts(cw)
				i1 := c.Choose("config", len(opts), nil, func(i int) string { return "op1=" + opts[i].label })
				n2 := 1 + len(opts) - i1
				costs2 := make([]int, n2)
				for i := 1; i < n2; i++ {
					costs2[i] = 1
				}
				i2 := c.Choose("config", n2, costs2, func(i int) string {
					if i == 0 {
						return "op2=none"
					}
					return "op2=" + opts[i1+i-1].label
				})
				n := len(shape.parent)
				n3 := 1 + 2*n
				costs3 := make([]int, n3)
				for i := 1; i < n3; i++ {
					costs3[i] = cost3
				}
				i3 := c.Choose("config", n3, costs3, func(i int) string {
					switch {
					case i == 0:
						return "op3=none"
					case i <= n:
						return "op3=spawnchild(" + c09Name(i-1) + ",x)"
					}
					return "op3=restart(" + c09Name(i-1-n) + ")"
				})
				// the death watch handles Terminated immediately (default) or only when the explorer says
				// so (cost 1: a slow death watch is an environment deviation like a fault)
				dwDelayed := c.Choose("config", 2, []int{0, 1}, func(i int) string {
					if i == 0 {
						return "deathwatch=immediate"
					}
					return "deathwatch=delayed"
				}) == 1
				// optionally (cost 1) one node is suspended before the program starts: it fails with an error
				// its supervisor has no directive for (the default supervisor only knows panics)
				nS := 1 + n
				costsS := make([]int, nS)
				for i := 1; i < nS; i++ {
					costsS[i] = 1
				}
				iS := c.Choose("config", nS, costsS, func(i int) string {
					if i == 0 {
						return "suspended=none"
					}
					return "suspended=" + c09Name(i-1)
				})
				cfg := []string{opts[i1].label}
				if iS > 0 {
					sn := c09Name(iS - 1)
					cfg = append(cfg, "suspended("+sn+")")
					if err := Tell(c06Ctx, w.pid(sn), &lfMsg{label: "fail", act: func(a *lfActor, ctx *ReceiveContext) { ctx.Err(errors.New("c09 unhandled failure")) }}); err != nil {
						panic(fmt.Sprintf("c09: cannot fail %s: %v", sn, err))
					}
					vsched.Settle()
					if !w.pid(sn).IsSuspended() {
						panic("c09: " + sn + " did not become suspended")
					}
				}
				if dwDelayed {
					cfg = append(cfg, "dw-delayed")
				}
				w.addOp(opts[i1].mk(cw))
				cw.stopOps = 1
				if i2 > 0 {
					cw.stopOps++
					o := opts[i1+i2-1].mk(cw)
					o.label += "#2"
					w.addOp(o)
					cfg = append(cfg, o.label)
				}
				var rs *lfOp
				switch {
				case i3 == 0:
				case i3 <= n:
					cw.xParent = i3 - 1
					pn := c09Name(cw.xParent)
					w.addOp(&lfOp{label: "spawnchild(" + pn + ",x)", kind: "spawnchild", run: func(w *lfWorld) string {
						a := w.newActor("x")
						pid, err := w.pid(pn).SpawnChild(c06Ctx, "x", a, WithLongLived())
						if err == nil && pid != nil {
							w.setTrack("x", pid)
							w.addChild(pn, "x")
						}
						return lfErrClass(err)
					}})
					cfg = append(cfg, "spawnchild("+pn+",x)")
				default:
					cw.restart = true
					cw.stopOps++
					rs = w.addOp(lfOpRestart(c09Name(i3 - 1 - n)))
					cw.restartOp, cw.restartNode = rs, i3-1-n
					cfg = append(cfg, rs.label)
				}
				w.gatePolicy = func(a *lfActor, hook, msg string) bool {
					switch hook {
					case "post":
						return true
					case "dw":
						return dwDelayed
					case "pre":
						return a.name == "x" || a.curInc() > 1
					}
					return false
				}
				if rs != nil {
					w.afterStep = func() {
						if rs.started && !w.opDone(rs) {
							time.Sleep(10 * time.Millisecond)
							vsched.Settle()
						}
					}
				}
				w.loop(c, 80, nil, func() []vsched.Violation { return c09StepInv(cw) }, nil)

				// final quiescence with the system still up
				w.releaseAll()
				for i := 0; i < 5; i++ {
					pending := false
					for _, op := range w.ops {
						if op.started && !w.opDone(op) {
							pending = true
						}
					}
					if !pending {
						break
					}
					time.Sleep(20 * time.Millisecond)
					w.releaseAll()
				}
				vsched.Settle()
				w.addViol(c09StepInv(cw)...)
				w.addViol(c09FinalCheck(cw)...)
				hung := w.teardown()
				evs := w.snapshot()
				w.addViol(c09LogCheck(cw, evs)...)
				out.Violations = w.violations()
				var res []string
				for _, op := range w.ops {
					if op.started {
						res = append(res, op.label+"="+op.result)
					}
				}
				out.Obs = strings.Join(cfg, "+") + " || " + strings.Join(w.steps, ";") + " || " + lfPerActor(evs) + " || " + strings.Join(res, ",")
				if len(hung) > 0 {
					out.Invalid = "client operation did not return: " + strings.Join(hung, ",")
				}
			})
		})
		if p != nil {
			out.Invalid = fmt.Sprintf("panic in bubble: %v", p)
		}
		return out
	}
}

func TestVerifC09(t *testing.T) {
	defer vsched.Finish(t)
	r := vsched.Rep()
	lfCalibrate()
	r.Assumption("event granularity: client operations, PostStop/PreStart gate releases and death-watch deliveries are interleaved in every order; code between two gates runs without harness-controlled preemption")
	r.Assumption("orders in which a second stopper would wait on a held PID.stopLocker are represented by the order in which it starts right after the lock is released")
	var scs []vsched.Scenario
	// order: small explorations first, the largest last (they inherit unused budget)
	order := []string{"1", "4chain", "4stem-fork", "4fork-leaf", "4wide", "2", "3wide", "3deep"}
	byName := map[string]c09Shape{}
	for _, sh := range c09Shapes {
		byName[sh.name] = sh
	}
	for _, name := range order {
		sh := byName[name]
		// deviation costs: second stop operation 1, third operation (SpawnChild/Restart) cost3, delayed
		// death watch 1.
		//   quick:    <=2 actors: bound 2; 3 actors: bound 1; 4 actors: bound 0 (single stop)
		//   thorough: <=3 actors: bound 2; 4 actors: bound 1
		bound, cost3 := 2, 1
		switch len(sh.parent) {
		case 3:
			bound = vsched.Pick(1, 2)
		case 4:
			bound = vsched.Pick(0, 1)
		}
		scs = append(scs, vsched.Scenario{
			Cfg: vsched.Config{Scenario: "c09/" + sh.name, Bound: bound, SplitDepth: 2,
				Params: map[string]any{"parents": sh.parent, "cost_third_op": cost3}},
			Run: c09Run(t, sh, cost3),
		})
	}
	lfExploreAll(scs)
}
