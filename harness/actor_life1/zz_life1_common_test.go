//go:build verif

package actor

import (
	"context"
	"errors"
	"fmt"
	"os"
	"runtime"
	"sort"
	"strconv"
	"strings"
	"sync"
	"time"

	"github.com/tochemey/goakt/v4/internal/verif/vsched"
	"github.com/tochemey/goakt/v4/log"
)

// ---------------------------------------------------------------------------------------------
// "Gate mode" infrastructure shared by the C06 / C09 / C11 harnesses (prefix lf = life-cycle).
//
// One execution = a fresh real actor system inside a fresh synctest bubble.  Test actors log the
// entry and exit of PreStart / Receive / PostStop (with goroutine id) into one totally ordered log
// and may block inside a hook on a *gate* (a bubble channel).  Client operations run on their own
// goroutines.  At every step the harness computes the enabled events (start client operation k,
// release gate g, optional extras such as "advance virtual time"), asks the chooser for one, fires
// it, waits for quiescence (vsched.Settle) and evaluates the invariants.  vsched.Explore enumerates
// every order.
//
// Soundness of the log: appends are serialised by one mutex, "enter" is logged as the first and
// "exit" as the last action of a hook.  If the log shows X.enter ... Y.enter ... X.exit then hook X
// really was in progress when hook Y started.
//
// Two environment constraints shape the enabled-set (they only remove orders, never add behaviour):
//  1. A goroutine waiting for a sync.Mutex is not "durably blocked" for the bubble: Settle would
//     never return if some goroutine waited for a PID.stopLocker held by a goroutine parked on a
//     PostStop gate.  Events that would (synchronously) call Shutdown/tryPassivation on an actor
//     whose stopLocker is currently held are therefore disabled until the lock is free again
//     (checked with TryLock at quiescence).  Semantically the disabled order is the one in which
//     the second stopper waits at the lock, i.e. it is covered by the order in which it starts
//     right after the lock is released.
//  2. restartSubtree spin-waits (runtime.Gosched) for the in-flight turn; a spinning goroutine
//     never lets the bubble settle.  See c06 restart scenario for the handling.
// ---------------------------------------------------------------------------------------------

type lfKind uint8

const (
	lfPreEnter lfKind = iota
	lfPreExit
	lfRecvEnter
	lfRecvExit
	lfPostEnter
	lfPostExit
	lfOpStart
	lfOpReturn
)

var lfKindNames = [...]string{"pre+", "pre-", "recv+", "recv-", "post+", "post-", "op+", "op-"}

type lfEv struct {
	kind  lfKind
	actor string // logical actor name (path label)
	inst  int    // actor object instance (one per created Actor value)
	inc   int    // incarnation of that instance (number of PreStart entries so far)
	gid   uint64
	msg   string
	op    int
	path  string // post+ only: stop path, derived from the call stack of the goroutine running PostStop
	// post+ only: tracked actors whose stop was in progress (stoppingState/passivatingState) then
	stoppingNow []string
}

func (e lfEv) String() string {
	switch e.kind {
	case lfOpStart, lfOpReturn:
		return fmt.Sprintf("%s%d", lfKindNames[e.kind], e.op)
	case lfRecvEnter, lfRecvExit:
		return fmt.Sprintf("%s#%d.%d:%s(%s)", e.actor, e.inst, e.inc, lfKindNames[e.kind], e.msg)
	}
	return fmt.Sprintf("%s#%d.%d:%s", e.actor, e.inst, e.inc, lfKindNames[e.kind])
}

type lfGate struct {
	label string
	actor *lfActor
	hook  string // "pre" | "recv" | "post"
	msg   string
	seq   int
	risky bool // the hook continues with an action that may take a stop lock
	ch    chan struct{}
}

type lfMsg struct {
	label string
	// act runs inside Receive after the gate (on the actor's turn).
	act func(a *lfActor, ctx *ReceiveContext)
}

type lfOp struct {
	label string
	kind  string // stop path / operation class, used for attribution in signatures
	cost  int
	// enabled: additional precondition (beyond "not started yet").
	enabled func(w *lfWorld) bool
	// touches: names of the actors whose Shutdown the operation may call synchronously ("?name": only
	// when that actor is running or suspended at that moment, as for Tell/Stop(child)/Restart).
	touches []string
	run     func(w *lfWorld) string
	// after runs on the client goroutine immediately after run returned.
	after func(w *lfWorld, op *lfOp) []vsched.Violation

	idx     int
	started bool
	done    bool
	gid     uint64
	result  string
}

type lfWorld struct {
	mu     sync.Mutex
	sys    *actorSystem
	evs    []lfEv
	gates  []*lfGate
	actors []*lfActor
	ops    []*lfOp
	viols  []vsched.Violation
	seq    int
	steps  []string
	// lastEnabled: labels of the events offered at the current decision (diagnostics)
	lastEnabled []string
	// gatePolicy decides whether a hook invocation blocks on a gate.
	gatePolicy func(a *lfActor, hook, msg string) bool
	// postExitHook runs at the end of PostStop (before the exit is logged) on the stopping goroutine.
	postExitHook func(a *lfActor)
	// beforeStep runs at the start of every step (e.g. to refresh name -> PID tracking).
	beforeStep func()
	// afterStep runs after every fired event (after quiescence), before the invariants.
	afterStep func()
	// pids of interest (actors whose stop lock matters), maintained by the scenario.
	track map[string]*PID
	// children: static parent -> children relation of the scenario (tracked names).
	children map[string][]string
	// riskyPending: per actor name, accepted messages with a lock-taking action whose handler has
	// not started yet.
	riskyPending map[string]int
}

func (w *lfWorld) riskyAdd(name string, d int) {
	w.mu.Lock()
	if w.riskyPending == nil {
		w.riskyPending = map[string]int{}
	}
	w.riskyPending[name] += d
	w.mu.Unlock()
}

func (w *lfWorld) riskyQueued() bool {
	w.mu.Lock()
	defer w.mu.Unlock()
	for _, n := range w.riskyPending {
		if n > 0 {
			return true
		}
	}
	return false
}

type lfActor struct {
	w    *lfWorld
	name string
	inst int
	inc  int
	// preErr, when set, makes PreStart fail.
	preErr error
	// self is the PID of this instance, learnt when PostStart is delivered (i.e. the spawn's init
	// succeeded); postStarted/postStopping track "running" = PostStart delivered and PostStop not begun.
	self         *PID
	postStarted  bool
	postStopping bool
}

// noteStarted records that PostStart was delivered to (or enqueued for) the instance.
func (w *lfWorld) noteStarted(a *lfActor, self *PID) {
	w.mu.Lock()
	a.self = self
	a.postStarted = true
	a.postStopping = false
	w.mu.Unlock()
}

// runningInstances returns the instances (optionally of one logical name) that are running.
func (w *lfWorld) runningInstances(name string) []*lfActor {
	w.mu.Lock()
	defer w.mu.Unlock()
	var out []*lfActor
	for _, a := range w.actors {
		if (name == "" || a.name == name) && a.postStarted && !a.postStopping {
			out = append(out, a)
		}
	}
	return out
}

func lfGoid() uint64 {
	var buf [64]byte
	n := runtime.Stack(buf[:], false)
	s := strings.TrimPrefix(string(buf[:n]), "goroutine ")
	if i := strings.IndexByte(s, ' '); i > 0 {
		s = s[:i]
	}
	id, _ := strconv.ParseUint(s, 10, 64)
	return id
}

// lfStopPath classifies the stop path that is running PostStop on the current goroutine from the
// function names on its call stack.
func lfStopPath(sys *actorSystem) string {
	buf := make([]byte, 32<<10)
	n := runtime.Stack(buf, false)
	st := string(buf[:n])
	has := func(s string) bool { return strings.Contains(st, s) }
	switch {
	case has(".tryPassivation"):
		return "passivation"
	case has(".restartSubtree"):
		return "restart"
	case has(".handleStopDirective"):
		return "supervisor-stop"
	case has(".freeChildren"):
		if sys != nil && sys.isStopping() {
			return "system-stop"
		}
		return "parent-stop"
	case has("(*ReceiveContext).Stop"):
		return "stop-child-inturn"
	case has("(*PID).Stop("):
		return "stop-child"
	case has("(*ReceiveContext).Shutdown"):
		return "self-shutdown"
	case has("(*actorSystem).Kill"):
		return "kill"
	case has(".dispatchOne"):
		return "poisonpill"
	case has("(*actorSystem).shutdown"):
		return "system-stop"
	case has("lfOpShutdown"):
		return "shutdown"
	}
	return "other"
}

func (w *lfWorld) newActor(name string) *lfActor {
	w.mu.Lock()
	defer w.mu.Unlock()
	a := &lfActor{w: w, name: name, inst: len(w.actors)}
	w.actors = append(w.actors, a)
	return a
}

func (w *lfWorld) logEv(e lfEv) {
	e.gid = lfGoid()
	w.mu.Lock()
	w.evs = append(w.evs, e)
	w.mu.Unlock()
}

func (w *lfWorld) addViol(v ...vsched.Violation) {
	w.mu.Lock()
	w.viols = append(w.viols, v...)
	w.mu.Unlock()
}

// wait blocks on a fresh gate when the policy says so.
func (w *lfWorld) wait(a *lfActor, hook, msg string, risky bool) {
	w.mu.Lock()
	gp := w.gatePolicy
	w.mu.Unlock()
	if gp == nil || !gp(a, hook, msg) {
		return
	}
	w.mu.Lock()
	w.seq++
	g := &lfGate{actor: a, hook: hook, msg: msg, seq: w.seq, risky: risky, ch: make(chan struct{})}
	g.label = fmt.Sprintf("%s#%d.%s", a.name, a.inst, hook)
	if msg != "" {
		g.label += "(" + msg + ")"
	}
	w.gates = append(w.gates, g)
	w.mu.Unlock()
	<-g.ch
}

// waitNamed blocks on a gate that does not belong to a test actor hook (e.g. the death watch).
func (w *lfWorld) waitNamed(hook, label string) {
	w.mu.Lock()
	gp := w.gatePolicy
	w.mu.Unlock()
	if gp == nil || !gp(nil, hook, label) {
		return
	}
	w.mu.Lock()
	w.seq++
	g := &lfGate{hook: hook, msg: label, seq: w.seq, ch: make(chan struct{})}
	g.label = hook + "(" + label + ")"
	w.gates = append(w.gates, g)
	w.mu.Unlock()
	<-g.ch
}

// wrapDeathWatch lets the harness control when the system death watch handles Terminated(x), i.e.
// when a stopped actor is removed from the tree and the actor counter is decremented. The real
// handler runs unchanged after the gate. Gate hook "dw", label = actor name; policy gets a nil actor.
func (w *lfWorld) wrapDeathWatch() {
	dw := w.sys.getDeathWatch()
	real := dw.actor
	dw.setBehavior(func(ctx *ReceiveContext) {
		if t, ok := ctx.Message().(*Terminated); ok {
			w.waitNamed("dw", t.ActorPath().Name())
		}
		real.Receive(ctx)
	})
}

func (w *lfWorld) release(g *lfGate) {
	w.mu.Lock()
	for i, x := range w.gates {
		if x == g {
			w.gates = append(w.gates[:i], w.gates[i+1:]...)
			break
		}
	}
	w.mu.Unlock()
	close(g.ch)
}

// releaseAll opens every gate until none is left (new gates may appear while draining) and turns the
// policy off so that the teardown cannot block.
func (w *lfWorld) releaseAll() {
	w.mu.Lock()
	w.gatePolicy = nil
	w.mu.Unlock()
	for i := 0; i < 1000; i++ {
		vsched.Settle()
		w.mu.Lock()
		gs := append([]*lfGate(nil), w.gates...)
		w.mu.Unlock()
		if len(gs) == 0 {
			return
		}
		for _, g := range gs {
			w.release(g)
		}
	}
}

func (w *lfWorld) openGates() []*lfGate {
	w.mu.Lock()
	gs := append([]*lfGate(nil), w.gates...)
	w.mu.Unlock()
	sort.Slice(gs, func(i, j int) bool {
		if gs[i].label != gs[j].label {
			return gs[i].label < gs[j].label
		}
		return gs[i].seq < gs[j].seq
	})
	return gs
}

func (a *lfActor) PreStart(*Context) error {
	w := a.w
	w.mu.Lock()
	a.inc++
	inc := a.inc
	w.mu.Unlock()
	w.logEv(lfEv{kind: lfPreEnter, actor: a.name, inst: a.inst, inc: inc})
	w.wait(a, "pre", "", false)
	w.logEv(lfEv{kind: lfPreExit, actor: a.name, inst: a.inst, inc: inc})
	return a.preErr
}

func (a *lfActor) curInc() int {
	a.w.mu.Lock()
	defer a.w.mu.Unlock()
	return a.inc
}

func (a *lfActor) Receive(ctx *ReceiveContext) {
	w := a.w
	label := ""
	var m *lfMsg
	switch x := ctx.Message().(type) {
	case *PostStart:
		label = "poststart"
		w.noteStarted(a, ctx.Self())
	case *lfMsg:
		label = x.label
		m = x
	case *Terminated:
		label = "terminated"
	default:
		label = fmt.Sprintf("%T", x)
	}
	inc := a.curInc()
	if m != nil && m.act != nil {
		w.riskyAdd(a.name, -1)
	}
	w.logEv(lfEv{kind: lfRecvEnter, actor: a.name, inst: a.inst, inc: inc, msg: label})
	w.wait(a, "recv", label, m != nil && m.act != nil)
	if m != nil && m.act != nil {
		m.act(a, ctx)
	}
	w.logEv(lfEv{kind: lfRecvExit, actor: a.name, inst: a.inst, inc: inc, msg: label})
}

func (a *lfActor) PostStop(*Context) error {
	w := a.w
	inc := a.curInc()
	w.mu.Lock()
	a.postStopping = true
	w.mu.Unlock()
	var stoppingNow []string
	w.mu.Lock()
	for n, p := range w.track {
		if p != nil && p.IsStopping() {
			stoppingNow = append(stoppingNow, n)
		}
	}
	w.mu.Unlock()
	w.logEv(lfEv{kind: lfPostEnter, actor: a.name, inst: a.inst, inc: inc, path: lfStopPath(w.sys), stoppingNow: stoppingNow})
	w.wait(a, "post", "", false)
	if w.postExitHook != nil {
		w.postExitHook(a)
	}
	w.logEv(lfEv{kind: lfPostExit, actor: a.name, inst: a.inst, inc: inc})
	return nil
}

// lfNewSystem creates a started system whose dispatcher has 8 workers regardless of GOMAXPROCS
// (the runner uses GOMAXPROCS=1, which would give 2 workers; handlers parked on gates occupy a
// worker each and must not starve the system actors).
func lfNewSystem(name string, opts ...Option) *actorSystem {
	all := append([]Option{WithLogger(log.DiscardLogger)}, opts...)
	s, err := NewActorSystem(name, all...)
	if err != nil {
		panic(fmt.Sprintf("lfNewSystem: %v", err))
	}
	sys := s.(*actorSystem)
	sys.dispatcher = newDispatcher(8, sys.dispatcherThroughput)
	if err := sys.Start(context.Background()); err != nil {
		panic(fmt.Sprintf("lfNewSystem start: %v", err))
	}
	return sys
}

// lfStopSystem tears the system down (also when an explored operation already stopped it).
func lfStopSystem(sys *actorSystem) {
	if sys.Running() {
		_ = sys.Stop(context.Background())
	}
	sys.stopCoalescedFailureDrain()
}

// lfMutexDurable: the package under test is built with the sync shims (variant actor-life1-instr):
// a goroutine that has to wait for a mutex then parks on a sync.Cond, which a bubble treats as
// durably blocked. Settle returns with a stopper queued on a held PID.stopLocker, so the
// stop-lock predictor is switched off and a second stopper may be started while the first one is
// parked inside PostStop. Detected from the lock's type, independent of build flags.
var lfMutexDurable = strings.Contains(fmt.Sprintf("%T", &(&PID{}).stopLocker), "vsync")

// lockHeld reports whether pid's stop lock is currently held (only meaningful at quiescence).
func lfLockHeld(pid *PID) bool {
	if pid == nil {
		return false
	}
	if pid.stopLocker.TryLock() {
		pid.stopLocker.Unlock()
		return false
	}
	return true
}

// anyLockHeld: some tracked actor's stop lock is held.
func (w *lfWorld) anyLockHeld() bool {
	if lfMutexDurable {
		return false // waiting for a held lock cannot wedge the bubble: nothing has to be deferred
	}
	for _, p := range w.trackedPIDs() {
		if lfLockHeld(p) {
			return true
		}
	}
	return false
}

func (w *lfWorld) trackedPIDs() []*PID {
	w.mu.Lock()
	names := make([]string, 0, len(w.track))
	for n := range w.track {
		names = append(names, n)
	}
	w.mu.Unlock()
	sort.Strings(names)
	out := make([]*PID, 0, len(names))
	for _, n := range names {
		w.mu.Lock()
		p := w.track[n]
		w.mu.Unlock()
		out = append(out, p)
	}
	return out
}

func (w *lfWorld) setTrack(name string, pid *PID) {
	w.mu.Lock()
	if w.track == nil {
		w.track = map[string]*PID{}
	}
	w.track[name] = pid
	w.mu.Unlock()
}

func (w *lfWorld) pid(name string) *PID {
	w.mu.Lock()
	defer w.mu.Unlock()
	return w.track[name]
}

// wouldBlock predicts whether Shutdown(name) would wait for a stop lock that is currently held by a
// goroutine parked on a gate. It mirrors Shutdown/freeChildren: the target's own lock is taken
// unconditionally; a child is only shut down (recursively) when it is running or suspended — a child
// whose stop is already in progress is skipped by freeChildren, so it cannot block the caller.
func (w *lfWorld) wouldBlock(name string) bool {
	if lfMutexDurable {
		return false
	}
	pid := w.pid(name)
	if pid == nil {
		return false
	}
	if lfLockHeld(pid) {
		return true
	}
	w.mu.Lock()
	cs := append([]string(nil), w.children[name]...)
	w.mu.Unlock()
	for _, c := range cs {
		cp := w.pid(c)
		if cp == nil {
			continue
		}
		if cp.IsRunning() || cp.IsSuspended() || (lfWaitsForStoppingChild && cp.IsStopping()) {
			if w.wouldBlock(c) {
				return true
			}
		}
	}
	return false
}

// ---------------------------------------------------------------------------------------------
// Predictor calibration. wouldBlock mirrors freeChildren's condition for calling child.Shutdown. The
// unchanged tree skips a child whose own stop is in progress; a repaired tree may wait for it (then a
// stopper of the parent WOULD block on the child's held stop lock and must not be started while that
// lock is held by a parked goroutine). The behaviour is probed once per process on a real system in
// real time, outside any bubble: the answer only selects which orders are enabled, it never decides a
// verdict; a slow machine can only push it to the conservative side (fewer orders).
// ---------------------------------------------------------------------------------------------
var (
	lfProbeOnce             sync.Once
	lfWaitsForStoppingChild bool
)

type lfProbeActor struct {
	entered chan struct{}
	release chan struct{}
}

func (a *lfProbeActor) PreStart(*Context) error { return nil }
func (a *lfProbeActor) Receive(*ReceiveContext) {}
func (a *lfProbeActor) PostStop(*Context) error {
	close(a.entered)
	<-a.release
	return nil
}

func lfCalibrate() {
	lfProbeOnce.Do(func() {
		vfResetPools()
		defer vfResetPools()
		lfWaitsForStoppingChild = true // conservative default
		sys := lfNewSystem("lfprobe")
		defer lfStopSystem(sys)
		ctx := context.Background()
		open := make(chan struct{})
		close(open)
		pa := &lfProbeActor{entered: make(chan struct{}), release: open}
		ca := &lfProbeActor{entered: make(chan struct{}), release: make(chan struct{})}
		pp, err := sys.Spawn(ctx, "lfp", pa, WithLongLived())
		if err != nil {
			return
		}
		if _, err := pp.SpawnChild(ctx, "lfc", ca, WithLongLived()); err != nil {
			return
		}
		done := make(chan struct{}, 2)
		go func() { _ = sys.Kill(ctx, "lfc"); done <- struct{}{} }()
		select {
		case <-ca.entered:
		case <-time.After(5 * time.Second):
			close(ca.release)
			return
		}
		go func() { _ = sys.Kill(ctx, "lfp"); done <- struct{}{} }()
		select {
		case <-pa.entered:
			lfWaitsForStoppingChild = false
		case <-time.After(3 * time.Second):
		}
		close(ca.release)
		<-done
		<-done
		vsched.Rep().Note("predictor calibration: a parent's stop waits for a child whose own stop is in progress = %v", lfWaitsForStoppingChild)
	})
}

func (w *lfWorld) addChild(parent, child string) {
	w.mu.Lock()
	if w.children == nil {
		w.children = map[string][]string{}
	}
	w.children[parent] = append(w.children[parent], child)
	w.mu.Unlock()
}

// lfExploreAll explores the scenarios in the given order. Unlike vsched.ExploreAll it does not split
// the wall budget into equal shares: a scenario takes what it needs and the rest is left to the later
// ones, so the callers list small explorations first. VERIF_SCENARIO_FILTER works as in the engine.
func lfExploreAll(scs []vsched.Scenario) {
	r := vsched.Rep()
	if f := os.Getenv("VERIF_SCENARIO_FILTER"); f != "" {
		var keep []vsched.Scenario
		for _, sc := range scs {
			if strings.Contains(sc.Cfg.Scenario, f) {
				keep = append(keep, sc)
			}
		}
		scs = keep
		r.Note("VERIF_SCENARIO_FILTER=%s active: this run is partial", f)
	}
	for _, sc := range scs {
		vsched.Explore(sc.Cfg, sc.Run)
	}
}

type lfEvent struct {
	label string
	cost  int
	fire  func()
}

func (w *lfWorld) startOp(op *lfOp) {
	op.started = true
	ready := make(chan struct{})
	go func() {
		op.gid = lfGoid()
		close(ready)
		w.logEv(lfEv{kind: lfOpStart, op: op.idx})
		res := op.run(w)
		w.logEv(lfEv{kind: lfOpReturn, op: op.idx})
		w.mu.Lock()
		op.result = res
		w.mu.Unlock()
		var vs []vsched.Violation
		if op.after != nil {
			vs = op.after(w, op)
		}
		w.mu.Lock()
		op.done = true
		w.viols = append(w.viols, vs...)
		w.mu.Unlock()
	}()
	<-ready
}

func (w *lfWorld) opDone(op *lfOp) bool {
	w.mu.Lock()
	defer w.mu.Unlock()
	return op.done
}

// recvGateSafe: releasing the Receive gate lets the worker continue its turn; if a control message
// (PoisonPill, Panicking) is queued the turn may call Shutdown and wait for a held stop lock.
func (w *lfWorld) gateSafe(g *lfGate) bool {
	if g.hook != "recv" {
		return true
	}
	if !w.anyLockHeld() {
		return true
	}
	// some stop lock is held: only allow when the handler has no lock-taking action and no control
	// message is pending anywhere among the tracked actors (conservative).
	if g.risky || w.riskyQueued() {
		return false
	}
	for _, p := range w.trackedPIDs() {
		if p != nil && !p.systemMailbox.IsEmpty() {
			return false
		}
	}
	return true
}

// loop drives one execution: enumerates event orders through the chooser.
//   - extra: additional scenario specific events (e.g. advance time).
//   - inv: invariant evaluated after every step (at quiescence).
//   - gateOK: optional extra filter for gate releases.
func (w *lfWorld) loop(c *vsched.Chooser, maxSteps int, extra func() []lfEvent, inv func() []vsched.Violation, gateOK func(g *lfGate) bool) {
	for step := 0; step < maxSteps; step++ {
		if w.beforeStep != nil {
			w.beforeStep()
		}
		var evs []lfEvent
		for _, op := range w.ops {
			if op.started {
				continue
			}
			if op.enabled != nil && !op.enabled(w) {
				continue
			}
			blocked := false
			for _, n := range op.touches {
				if strings.HasPrefix(n, "?") { // Shutdown is only called when the target is running or suspended
					n = n[1:]
					if p := w.pid(n); p == nil || !(p.IsRunning() || p.IsSuspended()) {
						continue
					}
				}
				if w.wouldBlock(n) {
					blocked = true
				}
			}
			if blocked {
				continue
			}
			op := op
			evs = append(evs, lfEvent{label: "op:" + op.label, cost: op.cost, fire: func() { w.startOp(op) }})
		}
		for _, g := range w.openGates() {
			if !w.gateSafe(g) {
				continue
			}
			// once the system has been stopped the death watch is gone; whether its last Terminated
			// was dispatched before its own shutdown is a race of no interest (released at teardown)
			if g.hook == "dw" && !w.sys.Running() {
				continue
			}
			if gateOK != nil && !gateOK(g) {
				continue
			}
			g := g
			evs = append(evs, lfEvent{label: "release:" + g.label, fire: func() { w.release(g) }})
		}
		if extra != nil {
			evs = append(evs, extra()...)
		}
		if len(evs) == 0 {
			break
		}
		sort.SliceStable(evs, func(i, j int) bool { return evs[i].cost < evs[j].cost })
		if evs[0].cost > 0 {
			evs = append([]lfEvent{{label: "end", fire: nil}}, evs...)
		}
		costs := make([]int, len(evs))
		for i, e := range evs {
			costs[i] = e.cost
		}
		w.lastEnabled = w.lastEnabled[:0]
		for _, e := range evs {
			w.lastEnabled = append(w.lastEnabled, e.label)
		}
		i := c.Choose("event", len(evs), costs, func(i int) string { return evs[i].label })
		if c.Truncated {
			break
		}
		w.steps = append(w.steps, evs[i].label)
		if evs[i].fire == nil {
			break
		}
		evs[i].fire()
		vsched.Settle()
		if w.afterStep != nil {
			w.afterStep()
		}
		if inv != nil {
			w.addViol(inv()...)
		}
	}
}

// lfGuard runs body (the root function of a bubble); a panic is turned into an invalid outcome and
// the world is torn down so that the bubble can still end without blocked goroutines.
func lfGuard(w *lfWorld, out *vsched.Outcome, body func()) {
	defer func() {
		if p := recover(); p != nil {
			if d, ok := p.(vsched.Divergence); ok {
				fmt.Fprintf(os.Stderr, "LF-DIVERGENCE %v\n  steps so far: %v\n  enabled now: %v\n  log: %s\n", d, w.steps, w.lastEnabled, lfLogString(w.snapshot()))
				defer panic(d)
			}
			buf := make([]byte, 16<<10)
			n := runtime.Stack(buf, false)
			out.Invalid = fmt.Sprintf("panic in harness/bubble root: %v\n%s", p, buf[:n])
			func() {
				defer func() { _ = recover() }()
				if w.sys != nil {
					w.teardown()
				}
			}()
		}
	}()
	body()
}

// teardown: release everything, let client goroutines return, stop the system.
func (w *lfWorld) teardown() (hung []string) {
	w.releaseAll()
	vsched.Settle()
	// let pending virtual timers (ask timeouts, restart tickers) fire
	for i := 0; i < 3; i++ {
		allDone := true
		for _, op := range w.ops {
			if op.started && !w.opDone(op) {
				allDone = false
			}
		}
		if allDone {
			break
		}
		time.Sleep(time.Second)
		w.releaseAll()
	}
	for _, op := range w.ops {
		if op.started && !w.opDone(op) {
			hung = append(hung, op.label)
		}
	}
	lfStopSystem(w.sys)
	w.releaseAll()
	vsched.Settle()
	return hung
}

func (w *lfWorld) snapshot() []lfEv {
	w.mu.Lock()
	defer w.mu.Unlock()
	return append([]lfEv(nil), w.evs...)
}

func (w *lfWorld) violations() []vsched.Violation {
	w.mu.Lock()
	defer w.mu.Unlock()
	// de-duplicate by signature, keep the first detail
	seen := map[string]bool{}
	var out []vsched.Violation
	for _, v := range w.viols {
		if seen[v.Signature] {
			continue
		}
		seen[v.Signature] = true
		out = append(out, v)
	}
	return out
}

// perActorLog renders the log grouped by actor instance (schedule independent grouping; the order
// inside one instance is the real order).
func lfPerActor(evs []lfEv) string {
	m := map[string][]string{}
	var keys []string
	for _, e := range evs {
		if e.kind == lfOpStart || e.kind == lfOpReturn {
			continue
		}
		k := fmt.Sprintf("%s#%d", e.actor, e.inst)
		if _, ok := m[k]; !ok {
			keys = append(keys, k)
		}
		s := lfKindNames[e.kind]
		if e.msg != "" {
			s += "(" + e.msg + ")"
		}
		m[k] = append(m[k], s)
	}
	sort.Strings(keys)
	var b strings.Builder
	for _, k := range keys {
		fmt.Fprintf(&b, "%s[%s] ", k, strings.Join(m[k], " "))
	}
	return b.String()
}

func lfLogString(evs []lfEv) string {
	parts := make([]string, len(evs))
	for i, e := range evs {
		parts[i] = e.String()
	}
	return strings.Join(parts, ", ")
}

func lfErrClass(err error) string {
	switch {
	case err == nil:
		return "ok"
	case errors.Is(err, context.DeadlineExceeded):
		return "deadline"
	case errors.Is(err, context.Canceled):
		return "canceled"
	}
	s := err.Error()
	if len(s) > 40 {
		s = s[:40]
	}
	return "err:" + s
}
