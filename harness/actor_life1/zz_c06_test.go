//go:build verif

package actor

import (
	"context"
	"errors"
	"fmt"
	"strings"
	"testing"
	"time"

	"github.com/tochemey/goakt/v4/internal/verif/vsched"
	"github.com/tochemey/goakt/v4/passivation"
	"github.com/tochemey/goakt/v4/supervisor"
)

// C06 — lifecycle hooks are ordered and never overlap message handling.
//
// Oracle (on the totally ordered hook log, per actor instance and incarnation = one PreStart):
//   (a) PreStart-exit precedes the first Receive-enter of the incarnation
//   (b) PostStop is entered at most once per incarnation
//   (c) no Receive-enter after PostStop-enter of the incarnation
//   (d) never a Receive and a PostStop of the same actor open at the same time on different goroutines
// Every stop path of the statement is a scenario: PoisonPill, Kill / PID.Shutdown / parent.Stop(child) from outside
// and from another actor's turn, parent stop, system stop, supervisor Stop directive, passivation
// deadline, Restart.  Signatures carry the clause and the stop path that ran the PostStop.

type c06Scn struct {
	name  string
	path  string // stop path attributed to a PostStop that ran on a goroutine that is not a client operation
	steps int
	build func(w *lfWorld)
	extra func(w *lfWorld) func() []lfEvent
}

var c06Ctx = context.Background()

func c06Spawn(w *lfWorld, name string, opts ...SpawnOption) *PID {
	pid, err := w.sys.Spawn(c06Ctx, name, w.newActor(name), opts...)
	if err != nil {
		panic(fmt.Sprintf("c06Spawn %s: %v", name, err))
	}
	w.setTrack(name, pid)
	return pid
}

func c06SpawnChild(w *lfWorld, parent *PID, name string, opts ...SpawnOption) *PID {
	pid, err := parent.SpawnChild(c06Ctx, name, w.newActor(name), opts...)
	if err != nil {
		panic(fmt.Sprintf("c06SpawnChild %s: %v", name, err))
	}
	w.setTrack(name, pid)
	w.addChild(parent.Name(), name)
	return pid
}

func (w *lfWorld) addOp(op *lfOp) *lfOp {
	op.idx = len(w.ops)
	w.ops = append(w.ops, op)
	return op
}

// opTell: Tell(target, user message) from a client goroutine.
func lfOpTell(target, label string, act func(a *lfActor, ctx *ReceiveContext), touches ...string) *lfOp {
	op := &lfOp{label: "tell(" + target + "," + label + ")", kind: "tell"}
	op.run = func(w *lfWorld) string {
		if act != nil {
			w.riskyAdd(target, 1)
		}
		err := Tell(c06Ctx, w.pid(target), &lfMsg{label: label, act: act})
		if err != nil && act != nil {
			w.riskyAdd(target, -1)
		}
		return lfErrClass(err)
	}
	if len(touches) > 0 {
		op.touches = touches
	}
	return op
}

func lfOpPoison(target string) *lfOp {
	return &lfOp{label: "poisonpill(" + target + ")", kind: "poisonpill", touches: []string{"?" + target},
		run: func(w *lfWorld) string { return lfErrClass(Tell(c06Ctx, w.pid(target), new(PoisonPill))) }}
}

func lfOpKill(target string) *lfOp {
	return &lfOp{label: "kill(" + target + ")", kind: "kill", touches: []string{target},
		run: func(w *lfWorld) string { return lfErrClass(w.sys.Kill(c06Ctx, target)) }}
}

// lfOpShutdown: the public PID.Shutdown called from a client goroutine.
func lfOpShutdown(target string) *lfOp {
	return &lfOp{label: "shutdown(" + target + ")", kind: "shutdown", touches: []string{target},
		run: func(w *lfWorld) string { return lfErrClass(w.pid(target).Shutdown(c06Ctx)) }}
}

func lfOpStopChild(parent, child string) *lfOp {
	return &lfOp{label: parent + ".stop(" + child + ")", kind: "stop-child", touches: []string{"?" + child},
		run: func(w *lfWorld) string { return lfErrClass(w.pid(parent).Stop(c06Ctx, w.pid(child))) }}
}

// lfTurnOpen: the actor or one of its (static) descendants is in the middle of a message turn that
// is parked on a gate. restartSubtree spin-waits (runtime.Gosched) for such a turn to end, which a
// bubble can never settle; Restart is therefore only started when no such turn is open (the omitted
// orders are those in which Restart waits for the turn and continues when it ends).
func (w *lfWorld) lfTurnOpen(name string) bool {
	// (a running actor with an open turn is inside a gated Receive: Restart then runs Shutdown first
	// and the C06 PostStop hook opens that gate, see c06Build)
	if p := w.pid(name); p != nil && p.schedState.Load() == dispatchProcessing && !p.IsRunning() {
		return true
	}
	w.mu.Lock()
	cs := append([]string(nil), w.children[name]...)
	w.mu.Unlock()
	for _, c := range cs {
		if w.lfTurnOpen(c) {
			return true
		}
	}
	return false
}

func lfOpRestart(target string) *lfOp {
	return &lfOp{label: "restart(" + target + ")", kind: "restart", touches: []string{"?" + target},
		enabled: func(w *lfWorld) bool { return !w.lfTurnOpen(target) },
		run:     func(w *lfWorld) string { return lfErrClass(w.pid(target).Restart(c06Ctx)) }}
}

// lfOpSystemStop: ActorSystem.Stop. It calls Shutdown on the user guardian (tracked as "$ug", whose
// children are the given top-level actors).
func lfOpSystemStop(w *lfWorld, roots ...string) *lfOp {
	w.setTrack("$ug", w.sys.getUserGuardian())
	for _, r := range roots {
		w.addChild("$ug", r)
	}
	return &lfOp{label: "system.stop", kind: "system-stop", touches: []string{"$ug"},
		run: func(w *lfWorld) string { return lfErrClass(w.sys.Stop(c06Ctx)) }}
}

// default C06 gate policy: user messages of actor "a" and every PostStop.
func c06Policy(a *lfActor, hook, msg string) bool {
	switch hook {
	case "recv":
		return a.name == "a" && msg != "poststart" && msg != "terminated"
	case "post":
		return true
	}
	return false
}

var c06NeedsParent = map[string]bool{"stop-child": true, "stop-child-inturn": true, "parent-stop": true, "supervisor-stop": true}

// c06Build: actor "a" (top level, or child of "p" when a path needs the parent or parent is forced),
// `tells` user messages m1.. from client goroutines and one operation per listed stop path.
func c06Build(name string, paths []string, tells int, forceParent bool) c06Scn {
	has := func(p string) bool {
		for _, x := range paths {
			if x == p {
				return true
			}
		}
		return false
	}
	withParent := forceParent
	for _, p := range paths {
		if c06NeedsParent[p] {
			withParent = true
		}
	}
	sc := c06Scn{name: name, path: paths[0]}
	sc.build = func(w *lfWorld) {
		var opts []SpawnOption
		if has("passivation") {
			opts = append(opts, WithPassivationStrategy(passivation.NewTimeBasedStrategy(2*time.Second)))
		} else {
			opts = append(opts, WithLongLived())
		}
		all := []string{"a"}
		if withParent {
			p := c06Spawn(w, "p", WithLongLived())
			sup := supervisor.NewSupervisor(supervisor.WithStrategy(supervisor.OneForOneStrategy), supervisor.WithAnyErrorDirective(supervisor.StopDirective))
			c06SpawnChild(w, p, "a", append(opts, WithSupervisor(sup))...)
			all = []string{"p", "a"}
		} else {
			c06Spawn(w, "a", opts...)
		}
		for i := 1; i <= tells; i++ {
			w.addOp(lfOpTell("a", fmt.Sprintf("m%d", i), nil))
		}
		seen := map[string]int{}
		var rs []*lfOp
		for _, p := range paths {
			seen[p]++
			var op *lfOp
			switch p {
			case "poisonpill":
				op = lfOpPoison("a")
			case "kill":
				op = lfOpKill("a")
			case "shutdown":
				op = lfOpShutdown("a")
			case "stop-child":
				op = lfOpStopChild("p", "a")
			case "stop-child-inturn":
				// the parent's handler stops the child from its own turn (p's Receive is not gated)
				op = lfOpTell("p", "stopchild", func(a *lfActor, ctx *ReceiveContext) { ctx.Stop(a.w.pid("a")) }, "?a")
			case "parent-stop":
				op = lfOpKill("p")
			case "system-stop":
				op = lfOpSystemStop(w, all[0])
			case "supervisor-stop":
				op = lfOpTell("a", "fail", func(a *lfActor, ctx *ReceiveContext) { ctx.Err(errors.New("boom")) }, "?a")
			case "self-shutdown":
				op = lfOpTell("a", "selfstop", func(a *lfActor, ctx *ReceiveContext) { ctx.Shutdown() }, "?a")
			case "restart":
				op = lfOpRestart("a")
				rs = append(rs, op)
			case "passivation":
				continue
			default:
				panic("unknown path " + p)
			}
			if seen[p] > 1 {
				op.label += fmt.Sprintf("#%d", seen[p])
			}
			w.addOp(op)
		}
		w.gatePolicy = c06Policy
		if len(rs) > 0 {
			// restartSubtree spin-waits (runtime.Gosched) for the in-flight turn and a spinning goroutine
			// never lets the bubble settle: the PostStop hook opens the in-flight Receive gates of its
			// actor when it exits, handlers that start after a restart began are not gated, and the
			// 10ms poll ticker of restartSubtree is advanced after every step.
			started := func() bool {
				for _, r := range rs {
					if r.started {
						return true
					}
				}
				return false
			}
			w.gatePolicy = func(a *lfActor, hook, msg string) bool {
				if hook == "pre" {
					return true
				}
				if hook == "recv" && started() {
					return false
				}
				return c06Policy(a, hook, msg)
			}
			w.postExitHook = func(a *lfActor) {
				for _, g := range w.openGates() {
					if g.hook == "recv" && g.actor == a {
						w.release(g)
					}
				}
			}
			w.afterStep = func() {
				for _, r := range rs {
					if r.started && !w.opDone(r) {
						time.Sleep(10 * time.Millisecond)
						vsched.Settle()
						return
					}
				}
			}
		}
	}
	if has("passivation") {
		// the deadline elapses as an explicit event (virtual time), possibly while a handler is in flight
		sc.extra = func(w *lfWorld) func() []lfEvent {
			n := 0
			return func() []lfEvent {
				if n >= 2 || w.anyLockHeld() {
					return nil
				}
				return []lfEvent{{label: "advance(3s)", fire: func() { n++; time.Sleep(3 * time.Second) }}}
			}
		}
	}
	return sc
}

func c06Scenarios() []c06Scn {
	nt := vsched.Pick(3, 4)
	var out []c06Scn
	// single-path scenarios first (smallest to largest): they carry the basic verdict of every stop
	// path; a breaking change that wedges the harness in a racing-pair scenario is then still reported
	// through the violations found here
	single := []string{"self-shutdown", "restart", "supervisor-stop", "passivation", "poisonpill", "kill", "shutdown", "stop-child", "stop-child-inturn", "system-stop", "parent-stop"}
	for _, p := range single {
		n := nt
		if p == "supervisor-stop" || p == "self-shutdown" || p == "restart" || p == "passivation" {
			n = nt - 1
		}
		out = append(out, c06Build(p, []string{p}, n, false))
	}
	// every pair of stop paths racing on the same actor (child "a" of "p"), one (thorough: two) user message(s)
	pl := []string{"poisonpill", "kill", "shutdown", "stop-child", "stop-child-inturn", "parent-stop", "system-stop", "supervisor-stop", "self-shutdown", "passivation", "restart"}
	for i := 0; i < len(pl); i++ {
		for j := i; j < len(pl); j++ {
			if i == j && (pl[i] == "restart" || pl[i] == "passivation" || pl[i] == "system-stop") {
				continue // two concurrent Restart calls on one PID have no defined incarnation structure; one deadline; one system
			}
			out = append(out, c06Build("pair/"+pl[i]+"+"+pl[j], []string{pl[i], pl[j]}, vsched.Pick(1, 2), true))
		}
	}

	// spawn: PreStart gated; a client resolves the actor by name and tells it, another kills it by name.
	out = append(out, c06Scn{name: "spawn", path: "kill", build: func(w *lfWorld) {
		w.addOp(&lfOp{label: "spawn(a)", kind: "spawn", run: func(w *lfWorld) string {
			pid, err := w.sys.Spawn(c06Ctx, "a", w.newActor("a"), WithLongLived())
			if err == nil {
				w.setTrack("a", pid)
			}
			return lfErrClass(err)
		}})
		tellByName := func(label string) *lfOp {
			return &lfOp{label: "tellbyname(a," + label + ")", kind: "tell", run: func(w *lfWorld) string {
				pid, err := w.sys.ActorOf(c06Ctx, "a")
				if err != nil {
					return "notfound"
				}
				return lfErrClass(Tell(c06Ctx, pid, &lfMsg{label: label}))
			}}
		}
		w.addOp(tellByName("m1"))
		w.addOp(tellByName("m2"))
		k := lfOpKill("a")
		w.addOp(k)
		w.gatePolicy = func(a *lfActor, hook, msg string) bool {
			return hook == "pre" || c06Policy(a, hook, msg)
		}
	}})

	return out
}

// c06Check evaluates the four clauses on the log. The stop path in a signature is the one recorded
// at PostStop entry (lfStopPath).
func c06Check(evs []lfEv) []vsched.Violation {
	type key struct{ inst, inc int }
	preExit := map[key]bool{}
	postEnter := map[key]int{}
	postExit := map[key]bool{}
	postPath := map[key]string{}
	openRecv := map[int][]lfEv{} // per instance
	openPost := map[int][]lfEv{}
	var out []vsched.Violation
	add := func(sig, detail string) {
		out = append(out, vsched.Violation{Signature: sig, Detail: detail + " | log: " + lfLogString(evs)})
	}
	for i, e := range evs {
		k := key{e.inst, e.inc}
		switch e.kind {
		case lfPreExit:
			preExit[k] = true
		case lfRecvEnter:
			if !preExit[k] {
				add("receive-before-prestart-exit", fmt.Sprintf("event %d %s: Receive entered before PreStart of this incarnation completed", i, e))
			}
			if postEnter[k] > 0 {
				if postExit[k] {
					add("receive-after-poststop-exit/"+postPath[k], fmt.Sprintf("event %d %s: Receive entered after PostStop of this incarnation had completed", i, e))
				} else {
					add("receive-after-poststop-enter/"+postPath[k], fmt.Sprintf("event %d %s: Receive entered after PostStop of this incarnation had started (PostStop still running)", i, e))
				}
			}
			if postEnter[k] == 0 { // otherwise already reported by clause (c) above
				for _, p := range openPost[e.inst] {
					if p.gid != e.gid {
						add("poststop-overlaps-receive/"+p.path, fmt.Sprintf("event %d %s on goroutine %d while PostStop %s is open on goroutine %d", i, e, e.gid, p, p.gid))
					}
				}
			}
			openRecv[e.inst] = append(openRecv[e.inst], e)
		case lfRecvExit:
			l := openRecv[e.inst]
			for j := len(l) - 1; j >= 0; j-- {
				if l[j].gid == e.gid && l[j].msg == e.msg {
					openRecv[e.inst] = append(l[:j:j], l[j+1:]...)
					break
				}
			}
		case lfPostEnter:
			postEnter[k]++
			if postEnter[k] == 1 {
				postPath[k] = e.path
			}
			if postEnter[k] > 1 {
				add("poststop-twice", fmt.Sprintf("event %d %s: PostStop entered %d times in one incarnation", i, e, postEnter[k]))
			}
			for _, r := range openRecv[e.inst] {
				if r.gid != e.gid {
					add("poststop-overlaps-receive/"+e.path, fmt.Sprintf("event %d %s on goroutine %d while Receive %s is still open on goroutine %d", i, e, e.gid, r, r.gid))
				}
			}
			openPost[e.inst] = append(openPost[e.inst], e)
		case lfPostExit:
			postExit[k] = true
			l := openPost[e.inst]
			for j := len(l) - 1; j >= 0; j-- {
				if l[j].gid == e.gid {
					openPost[e.inst] = append(l[:j:j], l[j+1:]...)
					break
				}
			}
		}
	}
	return out
}

func c06Run(t *testing.T, sc c06Scn) func(c *vsched.Chooser) vsched.Outcome {
	return func(c *vsched.Chooser) vsched.Outcome {
		var out vsched.Outcome
		w := &lfWorld{}
		p := vfBubble(t, func() {
			lfGuard(w, &out, func() {
				w.sys = lfNewSystem("c06")
				sc.build(w)
				vsched.Settle()
				var extra func() []lfEvent
				if sc.extra != nil {
					extra = sc.extra(w)
				}
				steps := sc.steps
				if steps == 0 {
					steps = 40
				}
				w.loop(c, steps, extra, nil, nil)
				hung := w.teardown()
				evs := w.snapshot()
				vs := c06Check(evs)
				seen := map[string]bool{}
				for _, v := range vs {
					if !seen[v.Signature] {
						seen[v.Signature] = true
						out.Violations = append(out.Violations, v)
					}
				}
				var res []string
				for _, op := range w.ops {
					if op.started {
						res = append(res, op.label+"="+op.result)
					}
				}
				out.Obs = strings.Join(w.steps, ";") + " || " + lfPerActor(evs) + " || " + strings.Join(res, ",")
				if len(hung) > 0 {
					out.Invalid = "client operation did not return: " + strings.Join(hung, ",")
				}
			})
		})
		if p != nil {
			out.Invalid = fmt.Sprintf("panic in bubble: %v", p)
		}
		return out
	}
}

func TestVerifC06(t *testing.T) {
	defer vsched.Finish(t)
	r := vsched.Rep()
	lfCalibrate()
	r.Assumption("event granularity: client operations, gate releases and virtual-time steps are interleaved in every order; code between two gates runs without harness-controlled preemption")
	r.Assumption("orders in which a second stopper would wait on a held PID.stopLocker are represented by the order in which it starts right after the lock is released (a mutex waiter cannot be parked in a synctest bubble)")
	var scs []vsched.Scenario
	for _, sc := range c06Scenarios() {
		scs = append(scs, vsched.Scenario{
			Cfg: vsched.Config{Scenario: "c06/" + sc.name, Bound: 0, Params: map[string]any{"stop_path": sc.path}},
			Run: c06Run(t, sc),
		})
	}
	lfExploreAll(scs)
}

// TestVerifC06Overlap is the second part of C06, built with the sync shims (variant
// actor-life1-instr): the racing-pair scenarios are explored again without the stop-lock
// predictor, i.e. including every order in which a second stop operation starts while the first one
// is parked inside PostStop and queues on PID.stopLocker. Oracle unchanged.
func TestVerifC06Overlap(t *testing.T) {
	defer vsched.Finish(t)
	r := vsched.Rep()
	if !lfMutexDurable {
		r.Note("TestVerifC06Overlap needs the instrumented variant (mutex waits must be durable); nothing explored")
		return
	}
	r.Assumption("instrumented part: sync/atomic shims are only used to make mutex waits durable in the bubble; no sync-level preemption is explored")
	var scs []vsched.Scenario
	for _, sc := range c06Scenarios() {
		if !strings.HasPrefix(sc.name, "pair/") {
			continue
		}
		// the supervisor Stop directive starts asynchronously (supervision goroutine -> parent's turn) in
		// the same step in which the failing handler's successor message is dispatched; with the shims'
		// extra wake-ups the order of those two log entries is not reproducible, so these pairs stay in
		// the un-instrumented part only
		if strings.Contains(sc.name, "supervisor-stop") {
			continue
		}
		scs = append(scs, vsched.Scenario{
			Cfg: vsched.Config{Scenario: "c06-overlap/" + strings.TrimPrefix(sc.name, "pair/"), Bound: 0, Params: map[string]any{"stop_path": sc.path, "stop_lock_predictor": false}},
			Run: c06Run(t, sc),
		})
	}
	lfExploreAll(scs)
}
