//go:build verif

package actor

import (
	"context"
	"fmt"
	"strings"
	"testing"
	"time"

	"github.com/tochemey/goakt/v4/internal/verif/vsched"
)

// C11 — a name maps to at most one running actor in a system.
//
// Program (chosen by the first decisions of every execution): 2..N concurrent spawners, each one of
// Spawn("a"), SpawnNamedFromFunc("a"), parent.SpawnChild("c"); optionally one extra operation
// (cost 1): Spawn("b") (different name), Kill("a"), Kill("c"), or cancelling the context of spawner 0.
// Events: start spawner k, release the PreStart gate of an instance, release a PostStop gate, let the
// death watch handle Terminated(x), cancel.
//
// Oracle:
//   (1) at every quiescent step: per path at most one running instance (running = PostStart was
//       delivered, i.e. the instance's init succeeded, and its PostStop has not begun)
//   (2) a successful spawner never receives a PID whose PostStop had begun before the call started;
//       with no stop operation in the program all successful spawners of one path got the same *PID
//       and it is the running instance
//   (3) at the final quiescence NumActors() == number of running user actors

type c11Mailbox struct {
	Mailbox
	a *lfActor
}

func (m *c11Mailbox) Enqueue(rc *ReceiveContext) error {
	if _, ok := rc.Message().(*PostStart); ok {
		m.a.w.noteStarted(m.a, rc.Self())
	}
	return m.Mailbox.Enqueue(rc)
}

type c11Spawner struct {
	kind   string // "spawn(a)" | "spawnfunc(a)" | "spawnchild(p,c)" | "spawn(b)"
	path   string // logical path: "a" | "c" | "b"
	op     *lfOp
	cancel context.CancelFunc
	pid    *PID
	err    error
	// postBegunBefore: instances of this path whose PostStop had begun when the call started
	stoppingAtStart map[*PID]bool
}

var c11Kinds = []string{"spawn(a)", "spawnfunc(a)", "spawnchild(p,c)"}

func c11Path(kind string) string {
	switch kind {
	case "spawnchild(p,c)":
		return "c"
	case "spawn(b)":
		return "b"
	}
	return "a"
}

type c11World struct {
	*lfWorld
	spawners []*c11Spawner
	hasStop  map[string]bool
	canceled bool
}

func (cw *c11World) addSpawner(kind string, idx int) *c11Spawner {
	w := cw.lfWorld
	sp := &c11Spawner{kind: kind, path: c11Path(kind)}
	ctx, cancel := context.WithCancel(context.Background())
	sp.cancel = cancel
	label := fmt.Sprintf("%s#%d", kind, idx)
	sp.op = w.addOp(&lfOp{label: label, kind: "spawn", run: func(w *lfWorld) string {
		sp.stoppingAtStart = map[*PID]bool{}
		w.mu.Lock()
		for _, a := range w.actors {
			if a.name == sp.path && a.postStopping && a.self != nil {
				sp.stoppingAtStart[a.self] = true
			}
		}
		w.mu.Unlock()
		var pid *PID
		var err error
		switch kind {
		case "spawn(a)", "spawn(b)":
			pid, err = w.sys.Spawn(ctx, sp.path, w.newActor(sp.path), WithLongLived())
		case "spawnfunc(a)":
			a := w.newActor(sp.path)
			pid, err = w.sys.SpawnNamedFromFunc(ctx, sp.path,
				func(context.Context, any) error { return nil },
				WithPreStart(func(context.Context) error { return a.PreStart(nil) }),
				WithPostStop(func(context.Context) error { return a.PostStop(nil) }),
				WithFuncMailbox(&c11Mailbox{Mailbox: NewUnboundedMailbox(), a: a}))
		case "spawnchild(p,c)":
			pid, err = w.pid("p").SpawnChild(ctx, sp.path, w.newActor(sp.path), WithLongLived())
		}
		w.mu.Lock()
		sp.pid, sp.err = pid, err
		w.mu.Unlock()
		return lfErrClass(err)
	}})
	sp.op.after = func(w *lfWorld, op *lfOp) []vsched.Violation {
		if sp.err != nil || sp.pid == nil {
			return nil
		}
		if sp.stoppingAtStart[sp.pid] {
			return []vsched.Violation{vsched.Fail("spawn-returned-actor-already-stopping-before-call", "%s returned nil error and a PID whose PostStop had begun before the call started (running=%v)", label, sp.pid.IsRunning())}
		}
		return nil
	}
	cw.spawners = append(cw.spawners, sp)
	return sp
}

// c11StepInv: clause (1).
func c11StepInv(cw *c11World) []vsched.Violation {
	var out []vsched.Violation
	for _, path := range []string{"a", "b", "c"} {
		rs := cw.runningInstances(path)
		if len(rs) > 1 {
			var d []string
			for _, a := range rs {
				d = append(d, fmt.Sprintf("%s#%d", a.name, a.inst))
			}
			cause := "concurrent-spawns"
			if cw.hasStop[path] {
				cause = "spawn-racing-stop"
			}
			out = append(out, vsched.Fail("two-running-actors-for-one-path/"+cause, "path %s: %d running instances %v | log: %s", path, len(rs), d, lfLogString(cw.snapshot())))
		}
	}
	return out
}

// c11FinalCheck: clauses (2) and (3) at the final quiescence (system up, everything released).
func c11FinalCheck(cw *c11World) []vsched.Violation {
	var out []vsched.Violation
	byPath := map[string][]*c11Spawner{}
	for _, sp := range cw.spawners {
		if sp.op.started && sp.err == nil && sp.pid != nil {
			byPath[sp.path] = append(byPath[sp.path], sp)
		}
	}
	for _, path := range []string{"a", "b", "c"} {
		sps := byPath[path]
		if len(sps) == 0 || cw.hasStop[path] {
			continue
		}
		for _, sp := range sps[1:] {
			if sp.pid != sps[0].pid {
				out = append(out, vsched.Fail("successful-spawners-got-different-pids", "path %s: %s and %s both succeeded with different *PID", path, sps[0].op.label, sp.op.label))
			}
		}
		rs := cw.runningInstances(path)
		if len(rs) == 1 && rs[0].self != sps[0].pid {
			out = append(out, vsched.Fail("spawner-pid-is-not-the-running-actor", "path %s: the PID handed to %s is not the PID of the running instance", path, sps[0].op.label))
		}
		if len(rs) == 0 {
			out = append(out, vsched.Fail("spawn-succeeded-but-no-actor-running", "path %s: %s succeeded, nothing stopped it, but no instance is running", path, sps[0].op.label))
		}
	}
	running := len(cw.runningInstances(""))
	if got := int(cw.sys.NumActors()); got != running {
		dir := "counter-too-low"
		if got > running {
			dir = "counter-too-high"
		}
		cause := "spawns-only"
		if len(cw.hasStop) > 0 {
			cause = "with-stop"
		}
		if cw.canceled {
			cause = "with-cancel"
		}
		out = append(out, vsched.Fail("numactors-differs-from-running-user-actors/"+dir+"/"+cause, "NumActors()=%d but %d user actors are running | log: %s", got, running, lfLogString(cw.snapshot())))
	}
	return out
}

func c11Run(t *testing.T, nspawn int) func(c *vsched.Chooser) vsched.Outcome {
	return func(c *vsched.Chooser) vsched.Outcome {
		var out vsched.Outcome
		w := &lfWorld{}
		p := vfBubble(t, func() {
			lfGuard(w, &out, func() {
				cw := &c11World{lfWorld: w, hasStop: map[string]bool{}}
				w.sys = lfNewSystem("c11")
				w.wrapDeathWatch()
				c06Spawn(w, "p", WithLongLived())
				vsched.Settle()

				// ---- program selection
				var cfg []string
				lo := 0
				for i := 0; i < nspawn; i++ {
					lo0 := lo
					k := c.Choose("config", len(c11Kinds)-lo0, nil, func(j int) string { return fmt.Sprintf("spawner%d=%s", i, c11Kinds[lo0+j]) })
					lo = lo0 + k // non-decreasing kinds: spawners of one kind are interchangeable
					cw.addSpawner(c11Kinds[lo], i)
					cfg = append(cfg, c11Kinds[lo])
				}
				extras := []string{"none", "spawn(b)", "kill(a)", "kill(c)", "cancel(spawner0)"}
				costs := []int{0, 1, 1, 1, 1}
				x := c.Choose("config", len(extras), costs, func(j int) string { return "extra=" + extras[j] })
				cfg = append(cfg, extras[x])
				var cancelEv func() []lfEvent
				switch extras[x] {
				case "spawn(b)":
					cw.addSpawner("spawn(b)", nspawn)
				case "kill(a)":
					cw.hasStop["a"] = true
					w.addOp(lfOpKill("a"))
				case "kill(c)":
					cw.hasStop["c"] = true
					w.addOp(lfOpKill("c"))
				case "cancel(spawner0)":
					done := false
					sp0 := cw.spawners[0]
					cancelEv = func() []lfEvent {
						if done || !sp0.op.started || w.opDone(sp0.op) {
							return nil
						}
						return []lfEvent{{label: "cancel(spawner0)", fire: func() { done = true; cw.canceled = true; sp0.cancel() }}}
					}
				}
				w.beforeStep = func() {
					for _, n := range []string{"a", "b", "c"} {
						if node, ok := w.sys.tree().nodeByName(n); ok {
							if v := node.value(); v != nil {
								w.setTrack(n, v)
							}
						}
					}
				}
				w.gatePolicy = func(a *lfActor, hook, msg string) bool {
					switch hook {
					case "pre":
						return a.name != "p"
					case "post", "dw":
						return true
					}
					return false
				}
				w.loop(c, 60, cancelEv, func() []vsched.Violation { return c11StepInv(cw) }, nil)

				w.releaseAll()
				for i := 0; i < 5; i++ {
					pending := false
					for _, op := range w.ops {
						if op.started && !w.opDone(op) {
							pending = true
						}
					}
					if !pending {
						break
					}
					time.Sleep(20 * time.Millisecond)
					w.releaseAll()
				}
				vsched.Settle()
				w.addViol(c11StepInv(cw)...)
				w.addViol(c11FinalCheck(cw)...)
				for _, sp := range cw.spawners {
					sp.cancel()
				}
				hung := w.teardown()
				evs := w.snapshot()
				out.Violations = w.violations()
				var res []string
				for _, op := range w.ops {
					if op.started {
						res = append(res, op.label+"="+op.result)
					}
				}
				// which spawners share a PID (schedule dependent observation)
				var share []string
				for i, a := range cw.spawners {
					for j := i + 1; j < len(cw.spawners); j++ {
						b := cw.spawners[j]
						if a.pid != nil && a.pid == b.pid {
							share = append(share, fmt.Sprintf("%d=%d", i, j))
						}
					}
				}
				out.Obs = strings.Join(cfg, "+") + " || " + strings.Join(w.steps, ";") + " || " + lfPerActor(evs) + " || " + strings.Join(res, ",") + " || same:" + strings.Join(share, ",")
				if len(hung) > 0 {
					out.Invalid = "client operation did not return: " + strings.Join(hung, ",")
				}
			})
		})
		if p != nil {
			out.Invalid = fmt.Sprintf("panic in bubble: %v", p)
		}
		return out
	}
}

func c11Bound(n int) int {
	if n >= 3 && !vsched.Rep().Thorough() {
		return 0
	}
	return 1
}

func TestVerifC11(t *testing.T) {
	defer vsched.Finish(t)
	r := vsched.Rep()
	lfCalibrate()
	r.Assumption("event granularity: spawner starts, PreStart/PostStop gate releases, death-watch deliveries and one context cancellation are interleaved in every order; the code between two gates (single-flight bookkeeping, tree insertion) runs without harness-controlled preemption")
	r.Assumption("2-4 concurrent spawners (the statement says 2-8); more spawners of one kind only add single-flight waiters")
	var scs []vsched.Scenario
	maxSp := vsched.Pick(3, 4)
	for n := 2; n <= maxSp; n++ {
		scs = append(scs, vsched.Scenario{
			// quick: the extra operation (cost 1) only with 2 spawners; thorough: with 2, 3 and 4
			Cfg: vsched.Config{Scenario: fmt.Sprintf("c11/%d-spawners", n), Bound: c11Bound(n), Params: map[string]any{"spawners": n}},
			Run: c11Run(t, n),
		})
	}
	lfExploreAll(scs)
}
