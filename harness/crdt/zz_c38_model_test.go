//go:build verif

package crdt

// Shared by C38 and C39: canonical dumps / observable values of the real CRDT types and the boring
// reference models (state-based CRDTs with explicit tombstones: plain set unions and pointwise
// maxima, no causal-context optimisation).

import (
	"fmt"
	"sort"
	"strings"
	"time"
)

// ---------------------------------------------------------------------------------------------
// Raw-state dump (every private field; maps sorted by key, dot slices sorted, other slices in stored order) and observable
// value (what the public read accessors return; sets/multisets sorted so that map iteration order
// and entry order cannot leak into the observation).
// ---------------------------------------------------------------------------------------------

func c38U64Map(m map[string]uint64) string {
	ks := make([]string, 0, len(m))
	for k := range m {
		ks = append(ks, k)
	}
	sort.Strings(ks)
	var b strings.Builder
	b.WriteByte('[')
	for i, k := range ks {
		if i > 0 {
			b.WriteByte(' ')
		}
		fmt.Fprintf(&b, "%s=%d", k, m[k])
	}
	b.WriteByte(']')
	return b.String()
}

// c38Dots renders the dots of one element sorted: their order in the slice has no influence on any
// operation (Merge keeps/drops dots individually, Compact takes a maximum per node) and ORSet.Compact
// builds its slices in map iteration order, so the stored order is not even deterministic.
func c38Dots(ds []dot) string {
	parts := make([]string, len(ds))
	for i, d := range ds {
		parts[i] = fmt.Sprintf("(%s:%d)", d.nodeID, d.counter)
	}
	sort.Strings(parts)
	return strings.Join(parts, "")
}

func c38DotMap(m map[any][]dot) string {
	ks := make([]string, 0, len(m))
	by := map[string][]dot{}
	for k, v := range m {
		s := fmt.Sprint(k)
		ks = append(ks, s)
		by[s] = v
	}
	sort.Strings(ks)
	var b strings.Builder
	b.WriteByte('[')
	for i, k := range ks {
		if i > 0 {
			b.WriteByte(' ')
		}
		if by[k] == nil {
			fmt.Fprintf(&b, "%s=nil", k)
		} else {
			fmt.Fprintf(&b, "%s=%s", k, c38Dots(by[k]))
		}
	}
	b.WriteByte(']')
	return b.String()
}

// c38Dump writes out the complete private state of a CRDT value.
func c38Dump(d ReplicatedData) string {
	switch x := d.(type) {
	case nil:
		return "nil"
	case *GCounter:
		if x == nil {
			return "G(nil)"
		}
		return "G{s:" + c38U64Map(x.state) + " d:" + c38U64Map(x.delta) + "}"
	case *PNCounter:
		return "PN{+" + c38Dump(x.increments) + " -" + c38Dump(x.decrements) + "}"
	case *Flag:
		return fmt.Sprintf("F{e:%v d:%v}", x.enabled, x.dirty)
	case *LWWRegister:
		return fmt.Sprintf("L{v:%v ts:%d n:%s d:%v}", x.value, x.timestamp, x.nodeID, x.dirty)
	case *MVRegister:
		var b strings.Builder
		b.WriteString("MV{e:[")
		for i, e := range x.entries {
			if i > 0 {
				b.WriteByte(' ')
			}
			fmt.Fprintf(&b, "%v@%s:%d", e.value, e.dot.nodeID, e.dot.counter)
		}
		fmt.Fprintf(&b, "] c:%s d:%v}", c38U64Map(x.clock), x.dirty)
		return b.String()
	case *ORSet:
		if x == nil {
			return "OS(nil)"
		}
		dl := "nil"
		if x.delta != nil {
			dl = "a:" + c38DotMap(x.delta.added) + " r:" + c38DotMap(x.delta.removed)
		}
		return "OS{e:" + c38DotMap(x.entries) + " c:" + c38U64Map(x.clock) + " d:{" + dl + "}}"
	case *ORMap:
		ks := make([]string, 0, len(x.values))
		by := map[string]ReplicatedData{}
		for k, v := range x.values {
			s := fmt.Sprint(k)
			ks = append(ks, s)
			by[s] = v
		}
		sort.Strings(ks)
		var b strings.Builder
		b.WriteString("OM{k:" + c38Dump(x.keys) + " v:[")
		for i, k := range ks {
			if i > 0 {
				b.WriteByte(' ')
			}
			b.WriteString(k + "=" + c38Dump(by[k]))
		}
		fmt.Fprintf(&b, "] d:%v}", x.dirty)
		return b.String()
	}
	return fmt.Sprintf("?%T", d)
}

func c38SortedAny(in []any) []string {
	out := make([]string, len(in))
	for i, v := range in {
		out[i] = fmt.Sprint(v)
	}
	sort.Strings(out)
	return out
}

// c38Obs is the observable value of a CRDT: only public read accessors are used.
func c38Obs(d ReplicatedData) string {
	switch x := d.(type) {
	case nil:
		return "nil"
	case *GCounter:
		return fmt.Sprintf("val=%d slots=%s", x.Value(), c38U64Map(x.State()))
	case *PNCounter:
		p, n := x.State()
		return fmt.Sprintf("val=%d +%s -%s", x.Value(), c38U64Map(p), c38U64Map(n))
	case *Flag:
		return fmt.Sprintf("enabled=%v", x.Enabled())
	case *LWWRegister:
		return fmt.Sprintf("v=%v ts=%d n=%s", x.Value(), x.Timestamp(), x.NodeID())
	case *MVRegister:
		return "vals=" + strings.Join(c38SortedAny(x.Values()), ",")
	case *ORSet:
		return "elems=" + strings.Join(c38SortedAny(x.Elements()), ",")
	case *ORMap:
		ks := x.Keys()
		sort.Slice(ks, func(i, j int) bool { return fmt.Sprint(ks[i]) < fmt.Sprint(ks[j]) })
		var b strings.Builder
		b.WriteString("keys=")
		for i, k := range ks {
			if i > 0 {
				b.WriteByte(',')
			}
			v, ok := x.Get(k)
			if !ok || v == nil {
				fmt.Fprintf(&b, "%v:<none>", k)
			} else {
				fmt.Fprintf(&b, "%v:{%s}", k, c38Obs(v))
			}
		}
		return b.String()
	}
	return fmt.Sprintf("?%T", d)
}

func c38Node(rep int) string { return fmt.Sprintf("n%d", rep) }

// ---------------------------------------------------------------------------------------------
// Reference models. All model values are immutable (operations copy).
// ---------------------------------------------------------------------------------------------

type c38Dot struct {
	rep string
	cnt uint64
}

func (d c38Dot) String() string { return fmt.Sprintf("%s:%d", d.rep, d.cnt) }

func c38CopyU(m map[string]uint64) map[string]uint64 {
	o := make(map[string]uint64, len(m))
	for k, v := range m {
		o[k] = v
	}
	return o
}

func c38MaxU(a, b map[string]uint64) map[string]uint64 {
	o := c38CopyU(a)
	for k, v := range b {
		if v > o[k] {
			o[k] = v
		}
	}
	return o
}

// grow-only counter: per node slot, join = pointwise max.
type c38GC struct{ s map[string]uint64 }

// PN counter: two grow-only counters.
type c38PN struct{ p, n map[string]uint64 }

type c38FL struct{ on bool }

// LWW: the greatest (ts,node) write; several values only when two different values carry the very
// same (ts,node) (then the winner is unspecified and any of them is accepted).
type c38LW struct {
	set  bool
	ts   int64
	node string
	vals map[string]bool
}

// MV register: all known writes and the set of superseded ones.
type c38MV struct {
	w map[c38Dot]string
	s map[c38Dot]bool
}

// OR-Set: all known add events and the set of observed-removed ones (classic tombstone OR-Set).
type c38OS struct {
	a map[c38Dot]string
	r map[c38Dot]bool
}

// OR-Map with nested grow-only counters: keys as OR-Set; nested slots are tracked only for keys for
// which no removal is known (the value of a re-added key is left unspecified by the reference).
type c38OM struct {
	keys    c38OS
	nested  map[string]map[string]uint64
	removed map[string]bool
}

func c38OSJoin(a, b c38OS) c38OS {
	o := c38OS{a: map[c38Dot]string{}, r: map[c38Dot]bool{}}
	for k, v := range a.a {
		o.a[k] = v
	}
	for k, v := range b.a {
		o.a[k] = v
	}
	for k := range a.r {
		o.r[k] = true
	}
	for k := range b.r {
		o.r[k] = true
	}
	return o
}

func c38OSValue(m c38OS) map[string]bool {
	out := map[string]bool{}
	for d, e := range m.a {
		if !m.r[d] {
			out[e] = true
		}
	}
	return out
}

func c38OSOwn(m c38OS, rep string) uint64 {
	var n uint64
	for d := range m.a {
		if d.rep == rep && d.cnt > n {
			n = d.cnt
		}
	}
	return n
}

func c38OSKey(m c38OS) string {
	as := make([]string, 0, len(m.a))
	for d, e := range m.a {
		as = append(as, d.String()+"="+e)
	}
	sort.Strings(as)
	rs := make([]string, 0, len(m.r))
	for d := range m.r {
		rs = append(rs, d.String())
	}
	sort.Strings(rs)
	return "a[" + strings.Join(as, " ") + "]r[" + strings.Join(rs, " ") + "]"
}

func c38SetKeys(m map[string]bool) []string {
	out := make([]string, 0, len(m))
	for k := range m {
		out = append(out, k)
	}
	sort.Strings(out)
	return out
}

// c38Join is the reference join.
func c38Join(a, b any) any {
	switch x := a.(type) {
	case c38GC:
		return c38GC{c38MaxU(x.s, b.(c38GC).s)}
	case c38PN:
		y := b.(c38PN)
		return c38PN{c38MaxU(x.p, y.p), c38MaxU(x.n, y.n)}
	case c38FL:
		return c38FL{x.on || b.(c38FL).on}
	case c38LW:
		y := b.(c38LW)
		switch {
		case !y.set:
			return x
		case !x.set:
			return y
		case x.ts != y.ts:
			if x.ts > y.ts {
				return x
			}
			return y
		case x.node != y.node:
			if x.node > y.node {
				return x
			}
			return y
		}
		o := c38LW{set: true, ts: x.ts, node: x.node, vals: map[string]bool{}}
		for v := range x.vals {
			o.vals[v] = true
		}
		for v := range y.vals {
			o.vals[v] = true
		}
		return o
	case c38MV:
		y := b.(c38MV)
		o := c38MV{w: map[c38Dot]string{}, s: map[c38Dot]bool{}}
		for k, v := range x.w {
			o.w[k] = v
		}
		for k, v := range y.w {
			o.w[k] = v
		}
		for k := range x.s {
			o.s[k] = true
		}
		for k := range y.s {
			o.s[k] = true
		}
		return o
	case c38OS:
		return c38OSJoin(x, b.(c38OS))
	case c38OM:
		y := b.(c38OM)
		o := c38OM{keys: c38OSJoin(x.keys, y.keys), nested: map[string]map[string]uint64{}, removed: map[string]bool{}}
		for k := range x.removed {
			o.removed[k] = true
		}
		for k := range y.removed {
			o.removed[k] = true
		}
		for k, v := range x.nested {
			o.nested[k] = c38CopyU(v)
		}
		for k, v := range y.nested {
			o.nested[k] = c38MaxU(o.nested[k], v)
		}
		return o
	}
	panic(fmt.Sprintf("c38Join: %T", a))
}

// c38MKey is a canonical string of a model value (equal strings <=> equal knowledge).
func c38MKey(m any) string {
	switch x := m.(type) {
	case c38GC:
		return "G" + c38U64Map(x.s)
	case c38PN:
		return "PN+" + c38U64Map(x.p) + "-" + c38U64Map(x.n)
	case c38FL:
		return fmt.Sprintf("F%v", x.on)
	case c38LW:
		return fmt.Sprintf("L%v/%d/%s/%v", x.set, x.ts, x.node, c38SetKeys(x.vals))
	case c38MV:
		ws := make([]string, 0, len(x.w))
		for d, v := range x.w {
			ws = append(ws, d.String()+"="+v)
		}
		sort.Strings(ws)
		ss := make([]string, 0, len(x.s))
		for d := range x.s {
			ss = append(ss, d.String())
		}
		sort.Strings(ss)
		return "MVw[" + strings.Join(ws, " ") + "]s[" + strings.Join(ss, " ") + "]"
	case c38OS:
		return "OS" + c38OSKey(x)
	case c38OM:
		ks := make([]string, 0, len(x.nested))
		for k := range x.nested {
			ks = append(ks, k)
		}
		sort.Strings(ks)
		var b strings.Builder
		b.WriteString("OM" + c38OSKey(x.keys) + "n[")
		for _, k := range ks {
			b.WriteString(k + c38U64Map(x.nested[k]) + " ")
		}
		b.WriteString("]x" + fmt.Sprint(c38SetKeys(x.removed)))
		return b.String()
	}
	panic(fmt.Sprintf("c38MKey: %T", m))
}

// c38Agree compares the observable value of the real CRDT with the reference value. It returns ""
// when they agree, otherwise a structural class of the difference and a written-out detail.
func c38Agree(d ReplicatedData, m any) (class, detail string) {
	cmpSlots := func(kind string, got, want map[string]uint64) (string, string) {
		below, above := false, false
		for k, v := range want {
			if got[k] < v {
				below = true
			}
		}
		for k, v := range got {
			if v > want[k] {
				above = true
			}
		}
		switch {
		case below && above:
			return kind + "-slots-below-and-above-reference", fmt.Sprintf("got %s want %s", c38U64Map(got), c38U64Map(want))
		case below:
			return kind + "-increment-lost", fmt.Sprintf("got %s want %s", c38U64Map(got), c38U64Map(want))
		case above:
			return kind + "-increment-invented", fmt.Sprintf("got %s want %s", c38U64Map(got), c38U64Map(want))
		}
		return "", ""
	}
	cmpSet := func(kind, what string, got []string, want map[string]bool) (string, string) {
		g := map[string]bool{}
		for _, e := range got {
			g[e] = true
		}
		lost, extra := false, false
		for e := range want {
			if !g[e] {
				lost = true
			}
		}
		for e := range g {
			if !want[e] {
				extra = true
			}
		}
		det := fmt.Sprintf("got %v want %v", c38SetKeys(g), c38SetKeys(want))
		switch {
		case lost && extra:
			return kind + "-loses-and-resurrects-" + what, det
		case lost:
			return kind + "-loses-" + what, det
		case extra:
			return kind + "-resurrects-" + what, det
		}
		return "", ""
	}
	switch x := d.(type) {
	case *GCounter:
		w := m.(c38GC)
		if c, dt := cmpSlots("gcounter", x.State(), w.s); c != "" {
			return c, dt
		}
		var sum uint64
		for _, v := range w.s {
			sum += v
		}
		if x.Value() != sum {
			return "gcounter-value-not-sum-of-slots", fmt.Sprintf("Value()=%d want %d", x.Value(), sum)
		}
	case *PNCounter:
		w := m.(c38PN)
		p, n := x.State()
		if c, dt := cmpSlots("pncounter-inc", p, w.p); c != "" {
			return c, dt
		}
		if c, dt := cmpSlots("pncounter-dec", n, w.n); c != "" {
			return c, dt
		}
		var sum int64
		for _, v := range w.p {
			sum += int64(v)
		}
		for _, v := range w.n {
			sum -= int64(v)
		}
		if x.Value() != sum {
			return "pncounter-value-not-difference-of-slots", fmt.Sprintf("Value()=%d want %d", x.Value(), sum)
		}
	case *Flag:
		w := m.(c38FL)
		if x.Enabled() != w.on {
			if w.on {
				return "flag-enable-lost", "Enabled()=false want true"
			}
			return "flag-enable-invented", "Enabled()=true want false"
		}
	case *LWWRegister:
		w := m.(c38LW)
		if !w.set {
			if x.Timestamp() != 0 || x.NodeID() != "" || x.Value() != nil {
				return "lww-value-invented", "got " + c38Obs(x) + " want unset"
			}
			return "", ""
		}
		det := fmt.Sprintf("got %s want ts=%d n=%s v in %v", c38Obs(x), w.ts, w.node, c38SetKeys(w.vals))
		if x.Timestamp() < w.ts || (x.Timestamp() == w.ts && x.NodeID() < w.node) {
			return "lww-exposes-older-write", det
		}
		if x.Timestamp() > w.ts || x.NodeID() > w.node {
			return "lww-exposes-unknown-write", det
		}
		if !w.vals[fmt.Sprint(x.Value())] {
			return "lww-value-does-not-belong-to-winning-write", det
		}
	case *MVRegister:
		w := m.(c38MV)
		want := map[string]bool{}
		for dt, v := range w.w {
			if !w.s[dt] {
				want[v] = true
			}
		}
		return cmpSet("mvregister", "value", c38SortedAny(x.Values()), want)
	case *ORSet:
		return cmpSet("orset", "element", c38SortedAny(x.Elements()), c38OSValue(m.(c38OS)))
	case *ORMap:
		w := m.(c38OM)
		want := c38OSValue(w.keys)
		if c, dt := cmpSet("ormap", "key", c38SortedAny(x.Keys()), want); c != "" {
			return c, dt
		}
		if x.Len() != len(want) {
			return "ormap-len-differs-from-keys", fmt.Sprintf("Len()=%d keys=%d", x.Len(), len(want))
		}
		for _, k := range c38SetKeys(want) {
			if w.removed[k] {
				continue // value of a key with a known removal: unspecified by the reference
			}
			v, ok := x.Get(k)
			if !ok || v == nil {
				return "ormap-key-without-value", "key " + k
			}
			g, ok := v.(*GCounter)
			if !ok {
				return "ormap-nested-type-changed", fmt.Sprintf("%T", v)
			}
			if c, dt := cmpSlots("ormap-nested", g.State(), w.nested[k]); c != "" {
				return c, "key " + k + ": " + dt
			}
		}
	default:
		return "unknown-type", fmt.Sprintf("%T", d)
	}
	return "", ""
}

// ---------------------------------------------------------------------------------------------
// Type specifications: fresh value, per-replica operation alphabet on the real code and on the model.
// ---------------------------------------------------------------------------------------------

type c38Op struct {
	name string
	// maint: maintenance operation (compaction), not an update.
	maint bool
	apply func(s ReplicatedData, rep int) ReplicatedData
	// model returns the new knowledge and the knowledge the produced delta is meant to carry
	// (nil = the operation changes nothing, no delta required).
	model func(m any, rep int) (any, any)
	// model39 (optional) replaces model where the replication semantics of the operation differs
	// from its local effect (LWW: the local Set overwrites, the replicated register keeps the
	// greatest timestamp).
	model39 func(m any, rep int) (any, any)
}

type c38Spec struct {
	name   string
	fresh  func() ReplicatedData
	bottom func() any
	ops    []c38Op
}

func c38Specs(thorough bool) []c38Spec {
	var specs []c38Spec

	// ---- GCounter
	gInc := func(v uint64) c38Op {
		return c38Op{name: fmt.Sprintf("inc%d", v),
			apply: func(s ReplicatedData, rep int) ReplicatedData { return s.(*GCounter).Increment(c38Node(rep), v) },
			model: func(m any, rep int) (any, any) {
				n := c38CopyU(m.(c38GC).s)
				n[c38Node(rep)] += v
				return c38GC{n}, c38GC{map[string]uint64{c38Node(rep): n[c38Node(rep)]}}
			}}
	}
	specs = append(specs, c38Spec{name: "gcounter", fresh: func() ReplicatedData { return NewGCounter() },
		bottom: func() any { return c38GC{map[string]uint64{}} }, ops: []c38Op{gInc(1), gInc(2)}})

	// ---- PNCounter
	pnOp := func(dec bool, v uint64) c38Op {
		nm := "inc"
		if dec {
			nm = "dec"
		}
		return c38Op{name: fmt.Sprintf("%s%d", nm, v),
			apply: func(s ReplicatedData, rep int) ReplicatedData {
				if dec {
					return s.(*PNCounter).Decrement(c38Node(rep), v)
				}
				return s.(*PNCounter).Increment(c38Node(rep), v)
			},
			model: func(m any, rep int) (any, any) {
				x := m.(c38PN)
				p, n := c38CopyU(x.p), c38CopyU(x.n)
				id := c38Node(rep)
				if dec {
					n[id] += v
					return c38PN{p, n}, c38PN{map[string]uint64{}, map[string]uint64{id: n[id]}}
				}
				p[id] += v
				return c38PN{p, n}, c38PN{map[string]uint64{id: p[id]}, map[string]uint64{}}
			}}
	}
	pnOps := []c38Op{pnOp(false, 1), pnOp(true, 1)}
	if thorough {
		pnOps = append(pnOps, pnOp(false, 2), pnOp(true, 2))
	}
	specs = append(specs, c38Spec{name: "pncounter", fresh: func() ReplicatedData { return NewPNCounter() },
		bottom: func() any { return c38PN{map[string]uint64{}, map[string]uint64{}} }, ops: pnOps})

	// ---- Flag
	specs = append(specs, c38Spec{name: "flag", fresh: func() ReplicatedData { return NewFlag() },
		bottom: func() any { return c38FL{} },
		ops: []c38Op{{name: "enable",
			apply: func(s ReplicatedData, rep int) ReplicatedData { return s.(*Flag).Enable() },
			model: func(m any, rep int) (any, any) {
				if m.(c38FL).on {
					return m, nil
				}
				return c38FL{true}, c38FL{true}
			}}}})

	// ---- LWWRegister: timestamps {1,2}; two values per (replica, timestamp) so that ties between
	// nodes, and the same (timestamp,node) carrying different values, are all reachable.
	lwSet := func(v string, ts int64) c38Op {
		return c38Op{name: fmt.Sprintf("set(%s,t%d)", v, ts),
			apply: func(s ReplicatedData, rep int) ReplicatedData {
				return s.(*LWWRegister).Set(fmt.Sprintf("%s%d", v, rep), time.Unix(0, ts), c38Node(rep))
			},
			model: func(m any, rep int) (any, any) { // local effect: overwrite
				w := c38LW{set: true, ts: ts, node: c38Node(rep), vals: map[string]bool{fmt.Sprintf("%s%d", v, rep): true}}
				return w, w
			},
			model39: func(m any, rep int) (any, any) { // replicated register: greatest write known
				w := c38LW{set: true, ts: ts, node: c38Node(rep), vals: map[string]bool{fmt.Sprintf("%s%d", v, rep): true}}
				j := c38Join(m, w)
				return j, j
			}}
	}
	specs = append(specs, c38Spec{name: "lwwregister", fresh: func() ReplicatedData { return NewLWWRegister() },
		bottom: func() any { return c38LW{} },
		ops:    []c38Op{lwSet("x", 1), lwSet("y", 1), lwSet("x", 2), lwSet("y", 2)}})

	// ---- MVRegister
	mvSet := func(v string) c38Op {
		return c38Op{name: "set(" + v + ")",
			apply: func(s ReplicatedData, rep int) ReplicatedData {
				return s.(*MVRegister).Set(c38Node(rep), fmt.Sprintf("%s%d", v, rep))
			},
			model: func(m any, rep int) (any, any) {
				x := m.(c38MV)
				o := c38MV{w: map[c38Dot]string{}, s: map[c38Dot]bool{}}
				var own uint64
				for d, val := range x.w {
					o.w[d] = val
					o.s[d] = true // every known write is superseded
					if d.rep == c38Node(rep) && d.cnt > own {
						own = d.cnt
					}
				}
				for d := range x.s {
					o.s[d] = true
				}
				o.w[c38Dot{c38Node(rep), own + 1}] = fmt.Sprintf("%s%d", v, rep)
				return o, o // the delta is the whole register
			}}
	}
	specs = append(specs, c38Spec{name: "mvregister", fresh: func() ReplicatedData { return NewMVRegister() },
		bottom: func() any { return c38MV{w: map[c38Dot]string{}, s: map[c38Dot]bool{}} },
		ops:    []c38Op{mvSet("x"), mvSet("y")}})

	// ---- ORSet. What a delta carries is a wire-format choice the property does not constrain: the
	// documented one is "only the dots added/removed by the update"; a delta that is the whole set is
	// equally legitimate. The reference follows what the implementation under test ships.
	osFull := false
	{
		p := NewORSet().Add("n0", "a")
		p.ResetDelta()
		if d, ok := p.Add("n0", "b").Delta().(*ORSet); ok && d != nil && d.Contains("a") {
			osFull = true
		}
	}
	osAdd := func(e string) c38Op {
		return c38Op{name: "add(" + e + ")",
			apply: func(s ReplicatedData, rep int) ReplicatedData { return s.(*ORSet).Add(c38Node(rep), e) },
			model: func(m any, rep int) (any, any) {
				x := m.(c38OS)
				d := c38Dot{c38Node(rep), c38OSOwn(x, c38Node(rep)) + 1}
				dl := c38OS{a: map[c38Dot]string{d: e}, r: map[c38Dot]bool{}}
				if osFull {
					return c38OSJoin(x, dl), c38OSJoin(x, dl)
				}
				return c38OSJoin(x, dl), dl
			}}
	}
	osRm := func(e string) c38Op {
		return c38Op{name: "rm(" + e + ")",
			apply: func(s ReplicatedData, rep int) ReplicatedData { return s.(*ORSet).Remove(e) },
			model: func(m any, rep int) (any, any) {
				x := m.(c38OS)
				dl := c38OS{a: map[c38Dot]string{}, r: map[c38Dot]bool{}}
				for d, el := range x.a {
					if el == e && !x.r[d] {
						dl.r[d] = true
					}
				}
				if len(dl.r) == 0 {
					return m, nil
				}
				if osFull {
					return c38OSJoin(x, dl), c38OSJoin(x, dl)
				}
				return c38OSJoin(x, dl), dl
			}}
	}
	osCompact := c38Op{name: "compact", maint: true,
		apply: func(s ReplicatedData, rep int) ReplicatedData { return s.(*ORSet).Compact() },
		model: func(m any, rep int) (any, any) { return m, nil }}
	specs = append(specs, c38Spec{name: "orset", fresh: func() ReplicatedData { return NewORSet() },
		bottom: func() any { return c38OS{a: map[c38Dot]string{}, r: map[c38Dot]bool{}} },
		ops:    []c38Op{osAdd("a"), osAdd("b"), osRm("a"), osRm("b"), osCompact}})

	// ---- ORMap with nested GCounter values (set = read the current nested counter, add one on
	// the replica's own slot, write it back).
	omSet := func(k string) c38Op {
		return c38Op{name: "set(" + k + ")",
			apply: func(s ReplicatedData, rep int) ReplicatedData {
				mp := s.(*ORMap)
				cur := NewGCounter()
				if v, ok := mp.Get(k); ok && v != nil {
					cur = v.(*GCounter)
				}
				return mp.Set(c38Node(rep), k, cur.Increment(c38Node(rep), 1))
			},
			model: func(m any, rep int) (any, any) {
				x := m.(c38OM)
				d := c38Dot{c38Node(rep), c38OSOwn(x.keys, c38Node(rep)) + 1}
				dl := c38OM{keys: c38OS{a: map[c38Dot]string{d: k}, r: map[c38Dot]bool{}}, nested: map[string]map[string]uint64{}, removed: map[string]bool{}}
				if !x.removed[k] {
					n := c38CopyU(x.nested[k])
					n[c38Node(rep)]++
					dl.nested[k] = n
				}
				o := c38Join(x, dl)
				return o, o // the delta is the whole map
			}}
	}
	omRm := func(k string) c38Op {
		return c38Op{name: "rm(" + k + ")",
			apply: func(s ReplicatedData, rep int) ReplicatedData { return s.(*ORMap).Remove(k) },
			model: func(m any, rep int) (any, any) {
				x := m.(c38OM)
				dl := c38OM{keys: c38OS{a: map[c38Dot]string{}, r: map[c38Dot]bool{}}, nested: map[string]map[string]uint64{}, removed: map[string]bool{k: true}}
				for d, el := range x.keys.a {
					if el == k && !x.keys.r[d] {
						dl.keys.r[d] = true
					}
				}
				if len(dl.keys.r) == 0 {
					return m, nil
				}
				o := c38Join(x, dl)
				return o, o
			}}
	}
	omCompact := c38Op{name: "compact", maint: true,
		apply: func(s ReplicatedData, rep int) ReplicatedData { return s.(*ORMap).Compact() },
		model: func(m any, rep int) (any, any) { return m, nil }}
	specs = append(specs, c38Spec{name: "ormap", fresh: func() ReplicatedData { return NewORMap() },
		bottom: func() any {
			return c38OM{keys: c38OS{a: map[c38Dot]string{}, r: map[c38Dot]bool{}}, nested: map[string]map[string]uint64{}, removed: map[string]bool{}}
		},
		ops: []c38Op{omSet("p"), omSet("q"), omRm("p"), omRm("q"), omCompact}})

	return specs
}

// ---------------------------------------------------------------------------------------------
// Structural causes. A failure whose inputs satisfy one of these preconditions is reported under a
// signature that names the precondition, so that every other failure mode keeps its own signature.
// ---------------------------------------------------------------------------------------------

// c38ClockGap reports whether the causal clock of an ORSet claims a dot (n,k), k <= clock[n], that the
// replica never received according to the reference knowledge (neither the add nor its removal).
func c38ClockGap(s *ORSet, m c38OS) bool {
	if s == nil {
		return false
	}
	for n, c := range s.clock {
		for k := uint64(1); k <= c; k++ {
			d := c38Dot{n, k}
			if _, known := m.a[d]; !known && !m.r[d] {
				return true
			}
		}
	}
	return false
}

func c38Cause(ins ...*c38State) string {
	for i, x := range ins {
		switch v := x.d.(type) {
		case *LWWRegister:
			for _, y := range ins[i+1:] {
				if u, ok := y.d.(*LWWRegister); ok && u.timestamp == v.timestamp && u.nodeID == v.nodeID && v.nodeID != "" && fmt.Sprint(u.value) != fmt.Sprint(v.value) {
					return "inputs-with-same-timestamp-and-node-but-different-values"
				}
			}
		case *ORSet:
			if c38ClockGap(v, x.m.(c38OS)) {
				return "input-clock-covers-dots-never-received"
			}
		case *ORMap:
			if c38ClockGap(v.keys, x.m.(c38OM).keys) {
				return "input-clock-covers-dots-never-received"
			}
		}
	}
	return ""
}

// c38NestedOnlyCause: two ORMap values with the same key set that differ only in the nested value of
// keys for which a removal is known to the (joined) reference knowledge.
func c38NestedOnlyCause(l, r ReplicatedData, m any) string {
	a, ok1 := l.(*ORMap)
	b, ok2 := r.(*ORMap)
	om, ok3 := m.(c38OM)
	if !ok1 || !ok2 || !ok3 {
		return ""
	}
	ka, kb := c38SortedAny(a.Keys()), c38SortedAny(b.Keys())
	if strings.Join(ka, ",") != strings.Join(kb, ",") {
		return ""
	}
	differs := false
	for _, k := range ka {
		va, _ := a.Get(k)
		vb, _ := b.Get(k)
		if c38Obs(va) != c38Obs(vb) {
			if !om.removed[k] {
				return ""
			}
			differs = true
		}
	}
	if differs {
		return "only-nested-value-of-removed-and-readded-key-differs"
	}
	return ""
}
