//go:build verif

package crdt

// C38 — CRDT merge is a join: commutative, associative, idempotent on the observable value; merging
// never shrinks the information already present; Merge/Clone never modify their inputs.
//
// Method (explicit state, on the real code): for every CRDT type a system of 3 replicas (replica i
// only ever uses node id n<i>, as in a cluster) is explored breadth first over
//   full  scenario: local operation at i (followed by ResetDelta as the replicator does; for the
//                   cheap types also the variant without ResetDelta) | compaction at i |
//                   full-state merge i <- j
//   delta scenario: local operation at i whose Delta() is shipped (Delta, ResetDelta, Merge) to a
//                   subset of the other replicas | full-state merge i <- j
// to the depth bound; system configurations are deduplicated on the complete private state of all
// replicas (the future of a configuration is a function of exactly that state, all operations being
// deterministic functions of the receiver's and argument's fields). The law domain is every set of
// values that coexist in one reachable configuration (plus the delta object that was just produced, in
// the delta scenario): all ordered pairs and triples (with repetition) of each such set are checked.

import (
	"fmt"
	"sort"
	"strings"
	"testing"

	"github.com/tochemey/goakt/v4/internal/verif/vsched"
)

type c38State struct {
	d    ReplicatedData
	m    any
	dump string
	obs  string
	mk   string // canonical knowledge
	ok   bool   // observable value agrees with the reference knowledge
}

type c38Cfg struct {
	ids    []int32
	parent int32
	via    string
}

type c38World struct {
	spec     c38Spec
	scenario string
	reps     int
	delta    bool
	pending  bool // full scenario: also explore operations that are not followed by ResetDelta
	states   []*c38State
	index    map[string]int32
	cfgs     []c38Cfg
	cfgIndex map[string]int32
	// law cases: sorted sets of coexisting state ids, in discovery order; caseCfg = configuration
	// in which the set was first seen (for the written-out history).
	cases    [][]int32
	caseCfg  []int32
	caseSeen map[string]bool
	trans    int64
	capped   string
	record   bool // this shard records the exploration statistics and reports its violations
	st       *vsched.ScenarioStats
}

func (w *c38World) intern(d ReplicatedData, m any) int32 {
	dump := c38Dump(d)
	mk := c38MKey(m)
	key := dump + "|" + mk
	if id, found := w.index[key]; found {
		return id
	}
	id := int32(len(w.states))
	class, _ := c38Agree(d, m)
	w.states = append(w.states, &c38State{d: d, m: m, dump: dump, obs: c38Obs(d), mk: mk, ok: class == ""})
	w.index[key] = id
	return id
}

func c38IDKey(ids []int32) string {
	var b strings.Builder
	for _, id := range ids {
		fmt.Fprintf(&b, "%d,", id)
	}
	return b.String()
}

func (w *c38World) history(cfg int32) []string {
	var h []string
	for c := cfg; c > 0; c = w.cfgs[c].parent {
		h = append(h, w.cfgs[c].via)
	}
	for i, j := 0, len(h)-1; i < j; i, j = i+1, j-1 {
		h[i], h[j] = h[j], h[i]
	}
	return h
}

func c38Sig(base, cause string) string {
	if cause == "" {
		return base
	}
	return base + "--" + cause
}

func (w *c38World) fail(sig string, cfg int32, via string, format string, a ...any) {
	if !w.record {
		return
	}
	h := w.history(cfg)
	if via != "" {
		h = append(h, via)
	}
	det := fmt.Sprintf(format, a...)
	vsched.Rep().ReportViolation(w.scenario, vsched.Fail(sig, "%s; history=%v", det, h), map[string]any{"history": h, "detail": det})
}

// addCase registers the set of coexisting values of a configuration (plus extra) as a law case.
func (w *c38World) addCase(cfg int32, ids []int32, extra ...int32) {
	set := map[int32]bool{}
	for _, id := range ids {
		set[id] = true
	}
	for _, id := range extra {
		set[id] = true
	}
	s := make([]int32, 0, len(set))
	for id := range set {
		s = append(s, id)
	}
	sort.Slice(s, func(i, j int) bool { return s[i] < s[j] })
	k := c38IDKey(s)
	if w.caseSeen[k] {
		return
	}
	w.caseSeen[k] = true
	w.cases = append(w.cases, s)
	w.caseCfg = append(w.caseCfg, cfg)
}

// result records the value produced by one executed transition: agreement with the reference
// (only claimed when all inputs agreed), and returns the interned result.
func (w *c38World) result(cfg int32, via, ctx string, d ReplicatedData, m any, ins ...*c38State) int32 {
	ok := true
	for _, s := range ins {
		ok = ok && s.ok
	}
	if ok {
		if class, det := c38Agree(d, m); class != "" {
			w.fail(c38Sig(ctx+"-"+class, c38Cause(ins...)), cfg, via, "%s: result %s, reference %s: %s", via, c38Dump(d), c38MKey(m), det)
		}
	}
	return w.intern(d, m)
}

func (w *c38World) unchanged(cfg int32, via, what string, s *c38State) {
	if now := c38Dump(s.d); now != s.dump {
		w.fail(what+"-modifies-its-input", cfg, via, "%s: input was %s, is now %s", via, s.dump, now)
		s.dump = now // report once
	}
}

func (w *c38World) explore(depth int) {
	r := vsched.Rep()
	root := make([]int32, w.reps)
	for i := range root {
		root[i] = w.intern(w.spec.fresh(), w.spec.bottom())
	}
	w.cfgs = append(w.cfgs, c38Cfg{ids: root, parent: -1})
	w.cfgIndex[c38IDKey(root)] = 0
	w.addCase(0, root)
	completed := 0
	frontier := []int32{0}
	push := func(parent int32, via string, ids []int32, d int, next *[]int32, extra ...int32) {
		w.trans++
		if w.st != nil {
			obs := ""
			for _, id := range ids {
				obs += w.states[id].obs + ";"
			}
			w.st.Observe(obs, d > 1)
			if len(w.st.Samples) < 3 && d >= 3 {
				w.st.Sample(map[string]any{"history": append(w.history(parent), via), "observation": obs})
			}
		}
		k := c38IDKey(ids)
		ci, found := w.cfgIndex[k]
		if !found {
			ci = int32(len(w.cfgs))
			w.cfgs = append(w.cfgs, c38Cfg{ids: ids, parent: parent, via: via})
			w.cfgIndex[k] = ci
			*next = append(*next, ci)
		}
		w.addCase(ci, ids, extra...)
	}
	with := func(cur []int32, i int, id int32) []int32 {
		ids := append([]int32(nil), cur...)
		ids[i] = id
		return ids
	}
	for d := 1; d <= depth && len(frontier) > 0; d++ {
		var next []int32
		for _, ci := range frontier {
			if !r.TimeLeft() {
				w.capped = fmt.Sprintf("wall budget reached while generating the reachable configurations (depth %d)", d)
				return
			}
			cur := w.cfgs[ci].ids
			for i := 0; i < w.reps; i++ {
				si := w.states[cur[i]]
				for _, op := range w.spec.ops {
					if op.maint && w.delta {
						continue
					}
					via := fmt.Sprintf("%s@%d", op.name, i)
					nd := op.apply(si.d, i)
					w.unchanged(ci, via, "operation", si)
					nm, dm := op.model(si.m, i)
					if !w.delta && (w.pending || op.maint) {
						push(ci, via, with(cur, i, w.result(ci, via, "op", nd, nm, si)), d, &next)
						if op.maint {
							continue
						}
					}
					// Delta, then ResetDelta (on a copy: an operation without effect returns its receiver).
					dl := nd.Delta()
					cp := nd.Clone()
					cp.ResetDelta()
					if dl == nil && dm != nil && si.ok {
						w.fail("update-produces-no-delta", ci, via, "%s changed the value but Delta() is nil", via)
					}
					self := w.result(ci, via, "op", cp, nm, si)
					if !w.delta {
						push(ci, via+"+reset", with(cur, i, self), d, &next)
						continue
					}
					if dm == nil {
						dm = nm // redundant delta of an update without effect: at most what its sender knows
					}
					// ship the delta to every subset of the other replicas
					var did int32 = -1
					if dl != nil {
						did = w.intern(dl, dm)
					}
					others := make([]int, 0, w.reps-1)
					for j := 0; j < w.reps; j++ {
						if j != i {
							others = append(others, j)
						}
					}
					for mask := 0; mask < 1<<len(others); mask++ {
						if mask != 0 && dl == nil {
							break
						}
						ids := with(cur, i, self)
						v := via
						for b, j := range others {
							if mask&(1<<b) == 0 {
								continue
							}
							sj := w.states[cur[j]]
							v += fmt.Sprintf(" ->%d", j)
							md := sj.d.Merge(dl)
							w.unchanged(ci, v, "merge", sj)
							w.unchanged(ci, v, "merge", w.states[did])
							ids[j] = w.result(ci, v, "delta-merge", md, c38Join(sj.m, dm), sj, w.states[did])
						}
						if did >= 0 {
							push(ci, v, ids, d, &next, did)
						} else {
							push(ci, v, ids, d, &next)
						}
					}
				}
				for j := 0; j < w.reps; j++ {
					if j == i {
						continue
					}
					sj := w.states[cur[j]]
					via := fmt.Sprintf("merge %d<-%d", i, j)
					md := si.d.Merge(sj.d)
					w.unchanged(ci, via, "merge", si)
					w.unchanged(ci, via, "merge", sj)
					push(ci, via, with(cur, i, w.result(ci, via, "merge", md, c38Join(si.m, sj.m), si, sj)), d, &next)
				}
			}
		}
		completed = d
		frontier = next
	}
	if w.st != nil {
		w.st.BoundCompleted = completed
		if len(frontier) == 0 {
			w.st.BoundCompleted = depth
		}
	}
}

// laws checks every ordered pair and triple (with repetition) of one set of coexisting values.
// It returns the number of Merge/Clone calls made and a digest of what was observed.
func (w *c38World) laws(e *vsched.Enum, ci int32, set []int32, in string) (calls int, obs string, nontrivial bool) {
	fail := func(sig, format string, a ...any) {
		h := w.history(ci)
		e.Fail(sig, in, "%s; values coexist after history=%v", fmt.Sprintf(format, a...), h)
	}
	chk := func(what string, ss ...*c38State) {
		for _, s := range ss {
			if now := c38Dump(s.d); now != s.dump {
				fail(what+"-modifies-its-input", "%s: input was %s, is now %s", what, s.dump, now)
				s.dump = now
			}
		}
	}
	merge := func(a, b ReplicatedData) (ReplicatedData, string) {
		calls++
		d := a.Merge(b)
		return d, c38Obs(d)
	}
	use := func(d ReplicatedData) { // exercise a result: an aliased input would change
		d.ResetDelta()
		for i, op := range w.spec.ops {
			_ = op.apply(d, i%w.reps)
		}
	}
	var dig strings.Builder
	for _, ia := range set {
		a := w.states[ia]
		// Clone: same value, leaves the input alone, and is independent of it.
		calls++
		c := a.d.Clone()
		chk("clone", a)
		if o := c38Obs(c); o != a.obs {
			fail("clone-has-different-value", "Clone of %s exposes %s, original %s", a.dump, o, a.obs)
		}
		use(c)
		chk("using-the-clone", a)
		// idempotence
		if _, o := merge(a.d, a.d); o != a.obs {
			fail(c38Sig("merge-not-idempotent", c38Cause(a)), "a=%s: merge(a,a) exposes %s, a exposes %s", a.dump, o, a.obs)
		}
		chk("merge", a)
		for _, ib := range set {
			b := w.states[ib]
			ab, abo := merge(a.d, b.d)
			chk("merge", a, b)
			abDump := c38Dump(ab)
			_, bao := merge(b.d, a.d)
			chk("merge", a, b)
			dig.WriteString(abo + "|")
			if ia != ib && (abo != a.obs || abo != b.obs) {
				nontrivial = true
			}
			if abo != bao {
				fail(c38Sig("merge-not-commutative", c38Cause(a, b)), "a=%s b=%s: merge(a,b) exposes %s, merge(b,a) exposes %s", a.dump, b.dump, abo, bao)
			}
			// information already present is never shrunk: the result carries the union of both
			// inputs' knowledge (reference join), nothing less (lost) and nothing removed coming back.
			if a.ok && b.ok {
				if class, det := c38Agree(ab, c38Join(a.m, b.m)); class != "" {
					fail(c38Sig("merge-"+class, c38Cause(a, b)), "a=%s b=%s merge(a,b)=%s: %s", a.dump, b.dump, abDump, det)
				}
			}
			// absorption: merging an input again changes nothing
			if _, o := merge(ab, a.d); o != abo {
				fail(c38Sig("merge-does-not-absorb-its-input", c38Cause(a, b)), "a=%s b=%s: merge(merge(a,b),a) exposes %s, merge(a,b) exposes %s", a.dump, b.dump, o, abo)
			}
			if _, o := merge(ab, b.d); o != abo {
				fail(c38Sig("merge-does-not-absorb-its-input", c38Cause(a, b)), "a=%s b=%s: merge(merge(a,b),b) exposes %s, merge(a,b) exposes %s", a.dump, b.dump, o, abo)
			}
			for _, ic := range set {
				c := w.states[ic]
				l, lo := merge(ab, c.d)
				bc, _ := merge(b.d, c.d)
				rr, ro := merge(a.d, bc)
				if lo != ro {
					cause := c38Cause(a, b, c)
					if cause == "" {
						cause = c38NestedOnlyCause(l, rr, c38Join(c38Join(a.m, b.m), c.m))
					}
					fail(c38Sig("merge-not-associative", cause), "a=%s b=%s c=%s: merge(merge(a,b),c) exposes %s, merge(a,merge(b,c)) exposes %s", a.dump, b.dump, c.dump, lo, ro)
				}
				chk("merge", c)
			}
			// a merge result used as a merge input is not modified either, and using the result
			// afterwards does not reach back into the inputs (no aliasing)
			if now := c38Dump(ab); now != abDump {
				fail("merge-modifies-its-input", "merge result %s used as merge input is now %s", abDump, now)
			}
			use(ab)
			chk("using-the-merge-result", a, b)
		}
	}
	return calls, dig.String(), nontrivial
}

func c38Run(spec c38Spec, idx int, reps, depth int, delta, pending bool) {
	r := vsched.Rep()
	kind := "full"
	if delta {
		kind = "delta"
	}
	scen := fmt.Sprintf("c38/%s/%s/reach", spec.name, kind)
	lawScen := fmt.Sprintf("c38/%s/%s/laws", spec.name, kind)
	if rs := r.ReplayScenario(); rs != "" && rs != scen && rs != lawScen {
		return
	}
	w := &c38World{spec: spec, scenario: scen, reps: reps, delta: delta, pending: pending, index: map[string]int32{}, cfgIndex: map[string]int32{}, caseSeen: map[string]bool{}}
	w.record = r.OwnsIndex(int64(idx))
	params := map[string]any{"type": spec.name, "replicas": reps, "depth": depth, "events": kind, "ops_without_resetdelta": pending}
	if w.record {
		w.st = r.NewScenario(scen, "states")
		w.st.Bound = depth
		w.st.BoundCompleted = -1
		w.st.Params = params
	}
	w.explore(depth)
	if w.st != nil {
		w.st.States = int64(len(w.cfgs))
		w.st.Transitions = w.trans
		w.st.Executions = w.trans
		w.st.Capped = w.capped
	}
	e := vsched.NewEnum(lawScen, map[string]any{"type": spec.name, "replicas": reps, "depth": depth, "events": kind,
		"configurations": len(w.cfgs), "distinct_values": len(w.states), "coexisting_sets": len(w.cases)})
	for k, set := range w.cases {
		if !e.Mine() {
			continue
		}
		parts := make([]string, len(set))
		for i, id := range set {
			parts[i] = w.states[id].dump
		}
		in := strings.Join(parts, " || ")
		calls, obs, nt := w.laws(e, w.caseCfg[k], set, in)
		e.Case(in, obs, calls, nt)
	}
	if w.capped != "" && e.St.Capped == "" {
		e.St.Capped = w.capped
	}
	e.Done()
}

func TestVerifC38(t *testing.T) {
	defer vsched.Finish(t)
	r := vsched.Rep()
	r.Assumption("replica i only ever uses node id n<i> (node ids are unique per replica, as in a cluster)")
	r.Assumption("reference = state-based CRDTs with explicit tombstones (set union / pointwise max); the value of an ORMap key for which a removal is known is left unspecified by the reference and is only subject to the algebraic laws")
	type plan struct {
		full, delta int
		pending     bool
	}
	plans := map[string]plan{
		"gcounter":    {vsched.Pick(4, 5), vsched.Pick(3, 4), true},
		"pncounter":   {vsched.Pick(4, 5), vsched.Pick(3, 4), true},
		"flag":        {vsched.Pick(6, 8), vsched.Pick(4, 6), true},
		"lwwregister": {vsched.Pick(3, 4), vsched.Pick(3, 3), true},
		"mvregister":  {vsched.Pick(4, 5), vsched.Pick(3, 3), false},
		"orset":       {vsched.Pick(4, 5), vsched.Pick(3, 3), false},
		"ormap":       {vsched.Pick(4, 5), vsched.Pick(3, 3), false},
	}
	idx := 0
	for _, sp := range c38Specs(r.Thorough()) {
		p := plans[sp.name]
		c38Run(sp, idx, 3, p.full, false, p.pending)
		idx++
		c38Run(sp, idx, 3, p.delta, true, false)
		idx++
	}
}
