//go:build verif

package crdt

// C39 (pure part) — replicas that apply the same updates converge.
//
// Method (explicit state, on the real code): a system of R replicas (replica i = node id n<i>) is
// explored breadth first over the events
//   op(i,k)        a local update at replica i, handled as the replicator does: apply, Delta(),
//                  ResetDelta(); the delta becomes a message to every other replica (at most L updates)
//   deliver(m,j)   replica j merges delta message m; any message not yet delivered to j is enabled
//                  (hence every delivery order, every interleaving with j's own updates, and message
//                  loss = never delivered); a second delivery of the same message to the same replica
//                  is a duplicate (at most D duplicates per history)
//   full(i->j)     replica j merges the full state of replica i (at most F per history)
// Configurations (all replica states, the message pool with its delivery counts, the budgets) are
// deduplicated on their complete content, so merged configurations have identical futures.
//
// Reference: every value carries its *knowledge* (the set of updates it has seen, as a tombstone-based
// state CRDT: unions and pointwise maxima only). A delta message carries what the type documents it to
// carry (counters: the originator's slot; ORSet: the dots added / removed by the update; registers,
// flag, ORMap: the whole value). After every event:
//   (1) the observable value of every replica equals the value of its knowledge  (nothing lost, nothing
//       resurrected),
//   (2) two replicas with the same knowledge expose the same value,
//   (3) the merge of all replicas' full states (both fold orders) has the value of the joined knowledge,
//       and every replica whose knowledge is complete exposes exactly that value.

import (
	"fmt"
	"os"
	"strconv"
	"strings"
	"testing"
	"time"

	"github.com/tochemey/goakt/v4/internal/verif/vsched"
)

type c39Msg struct {
	origin int
	did    int32
	cnt    []uint8
}

type c39Cfg struct {
	reps             []int32
	msgs             []c39Msg
	nOps, nDup, nFul int
	parent           int32
	via              string
}

type c39World struct {
	c38World
	L, D, F int
	mono    bool // LWW: a replica never writes with a (timestamp,node) that is not greater than its current value
	cfgs39  []c39Cfg
	seen    map[string]struct{}
	// pairDone: replica-value tuples already compared by oracles (2) and (3)
	pairDone map[string]bool
}

func (w *c39World) key(c *c39Cfg) string {
	var b strings.Builder
	for _, id := range c.reps {
		fmt.Fprintf(&b, "%d,", id)
	}
	b.WriteByte('|')
	for _, m := range c.msgs {
		fmt.Fprintf(&b, "%d:%d:%v;", m.origin, m.did, m.cnt)
	}
	fmt.Fprintf(&b, "|%d,%d,%d", c.nOps, c.nDup, c.nFul)
	return b.String()
}

func (w *c39World) hist(ci int32) []string {
	var h []string
	for c := ci; c > 0; c = w.cfgs39[c].parent {
		h = append(h, w.cfgs39[c].via)
	}
	for i, j := 0, len(h)-1; i < j; i, j = i+1, j-1 {
		h[i], h[j] = h[j], h[i]
	}
	return h
}

func (w *c39World) report(sig string, parent int32, via, format string, a ...any) {
	h := append(w.hist(parent), via)
	det := fmt.Sprintf(format, a...)
	vsched.Rep().ReportViolation(w.scenario, vsched.Fail(sig, "%s; history=%v", det, h), map[string]any{"history": h, "detail": det})
}

// lwwStale: a local Set whose (timestamp,node) is not greater than the value it overwrites.
func c39LWWStale(before, after ReplicatedData) bool {
	b, ok1 := before.(*LWWRegister)
	a, ok2 := after.(*LWWRegister)
	if !ok1 || !ok2 {
		return false
	}
	return a.timestamp < b.timestamp || (a.timestamp == b.timestamp && a.nodeID <= b.nodeID)
}

// check applies the three oracles to a freshly produced configuration. changed lists the replicas
// whose value was produced by this event, ins the values that went into it.
func (w *c39World) check(parent int32, via, ctx, extraCause string, c *c39Cfg, changed []int, ins ...*c38State) {
	inOK := true
	for _, s := range ins {
		inOK = inOK && s.ok
	}
	cause := func() string {
		if extraCause != "" {
			return extraCause
		}
		return c38Cause(ins...)
	}
	// (1)
	for _, i := range changed {
		s := w.states[c.reps[i]]
		if !s.ok && inOK {
			class, det := c38Agree(s.d, s.m)
			w.report(c38Sig(ctx+"-"+class, cause()), parent, via, "replica %d after %s: %s, knowledge %s: %s", i, via, s.dump, c38MKey(s.m), det)
		}
	}
	// (2) and (3) compare replica values with each other and with the merge of the full states. They
	// depend on the replica values only; a configuration in which some replica already deviates from
	// its knowledge is the consequence of a deviation reported by (1) when it first occurred.
	rk := c38IDKey(c.reps)
	if w.pairDone[rk] {
		return
	}
	w.pairDone[rk] = true
	all := make([]*c38State, len(c.reps))
	for i, id := range c.reps {
		all[i] = w.states[id]
		if !all[i].ok {
			return
		}
	}
	for i := 0; i < len(all); i++ {
		for j := i + 1; j < len(all); j++ {
			a, b := all[i], all[j]
			if a.obs != b.obs && a.mk == b.mk {
				cs := c38Cause(a, b)
				if cs == "" {
					cs = c38NestedOnlyCause(a.d, b.d, a.m)
				}
				w.report(c38Sig("same-updates-seen-but-different-value", cs), parent, via, "replicas %d and %d have both seen %s; %d exposes %s (%s), %d exposes %s (%s)", i, j, a.mk, i, a.obs, a.dump, j, b.obs, b.dump)
			}
		}
	}
	jm := all[0].m
	fwd := all[0].d
	bwd := all[len(all)-1].d
	for i := 1; i < len(all); i++ {
		jm = c38Join(jm, all[i].m)
		fwd = fwd.Merge(all[i].d)
		bwd = bwd.Merge(all[len(all)-1-i].d)
	}
	fo, bo := c38Obs(fwd), c38Obs(bwd)
	if fo != bo {
		cs := c38Cause(all...)
		if cs == "" {
			cs = c38NestedOnlyCause(fwd, bwd, jm)
		}
		w.report(c38Sig("merge-of-all-full-states-depends-on-order", cs), parent, via, "fold 0..n exposes %s, fold n..0 exposes %s", fo, bo)
	}
	if class, det := c38Agree(fwd, jm); class != "" {
		w.report(c38Sig("merge-of-all-full-states-"+class, c38Cause(all...)), parent, via, "merge of the full states %s, joined knowledge %s: %s", c38Dump(fwd), c38MKey(jm), det)
	}
	jk := c38MKey(jm)
	for i, s := range all {
		if s.mk == jk && s.obs != fo {
			cs := c38Cause(all...)
			if cs == "" {
				cs = c38NestedOnlyCause(s.d, fwd, jm)
			}
			w.report(c38Sig("replica-that-saw-everything-differs-from-merge-of-full-states", cs), parent, via, "replica %d has seen every update and exposes %s; the merge of all full states exposes %s", i, s.obs, fo)
		}
	}
}

func (w *c39World) run(deadline time.Time) {
	r := vsched.Rep()
	st := w.st
	root := c39Cfg{reps: make([]int32, w.reps), parent: -1}
	for i := range root.reps {
		root.reps[i] = w.intern(w.spec.fresh(), w.spec.bottom())
	}
	w.cfgs39 = append(w.cfgs39, root)
	w.seen[w.key(&root)] = struct{}{}
	st.States = 1
	frontier := []int32{0}
	depth := 0
	var work int64 // index of depth-2 transitions, distributed over the shards
	for len(frontier) > 0 {
		depth++
		var next []int32
		for _, pi := range frontier {
			if !r.TimeLeft() || time.Now().After(deadline) {
				st.Capped = fmt.Sprintf("wall budget reached at depth %d", depth)
				return
			}
			emit := func(via, ctx, extraCause string, c c39Cfg, changed []int, ins ...*c38State) {
				if depth == 2 {
					work++
					if !r.OwnsIndex(work - 1) {
						return
					}
				}
				c.parent, c.via = pi, via
				st.Transitions++
				st.Executions++
				st.Decisions += int64(depth)
				if depth > st.MaxDecisions {
					st.MaxDecisions = depth
				}
				w.check(pi, via, ctx, extraCause, &c, changed, ins...)
				obs := ""
				for _, id := range c.reps {
					obs += w.states[id].obs + ";"
				}
				st.Observe(obs, len(c.msgs) > 0)
				if len(st.Samples) < 3 && depth >= 5 {
					st.Sample(map[string]any{"history": append(w.hist(pi), via), "observation": obs})
				}
				k := w.key(&c)
				if _, ok := w.seen[k]; ok {
					return
				}
				w.seen[k] = struct{}{}
				st.States++
				w.cfgs39 = append(w.cfgs39, c)
				next = append(next, int32(len(w.cfgs39)-1))
			}
			p := w.cfgs39[pi] // copy (the slice may grow)
			clone := func() c39Cfg {
				c := c39Cfg{reps: append([]int32(nil), p.reps...), msgs: make([]c39Msg, len(p.msgs)), nOps: p.nOps, nDup: p.nDup, nFul: p.nFul}
				for i, m := range p.msgs {
					c.msgs[i] = c39Msg{origin: m.origin, did: m.did, cnt: append([]uint8(nil), m.cnt...)}
				}
				return c
			}
			// local updates
			if p.nOps < w.L {
				for i := 0; i < w.reps; i++ {
					si := w.states[p.reps[i]]
					for _, op := range w.spec.ops {
						if op.maint {
							continue
						}
						via := fmt.Sprintf("%s@%d", op.name, i)
						nd := op.apply(si.d, i)
						mf := op.model
						if op.model39 != nil {
							mf = op.model39
						}
						nm, dm := mf(si.m, i)
						dl := nd.Delta()
						cp := nd.Clone()
						cp.ResetDelta()
						extra := ""
						if c39LWWStale(si.d, nd) {
							if w.mono {
								continue
							}
							extra = "local-set-with-timestamp-not-newer-than-current-value"
						}
						if dl == nil && dm != nil && si.ok {
							w.report("update-produces-no-delta", pi, via, "%s changed the value but Delta() is nil", via)
						}
						c := clone()
						c.nOps++
						c.reps[i] = w.intern(cp, nm)
						if dl != nil {
							if dm == nil {
								dm = nm // redundant delta of an update without effect: at most what its sender knows
							}
							c.msgs = append(c.msgs, c39Msg{origin: i, did: w.intern(dl, dm), cnt: make([]uint8, w.reps)})
						}
						emit(via, "update", extra, c, []int{i}, si)
					}
				}
			}
			// delta deliveries
			for mi, m := range p.msgs {
				for j := 0; j < w.reps; j++ {
					if j == m.origin || m.cnt[j] >= 2 || (m.cnt[j] == 1 && p.nDup >= w.D) {
						continue
					}
					sj, dl := w.states[p.reps[j]], w.states[m.did]
					via, ctx := fmt.Sprintf("deliver(msg%d from %d)->%d", mi, m.origin, j), "delta-delivery"
					c := clone()
					if m.cnt[j] == 1 {
						via, ctx = fmt.Sprintf("redeliver(msg%d from %d)->%d", mi, m.origin, j), "duplicate-delta-delivery"
						c.nDup++
					}
					c.msgs[mi].cnt[j]++
					c.reps[j] = w.intern(sj.d.Merge(dl.d), c38Join(sj.m, dl.m))
					emit(via, ctx, "", c, []int{j}, sj, dl)
				}
			}
			// full-state merges
			if p.nFul < w.F {
				for i := 0; i < w.reps; i++ {
					for j := 0; j < w.reps; j++ {
						if i == j {
							continue
						}
						si, sj := w.states[p.reps[i]], w.states[p.reps[j]]
						c := clone()
						c.nFul++
						c.reps[j] = w.intern(sj.d.Merge(si.d), c38Join(sj.m, si.m))
						emit(fmt.Sprintf("fullstate %d->%d", i, j), "full-state-merge", "", c, []int{j}, sj, si)
					}
				}
			}
		}
		frontier = next
	}
	// the event tree is exhausted (its depth differs from shard to shard: reported as max_decisions)
	st.Bound, st.BoundCompleted = 0, 0
}

func TestVerifC39(t *testing.T) {
	defer vsched.Finish(t)
	r := vsched.Rep()
	r.Assumption("replica i only ever uses node id n<i>; every update is followed by Delta()+ResetDelta() as in replicatorActor.handleUpdate")
	r.Assumption("reference knowledge = tombstone-based state CRDT of the updates seen; a delta message carries what the type documents it to carry (counter slot / ORSet dots of the update / whole value for registers, flag and ORMap); the nested value of an ORMap key with a known removal is unspecified by the reference (oracles 2 and 3 still apply to it)")
	type plan struct {
		name          string
		reps, L, D, F int
		mono          bool
	}
	var plans []plan
	for _, n := range []string{"gcounter", "pncounter", "flag", "lwwregister", "mvregister", "orset", "ormap"} {
		switch n {
		case "flag":
			plans = append(plans, plan{n, 3, 3, 1, 1, false})
		case "gcounter", "pncounter":
			plans = append(plans, plan{n, 2, vsched.Pick(3, 4), 1, 1, false}, plan{n, 3, vsched.Pick(2, 3), 1, 1, false})
		case "mvregister":
			plans = append(plans, plan{n, 2, vsched.Pick(3, 4), 1, 1, false}, plan{n, 3, vsched.Pick(2, 3), 1, vsched.Pick(1, 0), false})
		case "lwwregister":
			// main scenarios: local timestamps never go back and a (timestamp,node) pair is never
			// reused; "anyts": no restriction (timestamps are caller supplied)
			plans = append(plans, plan{n, 2, 3, 1, 1, true}, plan{n, 3, vsched.Pick(2, 3), 1, vsched.Pick(1, 0), true}, plan{n, 2, 2, 1, 1, false})
		default:
			plans = append(plans, plan{n, 2, 3, 1, 1, false}, plan{n, 3, 3, 0, vsched.Pick(0, 1), false})
		}
	}
	specs := map[string]c38Spec{}
	for _, sp := range c38Specs(r.Thorough()) {
		specs[sp.name] = sp
	}
	start := time.Now()
	for k, pl := range plans {
		tn := pl.name
		if pl.name == "lwwregister" && !pl.mono {
			tn = "lwwregister-anyts"
		}
		scen := fmt.Sprintf("c39/%s/r%d-u%d-d%d-f%d", tn, pl.reps, pl.L, pl.D, pl.F)
		if rs := r.ReplayScenario(); rs != "" && rs != scen {
			continue
		}
		sp := specs[pl.name]
		if pl.name == "pncounter" && pl.reps == 3 && len(sp.ops) > 2 {
			sp.ops = sp.ops[:2] // inc1, dec1
		}
		w := &c39World{c38World: c38World{spec: sp, scenario: scen, reps: pl.reps, index: map[string]int32{}}, L: pl.L, D: pl.D, F: pl.F, seen: map[string]struct{}{}, pairDone: map[string]bool{}, mono: pl.mono}
		w.st = r.NewScenario(scen, "states")
		w.st.Params = map[string]any{"type": pl.name, "replicas": pl.reps, "max_updates": pl.L, "max_duplicates": pl.D, "max_fullstate_merges": pl.F}
		w.st.Bound, w.st.BoundCompleted = 1, 0 // until the event tree is exhausted
		// share of what is left of the wall budget, proportional to the expected size of the
		// scenario (3-replica scenarios are about an order of magnitude larger); unused time is inherited
		weight := func(p plan) int {
			if p.reps >= 3 {
				return 8
			}
			return 1
		}
		rest := 0
		for _, q := range plans[k:] {
			rest += weight(q)
		}
		total := c39Budget(start)
		left := total * time.Duration(weight(pl)) / time.Duration(rest)
		if floor := vsched.Pick(8*time.Second, 40*time.Second); left < floor {
			left = floor // never cap a small scenario because it comes early
		}
		if left > total {
			left = total
		}
		w.run(time.Now().Add(left))
	}
}

// c39Budget returns the wall time left in this process according to VERIF_BUDGET_S.
func c39Budget(start time.Time) time.Duration {
	total := time.Hour
	if f, err := strconv.ParseFloat(os.Getenv("VERIF_BUDGET_S"), 64); err == nil {
		total = time.Duration(f * float64(time.Second))
	}
	if left := total - time.Since(start); left > 0 {
		return left
	}
	return 0
}
