//go:build verif

package actor

import (
	"context"
	"errors"
	"fmt"
	"strings"
	"sync"
	"sync/atomic"
	"testing"
	"time"

	"github.com/tochemey/goakt/v4/internal/verif/vsched"
	"github.com/tochemey/goakt/v4/passivation"
)

// ---------------------------------------------------------------------------------------------
// C12 — passivation only removes actors that are truly idle.
//
// One actor X (child of the user guardian) on a fresh real actor system in a bubble, spawned with
// strategy S in {TimeBased(T=1s), MessagesCount(N=2), LongLived}. Every sequence of at most D events
// of the scenario's alphabet is executed (stateless DFS, Bound 0, every event costs 0); after every
// event the bubble is settled and the legality of what happened is checked against a reference model.
//
// Events
//   tell            Tell(X, msg)                       handler logs (virtual time) and returns
//   tellslow        Tell(X, slow)                      handler sleeps 333ms of virtual time (a message
//                                                      told meanwhile waits in the mailbox and is handled
//                                                      in the same dispatcher turn)
//   adv(d)          virtual time += d, d in {100ms, T-100ms-1ns, T-1ns, T, T+1ns}
//   pause / resume  Tell(X, PausePassivation / ResumePassivation)
//   fail            Tell(X, fail): handler records an error no directive matches => X is suspended
//   reinstate       userGuardian.Reinstate(X)
//   kill            system.Kill(X)   (scenario tb-killgate: X.PostStop then blocks on a gate until the
//                                     event `rel`, so later events overlap the stopping actor)
//
// Reference model of passivation legality (boring Go, driven by the events and by the OBSERVED
// handler log — trace validation, nothing about *when* the implementation must passivate):
//   paused     set when a PausePassivation was accepted (Tell returned nil), cleared when a
//              ResumePassivation was accepted;
//   suspended  set when the fail message was handled, cleared when Reinstate returned nil;
//   stopping   set when kill was fired;
//   lastHandled = virtual time of the last Receive invocation logged before PostStop (PostStart counts:
//              it is a message handled by Receive);
//   handled    = number of Receive invocations except PostStart since the spawn (= the only
//              registration: pause/resume and suspend/reinstate keep the manager's entry), counted at
//              the quiescent point after the passivation (lenient: a message whose processing had
//              been counted by the implementation but whose handler had not yet been entered when
//              PostStop ran is accepted).
// A passivation = a PostStop that ran although kill was never fired. At each one the oracle demands
// exactly the statement:
//   S != LongLived                                     (passivated-long-lived)
//   !paused                                            (passivated-while-paused; when a reinstate
//                                                       happened since the pause:
//                                                       passivated-while-paused-after-reinstate)
//   !suspended                                         (passivated-while-suspended)
//   TimeBased:  t - lastHandled >= T - 100ms           (passivated-before-idle-timeout; when the last
//                                                       message was handled in the same dispatcher turn
//                                                       behind a slow handler:
//                                                       passivated-before-idle-timeout-stale-turn-clock)
//   MessagesCount: handled >= N                        (passivated-before-message-count)
//   afterwards X.IsRunning()==false                    (running-after-passivation)
// and at the end of every execution PostStop ran at most once (poststop-not-once; a PostStop counted
// while the kill was still in progress is passivated-while-stopping).
// ---------------------------------------------------------------------------------------------

const (
	c12T = time.Second
	c12N = 2
	// duration of the slow handler. 333ms: no sum of event deltas and handler durations makes a handler
	// wake up at the very instant a passivation deadline (= some event or wake-up instant + T) expires,
	// which would be a real-time race between the worker and the manager goroutine.
	c12SlowD = 333 * time.Millisecond
)

type c12Entry struct {
	kind string // "recv", "poststop"
	what string
	at   time.Time
}

type c12World struct {
	mu       sync.Mutex
	log      []c12Entry
	gate     chan struct{} // PostStop gate (nil = none)
	gateHeld atomic.Bool
	inSlow   atomic.Int32
}

func (w *c12World) add(kind, what string) {
	w.mu.Lock()
	w.log = append(w.log, c12Entry{kind, what, time.Now()})
	w.mu.Unlock()
}

func (w *c12World) snapshot() []c12Entry {
	w.mu.Lock()
	defer w.mu.Unlock()
	return append([]c12Entry(nil), w.log...)
}

type c12Msg struct{}
type c12Slow struct{}
type c12Fail struct{}
type c12Err struct{}

func (*c12Err) Error() string { return "c12 failure" }

type c12Actor struct{ w *c12World }

func (a *c12Actor) PreStart(*Context) error { return nil }
func (a *c12Actor) Receive(ctx *ReceiveContext) {
	switch ctx.Message().(type) {
	case *PostStart:
		a.w.add("recv", "poststart")
	case *c12Msg:
		a.w.add("recv", "msg")
	case *c12Slow:
		a.w.add("recv", "slow")
		a.w.inSlow.Add(1)
		time.Sleep(c12SlowD)
		a.w.inSlow.Add(-1)
	case *c12Fail:
		a.w.add("recv", "fail")
		ctx.Err(&c12Err{})
	}
}
func (a *c12Actor) PostStop(*Context) error {
	a.w.add("poststop", "")
	if a.w.gate != nil {
		a.w.gateHeld.Store(true)
		<-a.w.gate
		a.w.gateHeld.Store(false)
	}
	return nil
}

type c12Ev int

const (
	c12Tell c12Ev = iota
	c12TellSlow
	c12Adv100
	c12AdvTm100m1 // T-100ms-1ns
	c12AdvTm1     // T-1ns
	c12AdvT
	c12AdvTp1 // T+1ns
	c12Pause
	c12Resume
	c12FailEv
	c12Reinstate
	c12Kill
	c12Rel
)

var c12EvNames = [...]string{"tell", "tellslow", "adv100ms", "advT-100ms-1ns", "advT-1ns", "advT", "advT+1ns", "pause", "resume", "fail", "reinstate", "kill", "rel"}

var c12Deltas = map[c12Ev]time.Duration{
	c12Adv100: 100 * time.Millisecond, c12AdvTm100m1: c12T - 100*time.Millisecond - 1, c12AdvTm1: c12T - 1, c12AdvT: c12T, c12AdvTp1: c12T + 1,
}

type c12Scenario struct {
	name     string
	strategy string // "tb", "mc", "ll"
	alphabet []c12Ev
	depth    int
	killGate bool
}

func c12Run(t *testing.T, sc c12Scenario, c *vsched.Chooser) vsched.Outcome {
	var out vsched.Outcome
	w := &c12World{}
	var trace []string
	p := vfBubble(t, func() {
		ctx := context.Background()
		if sc.killGate {
			w.gate = make(chan struct{})
		}
		sys := vfNewSystem("c12")
		var strat passivation.Strategy
		switch sc.strategy {
		case "tb":
			strat = passivation.NewTimeBasedStrategy(c12T)
		case "mc":
			strat = passivation.NewMessageCountBasedStrategy(c12N)
		default:
			strat = passivation.NewLongLivedStrategy()
		}
		x, err := sys.Spawn(ctx, "X", &c12Actor{w: w}, WithPassivationStrategy(strat))
		if err != nil {
			panic(err)
		}
		vfSettle()

		// reference model
		paused, suspended, stopping := false, false, false
		reinstatedSincePause := false
		passivated := false
		seenPostStops := 0
		gateReleased := false
		racyCut := false
		var killDone atomic.Bool
		var viol []vsched.Violation
		fail := func(sig, format string, a ...any) {
			for _, v := range viol {
				if v.Signature == sig {
					return
				}
			}
			viol = append(viol, vsched.Fail(sig, "scenario=%s events=[%s]: %s", sc.name, strings.Join(trace, " "), fmt.Sprintf(format, a...)))
		}

		// check evaluates the log at a quiescent point.
		check := func() {
			log := w.snapshot()
			posts := 0
			for i, e := range log {
				if e.kind != "poststop" {
					continue
				}
				posts++
				if posts <= seenPostStops {
					continue
				}
				seenPostStops = posts
				if stopping {
					if posts > 1 && !passivated {
						fail("passivated-while-stopping", "a second PostStop ran at %s while/after the kill", e.at.Format("15:04:05.000000000"))
					}
					continue
				}
				// --- a passivation ---
				passivated = true
				var last c12Entry
				lastIdx := -1
				for j := i - 1; j >= 0; j-- {
					if log[j].kind == "recv" {
						last, lastIdx = log[j], j
						break
					}
				}
				handled := 0
				for _, e2 := range log {
					if e2.kind == "recv" && e2.what != "poststart" {
						handled++
					}
				}
				if sc.strategy == "ll" {
					fail("passivated-long-lived", "PostStop ran at %v without a kill", e.at)
				}
				if paused {
					if reinstatedSincePause {
						fail("passivated-while-paused-after-reinstate", "PausePassivation was accepted, no ResumePassivation since; a suspend+Reinstate in between dropped the pause and the actor was passivated at %s", e.at.Format("15:04:05.000000000"))
					} else {
						fail("passivated-while-paused", "PausePassivation was accepted, no ResumePassivation since, passivated at %s", e.at.Format("15:04:05.000000000"))
					}
				}
				if suspended {
					fail("passivated-while-suspended", "actor was suspended and not reinstated, passivated at %s", e.at.Format("15:04:05.000000000"))
				}
				if sc.strategy == "tb" && lastIdx >= 0 {
					idle := e.at.Sub(last.at)
					if idle < c12T-100*time.Millisecond {
						// same dispatcher turn as a slow handler: walk back over the messages handled at the
						// same instant as the last one; the one before them is a slow handler that
						// returned at exactly that instant.
						j := lastIdx
						for j > 0 && log[j-1].kind == "recv" && log[j-1].at.Equal(last.at) {
							j--
						}
						staleTurn := j > 0 && log[j-1].kind == "recv" && log[j-1].what == "slow" && last.at.Sub(log[j-1].at) == c12SlowD
						if staleTurn {
							fail("passivated-before-idle-timeout-stale-turn-clock", "last message (%s) handled %v before the passivation, T=%v (it was handled in the same dispatcher turn right after a slow handler returned; runTurn stamps activity with the turn's start time)", last.what, idle, c12T)
						} else {
							fail("passivated-before-idle-timeout", "last message (%s) handled %v before the passivation, T=%v slack=100ms", last.what, idle, c12T)
						}
					}
				}
				if sc.strategy == "mc" && handled < c12N {
					fail("passivated-before-message-count", "only %d messages handled since registration, N=%d", handled, c12N)
				}
				if x.IsRunning() {
					fail("running-after-passivation", "IsRunning()==true after PostStop of a passivation")
				}
			}
		}
		check()

		for step := 0; step < sc.depth && !passivated; step++ {
			var en []c12Ev
			for _, e := range sc.alphabet {
				switch e {
				case c12Kill:
					if stopping {
						continue
					}
				case c12Rel:
					if !(w.gateHeld.Load() && !gateReleased) {
						continue
					}
				default:
					if stopping && !sc.killGate {
						continue
					}
				}
				en = append(en, e)
			}
			if len(en) == 0 {
				break
			}
			k := c.Choose("event", len(en), nil, func(i int) string { return c12EvNames[en[i]] })
			ev := en[k]
			trace = append(trace, c12EvNames[ev])
			switch ev {
			case c12Tell:
				_ = Tell(ctx, x, new(c12Msg))
			case c12TellSlow:
				_ = Tell(ctx, x, new(c12Slow))
			case c12Adv100, c12AdvTm100m1, c12AdvTm1, c12AdvT, c12AdvTp1:
				time.Sleep(c12Deltas[ev])
			case c12Pause:
				// flags that get SET are updated after the check of this step, flags that get CLEARED
				// before it: something that happened while the flag was changing is judged leniently.
				if Tell(ctx, x, new(PausePassivation)) == nil {
					vfSettle()
					check()
					paused, reinstatedSincePause = true, false
				}
			case c12Resume:
				if Tell(ctx, x, new(ResumePassivation)) == nil {
					vfSettle()
					paused = false
				}
			case c12FailEv:
				before := len(w.snapshot())
				if sc.strategy == "mc" && !paused {
					n := 0
					for _, e := range w.snapshot() {
						if e.kind == "recv" && e.what != "poststart" {
							n++
						}
					}
					// the failing message is the N-th one: the manager's passivation and the
					// supervisor's suspension race in real time (two goroutines woken by the same
					// turn). Both outcomes are legal; the step is judged, then the sequence is cut so
					// that the exploration stays a deterministic function of the choices.
					racyCut = n+1 >= c12N
				}
				if Tell(ctx, x, new(c12Fail)) == nil {
					vfSettle()
					check() // a passivation racing the suspension (message-count reached by the failing message) is legal
					for _, e := range w.snapshot()[before:] {
						if e.kind == "recv" && e.what == "fail" {
							suspended = true
						}
					}
				}
			case c12Reinstate:
				was := x.IsSuspended()
				if err := sys.getUserGuardian().Reinstate(x); err == nil && was {
					suspended = false
					if paused {
						reinstatedSincePause = true
					}
				}
			case c12Kill:
				stopping = true
				check() // everything before the kill is judged before the flag changes the meaning of a PostStop
				go func() {
					_ = sys.Kill(ctx, "X")
					killDone.Store(true)
				}()
			case c12Rel:
				gateReleased = true
				close(w.gate)
			}
			vfSettle()
			// trace validation of the model's flags against the implementation's own view
			if !passivated && !stopping && suspended != x.IsSuspended() && out.Invalid == "" {
				out.Invalid = fmt.Sprintf("model/implementation disagree on suspended (%v vs %v) after [%s]", suspended, x.IsSuspended(), strings.Join(trace, " "))
			}
			check()
			if (stopping && !sc.killGate) || racyCut {
				break
			}
		}

		// epilogue: release the gate, let a slow handler finish, poke the (possibly passivated) actor
		// again and make sure PostStop never runs a second time.
		if w.gate != nil && !gateReleased {
			gateReleased = true
			close(w.gate)
		}
		vfSettle()
		if passivated {
			_ = Tell(ctx, x, new(c12Msg))
			_ = sys.Kill(ctx, "X")
			_ = x.Shutdown(ctx) // a caller that still holds the PID
			stopping = true
		}
		time.Sleep(c12T + 1)
		vfSettle()
		for i := 0; i < 4*sc.depth && w.inSlow.Load() > 0; i++ {
			time.Sleep(c12SlowD)
			vfSettle()
		}
		check()
		if stopping && !passivated && !killDone.Load() {
			out.Invalid = "kill did not return"
		}
		log := w.snapshot()
		posts := 0
		for _, e := range log {
			if e.kind == "poststop" {
				posts++
			}
		}
		if posts > 1 {
			fail("poststop-not-once", "PostStop ran %d times", posts)
		}
		if passivated && x.IsRunning() {
			fail("running-after-passivation", "IsRunning()==true at the end")
		}

		// observation: the log relative to the start, flags, outcome
		var sb strings.Builder
		var t0 time.Time
		if len(log) > 0 {
			t0 = log[0].at
		}
		for _, e := range log {
			fmt.Fprintf(&sb, "%s%s@%d ", e.kind[:1], e.what, e.at.Sub(t0).Nanoseconds())
		}
		fmt.Fprintf(&sb, "| passivated=%v paused=%v suspended=%v killed=%v", passivated, paused, suspended, stopping && !passivated)
		out.Obs = sc.name + " " + sb.String()
		if racyCut {
			// outcome-independent observation: the handled messages only
			var cb strings.Builder
			for _, e := range log {
				if e.kind == "recv" {
					fmt.Fprintf(&cb, "r%s@%d ", e.what, e.at.Sub(t0).Nanoseconds())
				}
			}
			out.Obs = sc.name + " " + cb.String() + "| cut: the failing message completes the message count (passivation races suspension)"
		}
		out.Violations = viol
		if err := vfStopSystem(sys); err != nil && !errors.Is(err, context.Canceled) {
			panic(err)
		}
	})
	if p != nil {
		out.Invalid = fmt.Sprintf("panic in execution: %v (events %s)", p, strings.Join(trace, " "))
	}
	return out
}

func TestVerifC12(t *testing.T) {
	defer vsched.Finish(t)
	r := vsched.Rep()
	r.Assumption("one actor, no children; events are separated by quiescence (a Tell is never in flight at the very instant a deadline fires); the 100ms slack is taken from the statement")
	r.Assumption("'paused' = between an accepted PausePassivation and the next accepted ResumePassivation; 'suspended' = between a handled failing message without matching directive and Reinstate; 'registration' = the spawn")
	adv := []c12Ev{c12Adv100, c12AdvTm100m1, c12AdvTm1, c12AdvT, c12AdvTp1}
	cat := func(a ...[]c12Ev) []c12Ev {
		var o []c12Ev
		for _, x := range a {
			o = append(o, x...)
		}
		return o
	}
	// cheap scenarios first: ExploreAll hands the unused share of the wall budget to the later ones
	scenarios := []c12Scenario{
		{name: "tb-killgate", strategy: "tb", alphabet: []c12Ev{c12Tell, c12AdvTm1, c12AdvTp1, c12Kill, c12Rel}, depth: vsched.Pick(5, 8), killGate: true},
		{name: "tb-arrival", strategy: "tb", alphabet: cat([]c12Ev{c12Tell}, adv), depth: vsched.Pick(5, 9)},
		{name: "longlived", strategy: "ll", alphabet: []c12Ev{c12Tell, c12AdvTp1, c12Pause, c12Resume, c12FailEv, c12Reinstate}, depth: vsched.Pick(4, 6)},
		{name: "tb-slow", strategy: "tb", alphabet: []c12Ev{c12Tell, c12TellSlow, c12Adv100, c12AdvTm100m1, c12AdvTm1, c12AdvTp1}, depth: vsched.Pick(5, 7)},
		{name: "tb-pause", strategy: "tb", alphabet: []c12Ev{c12Tell, c12Adv100, c12AdvTm1, c12AdvTp1, c12Pause, c12Resume}, depth: vsched.Pick(5, 7)},
		{name: "mc", strategy: "mc", alphabet: []c12Ev{c12Tell, c12AdvTp1, c12Pause, c12Resume, c12FailEv, c12Reinstate, c12Kill}, depth: vsched.Pick(5, 7)},
		{name: "tb-suspend", strategy: "tb", alphabet: []c12Ev{c12Tell, c12AdvTm1, c12AdvTp1, c12Pause, c12Resume, c12FailEv, c12Reinstate}, depth: vsched.Pick(5, 6)},
	}
	var scs []vsched.Scenario
	for _, sc := range scenarios {
		var names []string
		for _, e := range sc.alphabet {
			names = append(names, c12EvNames[e])
		}
		scs = append(scs, vsched.Scenario{
			Cfg: vsched.Config{Scenario: "c12-" + sc.name, Bound: 0, SplitDepth: 2,
				Params: map[string]any{"strategy": sc.strategy, "depth": sc.depth, "alphabet": strings.Join(names, ","), "T": c12T.String(), "N": c12N}},
			Run: func(c *vsched.Chooser) vsched.Outcome { return c12Run(t, sc, c) },
		})
	}
	// Not ExploreAll: its equal per-scenario share of the wall budget starves the first scenario when
	// the shard processes start on a busy machine; the scenarios here are small compared with the budget,
	// so they simply run one after the other against the global budget (cheap ones first).
	for _, sc := range scs {
		vsched.Explore(sc.Cfg, sc.Run)
	}
}
