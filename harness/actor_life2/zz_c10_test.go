//go:build verif

package actor

import (
	"context"
	"errors"
	"fmt"
	"sort"
	"strings"
	"sync"
	"sync/atomic"
	"testing"
	"time"

	gerrors "github.com/tochemey/goakt/v4/errors"
	"github.com/tochemey/goakt/v4/internal/verif/vsched"
	"github.com/tochemey/goakt/v4/passivation"
	"github.com/tochemey/goakt/v4/supervisor"
)

// ---------------------------------------------------------------------------------------------
// C10 — each watcher receives exactly one Terminated for a watched actor.
//
// Real actor system in a bubble: watchers W1 (initially not watching) and W2 (watching A before the
// exploration starts), watched actor A (child of P in the parent-stop path, of the user guardian
// otherwise). One scenario per termination path of A:
//   shutdown   A.Shutdown(ctx)                      kill      system.Kill(ctx,"A")
//   poison     Tell(A, PoisonPill)                  selfstop  A's handler calls ctx.Shutdown()
//   failstop   A panics, default supervisor => Stop directive applied by the parent
//   parentstop P.Shutdown(ctx) (freeChildren)       stopchild P.Stop(ctx, A)
//   passivate  time-based passivation, the event advances virtual time past the deadline
//   sysstop    system.Stop(ctx)  (every watcher stops too: only "never two" is demanded)
// plus suprestart-shutdown / suprestart-poison: A is a child of a recording
// parent P and its supervisor's directive for a panic is Restart; the extra event a.fail (before term)
// makes A fail, so A is restarted in place by its supervisor (PID.restartChild: UnWatch + Restart +
// re-attachment) and only then terminates. P - the implicit parent watch, never unwatched - is judged
// as a third watcher of class "watching".
//
// Events (each fired once unless stated, every order is enumerated): term (start the path),
// w1.watch (x2 in thorough: Watch is called twice by the same watcher), w1.unwatch, w2.unwatch,
// w2.rewatch (thorough: W2 watches again after its UnWatch), w1.restart,
// tick (+10ms of virtual time; enabled while W1's Restart has not returned - PID.Restart polls every
// 10ms), rel.poststop and rel.mbox. The last two release the two gates that open a window INSIDE the
// termination of A (gate mode, no instrumentation):
//   * A.PostStop blocks on a gate: the termination has started (stoppingState set) but freeWatchers
//     has not read the watcher list yet;
//   * W1's system mailbox is wrapped; its Enqueue blocks on a gate for a *Terminated message:
//     freeWatchers has taken its snapshot of the watchers and is in the middle of telling W1, before
//     it calls watcher.UnWatch(A).
// Every client operation runs on its own goroutine; after every event the bubble is settled.
//
// Oracle (evaluated at final quiescence; exactly the statement):
//   class "watching"  the last Watch/UnWatch/Restart operation of the watcher that completed before
//                     the termination event was fired is a Watch (W2: the initial Watch), the watcher
//                     was running from that Watch on, and no operation of that watcher was fired
//                     while the termination was in progress: exactly one Terminated naming A
//                     (0 => missing-terminated, >=2 => duplicate-terminated);
//   class "unwatched" ... is an UnWatch (possibly followed by the watcher's own restart) and nothing
//                     was fired later: none (>=1 => terminated-after-unwatch);
//   class "open"      everything else: operations fired while the termination is in progress
//                     (concurrent: 0 or 1), a Watch fired after the termination started/ended, a
//                     watcher that restarted after its Watch (PID.Restart = Shutdown + init, and
//                     Shutdown releases all watchees: the watcher did not stay running) or whose
//                     restart is still pending, every watcher under sysstop: at most one.
//   every Terminated a watcher receives must name A (terminated-wrong-actor).
// "termination in progress" = from the step that fires term until the first quiescent point at which
// A.PostStop has returned, no gate is holding and (synchronous paths) the call has returned.
// ---------------------------------------------------------------------------------------------

type c10World struct {
	mu       sync.Mutex
	got      map[string][]string // watcher -> ActorPath strings of the Terminated messages received
	postStop int

	psGate     chan struct{}
	psBlocked  atomic.Bool
	psReleased bool
	psExited   atomic.Bool

	mbGate     chan struct{}
	mbBlocked  atomic.Bool
	mbReleased bool
}

type c10Watcher struct {
	name string
	w    *c10World
}

func (a *c10Watcher) PreStart(*Context) error { return nil }
func (a *c10Watcher) PostStop(*Context) error { return nil }
func (a *c10Watcher) Receive(ctx *ReceiveContext) {
	if m, ok := ctx.Message().(*Terminated); ok {
		a.w.mu.Lock()
		a.w.got[a.name] = append(a.w.got[a.name], m.ActorPath().String())
		a.w.mu.Unlock()
	}
}

type c10Fail struct{}
type c10SelfStop struct{}

type c10Target struct{ w *c10World }

func (a *c10Target) PreStart(*Context) error { return nil }
func (a *c10Target) Receive(ctx *ReceiveContext) {
	switch ctx.Message().(type) {
	case *c10Fail:
		panic(errors.New("c10 boom"))
	case *c10SelfStop:
		ctx.Shutdown()
	}
}
func (a *c10Target) PostStop(*Context) error {
	a.w.mu.Lock()
	a.w.postStop++
	a.w.mu.Unlock()
	a.w.psBlocked.Store(true)
	<-a.w.psGate
	a.w.psBlocked.Store(false)
	a.w.psExited.Store(true)
	return nil
}

type c10Plain struct{}

func (c10Plain) PreStart(*Context) error { return nil }
func (c10Plain) Receive(*ReceiveContext) {}
func (c10Plain) PostStop(*Context) error { return nil }

// c10Mailbox wraps W1's system mailbox; the enqueue of a *Terminated blocks on the world's gate
// (runs on the goroutine of the terminating actor, inside freeWatchers, no lock of goakt held except
// A's stopLocker which nothing else takes during an execution).
type c10Mailbox struct {
	Mailbox
	w *c10World
}

func (m *c10Mailbox) Enqueue(msg *ReceiveContext) error {
	if _, ok := msg.Message().(*Terminated); ok {
		m.w.mbBlocked.Store(true)
		<-m.w.mbGate
		m.w.mbBlocked.Store(false)
	}
	return m.Mailbox.Enqueue(msg)
}

type c10Path int

const (
	c10PShutdown c10Path = iota
	c10PKill
	c10PPoison
	c10PSelfStop
	c10PFailStop
	c10PParentStop
	c10PStopChild
	c10PPassivate
	c10PSysStop
	c10NumPaths
)

var c10PathNames = [...]string{"shutdown", "kill", "poison", "selfstop", "failstop", "parentstop", "stopchild", "passivate", "sysstop"}

type c10Client struct {
	done atomic.Bool
	err  error
}

func c10Go(f func() error) *c10Client {
	c := &c10Client{}
	go func() {
		c.err = f()
		c.done.Store(true)
	}()
	return c
}

// watcher classification state
type c10WState struct {
	st       string // "never", "watching", "unwatched", "open"
	reason   string
	restartC *c10Client
}

const (
	c10EvTerm = iota
	c10EvW1Watch
	c10EvW1UnWatch
	c10EvW2UnWatch
	c10EvW1Restart
	c10EvTick
	c10EvRelPS
	c10EvRelMB
	c10EvW2Watch
	c10EvAFail
)

var c10EvNames = [...]string{"term", "w1.watch", "w1.unwatch", "w2.unwatch", "w1.restart", "tick10ms", "rel.poststop", "rel.mbox", "w2.rewatch", "a.fail"}

type c10Cfg struct {
	path      c10Path
	watches   int  // how many times w1.watch can be fired
	restart   bool // w1.restart in the alphabet
	w2unwatch bool
	w2rewatch bool // W2 may Watch again after its UnWatch was fired (thorough)
	// supRestart: A is a child of the recording parent P and carries a supervisor whose directive
	// for a panic is Restart; the event a.fail (only before term) makes A fail, so that A is
	// restarted in place by its supervisor before it terminates. P (the implicit parent watch,
	// never unwatched) is judged like any other watcher.
	supRestart bool
}

func c10Run(t *testing.T, cfg c10Cfg, c *vsched.Chooser) vsched.Outcome {
	var out vsched.Outcome
	pname := c10PathNames[cfg.path]
	if cfg.supRestart {
		pname = "suprestart-" + pname
	}
	w := &c10World{got: map[string][]string{}}
	var trace []string
	p := vfBubble(t, func() {
		// bubble channels must be made inside the bubble
		w.psGate, w.mbGate = make(chan struct{}), make(chan struct{})
		ctx := context.Background()
		sys := vfNewSystem("c10")
		var parent *PID
		var err error
		w1a := &c10Watcher{name: "W1", w: w}
		w2a := &c10Watcher{name: "W2", w: w}
		w1, err := sys.Spawn(ctx, "W1", w1a, WithLongLived())
		if err != nil {
			panic(err)
		}
		// Terminated is a control message: it travels through the system mailbox. Wrap it (at
		// quiescence, PostStart already handled) so that the enqueue of a Terminated can be held.
		vfSettle()
		w1.systemMailbox = &c10Mailbox{Mailbox: w1.systemMailbox, w: w}
		w2, err := sys.Spawn(ctx, "W2", w2a, WithLongLived())
		if err != nil {
			panic(err)
		}
		aopts := []SpawnOption{WithLongLived()}
		if cfg.path == c10PPassivate {
			aopts = []SpawnOption{WithPassivationStrategy(passivation.NewTimeBasedStrategy(time.Second))}
		}
		var a *PID
		names := []string{"W1", "W2"}
		if cfg.supRestart {
			names = append(names, "P")
			parent, err = sys.Spawn(ctx, "P", &c10Watcher{name: "P", w: w}, WithLongLived())
			if err != nil {
				panic(err)
			}
			sup := supervisor.NewSupervisor(supervisor.WithDirective(&gerrors.PanicError{}, supervisor.RestartDirective))
			a, err = parent.SpawnChild(ctx, "A", &c10Target{w: w}, append(aopts, WithSupervisor(sup))...)
		} else if cfg.path == c10PParentStop || cfg.path == c10PStopChild {
			parent, err = sys.Spawn(ctx, "P", c10Plain{}, WithLongLived())
			if err != nil {
				panic(err)
			}
			a, err = parent.SpawnChild(ctx, "A", &c10Target{w: w}, aopts...)
		} else {
			a, err = sys.Spawn(ctx, "A", &c10Target{w: w}, aopts...)
		}
		if err != nil {
			panic(err)
		}
		aPath := a.Path().String()
		w2.Watch(a)
		vfSettle()

		ws := map[string]*c10WState{"W1": {st: "never"}, "W2": {st: "watching"}}
		if cfg.supRestart {
			ws["P"] = &c10WState{st: "watching"} // a parent watches its children from the spawn on
		}
		termFired, termEnded := false, false
		var termClient *c10Client
		syncPath := false
		var clients []*c10Client
		left := map[int]int{c10EvTerm: 1, c10EvW1Watch: cfg.watches, c10EvW1UnWatch: 1}
		if cfg.w2unwatch {
			left[c10EvW2UnWatch] = 1
		}
		if cfg.restart {
			left[c10EvW1Restart] = 1
		}
		if cfg.w2rewatch {
			left[c10EvW2Watch] = 1
		}
		if cfg.supRestart {
			left[c10EvAFail] = 1
		}
		inWindow := func() bool { return termFired && !termEnded }
		restartPending := func() bool {
			r := ws["W1"].restartC
			return r != nil && !r.done.Load()
		}
		open := func(name, why string) {
			s := ws[name]
			if s.st != "open" {
				s.st, s.reason = "open", why
			}
		}
		var phases []string
		var viol []vsched.Violation
		checkNeverTwo := func() {
			w.mu.Lock()
			defer w.mu.Unlock()
			for _, n := range names {
				cnt := 0
				for _, pth := range w.got[n] {
					if pth == aPath {
						cnt++
					}
				}
				if cnt > 1 && len(viol) == 0 {
					viol = append(viol, vsched.Fail("duplicate-terminated", "path=%s watcher %s (class %s) has received %d Terminated(A) after [%s]", pname, n, ws[n].st, cnt, strings.Join(trace, " ")))
				}
			}
		}

		for step := 0; step < 64; step++ {
			var en []int
			for _, e := range []int{c10EvTerm, c10EvW1Watch, c10EvW1UnWatch, c10EvW2UnWatch, c10EvW1Restart} {
				if left[e] > 0 {
					en = append(en, e)
				}
			}
			if cfg.w2rewatch && left[c10EvW2Watch] > 0 && left[c10EvW2UnWatch] == 0 {
				en = append(en, c10EvW2Watch)
			}
			if left[c10EvAFail] > 0 && !termFired {
				en = append(en, c10EvAFail)
			}
			if restartPending() {
				en = append(en, c10EvTick)
			}
			if w.psBlocked.Load() && !w.psReleased {
				en = append(en, c10EvRelPS)
			}
			if w.mbBlocked.Load() && !w.mbReleased {
				en = append(en, c10EvRelMB)
			}
			if len(en) == 0 {
				break
			}
			k := c.Choose("event", len(en), nil, func(i int) string { return c10EvNames[en[i]] })
			ev := en[k]
			trace = append(trace, c10EvNames[ev])
			if ev != c10EvTick && ev != c10EvRelPS && ev != c10EvRelMB {
				phase := "pre"
				switch {
				case termEnded:
					phase = "post"
				case termFired && w.mbBlocked.Load() && !w.mbReleased:
					phase = "in-tell"
				case termFired && w.psBlocked.Load() && !w.psReleased:
					phase = "in-poststop"
				case termFired:
					phase = "in"
				}
				if restartPending() {
					phase += "+w1down"
				}
				phases = append(phases, c10EvNames[ev]+"@"+phase)
			}
			switch ev {
			case c10EvTerm:
				left[ev]--
				termFired = true
				// state of the watchers at the start of the termination
				if restartPending() {
					open("W1", "restart pending at termination start")
				}
				if cfg.path == c10PSysStop {
					open("W1", "system stop: watcher stops too")
					open("W2", "system stop: watcher stops too")
				}
				switch cfg.path {
				case c10PShutdown:
					syncPath = true
					termClient = c10Go(func() error { return a.Shutdown(ctx) })
				case c10PKill:
					syncPath = true
					termClient = c10Go(func() error { return sys.Kill(ctx, "A") })
				case c10PPoison:
					termClient = c10Go(func() error { return Tell(ctx, a, new(PoisonPill)) })
				case c10PSelfStop:
					termClient = c10Go(func() error { return Tell(ctx, a, new(c10SelfStop)) })
				case c10PFailStop:
					termClient = c10Go(func() error { return Tell(ctx, a, new(c10Fail)) })
				case c10PParentStop:
					syncPath = true
					termClient = c10Go(func() error { return parent.Shutdown(ctx) })
				case c10PStopChild:
					syncPath = true
					termClient = c10Go(func() error { return parent.Stop(ctx, a) })
				case c10PPassivate:
					time.Sleep(time.Second)
				case c10PSysStop:
					syncPath = true
					termClient = c10Go(func() error { return sys.Stop(ctx) })
				}
				if termClient != nil {
					clients = append(clients, termClient)
				}
			case c10EvW1Watch, c10EvW2Watch:
				left[ev]--
				name, pid := "W1", w1
				if ev == c10EvW2Watch {
					name, pid = "W2", w2
				}
				s := ws[name]
				switch {
				case termFired:
					open(name, "Watch fired after the termination started")
				case name == "W1" && restartPending():
					open(name, "Watch fired while the watcher restarts")
				default:
					s.st, s.reason = "watching", ""
				}
				clients = append(clients, c10Go(func() error { pid.Watch(a); return nil }))
			case c10EvW1UnWatch, c10EvW2UnWatch:
				left[ev]--
				name, pid := "W1", w1
				if ev == c10EvW2UnWatch {
					name, pid = "W2", w2
				}
				switch {
				case inWindow():
					open(name, "UnWatch fired while the termination is in progress")
				case termEnded:
					// no influence on what was delivered
				default:
					ws[name].st, ws[name].reason = "unwatched", ""
				}
				clients = append(clients, c10Go(func() error { pid.UnWatch(a); return nil }))
			case c10EvW1Restart:
				left[ev]--
				s := ws["W1"]
				switch {
				case inWindow():
					open("W1", "Restart fired while the termination is in progress")
				case termEnded:
				case s.st == "watching":
					open("W1", "watcher restarted after its Watch (Shutdown releases the watchees)")
				}
				s.restartC = c10Go(func() error { return w1.Restart(ctx) })
				clients = append(clients, s.restartC)
			case c10EvAFail:
				// A panics; its supervisor's directive is Restart: A is suspended, the parent
				// restarts it in place (no Shutdown, no Terminated). Nobody's watch is touched by
				// the user, so the classes stay as they are.
				left[ev]--
				clients = append(clients, c10Go(func() error { return Tell(ctx, a, new(c10Fail)) }))
			case c10EvTick:
				time.Sleep(10 * time.Millisecond)
			case c10EvRelPS:
				w.psReleased = true
				close(w.psGate)
			case c10EvRelMB:
				w.mbReleased = true
				close(w.mbGate)
			}
			vfSettle()
			if ev == c10EvAFail {
				for i := 0; i < 5 && !a.IsRunning(); i++ { // a restart of a running actor polls every 10ms
					time.Sleep(10 * time.Millisecond)
					vfSettle()
				}
				if (!a.IsRunning() || a.RestartCount() != 1) && out.Invalid == "" {
					out.Invalid = "the supervised restart of A did not complete: " + strings.Join(trace, " ")
				}
			}
			if termFired && !termEnded {
				if restartPending() {
					open("W1", "restart pending while the termination is in progress")
				}
				gateHolding := (w.psBlocked.Load() && !w.psReleased) || (w.mbBlocked.Load() && !w.mbReleased)
				if w.psExited.Load() && !gateHolding && (!syncPath || termClient.done.Load()) {
					termEnded = true
				}
			}
			checkNeverTwo()
		}

		// drain: release whatever is still held (only reachable when the step horizon was hit),
		// let pending restarts finish, then take the final snapshot.
		if !w.psReleased {
			w.psReleased = true
			close(w.psGate)
		}
		if !w.mbReleased {
			w.mbReleased = true
			close(w.mbGate)
		}
		vfSettle()
		for i := 0; i < 10; i++ {
			time.Sleep(10 * time.Millisecond)
			vfSettle()
		}
		for _, cl := range clients {
			if !cl.done.Load() {
				out.Invalid = "a client operation did not return after all gates were released: " + strings.Join(trace, " ")
			}
		}
		if !termFired || !w.psExited.Load() {
			if out.Invalid == "" {
				out.Invalid = "termination did not happen: " + strings.Join(trace, " ")
			}
		}
		checkNeverTwo()

		// final oracle
		w.mu.Lock()
		var obs []string
		for _, n := range names {
			cnt, wrong := 0, 0
			for _, pth := range w.got[n] {
				if pth == aPath {
					cnt++
				} else {
					wrong++
				}
			}
			s := ws[n]
			if wrong > 0 {
				viol = append(viol, vsched.Fail("terminated-wrong-actor", "path=%s watcher %s received Terminated naming %v, watched actor is %s", pname, n, w.got[n], aPath))
			}
			switch s.st {
			case "watching":
				if cnt == 0 {
					viol = append(viol, vsched.Fail("missing-terminated", "path=%s watcher %s watched A before the termination started, kept running and never unwatched, but received no Terminated(A); events [%s]", pname, n, strings.Join(trace, " ")))
				}
			case "unwatched":
				if cnt > 0 {
					viol = append(viol, vsched.Fail("terminated-after-unwatch", "path=%s watcher %s completed UnWatch(A) before the termination started but received %d Terminated(A); events [%s]", pname, n, cnt, strings.Join(trace, " ")))
				}
			}
			if cfg.path == c10PSysStop {
				obs = append(obs, fmt.Sprintf("%s:%s", n, s.st)) // counts race with the watcher's own shutdown
			} else {
				obs = append(obs, fmt.Sprintf("%s:%s=%d", n, s.st, cnt))
			}
		}
		if w.postStop != 1 && out.Invalid == "" {
			out.Invalid = fmt.Sprintf("A.PostStop ran %d times", w.postStop)
		}
		w.mu.Unlock()
		// observation = outcome per watcher + the phase of the termination in which every operation
		// was fired (an abstraction of the schedule, not the schedule itself)
		sort.Strings(phases)
		out.Obs = pname + " " + strings.Join(obs, " ") + " | " + strings.Join(phases, ",")
		out.Violations = viol

		if cfg.path == c10PSysStop {
			sys.stopCoalescedFailureDrain()
		} else if err := vfStopSystem(sys); err != nil {
			panic(err)
		}
	})
	if p != nil {
		out.Invalid = fmt.Sprintf("panic in execution: %v (events %s)", p, strings.Join(trace, " "))
	}
	return out
}

func TestVerifC10(t *testing.T) {
	defer vsched.Finish(t)
	r := vsched.Rep()
	r.Assumption("two local watchers and one watched actor; one termination per execution; gates in A.PostStop and in W1's mailbox Enqueue(*Terminated) are the only places where operations overlap the termination (no instruction-level interleaving of tree.addWatcher/removeWatcher with freeWatchers)")
	r.Assumption("remote watchers (RemoteTell path of freeWatchers) are not exercised")
	var scs []vsched.Scenario
	// cheap scenarios first: ExploreAll hands the unused share of the wall budget to the later ones
	order := []c10Path{c10PSysStop, c10PKill, c10PStopChild, c10PPassivate, c10PShutdown, c10PPoison, c10PSelfStop, c10PFailStop, c10PParentStop}
	for _, pth := range order {
		cfg := c10Cfg{path: pth, watches: vsched.Pick(1, 2), restart: pth != c10PSysStop, w2unwatch: true, w2rewatch: r.Thorough() && pth != c10PSysStop}
		if !r.Thorough() && (pth == c10PKill || pth == c10PStopChild) {
			// same code path as shutdown after the lookup; quick tier keeps them smaller
			cfg.restart = false
		}
		scs = append(scs, vsched.Scenario{
			Cfg: vsched.Config{Scenario: "c10-" + c10PathNames[pth], Bound: 0, SplitDepth: 3,
				Params: map[string]any{"path": c10PathNames[pth], "w1.watch": cfg.watches, "w1.restart": cfg.restart, "w2.rewatch": cfg.w2rewatch}},
			Run: func(c *vsched.Chooser) vsched.Outcome { return c10Run(t, cfg, c) },
		})
	}
	// (no suprestart-passivate: on the unchanged tree a time-based actor that was restarted by its
	// supervisor keeps passivationPausedState set - suspend() sets it, the in-place restart never clears
	// it - while its manager entry is re-registered un-paused; when the idle deadline expires
	// passivationManager.trigger retries tryPassivation forever without blocking. The bubble never
	// settles: that is a liveness defect of goakt outside this property, reported to the lead.)
	for _, pth := range []c10Path{c10PShutdown, c10PPoison} {
		cfg := c10Cfg{path: pth, watches: 1, restart: r.Thorough(), w2unwatch: true, supRestart: true}
		name := "c10-suprestart-" + c10PathNames[pth]
		scs = append(scs, vsched.Scenario{
			Cfg: vsched.Config{Scenario: name, Bound: 0, SplitDepth: 3,
				Params: map[string]any{"path": c10PathNames[pth], "w1.watch": cfg.watches, "w1.restart": cfg.restart, "a.fail": "supervised restart (Restart directive) of A before term"}},
			Run: func(c *vsched.Chooser) vsched.Outcome { return c10Run(t, cfg, c) },
		})
	}
	// Not ExploreAll: its equal per-scenario share of the wall budget starves the first scenario when
	// the shard processes start on a busy machine; the scenarios here are small compared with the budget,
	// so they simply run one after the other against the global budget (cheap ones first).
	for _, sc := range scs {
		vsched.Explore(sc.Cfg, sc.Run)
	}
}
