//go:build verif

package actor

import (
	"context"
	"fmt"
	"strings"
	"sync"
	"sync/atomic"
	"testing"
	"time"
	"unsafe"

	"github.com/tochemey/goakt/v4/internal/verif/vsched"
)

// ---------------------------------------------------------------------------------------------
// C31 — grain activations are ordered and single-threaded.
//
// Non-clustered real actor system in a bubble, one grain identity G (kind c31Grain, non-reentrant,
// first activation through GrainIdentity(..., WithGrainDeactivateAfter(1s)); re-activations are made
// by the engine from the registry, i.e. fresh zero-value instances with the default 2 min timeout).
// Every hook of the grain logs enter/exit into one totally ordered log together with the Go pointer
// of the instance; the hook selected by the scenario blocks on a gate (a bubble channel) between its
// enter and exit entry until the explorer fires the matching release event.
//
// Events (each client operation runs on its own goroutine; after every event the bubble is settled):
//   ident           GrainIdentity(G)  (always the first, automatic)
//   send_k  k<=K    TellGrain(G, msg k)
//   pill            TellGrain(G, PoisonPill)            explicit deactivation
//   advT            virtual time += 1s+1ns              (passivation deadline of the first activation)
//   adv2m           virtual time += 2min+1ns            (deadline of a re-activation; thorough only)
//   sysstop         system.Stop()                        (at most once; afterwards only releases)
//   rel.act / rel.recv / rel.deact   release the oldest held gate of that hook
// Scenarios differ in which hook is gated: gate-activate, gate-receive, gate-deactivate, gate-none.
// All orders of the events are enumerated (Bound 0, every event costs 0).
//
// Oracle, per activation (= one OnActivate invocation; instance pointer p, activation number a):
//   receive-before-activate-completed  an OnReceive of a entered before OnActivate of a returned
//   deactivate-during-receive          OnDeactivate of a entered while an OnReceive of a was open
//   receive-after-deactivate           an OnReceive of a entered after OnDeactivate of a was entered
//   deactivate-twice / deactivate-missing   after the final system.Stop every successfully activated
//                                      activation has exactly one OnDeactivate
//   receive-overlap                    two OnReceive of the same activation open at once (title:
//                                      single-threaded)
//   activate-before-previous-deactivate-returned / activate-while-previous-activation-active
//                                      activations are ordered: OnActivate of a later activation was
//                                      entered while OnDeactivate of an earlier one had not returned yet /
//                                      had not run at all
//                                      (a message that arrives while OnDeactivate is parked on its gate
//                                      must not create a second live instance)
//   message-after-deactivation-lost / -not-fresh   a message whose TellGrain was fired at a quiescent
//                                      point where the latest activation had completed OnDeactivate
//                                      (and the system was not stopping) must be received, by an
//                                      activation made after that point on an instance pointer never
//                                      used before.
// Signatures of an execution in which the passivation manager ran OnDeactivate outside the grain's turn
// (overlapping an open OnReceive or followed by another hook of the same activation before it returned)
// carry the prefix "offturn-passivation:" (one root cause, several consequences).
// Not judged (the statement is silent): WHICH activation handles a message that was sent while
// OnDeactivate is running or that is queued behind a PoisonPill (only the ordering rules above apply to
// it); messages in flight at system.Stop.
// ---------------------------------------------------------------------------------------------

type c31Entry struct {
	kind string // act-enter act-exit recv-enter recv-exit deact-enter deact-exit
	inst uintptr
	act  int // activation number of the instance at that time
	msg  int
	at   time.Time
	mgr  bool // OnDeactivate entered while the explorer was advancing virtual time: passivation path
}

type c31World struct {
	mu      sync.Mutex
	log     []c31Entry
	actSeq  int
	gateOn  string // "act", "recv", "deact", ""
	held    map[string][]chan struct{}
	inMgr   atomic.Bool // set by the explorer while it advances time (passivation path marker)
}

// c31Cur is the world of the execution in progress (grain instances are created by the engine through
// reflection, so they cannot carry a reference).
var c31Cur atomic.Pointer[c31World]

type c31Grain struct {
	act int
}

type c31Msg struct{ id int }

func (w *c31World) add(kind string, g *c31Grain, msg int) {
	w.log = append(w.log, c31Entry{kind: kind, inst: uintptrOf(g), act: g.act, msg: msg, at: time.Now()})
}

func uintptrOf(g *c31Grain) uintptr { return uintptr(unsafe.Pointer(g)) }

func (w *c31World) gate(hook string) {
	w.mu.Lock()
	if w.gateOn != hook {
		w.mu.Unlock()
		return
	}
	ch := make(chan struct{})
	w.held[hook] = append(w.held[hook], ch)
	w.mu.Unlock()
	<-ch
}

func (g *c31Grain) OnActivate(context.Context, *GrainProps) error {
	w := c31Cur.Load()
	w.mu.Lock()
	w.actSeq++
	g.act = w.actSeq
	w.add("act-enter", g, 0)
	w.mu.Unlock()
	w.gate("act")
	w.mu.Lock()
	w.add("act-exit", g, 0)
	w.mu.Unlock()
	return nil
}

func (g *c31Grain) OnReceive(ctx *GrainContext) {
	w := c31Cur.Load()
	m, ok := ctx.Message().(*c31Msg)
	if !ok {
		ctx.Unhandled()
		return
	}
	w.mu.Lock()
	w.add("recv-enter", g, m.id)
	w.mu.Unlock()
	w.gate("recv")
	w.mu.Lock()
	w.add("recv-exit", g, m.id)
	w.mu.Unlock()
	ctx.NoErr()
}

func (g *c31Grain) OnDeactivate(context.Context, *GrainProps) error {
	w := c31Cur.Load()
	w.mu.Lock()
	w.add("deact-enter", g, 0)
	w.log[len(w.log)-1].mgr = w.inMgr.Load()
	w.mu.Unlock()
	w.gate("deact")
	w.mu.Lock()
	w.add("deact-exit", g, 0)
	w.mu.Unlock()
	return nil
}

const (
	c31EvSend = iota
	c31EvPill
	c31EvAdvT
	c31EvAdv2m
	c31EvSysStop
	c31EvRelAct
	c31EvRelRecv
	c31EvRelDeact
)

var c31EvNames = [...]string{"send", "pill", "advT", "adv2m", "sysstop", "rel.act", "rel.recv", "rel.deact"}

type c31Cfg struct {
	name   string
	gateOn string
	sends  int
	pills  int
	advT   int
	adv2m  int
}

type c31Sent struct {
	id       int
	logLen   int  // length of the log when the send was fired
	afterDe  bool // fired at a quiescent point where the latest activation had completed OnDeactivate
	stopping bool
	client   *c10Client
}

func c31Run(t *testing.T, cfg c31Cfg, c *vsched.Chooser) vsched.Outcome {
	var out vsched.Outcome
	w := &c31World{gateOn: cfg.gateOn, held: map[string][]chan struct{}{}}
	c31Cur.Store(w)
	var trace []string
	p := vfBubble(t, func() {
		ctx := context.Background()
		sys := vfNewSystem("c31")
		identity := newGrainIdentity(&c31Grain{}, "G")
		var clients []*c10Client
		identC := c10Go(func() error {
			_, err := sys.GrainIdentity(ctx, "G", func(context.Context) (Grain, error) { return &c31Grain{}, nil }, WithGrainDeactivateAfter(time.Second))
			return err
		})
		clients = append(clients, identC)
		vfSettle()

		left := map[int]int{c31EvSend: cfg.sends, c31EvPill: cfg.pills, c31EvAdvT: cfg.advT, c31EvAdv2m: cfg.adv2m, c31EvSysStop: 1}
		var sent []*c31Sent
		stopFired := false
		stopLogLen := 0 // length of the log when the (first) system.Stop was fired
		logLen := func() int {
			w.mu.Lock()
			defer w.mu.Unlock()
			return len(w.log)
		}
		var stopC *c10Client
		nextMsg := 0
		heldN := func(h string) int {
			w.mu.Lock()
			defer w.mu.Unlock()
			return len(w.held[h])
		}
		release := func(h string) {
			w.mu.Lock()
			ch := w.held[h][0]
			w.held[h] = w.held[h][1:]
			w.mu.Unlock()
			close(ch)
		}
		// latestDeactivated: the log is non-empty, the most recent activation has a deact-exit and no
		// hook is open.
		latestDeactivated := func() bool {
			w.mu.Lock()
			defer w.mu.Unlock()
			lastAct := 0
			for _, e := range w.log {
				if e.act > lastAct {
					lastAct = e.act
				}
			}
			if lastAct == 0 {
				return false
			}
			open := 0
			done := false
			for _, e := range w.log {
				switch {
				case strings.HasSuffix(e.kind, "-enter"):
					open++
				case strings.HasSuffix(e.kind, "-exit"):
					open--
				}
				if e.kind == "deact-exit" && e.act == lastAct {
					done = true
				}
			}
			return done && open == 0
		}

		for step := 0; step < 64; step++ {
			var en []int
			if !stopFired {
				// gate-activate: clients that wait for an activation in progress (singleflight) are
				// released together and would race for the mailbox in real time. To keep an execution
				// a deterministic function of the choices at most ONE TellGrain client is in flight
				// there: it waits behind the initial GrainIdentity call, or it re-activates alone.
				pending := 0
				for _, cl := range clients[1:] {
					if !cl.done.Load() {
						pending++
					}
				}
				mayTell := cfg.gateOn != "act" || pending == 0
				for _, e := range []int{c31EvSend, c31EvPill, c31EvAdvT, c31EvAdv2m, c31EvSysStop} {
					if (e == c31EvSend || e == c31EvPill) && !mayTell {
						continue
					}
					if left[e] > 0 {
						en = append(en, e)
					}
				}
			}
			if heldN("act") > 0 {
				en = append(en, c31EvRelAct)
			}
			if heldN("recv") > 0 {
				en = append(en, c31EvRelRecv)
			}
			if heldN("deact") > 0 {
				en = append(en, c31EvRelDeact)
			}
			if len(en) == 0 {
				break
			}
			k := c.Choose("event", len(en), nil, func(i int) string { return c31EvNames[en[i]] })
			ev := en[k]
			trace = append(trace, c31EvNames[ev])
			switch ev {
			case c31EvSend:
				left[ev]--
				nextMsg++
				id := nextMsg
				w.mu.Lock()
				n := len(w.log)
				w.mu.Unlock()
				s := &c31Sent{id: id, logLen: n, afterDe: latestDeactivated(), stopping: stopFired}
				s.client = c10Go(func() error { return sys.TellGrain(ctx, identity, &c31Msg{id: id}) })
				clients = append(clients, s.client)
				sent = append(sent, s)
			case c31EvPill:
				left[ev]--
				clients = append(clients, c10Go(func() error { return sys.TellGrain(ctx, identity, new(PoisonPill)) }))
			case c31EvAdvT, c31EvAdv2m:
				left[ev]--
				w.inMgr.Store(true)
				if ev == c31EvAdvT {
					time.Sleep(time.Second + 1)
				} else {
					time.Sleep(2*time.Minute + 1)
				}
				vfSettle()
				w.inMgr.Store(false)
			case c31EvSysStop:
				left[ev]--
				stopFired = true
				stopLogLen = logLen()
				stopC = c10Go(func() error { return sys.Stop(ctx) })
				clients = append(clients, stopC)
			case c31EvRelAct:
				release("act")
			case c31EvRelRecv:
				release("recv")
			case c31EvRelDeact:
				release("deact")
			}
			vfSettle()
		}

		// drain: release everything still held (only when the horizon was hit), let timeouts of blocked
		// Tell clients expire, then stop the system (the final stop deactivates what is still active).
		for i := 0; i < 200; i++ {
			progressed := false
			for _, h := range []string{"act", "recv", "deact"} {
				for heldN(h) > 0 {
					release(h)
					progressed = true
					vfSettle()
				}
			}
			if !progressed {
				break
			}
		}
		time.Sleep(6 * time.Second) // > DefaultGrainRequestTimeout: every TellGrain client has returned
		vfSettle()
		if !stopFired {
			stopLogLen = logLen()
			stopC = c10Go(func() error { return sys.Stop(ctx) })
			clients = append(clients, stopC)
			vfSettle()
		}
		for i := 0; i < 200; i++ {
			progressed := false
			for _, h := range []string{"act", "recv", "deact"} {
				for heldN(h) > 0 {
					release(h)
					progressed = true
					vfSettle()
				}
			}
			if !progressed {
				break
			}
		}
		time.Sleep(6 * time.Second)
		vfSettle()
		sys.stopCoalescedFailureDrain()
		vfSettle()
		for _, cl := range clients {
			if !cl.done.Load() {
				out.Invalid = "a client operation did not return: " + strings.Join(trace, " ")
			}
		}

		// ---------------- oracle over the log ----------------
		w.mu.Lock()
		log := append([]c31Entry(nil), w.log...)
		w.mu.Unlock()
		// offTurn: the passivation manager ran OnDeactivate of an activation while an OnReceive of that
		// activation was open, or another hook of that activation was entered before that OnDeactivate
		// returned (the manager deactivates a non-reentrant grain on its own goroutine, outside the
		// grain's turn). Every violation of such an execution is attributed to that root cause by a
		// signature prefix; executions without it keep the plain signatures.
		offTurn := false
		for i, e := range log {
			if e.kind != "deact-enter" || !e.mgr {
				continue
			}
			open := 0
			for _, b := range log[:i] {
				if b.act == e.act && b.kind == "recv-enter" {
					open++
				}
				if b.act == e.act && b.kind == "recv-exit" {
					open--
				}
			}
			if open > 0 {
				offTurn = true
			}
			for _, b := range log[i+1:] {
				if b.act != e.act {
					continue
				}
				if b.kind == "deact-exit" {
					break
				}
				offTurn = true
			}
		}
		var viol []vsched.Violation
		fail := func(sig, format string, a ...any) {
			for _, v := range viol {
				if v.Signature == sig || v.Signature == "offturn-passivation:"+sig {
					return
				}
			}
			note := ""
			if offTurn {
				sig = "offturn-passivation:" + sig
				note = " [in this execution the passivation manager ran OnDeactivate outside the grain's turn, overlapping other hooks of the activation]"
			}
			viol = append(viol, vsched.Fail(sig, "scenario=%s events=[%s] log=[%s]: %s%s", cfg.name, strings.Join(trace, " "), c31LogString(log), fmt.Sprintf(format, a...), note))
		}
		type actState struct {
			inst                uintptr
			actExit             bool
			actExitIdx          int
			deactEnter, deactEx int
			openRecv            int
			recvs               int
		}
		acts := map[int]*actState{}
		var order []int
		for i, e := range log {
			a := acts[e.act]
			if a == nil {
				a = &actState{inst: e.inst}
				acts[e.act] = a
				order = append(order, e.act)
			}
			switch e.kind {
			case "act-enter":
				// activations of one identity are ordered: a later activation must not start while an
				// earlier one is still alive, i.e. before the earlier one's OnDeactivate has returned.
				for _, pn := range order {
					if pn == e.act {
						continue
					}
					pa := acts[pn]
					switch {
					case pa.deactEnter > pa.deactEx:
						fail("activate-before-previous-deactivate-returned", "activation %d: OnActivate entered while OnDeactivate of activation %d was still running (second live instance of the same grain during the deactivation)", e.act, pn)
					case pa.deactEnter == 0:
						fail("activate-while-previous-activation-active", "activation %d: OnActivate entered although activation %d had not been deactivated at all", e.act, pn)
					}
					// (an OnReceive of an earlier, completely deactivated activation that is still open
					// here can only be one that was entered after that activation's OnDeactivate: it is
					// reported as receive-after-deactivate, not a second time as an ordering failure)
				}
			case "act-exit":
				a.actExit = true
				a.actExitIdx = i
			case "recv-enter":
				if !a.actExit {
					fail("receive-before-activate-completed", "activation %d: OnReceive(msg %d) entered before OnActivate returned", e.act, e.msg)
				}
				if a.deactEnter > 0 {
					fail("receive-after-deactivate", "activation %d: OnReceive(msg %d) entered after OnDeactivate was entered", e.act, e.msg)
				}
				if a.openRecv > 0 {
					fail("receive-overlap", "activation %d: OnReceive(msg %d) entered while another OnReceive was open", e.act, e.msg)
				}
				a.openRecv++
				a.recvs++
			case "recv-exit":
				a.openRecv--
			case "deact-enter":
				a.deactEnter++
				if a.openRecv > 0 {
					fail("deactivate-during-receive", "activation %d: OnDeactivate entered (by the passivation manager: %v) while an OnReceive of the same activation was open", e.act, e.mgr)
				}
				if a.deactEnter > 1 {
					fail("deactivate-twice", "activation %d: OnDeactivate entered %d times", e.act, a.deactEnter)
				}
			case "deact-exit":
				a.deactEx++
			}
		}
		if out.Invalid == "" {
			for _, n := range order {
				a := acts[n]
				// an activation that completed only after a system.Stop had been fired is not judged
				if a.actExit && a.actExitIdx < stopLogLen && a.deactEnter == 0 {
					fail("deactivate-missing", "activation %d was activated but OnDeactivate never ran although the system was stopped", n)
				}
			}
		}
		// messages sent after a completed deactivation
		for _, s := range sent {
			if !s.afterDe || s.stopping {
				continue
			}
			used := map[uintptr]bool{}
			maxAct := 0
			for _, e := range log[:s.logLen] {
				used[e.inst] = true
				if e.act > maxAct {
					maxAct = e.act
				}
			}
			var recv *c31Entry
			for i := s.logLen; i < len(log); i++ {
				if log[i].kind == "recv-enter" && log[i].msg == s.id {
					recv = &log[i]
					break
				}
			}
			if recv == nil {
				if c31StopBeforeDelivery(trace, s.id) {
					continue // system.Stop raced the delivery: not judged
				}
				fail("message-after-deactivation-lost", "msg %d was sent after activation %d had completed OnDeactivate, TellGrain returned %v, and no activation ever received it", s.id, maxAct, s.client.err)
				continue
			}
			if recv.act <= maxAct || used[recv.inst] {
				fail("message-after-deactivation-not-fresh", "msg %d sent after deactivation was received by activation %d on instance %x (activations before the send: up to %d, instance used before: %v)", s.id, recv.act, recv.inst, maxAct, used[recv.inst])
			}
		}
		out.Violations = viol
		out.Obs = cfg.name + " " + c31LogString(log)
	})
	if p != nil {
		out.Invalid = fmt.Sprintf("panic in execution: %v (events %s)", p, strings.Join(trace, " "))
	}
	return out
}

// c31StopBeforeDelivery tells whether sysstop was fired after the send of message id and the execution
// therefore may legitimately end without that message being received (shutdown drops in-flight work).
func c31StopBeforeDelivery(trace []string, id int) bool {
	n := 0
	for _, e := range trace {
		if e == "send" {
			n++
			continue
		}
		if e == "sysstop" && n >= id {
			return true
		}
	}
	return false
}

func c31LogString(log []c31Entry) string {
	inst := map[uintptr]int{}
	var sb strings.Builder
	for _, e := range log {
		if _, ok := inst[e.inst]; !ok {
			inst[e.inst] = len(inst) + 1
		}
		fmt.Fprintf(&sb, "%s(a%d,i%d", e.kind, e.act, inst[e.inst])
		if strings.HasPrefix(e.kind, "recv") {
			fmt.Fprintf(&sb, ",m%d", e.msg)
		}
		sb.WriteString(") ")
	}
	return strings.TrimSpace(sb.String())
}

func TestVerifC31(t *testing.T) {
	defer vsched.Finish(t)
	r := vsched.Rep()
	r.Assumption("single non-clustered node, one non-reentrant grain identity; hooks overlap only at the gated hook of the scenario (no instruction-level interleaving inside the engine)")
	r.Assumption("the hooks ignore their context: an OnActivate held longer than the init timeout still completes")
	cfgs := []c31Cfg{
		{name: "gate-activate", gateOn: "act", sends: vsched.Pick(2, 4), pills: vsched.Pick(1, 2), advT: 1, adv2m: vsched.Pick(0, 1)},
		{name: "gate-none", gateOn: "", sends: vsched.Pick(3, 4), pills: 2, advT: 1, adv2m: 1},
		{name: "gate-receive", gateOn: "recv", sends: vsched.Pick(3, 4), pills: vsched.Pick(1, 2), advT: 1, adv2m: vsched.Pick(0, 1)},
		{name: "gate-deactivate", gateOn: "deact", sends: vsched.Pick(2, 4), pills: 2, advT: 1, adv2m: vsched.Pick(0, 1)},
	}
	var scs []vsched.Scenario
	for _, cfg := range cfgs {
		scs = append(scs, vsched.Scenario{
			Cfg: vsched.Config{Scenario: "c31-" + cfg.name, Bound: 0, SplitDepth: 3,
				Params: map[string]any{"gated_hook": cfg.gateOn, "sends": cfg.sends, "pills": cfg.pills, "advT": cfg.advT, "adv2m": cfg.adv2m}},
			Run: func(c *vsched.Chooser) vsched.Outcome { return c31Run(t, cfg, c) },
		})
	}
	// Not ExploreAll: its equal per-scenario share of the wall budget starves the first scenario when
	// the shard processes start on a busy machine; the scenarios here are small compared with the budget,
	// so they simply run one after the other against the global budget (cheap ones first).
	for _, sc := range scs {
		vsched.Explore(sc.Cfg, sc.Run)
	}
}
