//go:build verif

package eventstream

import (
	"fmt"
	"sort"
	"strings"
	"sync"
	"testing"

	"github.com/tochemey/goakt/v4/internal/verif/vsched"
	"github.com/tochemey/goakt/v4/internal/verif/vsync"
)

// C20 (b) — the event stream: publishers, a subscribe/unsubscribe/remove thread and one or two
// threads draining the same subscriber through Iterator(), interleaved at every shimmed
// sync/atomic/pool operation of packages eventstream and internal/queue.
//
// Oracle (the statement, read conservatively): an event whose Publish call began after Subscribe
// returned and ended before Unsubscribe/RemoveSubscriber/Shutdown began must be delivered exactly
// once (over all drains including a final sequential one); no event is delivered twice; an event
// whose Publish began after Unsubscribe (or RemoveSubscriber) returned is never delivered; within
// one Iterator() result the events of one publisher appear in publish order, and across two drains
// that did not overlap in time the order is kept as well.

type c20sEv struct {
	pub, seq int
}

type c20sIval struct{ call, ret int }

type c20sScenario struct {
	name     string
	pubs     [][]int // per publisher: sequence numbers
	drainers int
	drains   int    // Iterator() calls per drainer
	ctl      string // "", "unsub", "remove", "late-sub"
	bound    int
}

func c20sRun(t *testing.T, sc c20sScenario, c *vsched.Chooser) (out vsched.Outcome) {
	vsync.ResetPools()
	p := vsched.Bubble(t, func() {
		es := New()
		sub := es.AddSubscriber()
		var mu sync.Mutex
		clock := 0
		tick := func() int { mu.Lock(); defer mu.Unlock(); clock++; return clock }
		subscribed := c20sIval{0, 0}
		if sc.ctl != "late-sub" {
			es.Subscribe(sub, "t")
		}
		unsub := c20sIval{1 << 30, 1 << 30}
		pubIv := map[c20sEv]c20sIval{}
		type drainRes struct {
			iv  c20sIval
			evs []c20sEv
			who string
		}
		var drainsDone []drainRes
		s := vsched.New(c)
		for pi, seqs := range sc.pubs {
			pi, seqs := pi, seqs
			s.Go(fmt.Sprintf("pub%d", pi), func() {
				for _, q := range seqs {
					ev := c20sEv{pi, q}
					call := tick()
					es.Publish("t", ev)
					ret := tick()
					mu.Lock()
					pubIv[ev] = c20sIval{call, ret}
					mu.Unlock()
				}
			})
		}
		drain := func(who string) {
			call := tick()
			var evs []c20sEv
			for m := range sub.Iterator() {
				evs = append(evs, m.Payload().(c20sEv))
			}
			ret := tick()
			mu.Lock()
			drainsDone = append(drainsDone, drainRes{c20sIval{call, ret}, evs, who})
			mu.Unlock()
		}
		for di := 0; di < sc.drainers; di++ {
			who := fmt.Sprintf("dr%d", di)
			s.Go(who, func() {
				for k := 0; k < sc.drains; k++ {
					drain(who)
				}
			})
		}
		switch sc.ctl {
		case "unsub":
			s.Go("ctl", func() {
				call := tick()
				es.Unsubscribe(sub, "t")
				ret := tick()
				mu.Lock()
				unsub = c20sIval{call, ret}
				mu.Unlock()
			})
		case "remove":
			s.Go("ctl", func() {
				call := tick()
				es.RemoveSubscriber(sub)
				ret := tick()
				mu.Lock()
				unsub = c20sIval{call, ret}
				mu.Unlock()
			})
		case "late-sub":
			s.Go("ctl", func() {
				call := tick()
				es.Subscribe(sub, "t")
				ret := tick()
				mu.Lock()
				subscribed = c20sIval{call, ret}
				mu.Unlock()
			})
			subscribed = c20sIval{1 << 30, 1 << 30}
		}
		s.Start()
		s.Run()
		s.Stop()
		var v []vsched.Violation
		if s.Wedged != "" {
			out.Invalid = "wedged: " + s.Wedged
			return
		}
		if s.Deadlock || s.Livelock {
			v = append(v, vsched.Fail("stream-deadlock-or-livelock", "blocked: %v", s.Blocked))
		}
		for _, tp := range s.ThreadPanics {
			v = append(v, vsched.Fail("stream-panic-in-thread", "%s", tp))
		}
		drain("final")
		drain("final2")
		got := map[c20sEv]int{}
		for _, d := range drainsDone {
			last := map[int]int{}
			for _, e := range d.evs {
				got[e]++
				if prev, ok := last[e.pub]; ok && e.seq < prev {
					v = append(v, vsched.Fail("stream-order-within-drain", "drain %s [%d,%d] delivered pub%d#%d after #%d: %v", d.who, d.iv.call, d.iv.ret, e.pub, e.seq, prev, d.evs))
				}
				last[e.pub] = e.seq
			}
		}
		// order across non-overlapping drains
		for i, a := range drainsDone {
			for j, b := range drainsDone {
				if i == j || a.iv.ret >= b.iv.call {
					continue
				}
				for _, ea := range a.evs {
					for _, eb := range b.evs {
						if ea.pub == eb.pub && eb.seq < ea.seq {
							v = append(v, vsched.Fail("stream-order-across-drains", "drain %s [%d,%d] got pub%d#%d, later drain %s [%d,%d] got the earlier #%d", a.who, a.iv.call, a.iv.ret, ea.pub, ea.seq, b.who, b.iv.call, b.iv.ret, eb.seq))
						}
					}
				}
			}
		}
		describe := func() string {
			var b strings.Builder
			fmt.Fprintf(&b, "subscribed=%v unsub=%v\n", subscribed, unsub)
			keys := make([]c20sEv, 0, len(pubIv))
			for e := range pubIv {
				keys = append(keys, e)
			}
			sort.Slice(keys, func(i, j int) bool { return pubIv[keys[i]].call < pubIv[keys[j]].call })
			for _, e := range keys {
				fmt.Fprintf(&b, "  publish pub%d#%d [%d,%d] delivered %d times\n", e.pub, e.seq, pubIv[e].call, pubIv[e].ret, got[e])
			}
			for _, d := range drainsDone {
				fmt.Fprintf(&b, "  drain %s [%d,%d] -> %v\n", d.who, d.iv.call, d.iv.ret, d.evs)
			}
			return b.String()
		}
		for e, iv := range pubIv {
			n := got[e]
			if n > 1 {
				v = append(v, vsched.Fail("stream-event-delivered-twice", "pub%d#%d delivered %d times\n%s", e.pub, e.seq, n, describe()))
			}
			must := iv.call > subscribed.ret && iv.ret < unsub.call
			never := iv.call > unsub.ret || iv.ret < subscribed.call
			if must && n == 0 {
				v = append(v, vsched.Fail("stream-event-lost", "pub%d#%d was published while the subscriber was subscribed and active but never delivered\n%s", e.pub, e.seq, describe()))
			}
			if never && n > 0 {
				v = append(v, vsched.Fail("stream-event-delivered-to-unsubscribed", "pub%d#%d was published entirely outside the subscription yet delivered\n%s", e.pub, e.seq, describe()))
			}
		}
		for e := range got {
			if _, ok := pubIv[e]; !ok {
				v = append(v, vsched.Fail("stream-phantom-event", "delivered %v was never published", e))
			}
		}
		out.Violations = v
		var b strings.Builder
		for _, d := range drainsDone {
			fmt.Fprintf(&b, "%s:%v;", d.who, d.evs)
		}
		out.Obs = b.String()
	})
	if p != nil {
		out.Violations = append(out.Violations, vsched.Fail("stream-panic", "panic in execution: %v", p))
	}
	return out
}

// c20s2Run — two subscribers: subscriber A leaves the topic (Unsubscribe or RemoveSubscriber) while
// subscriber B joins it, interleaved at every shimmed operation; afterwards (sequentially) one event
// is published. B subscribed before the publish began and stayed active: it must receive the event
// exactly once; A's unsubscribe completed before the publish began: it must not; the topic has
// exactly one subscriber. Only one subscriber is on the topic when the event is published, so map
// iteration order cannot influence the outcome.
func c20s2Run(t *testing.T, remove bool, c *vsched.Chooser) (out vsched.Outcome) {
	vsync.ResetPools()
	p := vsched.Bubble(t, func() {
		es := New()
		a := es.AddSubscriber()
		b := es.AddSubscriber()
		es.Subscribe(a, "t")
		s := vsched.New(c)
		s.Go("leave", func() {
			if remove {
				es.RemoveSubscriber(a)
			} else {
				es.Unsubscribe(a, "t")
			}
		})
		s.Go("join", func() { es.Subscribe(b, "t") })
		s.Start()
		s.Run()
		s.Stop()
		var v []vsched.Violation
		if s.Wedged != "" {
			out.Invalid = "wedged: " + s.Wedged
			return
		}
		if s.Deadlock || s.Livelock {
			v = append(v, vsched.Fail("stream-deadlock-or-livelock", "blocked: %v", s.Blocked))
		}
		for _, tp := range s.ThreadPanics {
			v = append(v, vsched.Fail("stream-panic-in-thread", "%s", tp))
		}
		es.Publish("t", "e1")
		drain := func(sub Subscriber) []any {
			var got []any
			for m := range sub.Iterator() {
				got = append(got, m.Payload())
			}
			return got
		}
		gb, ga := drain(b), drain(a)
		if len(gb) != 1 {
			v = append(v, vsched.Fail("stream-event-lost-for-subscriber-that-joined-while-another-left", "B subscribed to the topic before the publish began and is active, but received %v (want [e1]); SubscribersCount=%d, B.Topics=%v", gb, es.SubscribersCount("t"), b.Topics()))
		}
		if len(ga) != 0 {
			v = append(v, vsched.Fail("stream-event-delivered-to-unsubscribed", "A left the topic before the publish began but received %v", ga))
		}
		if n := es.SubscribersCount("t"); n != 1 {
			v = append(v, vsched.Fail("stream-subscribers-count-wrong-after-concurrent-join-and-leave", "SubscribersCount(t)=%d after A left and B joined (want 1)", n))
		}
		out.Violations = v
		out.Obs = fmt.Sprintf("b=%v a=%v n=%d", gb, ga, es.SubscribersCount("t"))
	})
	if p != nil {
		out.Violations = append(out.Violations, vsched.Fail("stream-panic", "panic in execution: %v", p))
	}
	return out
}

func TestVerifC20Stream(t *testing.T) {
	defer vsched.Finish(t)
	vsched.Rep().Assumption("eventstream + internal/queue: sequentially consistent interleavings at shimmed sync/atomic/pool operations; one subscriber per topic under exploration (map iteration order over several subscribers is not owned)")
	pb := vsched.Pick(2, 3)
	scs := []c20sScenario{
		{name: "stream/2pub-2drainers", pubs: [][]int{{1, 2}, {1}}, drainers: 2, drains: 1, bound: pb},
		{name: "stream/2pub-1drainer-unsub", pubs: [][]int{{1, 2}, {1}}, drainers: 1, drains: 2, ctl: "unsub", bound: pb},
		{name: "stream/1pub-2drainers-remove", pubs: [][]int{{1, 2, 3}}, drainers: 2, drains: 1, ctl: "remove", bound: pb},
		{name: "stream/2pub-late-subscribe", pubs: [][]int{{1, 2}, {1}}, drainers: 1, drains: 1, ctl: "late-sub", bound: pb},
	}
	var all []vsched.Scenario
	for _, sc := range scs {
		sc := sc
		all = append(all, vsched.Scenario{
			Cfg: vsched.Config{Scenario: sc.name, Bound: sc.bound, Params: map[string]any{"pubs": sc.pubs, "drainers": sc.drainers, "drains": sc.drains, "ctl": sc.ctl}},
			Run: func(c *vsched.Chooser) vsched.Outcome { return c20sRun(t, sc, c) },
		})
	}
	for _, remove := range []bool{false, true} {
		remove := remove
		name := "stream/join-while-other-unsubscribes"
		if remove {
			name = "stream/join-while-other-is-removed"
		}
		all = append(all, vsched.Scenario{
			Cfg: vsched.Config{Scenario: name, Bound: vsched.Pick(3, 4), Params: map[string]any{"subscribers": 2, "leave": map[bool]string{false: "Unsubscribe", true: "RemoveSubscriber"}[remove]}},
			Run: func(c *vsched.Chooser) vsched.Outcome { return c20s2Run(t, remove, c) },
		})
	}
	vsched.ExploreAll(all)
}
