//go:build verif

package eventstream

import (
	"fmt"
	"sort"
	"strings"
	"testing"

	"github.com/tochemey/goakt/v4/internal/verif/vsched"
)

// C20 (c) — sequential operation sequences on the event stream with two subscribers and two topics,
// against a reference model (explicit-state BFS, state = history). Covers what the interleaving
// scenarios do not: multi-step subscribe/unsubscribe/remove histories, repeated (idempotent)
// unsubscribes and a second subscriber on the same topic.
//
// Model: per subscriber a set of topics, an active flag and a FIFO of undelivered events; Publish
// appends to every active subscriber subscribed to the topic; Unsubscribe removes (only) that
// subscriber's subscription; RemoveSubscriber unsubscribes everything and deactivates; Drain returns
// and clears the FIFO (events already queued stay deliverable after an unsubscribe: they were
// published while the subscriber was subscribed).

type c20qOp struct {
	kind  string // sub unsub remove pub drain
	s     int
	topic string
	ev    int
}

func (o c20qOp) String() string {
	switch o.kind {
	case "pub":
		return fmt.Sprintf("publish(%s,e%d)", o.topic, o.ev)
	case "drain":
		return fmt.Sprintf("drain(s%d)", o.s)
	case "remove":
		return fmt.Sprintf("remove(s%d)", o.s)
	default:
		return fmt.Sprintf("%s(s%d,%s)", o.kind, o.s, o.topic)
	}
}

type c20qModelSub struct {
	topics map[string]bool
	active bool
	queue  []string
}

func TestVerifC20Seq(t *testing.T) {
	defer vsched.Finish(t)
	topics := []string{"t", "u"}
	var alphabet []c20qOp
	for s := 0; s < 2; s++ {
		for _, tp := range topics {
			alphabet = append(alphabet, c20qOp{kind: "sub", s: s, topic: tp}, c20qOp{kind: "unsub", s: s, topic: tp})
		}
		alphabet = append(alphabet, c20qOp{kind: "remove", s: s}, c20qOp{kind: "drain", s: s})
	}
	for _, tp := range topics {
		alphabet = append(alphabet, c20qOp{kind: "pub", topic: tp})
	}
	exec := func(hist []c20qOp) vsched.StepResult {
		es := New()
		subs := []Subscriber{es.AddSubscriber(), es.AddSubscriber()}
		model := []*c20qModelSub{{topics: map[string]bool{}, active: true}, {topics: map[string]bool{}, active: true}}
		var v []vsched.Violation
		obs := ""
		drain := func(i int) []string {
			var got []string
			for m := range subs[i].Iterator() {
				got = append(got, fmt.Sprintf("%s:%v", m.Topic(), m.Payload()))
			}
			return got
		}
		for n, o := range hist {
			switch o.kind {
			case "sub":
				es.Subscribe(subs[o.s], o.topic)
				if model[o.s].active {
					model[o.s].topics[o.topic] = true
				}
			case "unsub":
				es.Unsubscribe(subs[o.s], o.topic)
				delete(model[o.s].topics, o.topic)
			case "remove":
				es.RemoveSubscriber(subs[o.s])
				model[o.s].topics = map[string]bool{}
				model[o.s].active = false
			case "pub":
				es.Publish(o.topic, n)
				for _, m := range model {
					if m.active && m.topics[o.topic] {
						m.queue = append(m.queue, fmt.Sprintf("%s:%v", o.topic, n))
					}
				}
			case "drain":
				got := drain(o.s)
				want := model[o.s].queue
				model[o.s].queue = nil
				obs = fmt.Sprintf("drain(s%d)=%v", o.s, got)
				if fmt.Sprint(got) != fmt.Sprint(want) {
					v = append(v, vsched.Fail(c20qClassify(got, want), "after %v: drain(s%d) returned %v, model expects %v", hist[:n+1], o.s, got, want))
				}
			}
			for _, tp := range topics {
				want := 0
				for _, m := range model {
					if m.active && m.topics[tp] {
						want++
					}
				}
				if got := es.SubscribersCount(tp); got != want {
					v = append(v, vsched.Fail("seq-subscribers-count-differs-from-model", "after %v: SubscribersCount(%s)=%d, model %d", hist[:n+1], tp, got, want))
				}
			}
		}
		// closing drains decide delivery of everything still queued
		for i := range subs {
			got := drain(i)
			if fmt.Sprint(got) != fmt.Sprint(model[i].queue) {
				v = append(v, vsched.Fail(c20qClassify(got, model[i].queue), "after %v: final drain(s%d) returned %v, model expects %v", hist, i, got, model[i].queue))
			}
		}
		// canonical state: the model state (the implementation agreed with it on every step, and a
		// disagreement is reported, so merging on the model state is sound)
		var parts []string
		for i, m := range model {
			var ts []string
			for tp := range m.topics {
				ts = append(ts, tp)
			}
			sort.Strings(ts)
			// queue contents matter only by topic sequence: event payloads are history positions
			var q []string
			for _, e := range m.queue {
				q = append(q, strings.SplitN(e, ":", 2)[0])
			}
			parts = append(parts, fmt.Sprintf("s%d:%v:%v:%v", i, m.active, ts, q))
		}
		return vsched.StepResult{Canon: strings.Join(parts, "|"), Obs: obs + "|" + strings.Join(parts, "|"), Violations: v}
	}
	vsched.BFS(vsched.BFSConfig{Scenario: "stream-seq/2subs-2topics", Depth: vsched.Pick(5, 7), ShardFirstOp: true,
		Params: map[string]any{"subscribers": 2, "topics": topics, "ops": len(alphabet)}},
		func([]c20qOp) []c20qOp { return alphabet }, exec, func(o c20qOp) string { return o.String() })
}

func c20qClassify(got, want []string) string {
	if len(got) < len(want) {
		return "seq-event-lost"
	}
	if len(got) > len(want) {
		return "seq-event-delivered-to-unsubscribed-or-twice"
	}
	return "seq-event-order-or-content-differs"
}
