//go:build verif

package client

import (
	"fmt"
	"math"
	"strings"
	"testing"

	"github.com/tochemey/goakt/v4/internal/verif/vsched"
)

// C22 — the cluster client's balancers always pick a configured node; round-robin is cyclic.
//
// The only state of RoundRobin besides the node list is the uint32 counter `next`; pre-setting it
// (in-package) to c is therefore equivalent to c prior calls. Scenario "rr-counter" enumerates every
// list size x every counter start around 0, 2^31 and the 2^32 wrap x an optional re-Set to a smaller
// list, and walks far enough to cross the boundary. Scenario "rr-full-walk" (thorough) performs all
// 2^32+8 calls from a fresh balancer. "random" and "least-load" enumerate sizes / weight assignments.

func c22Nodes(n int) []*Node {
	out := make([]*Node, n)
	for i := range out {
		out[i] = NewNode(fmt.Sprintf("10.0.0.%d:4000", i+1))
	}
	return out
}

func c22Index(nodes []*Node, x *Node) int {
	for i, n := range nodes {
		if n == x {
			return i
		}
	}
	return -1
}

// c22Next calls the real Next and converts a panic into a value.
func c22Next(b Balancer) (n *Node, panicked any) {
	defer func() {
		if p := recover(); p != nil {
			panicked = p
		}
	}()
	return b.Next(), nil
}

func TestVerifC22(t *testing.T) {
	defer vsched.Finish(t)
	r := vsched.Rep()
	r.Assumption("an empty node list is outside the property (there is no configured node to return); list sizes start at 1")
	r.Assumption("Random: math/rand/v2's global generator cannot be controlled without editing the repository; its answers are observed, not enumerated: every call's result is checked for membership and each list size n gets a fixed 96*n calls, after which the harness records whether every index 0..n-1 was observed; IntN's contract 0 <= v < n is trusted")
	c22RoundRobin(r)
	c22RoundRobinFullWalk(r)
	c22Random(r)
	c22LeastLoad(r)
}

func c22CounterStarts(n int) []uint32 {
	var out []uint32
	w := uint32(n + 2)
	for c := uint32(0); c <= w; c++ {
		out = append(out, c)
	}
	for d := -int64(w); d <= int64(w); d++ {
		out = append(out, uint32(int64(1)<<31+d))
	}
	for d := int64(w); d >= 1; d-- {
		out = append(out, uint32(int64(1)<<32-d))
	}
	return out
}

func c22RoundRobin(r *vsched.Report) {
	maxN := vsched.Pick(8, 16)
	e := vsched.NewEnum("rr-counter", map[string]any{"sizes": fmt.Sprintf("1..%d", maxN),
		"counter_starts": "0..n+2, 2^31-(n+2)..2^31+(n+2), 2^32-(n+2)..2^32-1", "calls_per_case": "2n+6 (+2n+6 after an optional re-Set to a shorter list)"})
	for n := 1; n <= maxN; n++ {
		for _, start := range c22CounterStarts(n) {
			shrinks := []int{0} // 0 = the list is not re-Set
			if n > 1 {
				shrinks = append(shrinks, 1)
			}
			if n-1 > 1 {
				shrinks = append(shrinks, n-1)
			}
			for _, shrink := range shrinks {
				if !e.Mine() {
					continue
				}
				input := fmt.Sprintf("nodes=%d next=%d reset_to=%d", n, start, shrink)
				nodes := c22Nodes(n)
				b := NewRoundRobin()
				b.Set(nodes...)
				b.next = start
				var obs strings.Builder
				c22Walk(e, input, b, nodes, 2*n+6, &obs)
				calls := 2*n + 6
				if shrink > 0 {
					sub := nodes[:shrink]
					b.Set(sub...)
					obs.WriteString("|")
					c22Walk(e, input+" (after re-Set)", b, sub, 2*shrink+6, &obs)
					calls += 2*shrink + 6
				}
				// non-trivial (by input): more than one node and start + number of calls reaches 2^32,
				// i.e. the prior-call count crosses the uint32 range during the walk
				e.Case(input, obs.String(), calls, n > 1 && uint64(start)+uint64(calls) >= 1<<32)
			}
		}
	}
	e.Done()
}

// c22Walk performs `calls` Next() calls and applies the oracle to each.
func c22Walk(e *vsched.Enum, input string, b *RoundRobin, nodes []*Node, calls int, obs *strings.Builder) {
	prev := -1
	wrapAt := -10
	for i := 0; i < calls; i++ {
		before := b.next
		got, p := c22Next(b)
		wrapStep := before == math.MaxUint32 // this call takes an ever-increasing counter from 2^32-1 to 0
		if wrapStep {
			wrapAt = i
		}
		if p != nil {
			msg := fmt.Sprint(p)
			if wrapStep && strings.Contains(msg, "index out of range [-1]") {
				e.Fail("rr-counter-wrap-index-minus-one", input, "%s: call %d (counter %d -> 0) panicked: %s", input, i+1, before, msg)
			} else {
				e.Fail("rr-next-panics", input, "%s: call %d (counter before=%d) panicked: %s", input, i+1, before, msg)
			}
			obs.WriteString("P,")
			prev = -1 // no node was returned: the order check restarts at the next call
			continue
		}
		idx := c22Index(nodes, got)
		if idx < 0 {
			e.Fail("rr-returns-unconfigured-node", input, "%s: call %d returned %v", input, i+1, got)
			obs.WriteString("?,")
			prev = -1
			continue
		}
		if prev >= 0 && idx != (prev+1)%len(nodes) {
			if i-wrapAt <= 1 { // this call or the previous one took the counter across 2^32
				e.Fail("rr-cyclic-order-breaks-at-counter-wrap", input, "%s: call %d (counter before=%d) returned node %d after node %d (of %d)", input, i+1, before, idx, prev, len(nodes))
			} else {
				e.Fail("rr-not-cyclic", input, "%s: call %d (counter before=%d) returned node %d after node %d (of %d)", input, i+1, before, idx, prev, len(nodes))
			}
		}
		prev = idx
		fmt.Fprintf(obs, "%d,", idx)
	}
}

// c22RoundRobinFullWalk: thorough only — a fresh balancer is called 2^32+8 times (no state injection).
func c22RoundRobinFullWalk(r *vsched.Report) {
	if !r.Thorough() {
		return
	}
	e := vsched.NewEnum("rr-full-walk", map[string]any{"sizes": "1,2,3,5,7", "calls": "2^32+8 each, from a fresh balancer"})
	for _, n := range []int{1, 2, 3, 5, 7} {
		if !e.Mine() {
			continue
		}
		input := fmt.Sprintf("nodes=%d calls=2^32+8", n)
		nodes := c22Nodes(n)
		b := NewRoundRobin()
		b.Set(nodes...)
		total := uint64(1)<<32 + 8
		prev := -1
		var panics, done uint64
		complete := true
		for done < total {
			if done&(1<<24-1) == 0 && !r.TimeLeft() {
				complete = false
				break
			}
			before := b.next
			got, p := c22Next(b)
			done++
			if p != nil {
				panics++
				msg := fmt.Sprint(p)
				if before == math.MaxUint32 && strings.Contains(msg, "index out of range [-1]") {
					e.Fail("rr-counter-wrap-index-minus-one", input, "%s: call %d (counter %d -> 0) panicked: %s", input, done, before, msg)
				} else {
					e.Fail("rr-next-panics", input, "%s: call %d panicked: %s", input, done, msg)
				}
				prev = -1
				continue
			}
			exp := 0
			if prev >= 0 {
				exp = (prev + 1) % n
			}
			if prev >= 0 && got != nodes[exp] {
				idx := c22Index(nodes, got)
				switch {
				case idx < 0:
					e.Fail("rr-returns-unconfigured-node", input, "%s: call %d", input, done)
				case before == math.MaxUint32 || before == 0:
					e.Fail("rr-cyclic-order-breaks-at-counter-wrap", input, "%s: call %d returned node %d after node %d", input, done, idx, prev)
				default:
					e.Fail("rr-not-cyclic", input, "%s: call %d returned node %d after node %d", input, done, idx, prev)
				}
				prev = idx
				continue
			}
			if prev < 0 {
				prev = c22Index(nodes, got)
				if prev < 0 {
					e.Fail("rr-returns-unconfigured-node", input, "%s: call %d", input, done)
				}
				continue
			}
			prev = exp
		}
		if !complete {
			e.St.Capped = fmt.Sprintf("wall budget reached after %d calls of the full walk (nodes=%d)", done, n)
		}
		e.Case(input, fmt.Sprintf("n=%d done=%d panics=%d last=%d", n, done, panics, prev), int(done>>10), n > 1 && complete)
	}
	e.Done()
}

func c22Random(r *vsched.Report) {
	maxN := vsched.Pick(6, 12)
	const callsPerNode = 96
	e := vsched.NewEnum("random", map[string]any{"sizes": fmt.Sprintf("1..%d", maxN), "calls": "96*n per size (fixed)", "rand": "observed, not controlled"})
	for n := 1; n <= maxN; n++ {
		if !e.Mine() {
			continue
		}
		input := fmt.Sprintf("nodes=%d", n)
		nodes := c22Nodes(n)
		b := NewRandom()
		b.Set(nodes...)
		seen := make([]bool, n)
		for i := 0; i < callsPerNode*n; i++ {
			got, p := c22Next(b)
			if p != nil {
				e.Fail("random-next-panics", input, "%s: call %d panicked: %v", input, i+1, p)
				continue
			}
			idx := c22Index(nodes, got)
			if idx < 0 {
				e.Fail("random-returns-unconfigured-node", input, "%s: call %d returned %v", input, i+1, got)
				continue
			}
			seen[idx] = true
		}
		all := true
		for _, s := range seen {
			all = all && s
		}
		if !all {
			// not a verdict about goakt: the environment did not produce every answer (probability < 1e-40)
			r.Note("random: nodes=%d: not every index was produced by math/rand/v2 within %d calls; coverage of this size is partial", n, callsPerNode*n)
		}
		e.Case(input, fmt.Sprintf("n=%d every-result-configured every-index-observed=%v", n, all), callsPerNode*n, n > 1)
	}
	e.Done()
}

func c22LeastLoad(r *vsched.Report) {
	maxN := vsched.Pick(4, 5)
	weights := []float64{0, 1, 2}
	if r.Thorough() {
		weights = []float64{0, 1, 2, -1, math.Inf(1), math.NaN()}
	}
	const calls = 4
	e := vsched.NewEnum("least-load", map[string]any{"sizes": fmt.Sprintf("1..%d", maxN), "weights": fmt.Sprint(weights),
		"calls": "4 consecutive Next() per assignment; the returned node's weight is raised by 1.5 after each call (load feedback), which reorders the list"})
	for n := 1; n <= maxN; n++ {
		idx := make([]int, n)
		for {
			if e.Mine() {
				var in strings.Builder
				fmt.Fprintf(&in, "nodes=%d weights=", n)
				nodes := c22Nodes(n)
				for i, w := range idx {
					nodes[i].SetWeight(weights[w])
					fmt.Fprintf(&in, "%v,", weights[w])
				}
				input := in.String()
				orig := append([]*Node(nil), nodes...) // Next() sorts the slice it was given in place
				b := NewLeastLoad()
				b.Set(nodes...)
				var obs strings.Builder
				for c := 0; c < calls; c++ {
					got, p := c22Next(b)
					if p != nil {
						e.Fail("least-load-next-panics", input, "%s: call %d panicked: %v", input, c+1, p)
						obs.WriteString("P,")
						continue
					}
					k := c22Index(orig, got)
					if k < 0 {
						e.Fail("least-load-returns-unconfigured-node", input, "%s: call %d returned %v", input, c+1, got)
						obs.WriteString("?,")
						continue
					}
					fmt.Fprintf(&obs, "%d,", k)
					got.SetWeight(got.getWeight() + 1.5)
				}
				// non-trivial: at least two nodes with at least two different weights
				diff := false
				for _, w := range idx {
					diff = diff || w != idx[0]
				}
				e.Case(input, obs.String(), calls, n > 1 && diff)
			}
			k := n - 1
			for k >= 0 {
				idx[k]++
				if idx[k] < len(weights) {
					break
				}
				idx[k] = 0
				k--
			}
			if k < 0 {
				break
			}
		}
	}
	e.Done()
}
