//go:build verif

package xsync

// C48 — the TTL map behaves like a map with per-key expiry.
//
// vsched.BFS over every history of {Set(k,v), Get(k), Delete(k), Reset, ActiveLen, advance δ} with
// k ∈ {a,b,c}, v ∈ {1,2}, δ ∈ {1, ttl-1, ttl} (ttl = 4 ticks of the fake clock installed through the
// map's own `now` field). Every history is replayed on a fresh real TTLMap next to the reference
// model: a plain map key -> (value, time of the last Set), removed by Delete/Reset; Get(k) is present
// iff an entry exists and now - setTime < ttl ("less than the TTL ago"), and then returns that value.
// Oracle: every Get that is an operation of the history, plus — after the last operation, on the
// instance that is then discarded — a Get of all three keys (so each reached state is fully observed
// without the lazy deletes of those Gets influencing the successors, which replay the history
// without them). ActiveLen is in the alphabet only because it mutates the index lazily; the
// statement says nothing about its result, which is not compared.
// Private invariants after every operation: 0 <= head <= len(order); every index entry k -> i has
// head <= i < len(order) and order[i].key == k.

import (
	"fmt"
	"sort"
	"strings"
	"testing"

	"github.com/tochemey/goakt/v4/internal/verif/vsched"
)

const c48TTL = 4

var c48Keys = []string{"a", "b", "c"}

type c48Op struct {
	kind int // 0 set, 1 get, 2 delete, 3 reset, 4 activeLen, 5 advance
	k    string
	v    int
	d    int64
}

func (o c48Op) String() string {
	switch o.kind {
	case 0:
		return fmt.Sprintf("Set(%s,%d)", o.k, o.v)
	case 1:
		return fmt.Sprintf("Get(%s)", o.k)
	case 2:
		return fmt.Sprintf("Delete(%s)", o.k)
	case 3:
		return "Reset"
	case 4:
		return "ActiveLen"
	default:
		return fmt.Sprintf("advance(%d)", o.d)
	}
}

func c48Alphabet() []c48Op {
	var ops []c48Op
	for _, k := range c48Keys {
		for _, v := range []int{1, 2} {
			ops = append(ops, c48Op{kind: 0, k: k, v: v})
		}
	}
	for _, k := range c48Keys {
		ops = append(ops, c48Op{kind: 1, k: k})
	}
	for _, k := range c48Keys {
		ops = append(ops, c48Op{kind: 2, k: k})
	}
	ops = append(ops, c48Op{kind: 3}, c48Op{kind: 4})
	for _, d := range []int64{1, c48TTL - 1, c48TTL} {
		ops = append(ops, c48Op{kind: 5, d: d})
	}
	return ops
}

type c48Ent struct {
	v int
	t int64
}

type c48Model map[string]c48Ent

func (m c48Model) get(k string, now int64) (int, bool, string) {
	e, ok := m[k]
	if !ok {
		return 0, false, "absent"
	}
	if now-e.t < c48TTL {
		return e.v, true, "live"
	}
	return 0, false, "expired"
}

// c48CheckGet compares one real Get with the model; signatures are structural.
func c48CheckGet(tm *TTLMap[string, int], m c48Model, k string, now int64, when string) (string, []vsched.Violation) {
	gv, gok := tm.Get(k)
	wv, wok, why := m.get(k, now)
	var v []vsched.Violation
	switch {
	case gok && !wok && why == "expired":
		v = append(v, vsched.Fail("get-returns-expired-entry", "%s Get(%s) = (%d,true) but the last Set is %d >= ttl=%d ticks old", when, k, gv, now-m[k].t, c48TTL))
	case gok && !wok:
		v = append(v, vsched.Fail("get-returns-removed-entry", "%s Get(%s) = (%d,true) but the key was never set or removed by Delete/Reset", when, k, gv))
	case !gok && wok:
		v = append(v, vsched.Fail("get-misses-live-entry", "%s Get(%s) = (_,false) but Set(%s,%d) happened %d < ttl=%d ticks ago and no Delete/Reset intervened", when, k, k, wv, now-m[k].t, c48TTL))
	case gok && wok && gv != wv:
		v = append(v, vsched.Fail("get-returns-wrong-value", "%s Get(%s) = %d, last Set stored %d", when, k, gv, wv))
	case !gok && gv != 0:
		v = append(v, vsched.Fail("get-absent-with-nonzero-value", "%s Get(%s) = (%d,false)", when, k, gv))
	}
	return fmt.Sprintf("%s=%d/%v", k, gv, gok), v
}

func c48Invariants(tm *TTLMap[string, int]) []vsched.Violation {
	var v []vsched.Violation
	if tm.head < 0 || tm.head > len(tm.order) {
		v = append(v, vsched.Fail("head-out-of-range", "head=%d len(order)=%d", tm.head, len(tm.order)))
		return v
	}
	keys := make([]string, 0, len(tm.items))
	for k := range tm.items {
		keys = append(keys, k)
	}
	sort.Strings(keys)
	for _, k := range keys {
		i := tm.items[k]
		switch {
		case i < 0 || i >= len(tm.order):
			v = append(v, vsched.Fail("index-points-outside-order", "items[%s]=%d len(order)=%d", k, i, len(tm.order)))
		case i < tm.head:
			v = append(v, vsched.Fail("index-points-below-head", "items[%s]=%d head=%d", k, i, tm.head))
		case tm.order[i].key != k:
			v = append(v, vsched.Fail("index-points-to-slot-of-other-key", "items[%s]=%d but order[%d].key=%s", k, i, i, tm.order[i].key))
		}
	}
	return v
}

// c48Canon: everything that can influence the map's future, relative to now. Argument: the code
// reads expireAt only in `now < expireAt` with a clock that never goes back, so all expired
// deadlines are equivalent (dumped as 0) and a live one matters through expireAt-now; slots below
// head are never read again (evict and both compaction paths start at head; Reset clears); the
// value of a slot is observable only through a Get that finds it mapped and live (Set overwrites
// it, expiry hides it), so it is dumped only then; cap(order) and the backing array are not
// observable. The model part (live entries with remaining life) is included so that merged states
// also agree on every future oracle verdict.
func c48Canon(tm *TTLMap[string, int], m c48Model, now int64) string {
	var b strings.Builder
	fmt.Fprintf(&b, "h%d n%d|", tm.head, len(tm.order))
	for i := tm.head; i < len(tm.order) && i >= 0; i++ {
		e := tm.order[i]
		rem := e.expireAt - now
		if rem < 0 {
			rem = 0
		}
		idx, ok := tm.items[e.key]
		mapped := ok && idx == i
		if mapped && rem > 0 {
			fmt.Fprintf(&b, "%s=%d+%d ", e.key, e.value, rem)
		} else if mapped {
			fmt.Fprintf(&b, "%s=x ", e.key)
		} else {
			fmt.Fprintf(&b, "(%s)+%d ", e.key, rem)
		}
	}
	b.WriteString("|")
	keys := make([]string, 0, len(tm.items))
	for k := range tm.items {
		keys = append(keys, k)
	}
	sort.Strings(keys)
	for _, k := range keys {
		fmt.Fprintf(&b, "%s>%d ", k, tm.items[k])
	}
	b.WriteString("|M:")
	for _, k := range c48Keys {
		if v, ok, _ := m.get(k, now); ok {
			fmt.Fprintf(&b, "%s=%d+%d ", k, v, c48TTL-(now-m[k].t))
		}
	}
	return b.String()
}

// c48Seed is a fixed preamble that reaches, in 8 operations, a state the plain search only reaches
// beyond its depth: head > 0 survives a Set (dead prefix shorter than half of a 4-slot order that
// contains a hole). The seeded scenario explores every continuation of it.
var c48Seed = []c48Op{{kind: 0, k: "a", v: 1}, {kind: 5, d: 3}, {kind: 0, k: "b", v: 1}, {kind: 0, k: "c", v: 1},
	{kind: 2, k: "c"}, {kind: 0, k: "c", v: 2}, {kind: 5, d: 1}, {kind: 0, k: "c", v: 1}}

func c48ExecSeeded(hist []c48Op) vsched.StepResult {
	return c48Exec(append(append([]c48Op{}, c48Seed...), hist...))
}

func c48Exec(hist []c48Op) (res vsched.StepResult) {
	now := int64(1000)
	tm := NewTTLMap[string, int](c48TTL)
	tm.now = func() int64 { return now }
	m := c48Model{}
	var viol []vsched.Violation
	obs := ""
	defer func() {
		if p := recover(); p != nil {
			res = vsched.StepResult{Canon: fmt.Sprintf("panic:%v", p), Obs: "panic", Dead: true,
				Violations: append(viol, vsched.Fail("panic-in-ttlmap", "%v", p))}
		}
	}()
	for i, o := range hist {
		switch o.kind {
		case 0:
			tm.Set(o.k, o.v)
			m[o.k] = c48Ent{v: o.v, t: now}
			obs = "set"
		case 1:
			var v []vsched.Violation
			obs, v = c48CheckGet(tm, m, o.k, now, fmt.Sprintf("op %d:", i+1))
			viol = append(viol, v...)
		case 2:
			tm.Delete(o.k)
			delete(m, o.k)
			obs = "del"
		case 3:
			tm.Reset()
			clear(m)
			obs = "reset"
		case 4:
			obs = fmt.Sprintf("active=%d", tm.ActiveLen())
		case 5:
			now += o.d
			obs = "adv"
		}
		viol = append(viol, c48Invariants(tm)...)
	}
	canon := c48Canon(tm, m, now)
	// full observation of the reached state on the instance that is discarded afterwards
	var all []string
	for _, k := range c48Keys {
		o, v := c48CheckGet(tm, m, k, now, "after the history:")
		all = append(all, o)
		viol = append(viol, v...)
	}
	// observation = result of the last operation + Get of every key + shape of the private state
	// (coarser than the canonical state so that the distinct-observation sets stay small)
	return vsched.StepResult{Canon: canon, Obs: fmt.Sprintf("%s [%s] h%d n%d i%d", obs, strings.Join(all, " "), tm.head, len(tm.order), len(tm.items)), Violations: viol}
}

func TestVerifC48(t *testing.T) {
	defer vsched.Finish(t)
	r := vsched.Rep()
	r.Assumption("fake clock through the map's private `now` field; the clock never goes back; ttl > 0; single goroutine (the map's mutex is not under test)")
	alpha := c48Alphabet()
	vsched.BFS(vsched.BFSConfig{Scenario: "ttlmap-3keys", Depth: vsched.Pick(8, 10), ShardFirstOp: true,
		Params: map[string]any{"keys": c48Keys, "values": []int{1, 2}, "ttl": c48TTL, "advance": []int{1, c48TTL - 1, c48TTL}, "alphabet": fmt.Sprint(alpha)}},
		func([]c48Op) []c48Op { return alpha }, c48Exec, func(o c48Op) string { return o.String() })

	{ // the seed must really produce the state it is meant to produce (otherwise the scenario is pointless)
		now := int64(1000)
		tm := NewTTLMap[string, int](c48TTL)
		tm.now = func() int64 { return now }
		for _, o := range c48Seed {
			switch o.kind {
			case 0:
				tm.Set(o.k, o.v)
			case 2:
				tm.Delete(o.k)
			case 5:
				now += o.d
			}
		}
		r.Note("seed state: head=%d len(order)=%d items=%d", tm.head, len(tm.order), len(tm.items))
	}
	var seed []string
	for _, o := range c48Seed {
		seed = append(seed, o.String())
	}
	vsched.BFS(vsched.BFSConfig{Scenario: "ttlmap-3keys-seeded", Depth: vsched.Pick(6, 8), ShardFirstOp: true,
		Params: map[string]any{"preamble": seed, "keys": c48Keys, "values": []int{1, 2}, "ttl": c48TTL, "advance": []int{1, c48TTL - 1, c48TTL}}},
		func([]c48Op) []c48Op { return alpha }, c48ExecSeeded, func(o c48Op) string { return o.String() })
}
