//go:build verif

package breaker

// C47 — the circuit breaker follows its state machine.
//
// Part 1 (vsched.BFS, sequential): every history of {call succeeding, call failing, clock advance δ,
// Metrics()} up to the depth bound is replayed on a fresh real CircuitBreaker (fake clock through
// WithClock) next to a reference model of the rolling-window failure rate and of the
// closed/open/half-open state machine.
//
// Part 2 (vsched.Explore, event orders inside a bubble): N callers whose fn blocks on a gate; every
// order of {start next caller, release caller i with success, release caller i with failure, advance
// the clock past the open timeout} is executed with a Settle() after each event; the same reference
// model (with in-flight bookkeeping) is stepped in lock-step and the number of callers inside fn is
// compared with the half-open cap after every event.
//
// What the oracle takes from the statement, and what it leaves open (soundness, guide §5.1):
//   - "windowed failure rate": a rolling window of n buckets. An outcome recorded at age
//     <= (n-1)*bucket is counted under every bucket alignment, an outcome of age >= n*bucket under
//     none; outcomes in between depend on the alignment of the bucket grid, which the statement
//     does not fix. The model therefore computes the set of next states that are possible when each
//     such "band" outcome is either counted or not; the real breaker must land in that set. When
//     the set has more than one element the model adopts the implementation's answer.
//   - the window restarts when the breaker enters half-open (needed for "closes again when probes
//     succeed": the failures that opened it must not count against the probes). Whether the probes'
//     own outcomes still count after the breaker closed again is not stated: outcomes recorded
//     before the last half-open->closed transition are treated like band outcomes (may or may not
//     be counted).
//   - "rejects every call while open until the open timeout passes": elapsed < timeout => the call
//     must be rejected (fn not invoked, ErrOpen); elapsed > timeout => it must be admitted as a
//     probe; elapsed == timeout is not decided by the statement and is accepted either way.
//   - decision rule at every recorded outcome (total = counted outcomes, fail = counted failures):
//     total < minRequests: no change; fail/total >= threshold: open; otherwise a half-open breaker
//     closes (when the outcome just recorded is a failure, staying half-open is accepted as well:
//     "closes again when probes succeed"). Exact rational arithmetic in the model.
//   - half-open: a call is admitted iff fewer than halfOpenMax probes are in flight.

import (
	"context"
	"errors"
	"fmt"
	"os"
	"sort"
	"strconv"
	"strings"
	"testing"
	"time"

	"github.com/tochemey/goakt/v4/internal/verif/vsched"
)

type c47Cfg struct {
	name        string
	num, den    int64 // threshold = num/den (exactly representable as float64)
	minReq      int
	buckets     int
	bucketDur   time.Duration
	openTimeout time.Duration
	hom         int
}

func (c c47Cfg) window() time.Duration { return time.Duration(c.buckets) * c.bucketDur }
func (c c47Cfg) threshold() float64    { return float64(c.num) / float64(c.den) }
func (c c47Cfg) params() map[string]any {
	return map[string]any{"threshold": fmt.Sprintf("%d/%d", c.num, c.den), "minRequests": c.minReq, "buckets": c.buckets,
		"bucket": c.bucketDur.String(), "openTimeout": c.openTimeout.String(), "halfOpenMax": c.hom}
}

const c47Base = int64(1_000_000_000) * int64(time.Second) // fake clock origin (unix nanos)

type c47Clock struct{ now int64 }

func (c *c47Clock) fn() time.Time { return time.Unix(0, c.now) }

func c47New(cfg c47Cfg, clk *c47Clock) *CircuitBreaker {
	return NewCircuitBreaker(
		WithFailureRate(cfg.threshold()),
		WithMinRequests(cfg.minReq),
		WithOpenTimeout(cfg.openTimeout),
		WithWindow(cfg.window(), cfg.buckets),
		WithHalfOpenMaxCalls(cfg.hom),
		WithClock(clk.fn),
	)
}

// ---------------------------------------------------------------------------------------------
// reference model
// ---------------------------------------------------------------------------------------------

type c47Ev struct {
	t        int64
	ok       bool
	preClose bool // recorded before the last half-open->closed transition
}

type c47Model struct {
	cfg      c47Cfg
	state    State
	openedAt int64
	evs      []c47Ev // outcomes recorded since the window last restarted for certain (half-open entry / start)
	probes   int     // probes in flight (calls admitted while half-open that have not returned)
}

var c47Decisions, c47Ambiguous int64 // oracle statistics (evidence note)

func c47NewModel(cfg c47Cfg) *c47Model { return &c47Model{cfg: cfg, state: Closed} }

// counts classifies the recorded outcomes at time now: must-count and may-count successes/failures.
func (m *c47Model) counts(now int64) (ms, mf, os, of int) {
	w := int64(m.cfg.window())
	must := w - int64(m.cfg.bucketDur)
	keep := m.evs[:0]
	for _, e := range m.evs {
		age := now - e.t
		if age >= w {
			continue // outside the window under every alignment; time never goes back: drop for good
		}
		keep = append(keep, e)
		opt := e.preClose || age > must
		switch {
		case !opt && e.ok:
			ms++
		case !opt && !e.ok:
			mf++
		case opt && e.ok:
			os++
		default:
			of++
		}
	}
	m.evs = keep
	return
}

// next applies the decision rule to one (total, fail) pair.
func (m *c47Model) next(from State, total, fail int) State {
	if total < m.cfg.minReq {
		return from
	}
	if int64(fail)*m.cfg.den >= m.cfg.num*int64(total) {
		return Open
	}
	if from == HalfOpen {
		return Closed
	}
	return from
}

// possible returns the set of states allowed after recording an outcome at time now.
func (m *c47Model) possible(now int64) map[State]bool {
	ms, mf, os, of := m.counts(now)
	p := map[State]bool{}
	for i := 0; i <= os; i++ {
		for j := 0; j <= of; j++ {
			p[m.next(m.state, ms+mf+i+j, mf+j)] = true
		}
	}
	return p
}

func c47States(p map[State]bool) string {
	var s []string
	for k := range p {
		s = append(s, k.String())
	}
	sort.Strings(s)
	return strings.Join(s, "|")
}

// admission verdicts
const (
	c47MustAdmit = iota
	c47MustReject
	c47Either
)

// admit computes what the statement requires for a call arriving at time now, without changing the
// model; commit(…) is then called with what the implementation did.
func (m *c47Model) admit(now int64) int {
	switch m.state {
	case Closed:
		return c47MustAdmit
	case Open:
		el := now - m.openedAt
		switch {
		case el < int64(m.cfg.openTimeout):
			return c47MustReject
		case el == int64(m.cfg.openTimeout):
			if m.probes < m.cfg.hom {
				return c47Either
			}
			return c47MustReject
		}
		if m.probes < m.cfg.hom {
			return c47MustAdmit
		}
		return c47MustReject
	default:
		if m.probes < m.cfg.hom {
			return c47MustAdmit
		}
		return c47MustReject
	}
}

// commitAdmission updates the model after the implementation admitted (or not) a call at time now
// (implState = the breaker's state right after the admission decision); it returns whether the
// admitted call is a probe.
func (m *c47Model) commitAdmission(now int64, admitted bool, implState State) (probe bool) {
	if m.state == Open {
		el := now - m.openedAt
		switch {
		case el > int64(m.cfg.openTimeout):
			// past the timeout an arriving call moves the breaker to half-open, also when the call
			// itself is rejected because stale probes still occupy the cap
			m.transition(now, HalfOpen)
		case el == int64(m.cfg.openTimeout):
			// undecided instant: follow the implementation
			if admitted || implState == HalfOpen {
				m.transition(now, HalfOpen)
			}
		}
	}
	if admitted && m.state == HalfOpen {
		m.probes++
		return true
	}
	return false
}

// record steps the model with one finished call and checks the implementation's state against the
// allowed set. implState is the breaker's state after the call returned.
func (m *c47Model) record(now int64, ok bool, implState State) []vsched.Violation {
	var v []vsched.Violation
	from := m.state
	m.evs = append(m.evs, c47Ev{t: now, ok: ok})
	if from == Open {
		// a call admitted earlier that finishes while the breaker is open: outcomes are recorded but
		// the statement defines no transition out of open other than the timeout.
		if implState != Open {
			v = append(v, vsched.Fail("left-open-without-timeout", "record(ok=%v) while open: implementation moved to %s", ok, implState))
			m.transition(now, implState)
		}
		return v
	}
	p := m.possible(now)
	if from == HalfOpen && !ok && p[Closed] {
		// "closes again when probes succeed": whether a failed probe may be the one that closes the
		// breaker (rate still below the threshold) is not stated; staying half-open is accepted too.
		p[HalfOpen] = true
	}
	c47Decisions++
	if len(p) > 1 {
		c47Ambiguous++
	}
	if !p[implState] {
		ms, mf, os, of := m.counts(now)
		sig := fmt.Sprintf("record-in-%s-gives-%s-allowed-%s", from, implState, c47States(p))
		v = append(v, vsched.Fail(sig, "after recording ok=%v in state %s the breaker is %s; the window holds (certain: %d ok %d failed; alignment dependent: %d ok %d failed), minRequests=%d threshold=%d/%d allows only {%s}",
			ok, from, implState, ms, mf, os, of, m.cfg.minReq, m.cfg.num, m.cfg.den, c47States(p)))
	}
	m.transition(now, implState)
	return v
}

func (m *c47Model) transition(now int64, to State) {
	if to == m.state {
		return
	}
	switch to {
	case Open:
		m.openedAt = now
	case Closed:
		for i := range m.evs {
			m.evs[i].preClose = true
		}
	case HalfOpen:
		m.evs = nil
	}
	m.state = to
}

func (m *c47Model) canon(now int64) string {
	var b strings.Builder
	fmt.Fprintf(&b, "M[%s p%d", m.state, m.probes)
	if m.state == Open {
		fmt.Fprintf(&b, " opened%+d", m.openedAt-now)
	}
	m.counts(now) // prune
	for _, e := range m.evs {
		fmt.Fprintf(&b, " (%d,%v,%v)", e.t-now, e.ok, e.preClose)
	}
	b.WriteString("]")
	return b.String()
}

// c47Canon dumps every private field of the breaker that can influence its future, relative to the
// current clock value. Argument for merging: the breaker reads the clock only to form the
// differences now-lastUpdate (bucket rotation), now-openUntil (open gate) and to store new
// timestamps, so two breakers whose dumps agree behave identically under the same future ops;
// bucket.start, lastFailure and lastSuccess are write-only for the logic (only Metrics' timestamp
// fields, which are not compared, read them). The ring is dumped from the cursor backwards, which
// makes the dump independent of the cursor's absolute position.
func c47Canon(b *CircuitBreaker, now int64) string {
	var s strings.Builder
	st := b.State()
	fmt.Fprintf(&s, "I[%s sem%d", st, len(b.semCh))
	if st == Open {
		fmt.Fprintf(&s, " until%+d", b.openUntil.Load()-now)
	}
	bw := b.buckets
	bw.mu.Lock()
	fmt.Fprintf(&s, " lu%+d", bw.lastUpdate-now)
	for i := 0; i < bw.num; i++ {
		k := ((bw.cursor-i)%bw.num + bw.num) % bw.num
		fmt.Fprintf(&s, " %d/%d", bw.buf[k].succ, bw.buf[k].fail)
	}
	bw.mu.Unlock()
	s.WriteString("]")
	return s.String()
}

// ---------------------------------------------------------------------------------------------
// Part 1: sequential histories
// ---------------------------------------------------------------------------------------------

type c47Op struct {
	kind int // 0 success, 1 failure, 2 advance, 3 metrics
	d    time.Duration
}

func (o c47Op) String() string {
	switch o.kind {
	case 0:
		return "call-ok"
	case 1:
		return "call-fail"
	case 2:
		return "advance(" + o.d.String() + ")"
	default:
		return "metrics"
	}
}

var errC47 = errors.New("c47 failure")

func c47Alphabet(cfg c47Cfg) []c47Op {
	ops := []c47Op{{kind: 0}, {kind: 1}}
	seen := map[time.Duration]bool{}
	for _, d := range []time.Duration{cfg.bucketDur, cfg.openTimeout - 1, cfg.openTimeout, cfg.window()} {
		if !seen[d] {
			seen[d] = true
			ops = append(ops, c47Op{kind: 2, d: d})
		}
	}
	return append(ops, c47Op{kind: 3})
}

// c47Call performs one sequential Execute and checks admission + the resulting state.
func c47Call(b *CircuitBreaker, m *c47Model, now int64, ok bool) (obs string, v []vsched.Violation) {
	want := m.admit(now)
	wasState := m.state
	invoked := false
	stAtFn := Closed
	val, err := b.Execute(context.Background(), func(context.Context) (any, error) {
		invoked = true
		stAtFn = b.State()
		if ok {
			return 7, nil
		}
		return nil, errC47
	})
	switch {
	case invoked && want == c47MustReject:
		v = append(v, vsched.Fail("call-admitted-while-"+wasState.String(), "state %s, %dns after opening (timeout %s): fn was invoked", wasState, now-m.openedAt, m.cfg.openTimeout))
	case !invoked && want == c47MustAdmit:
		v = append(v, vsched.Fail("call-rejected-while-"+wasState.String()+"-admissible", "state %s, %dns after opening (timeout %s), %d probes in flight (cap %d): fn was not invoked, err=%v", wasState, now-m.openedAt, m.cfg.openTimeout, m.probes, m.cfg.hom, err))
	}
	if !invoked && !errors.Is(err, ErrOpen) {
		v = append(v, vsched.Fail("rejection-without-ErrOpen", "fn not invoked but err=%v", err))
	}
	if invoked && ok && (err != nil || val != 7) {
		v = append(v, vsched.Fail("success-result-not-returned", "val=%v err=%v", val, err))
	}
	if invoked && !ok && !errors.Is(err, errC47) {
		v = append(v, vsched.Fail("failure-error-not-returned", "err=%v", err))
	}
	probe := m.commitAdmission(now, invoked, c47StateAtAdmission(b, invoked, stAtFn))
	if invoked {
		if probe {
			m.probes-- // sequential: the probe has returned
		}
		v = append(v, m.record(now, ok, b.State())...)
	} else if got := b.State(); got != m.state {
		// a rejected call records nothing; the only transition it may cause is open->half-open
		v = append(v, vsched.Fail("state-after-rejection-"+got.String()+"-want-"+m.state.String(), "rejected call left the breaker %s, model %s", got, m.state))
		m.transition(now, got)
	}
	return fmt.Sprintf("inv=%v err=%v st=%s", invoked, err != nil, b.State()), v
}

// c47StateAtAdmission is the breaker's state right after the admission decision: observed inside fn
// for an admitted call, after the return for a rejected one (a rejected call records nothing).
func c47StateAtAdmission(b *CircuitBreaker, invoked bool, atFn State) State {
	if invoked {
		return atFn
	}
	return b.State()
}

func c47Metrics(b *CircuitBreaker, m *c47Model, now int64) (string, []vsched.Violation) {
	var v []vsched.Violation
	mt := b.Metrics()
	ms, mf, os, of := m.counts(now)
	if mt.State != m.state {
		v = append(v, vsched.Fail("metrics-state-differs", "Metrics().State=%s model %s", mt.State, m.state))
	}
	if m.state != Open { // while open the window content is unspecified (it restarts at half-open)
		if mt.Successes < uint64(ms) || mt.Successes > uint64(ms+os) {
			v = append(v, vsched.Fail("metrics-successes-outside-window-bounds", "Successes=%d, window allows [%d,%d]", mt.Successes, ms, ms+os))
		}
		if mt.Failures < uint64(mf) || mt.Failures > uint64(mf+of) {
			v = append(v, vsched.Fail("metrics-failures-outside-window-bounds", "Failures=%d, window allows [%d,%d]", mt.Failures, mf, mf+of))
		}
	}
	return fmt.Sprintf("metrics st=%s s=%d f=%d", mt.State, mt.Successes, mt.Failures), v
}

func c47Exec(cfg c47Cfg) func(hist []c47Op) vsched.StepResult {
	return func(hist []c47Op) vsched.StepResult {
		clk := &c47Clock{now: c47Base}
		b := c47New(cfg, clk)
		m := c47NewModel(cfg)
		var viol []vsched.Violation
		obs := ""
		for _, o := range hist {
			var v []vsched.Violation
			switch o.kind {
			case 0, 1:
				obs, v = c47Call(b, m, clk.now, o.kind == 0)
			case 2:
				clk.now += int64(o.d)
				obs = "adv"
			case 3:
				obs, v = c47Metrics(b, m, clk.now)
			}
			viol = append(viol, v...)
		}
		canon := c47Canon(b, clk.now) + m.canon(clk.now)
		// observation = result of the last operation + state + window content as the oracle sees it
		// (coarser than the canonical state so that the distinct-observation sets stay small)
		ms, mf, os, of := m.counts(clk.now)
		return vsched.StepResult{Canon: canon, Obs: fmt.Sprintf("%s | %s sem%d win %d/%d+%d/%d", obs, b.State(), len(b.semCh), ms, mf, os, of), Violations: viol}
	}
}

// ---------------------------------------------------------------------------------------------
// Part 2: concurrent callers, event orders
// ---------------------------------------------------------------------------------------------

type c47Caller struct {
	gate    chan bool
	entered bool
	done    bool
	probe   bool
	err     error
}

// c47Burst returns the run function of one event-order scenario: preOpen = start from an open
// breaker whose timeout has passed (all callers arrive as probes), otherwise from a closed breaker.
func c47Burst(t *testing.T, cfg c47Cfg, callers, advances int, preOpen bool) func(c *vsched.Chooser) vsched.Outcome {
	return func(c *vsched.Chooser) vsched.Outcome {
		var out vsched.Outcome
		p := vsched.Bubble(t, func() {
			clk := &c47Clock{now: c47Base}
			b := c47New(cfg, clk)
			m := c47NewModel(cfg)
			var viol []vsched.Violation
			var trace []string
			step := time.Duration(cfg.openTimeout) + cfg.bucketDur
			if preOpen {
				for i := 0; i < cfg.minReq; i++ {
					_, v := c47Call(b, m, clk.now, false)
					viol = append(viol, v...)
				}
				if b.State() != Open {
					out.Invalid = "setup did not open the breaker"
					return
				}
				clk.now += int64(step)
			}
			cs := make([]*c47Caller, callers)
			started, advLeft := 0, advances
			inFn := func() (n, probes int) {
				for _, x := range cs {
					if x != nil && x.entered && !x.done {
						n++
						if x.probe {
							probes++
						}
					}
				}
				return
			}
			for {
				type ev struct {
					kind, i int
					ok      bool
				}
				var evs []ev
				if started < callers {
					evs = append(evs, ev{kind: 0, i: started})
				}
				for i, x := range cs {
					if x != nil && x.entered && !x.done {
						evs = append(evs, ev{1, i, true}, ev{1, i, false})
					}
				}
				if advLeft > 0 && started > 0 {
					evs = append(evs, ev{kind: 2})
				}
				if len(evs) == 0 {
					break
				}
				label := func(k int) string {
					e := evs[k]
					switch e.kind {
					case 0:
						return fmt.Sprintf("start(%d)", e.i)
					case 1:
						return fmt.Sprintf("release(%d,ok=%v)", e.i, e.ok)
					}
					return "advance(" + step.String() + ")"
				}
				k := c.Choose("event", len(evs), nil, label)
				e := evs[k]
				switch e.kind {
				case 0:
					x := &c47Caller{gate: make(chan bool)}
					cs[e.i] = x
					started++
					want := m.admit(clk.now)
					was := m.state
					go func() {
						_, err := b.Execute(context.Background(), func(context.Context) (any, error) {
							x.entered = true
							if <-x.gate {
								return 1, nil
							}
							return nil, errC47
						})
						x.err = err
						if !x.entered {
							x.done = true
						}
					}()
					vsched.Settle()
					switch {
					case x.entered && want == c47MustReject:
						if was == HalfOpen || (was == Open && clk.now-m.openedAt >= int64(cfg.openTimeout)) {
							viol = append(viol, vsched.Fail("halfopen-probe-cap-exceeded", "caller %d admitted in state %s with %d probes already in flight (cap %d)", e.i, was, m.probes, cfg.hom))
						} else {
							viol = append(viol, vsched.Fail("call-admitted-while-"+was.String(), "caller %d admitted in state %s, %dns after opening (timeout %s)", e.i, was, clk.now-m.openedAt, cfg.openTimeout))
						}
					case !x.entered && want == c47MustAdmit:
						viol = append(viol, vsched.Fail("call-rejected-while-"+was.String()+"-admissible", "caller %d rejected in state %s with %d probes in flight (cap %d): err=%v", e.i, was, m.probes, cfg.hom, x.err))
					}
					if !x.entered && !errors.Is(x.err, ErrOpen) {
						viol = append(viol, vsched.Fail("rejection-without-ErrOpen", "caller %d: fn not invoked but err=%v", e.i, x.err))
					}
					x.probe = m.commitAdmission(clk.now, x.entered, b.State())
					if got := b.State(); got != m.state {
						viol = append(viol, vsched.Fail("state-after-admission-"+got.String()+"-want-"+m.state.String(), "after caller %d arrived the breaker is %s, model %s", e.i, got, m.state))
						m.transition(clk.now, got)
					}
				case 1:
					x := cs[e.i]
					x.gate <- e.ok
					vsched.Settle()
					x.done = true
					if x.probe {
						m.probes--
					}
					viol = append(viol, m.record(clk.now, e.ok, b.State())...)
				case 2:
					advLeft--
					clk.now += int64(step)
				}
				// invariants after every event
				n, probes := inFn()
				if probes != m.probes {
					viol = append(viol, vsched.Fail("harness-model-probe-count-mismatch", "harness %d model %d", probes, m.probes))
				}
				if st := b.State(); st == HalfOpen && probes > cfg.hom {
					viol = append(viol, vsched.Fail("halfopen-probe-cap-exceeded", "%d probes inside fn while half-open (cap %d)", probes, cfg.hom))
				}
				if len(b.semCh) != probes {
					viol = append(viol, vsched.Fail("probe-slots-differ-from-probes-in-flight", "semaphore holds %d slots, %d probes in flight", len(b.semCh), probes))
				}
				trace = append(trace, fmt.Sprintf("%s:%s/%d/%d", label(k), b.State(), n, probes))
			}
			for _, x := range cs {
				if x != nil && x.entered && !x.done {
					x.gate <- true
				}
			}
			vsched.Settle()
			out.Obs = strings.Join(trace, " ")
			out.Violations = viol
		})
		if p != nil {
			out.Violations = append(out.Violations, vsched.Fail("panic-in-breaker", "%v", p))
		}
		return out
	}
}

func TestVerifC47(t *testing.T) {
	defer vsched.Finish(t)
	r := vsched.Rep()
	r.Assumption("fake clock through breaker.WithClock; time only moves forward; Sanitize()d options as built by NewCircuitBreaker")
	r.Assumption("window restart at half-open entry is taken as implied by 'closes again when probes succeed'; outcomes in the last-bucket band and outcomes recorded before the breaker closed again may or may not be counted (both accepted)")
	r.Assumption("elapsed == openTimeout is accepted either way (statement: 'until the open timeout passes')")

	cfgs := []c47Cfg{
		{name: "t50-min2-4x500ms-open1s-hom1", num: 1, den: 2, minReq: 2, buckets: 4, bucketDur: 500 * time.Millisecond, openTimeout: time.Second, hom: 1},
		{name: "t50-min3-2x1s-open3s-hom2", num: 1, den: 2, minReq: 3, buckets: 2, bucketDur: time.Second, openTimeout: 3 * time.Second, hom: 2},
		{name: "t75-min1-4x250ms-open1s-hom1", num: 3, den: 4, minReq: 1, buckets: 4, bucketDur: 250 * time.Millisecond, openTimeout: time.Second, hom: 1},
	}
	if r.Thorough() {
		cfgs = append(cfgs, c47Cfg{name: "t100-min2-3x1s-open1500ms-hom2", num: 1, den: 1, minReq: 2, buckets: 3, bucketDur: time.Second, openTimeout: 1500 * time.Millisecond, hom: 2})
	}
	depth := vsched.Pick(9, 12)
	start, budget := time.Now(), 3600.0
	if f, err := strconv.ParseFloat(os.Getenv("VERIF_BUDGET_S"), 64); err == nil && f > 0 {
		budget = f
	}
	for i, cfg := range cfgs {
		cfg := cfg
		// equal shares of 80% of the wall budget for the history scenarios (the rest is for the
		// burst scenarios); a deadline only lowers coverage (exhaustive=false), never a verdict
		dl := start.Add(time.Duration(0.8 * budget * float64(i+1) / float64(len(cfgs)) * float64(time.Second)))
		alpha := c47Alphabet(cfg)
		p := cfg.params()
		p["alphabet"] = fmt.Sprint(alpha)
		vsched.BFS(vsched.BFSConfig{Scenario: "hist-" + cfg.name, Depth: depth, ShardFirstOp: true, Deadline: dl, Params: p},
			func([]c47Op) []c47Op { return alpha }, c47Exec(cfg), func(o c47Op) string { return o.String() })
	}

	var scs []vsched.Scenario
	callers := vsched.Pick(3, 4)
	for _, hom := range []int{1, 2} {
		cfg := c47Cfg{name: fmt.Sprintf("hom%d", hom), num: 1, den: 2, minReq: 2, buckets: 4, bucketDur: 500 * time.Millisecond, openTimeout: time.Second, hom: hom}
		for _, pre := range []bool{true, false} {
			nm := "burst-closed-" + cfg.name
			if pre {
				nm = "burst-halfopen-" + cfg.name
			}
			p := cfg.params()
			p["callers"] = callers
			p["advances"] = 2
			scs = append(scs, vsched.Scenario{Cfg: vsched.Config{Scenario: nm, Bound: 0, Params: p}, Run: c47Burst(t, cfg, callers, 2, pre)})
		}
	}
	vsched.ExploreAll(scs)
	r.Note("shard %d: %d record decisions checked, %d of them alignment/close dependent (several next states accepted)", r.Shard, c47Decisions, c47Ambiguous)
}
