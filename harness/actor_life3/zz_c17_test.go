//go:build verif

package actor

import (
	"context"
	"fmt"
	"runtime"
	"sort"
	"strings"
	"sync"
	"testing"
	"time"

	gerrors "github.com/tochemey/goakt/v4/errors"
	"github.com/tochemey/goakt/v4/internal/verif/vsched"
	"github.com/tochemey/goakt/v4/log"
	"github.com/tochemey/goakt/v4/supervisor"
)

// ---------------------------------------------------------------------------------------------
// C17 — stopping the actor system tears down every actor exactly once.
//
// One execution = a fresh, real, non-clustered actor system in a fresh bubble:
//
//   * a user actor tree of <= 4 actors (all 9 rooted forests on <= 4 nodes that are not mere
//     relabelings, one Explore scenario per shape) spawned with Spawn / SpawnChild;
//   * X  = the actor whose handler is parked inside a gate message, with two more messages queued
//          behind it (chosen among the actors); thorough tier: optionally a second actor X2 parked too;
//   * Y  = optionally an actor whose PostStop parks in a gate (so that ActorSystem.Stop is held in the
//          middle of the tree teardown: some actors already stopped, others not yet);
//   * G  = 0..2 active grains, each with a parked OnReceive (sent with TellGrain from a client goroutine)
//          and one more TellGrain queued behind it;
//   * events {stop, relX, relX2, relY, relG1, relG2}: `stop` starts ActorSystem.Stop on a client goroutine,
//     `rel*` opens the gate. EVERY permutation of the events is executed (vsched.Explore, all choices
//     cost 0). After every event the bubble is settled (quiescence) and every user actor whose PostStop
//     has already returned is probed with Tell.
//
// Oracle (statement of C17, nothing more):
//   O1 PostStop runs exactly once for every user actor that was running when Stop was called;
//   O2 for every parent/child pair the child's PostStop RETURNED before the parent's PostStop was entered;
//   O3 OnDeactivate runs exactly once for every grain that was active when Stop was called;
//   O4 after Stop returned no user handler (Receive / OnReceive) is ENTERED              -> handler-entered-after-stop-returned
//      and no user handler that was entered earlier is still executing                    -> handler-still-running-when-stop-returned
//      (two signatures: the second is goakt's documented design — Shutdown never waits for an
//       in-flight Receive — see known_findings.d/C17.json);
//   O5 a Tell to an actor whose PostStop has returned either returns an error or is published as a
//      dead letter, and is never handled.
//
// Everything compared is taken at quiescence and is order-insensitive between siblings (log indices
// are only compared along parent/child edges and against the `stop-returned` marker, which are
// causally ordered in a correct implementation).
// ---------------------------------------------------------------------------------------------

// parent index per actor (-1 = child of the user guardian); names are a,b,c,d.
type c17Shape struct {
	name   string
	parent []int
}

var c17Shapes = []c17Shape{
	{"single", []int{-1}},
	{"pair", []int{-1, 0}},
	{"chain3", []int{-1, 0, 1}},
	{"fan3", []int{-1, 0, 0}},
	{"chain4", []int{-1, 0, 1, 2}},
	{"fan4", []int{-1, 0, 0, 0}},
	{"ytree4", []int{-1, 0, 0, 1}},
	{"tail4", []int{-1, 0, 1, 1}},
	{"forest4", []int{-1, -1, 0, 1}},
}

var c17Names = []string{"a", "b", "c", "d"}

type c17Gate struct{ ch chan struct{} }
type c17Msg struct{ id string }

type c17Actor struct {
	name     string
	log      *vfLog
	postGate chan struct{} // nil = PostStop does not park
}

func (a *c17Actor) PreStart(*Context) error { return nil }
func (a *c17Actor) Receive(ctx *ReceiveContext) {
	switch m := ctx.Message().(type) {
	case *c17Gate:
		a.log.add("enter:%s:gate", a.name)
		<-m.ch
		a.log.add("exit:%s:gate", a.name)
	case *c17Msg:
		a.log.add("enter:%s:%s", a.name, m.id)
		a.log.add("exit:%s:%s", a.name, m.id)
	}
}
func (a *c17Actor) PostStop(*Context) error {
	a.log.add("poststop-enter:%s", a.name)
	if a.postGate != nil {
		<-a.postGate
	}
	a.log.add("poststop-exit:%s", a.name)
	return nil
}

type c17Grain struct {
	name string
	log  *vfLog
}

func (g *c17Grain) OnActivate(context.Context, *GrainProps) error { return nil }
func (g *c17Grain) OnReceive(ctx *GrainContext) {
	switch m := ctx.Message().(type) {
	case *c17Gate:
		g.log.add("enter:%s:gate", g.name)
		<-m.ch
		g.log.add("exit:%s:gate", g.name)
		ctx.NoErr()
	case *c17Msg:
		g.log.add("enter:%s:%s", g.name, m.id)
		g.log.add("exit:%s:%s", g.name, m.id)
		ctx.NoErr()
	default:
		ctx.Unhandled()
	}
}
func (g *c17Grain) OnDeactivate(context.Context, *GrainProps) error {
	g.log.add("deactivate:%s", g.name)
	return nil
}

// c17NewSystem builds a started system whose dispatcher has enough workers for the parked handlers of
// one execution (the pool is sized from GOMAXPROCS at construction time only; the runner starts shard
// processes with GOMAXPROCS=1 which would give 2 workers).
func c17NewSystem(name string, opts ...Option) *actorSystem {
	prev := runtime.GOMAXPROCS(8)
	all := append([]Option{WithLogger(log.DiscardLogger)}, opts...)
	sys, err := NewActorSystem(name, all...)
	runtime.GOMAXPROCS(prev)
	if err != nil {
		panic(fmt.Sprintf("c17NewSystem: %v", err))
	}
	if err := sys.Start(context.Background()); err != nil {
		panic(fmt.Sprintf("c17NewSystem start: %v", err))
	}
	return sys.(*actorSystem)
}

type c17Probe struct {
	id      string
	target  string
	stopped bool // the target's PostStop had returned when the probe was sent
	err     error
}

func c17Run(t *testing.T, shape c17Shape, twoParked bool, c *vsched.Chooser) vsched.Outcome {
	n := len(shape.parent)
	x := c.Choose("env", n, nil, func(i int) string { return "gated-handler=" + c17Names[i] })
	y := c.Choose("env", n+1, nil, func(i int) string {
		if i == 0 {
			return "gated-poststop=none"
		}
		return "gated-poststop=" + c17Names[i-1]
	}) - 1
	ng := c.Choose("env", 3, nil, func(i int) string { return fmt.Sprintf("grains=%d", i) })
	// thorough tier only: a second actor X2 != X parked inside Receive (no queue behind it)
	x2 := -1
	if twoParked && n > 1 {
		k := c.Choose("env", n, nil, func(i int) string {
			if i == 0 {
				return "second-gated-handler=none"
			}
			o := i - 1
			if o >= x {
				o++
			}
			return "second-gated-handler=" + c17Names[o]
		})
		if k > 0 {
			x2 = k - 1
			if x2 >= x {
				x2++
			}
		}
	}

	events := []string{"stop", "relX"}
	if x2 >= 0 {
		events = append(events, "relX2")
	}
	if y >= 0 {
		events = append(events, "relY")
	}
	for g := 0; g < ng; g++ {
		events = append(events, fmt.Sprintf("relG%d", g+1))
	}

	lg := &vfLog{}
	var (
		obs        []string
		viol       []vsched.Violation
		invalid    string
		probes     []c17Probe
		deadLetter = map[string]int{} // probe id -> dead letters seen
		mu         sync.Mutex
		stopErr    error
		stopDone   bool
		clients    int
		clientsEnd int
	)
	fail := func(sig, format string, a ...any) {
		viol = append(viol, vsched.Fail(sig, format, a...))
	}

	p := vfBubble(t, func() {
		ctx := context.Background()
		sys := c17NewSystem("c17")
		sub, err := sys.Subscribe()
		if err != nil {
			panic(err)
		}
		drainDeadLetters := func() {
			for m := range sub.Iterator() {
				if dl, ok := m.Payload().(*Deadletter); ok {
					if pm, ok := dl.Message().(*c17Msg); ok {
						deadLetter[pm.id]++
					}
				}
			}
		}

		// --- tree
		actors := make([]*c17Actor, n)
		pids := make([]*PID, n)
		for i := 0; i < n; i++ {
			actors[i] = &c17Actor{name: c17Names[i], log: lg}
			if i == y {
				actors[i].postGate = make(chan struct{})
			}
			var err error
			if shape.parent[i] < 0 {
				pids[i], err = sys.Spawn(ctx, c17Names[i], actors[i], WithLongLived())
			} else {
				pids[i], err = pids[shape.parent[i]].SpawnChild(ctx, c17Names[i], actors[i], WithLongLived())
			}
			if err != nil {
				panic(fmt.Sprintf("spawn %s: %v", c17Names[i], err))
			}
		}
		vfSettle()

		// --- grains
		grainIDs := make([]*GrainIdentity, ng)
		grainGates := make([]chan struct{}, ng)
		for g := 0; g < ng; g++ {
			name := fmt.Sprintf("g%d", g+1)
			gr := &c17Grain{name: name, log: lg}
			id, err := sys.GrainIdentity(ctx, name, func(context.Context) (Grain, error) { return gr, nil })
			if err != nil {
				panic(fmt.Sprintf("grain %s: %v", name, err))
			}
			grainIDs[g] = id
		}
		vfSettle()

		// --- traffic in flight
		gateX := make(chan struct{})
		if err := Tell(ctx, pids[x], &c17Gate{ch: gateX}); err != nil {
			panic(err)
		}
		vfSettle() // X is parked inside the gate message
		gateX2 := make(chan struct{})
		if x2 >= 0 {
			if err := Tell(ctx, pids[x2], &c17Gate{ch: gateX2}); err != nil {
				panic(err)
			}
			vfSettle()
		}
		for k := 1; k <= 2; k++ {
			if err := Tell(ctx, pids[x], &c17Msg{id: fmt.Sprintf("q%d", k)}); err != nil {
				panic(err)
			}
		}
		client := func(f func()) {
			mu.Lock()
			clients++
			mu.Unlock()
			go func() {
				f()
				mu.Lock()
				clientsEnd++
				mu.Unlock()
			}()
		}
		for g := 0; g < ng; g++ {
			g := g
			grainGates[g] = make(chan struct{})
			client(func() { _ = sys.TellGrain(ctx, grainIDs[g], &c17Gate{ch: grainGates[g]}) })
			vfSettle() // the grain is parked inside the gate message
			client(func() { _ = sys.TellGrain(ctx, grainIDs[g], &c17Msg{id: "q1"}) })
			vfSettle()
		}

		released := map[string]bool{}
		release := func(ev string) {
			released[ev] = true
			switch ev {
			case "relX":
				close(gateX)
			case "relX2":
				close(gateX2)
			case "relY":
				close(actors[y].postGate)
			case "relG1":
				close(grainGates[0])
			case "relG2":
				close(grainGates[1])
			}
		}
		// on any harness panic open every gate so that the bubble can end
		defer func() {
			for _, ev := range events {
				if ev != "stop" && !released[ev] {
					release(ev)
				}
			}
		}()

		seen := 0
		probeNo := 0
		step := func(label string) {
			vfSettle()
			// once Stop has been called: probe every actor. O5 is demanded only of the probes whose
			// target's PostStop had returned before the probe was sent (stopped=true); the others only
			// exercise the enqueue gate of a stopping system and fall under O4.
			snap := lg.snapshot()
			stopCalled := false
			for _, e := range snap {
				if e == "stop-called" {
					stopCalled = true
				}
			}
			for i := 0; i < n && stopCalled; i++ {
				stopped := false
				for _, e := range snap {
					if e == "poststop-exit:"+c17Names[i] {
						stopped = true
					}
				}
				probeNo++
				pr := c17Probe{id: fmt.Sprintf("p%d", probeNo), target: c17Names[i], stopped: stopped}
				pr.err = Tell(ctx, pids[i], &c17Msg{id: pr.id})
				probes = append(probes, pr)
			}
			vfSettle()
			drainDeadLetters()
			snap = lg.snapshot()
			fresh := append([]string(nil), snap[seen:]...)
			seen = len(snap)
			sort.Strings(fresh)
			obs = append(obs, label+"{"+strings.Join(fresh, ",")+"}")
		}

		// --- the events, in every order
		remaining := append([]string(nil), events...)
		for len(remaining) > 0 {
			k := c.Choose("event", len(remaining), nil, func(i int) string { return remaining[i] })
			ev := remaining[k]
			remaining = append(remaining[:k], remaining[k+1:]...)
			if ev == "stop" {
				lg.add("stop-called")
				go func() {
					err := sys.Stop(ctx)
					lg.add("stop-returned")
					mu.Lock()
					stopErr, stopDone = err, true
					mu.Unlock()
				}()
			} else {
				release(ev)
			}
			step(ev)
		}

		mu.Lock()
		done := stopDone
		mu.Unlock()
		if !done {
			// every gate is open and the bubble is quiescent: Stop is waiting for virtual time only.
			time.Sleep(DefaultShutdownTimeout + time.Minute)
			vfSettle()
			mu.Lock()
			done = stopDone
			mu.Unlock()
			if done {
				invalid = "Stop returned only after virtual time passed (no verdict)"
			} else {
				invalid = "Stop did not return although every gate is open (no verdict)"
			}
		}

		// --- after Stop returned: sends to every actor and grain
		for i := 0; i < n; i++ {
			probeNo++
			pr := c17Probe{id: fmt.Sprintf("p%d", probeNo), target: c17Names[i], stopped: true}
			pr.err = Tell(ctx, pids[i], &c17Msg{id: pr.id})
			probes = append(probes, pr)
		}
		for g := 0; g < ng; g++ {
			g := g
			probeNo++
			id := fmt.Sprintf("p%d", probeNo)
			client(func() { _ = sys.TellGrain(ctx, grainIDs[g], &c17Msg{id: id}) })
		}
		step("after-stop")
		// let every timer that could still deliver something fire
		time.Sleep(2 * DefaultShutdownTimeout)
		step("drain")
		sys.stopCoalescedFailureDrain()
		vfSettle()
	})
	if p != nil {
		return vsched.Outcome{Invalid: fmt.Sprintf("harness panic: %v", p)}
	}
	if invalid != "" {
		return vsched.Outcome{Invalid: invalid}
	}
	if clients != clientsEnd {
		return vsched.Outcome{Invalid: fmt.Sprintf("%d of %d client goroutines did not return", clients-clientsEnd, clients)}
	}

	// ------------------------------------------------------------------------------ oracle
	evs := lg.snapshot()
	index := func(s string) []int {
		var out []int
		for i, e := range evs {
			if e == s {
				out = append(out, i)
			}
		}
		return out
	}
	stopRet := index("stop-returned")
	if len(stopRet) != 1 {
		return vsched.Outcome{Invalid: "stop-returned marker missing"}
	}
	// O1 / O2
	for i := 0; i < n; i++ {
		en, ex := index("poststop-enter:"+c17Names[i]), index("poststop-exit:"+c17Names[i])
		switch {
		case len(en) == 0:
			fail("poststop-never-ran", "PostStop of actor %s never ran; log: %v", c17Names[i], evs)
		case len(en) > 1:
			fail("poststop-ran-more-than-once", "PostStop of actor %s ran %d times; log: %v", c17Names[i], len(en), evs)
		case len(ex) == 1 && ex[0] > stopRet[0]:
			fail("poststop-after-stop-returned", "PostStop of actor %s finished after Stop returned; log: %v", c17Names[i], evs)
		}
		if pa := shape.parent[i]; pa >= 0 && len(ex) >= 1 {
			pen := index("poststop-enter:" + c17Names[pa])
			if len(pen) >= 1 && pen[0] < ex[0] {
				fail("parent-poststop-before-child-poststop-finished", "PostStop of parent %s was entered before PostStop of child %s had returned; log: %v", c17Names[pa], c17Names[i], evs)
			}
		}
	}
	// O3
	for g := 0; g < ng; g++ {
		name := fmt.Sprintf("g%d", g+1)
		d := index("deactivate:" + name)
		switch {
		case len(d) == 0:
			fail("grain-never-deactivated", "OnDeactivate of grain %s never ran; log: %v", name, evs)
		case len(d) > 1:
			fail("grain-deactivated-more-than-once", "OnDeactivate of grain %s ran %d times; log: %v", name, len(d), evs)
		case d[0] > stopRet[0]:
			fail("grain-deactivated-after-stop-returned", "OnDeactivate of grain %s ran after Stop returned; log: %v", name, evs)
		}
	}
	// O4
	open := map[string]int{}
	for i, e := range evs {
		switch {
		case strings.HasPrefix(e, "enter:"):
			if i > stopRet[0] {
				fail("handler-entered-after-stop-returned", "%s after Stop returned; log: %v", e, evs)
			}
			open[strings.TrimPrefix(e, "enter:")] = i
		case strings.HasPrefix(e, "exit:"):
			k := strings.TrimPrefix(e, "exit:")
			if i > stopRet[0] && open[k] < stopRet[0] {
				if strings.HasPrefix(k, "g") {
					fail("grain-handler-still-running-when-stop-returned", "grain handler %s entered before and returned after Stop returned; log: %v", k, evs)
				} else {
					fail("handler-still-running-when-stop-returned", "actor handler %s was entered before Stop returned and returned only after it: Stop does not wait for an in-flight Receive; log: %v", k, evs)
				}
			}
		}
	}
	// O5
	for _, pr := range probes {
		if !pr.stopped {
			continue
		}
		handled := len(index("enter:"+pr.target+":"+pr.id)) > 0
		if handled {
			fail("message-to-stopped-actor-handled", "probe %s sent to %s after its PostStop returned was handled; log: %v", pr.id, pr.target, evs)
		}
		if pr.err == nil && deadLetter[pr.id] == 0 {
			fail("send-to-stopped-actor-neither-error-nor-dead-letter", "Tell(%s) to stopped actor %s returned nil and no dead letter was published; log: %v", pr.id, pr.target, evs)
		}
	}
	if stopErr != nil {
		// not part of the statement; recorded for the observation vector only
		obs = append(obs, "stop-error:"+stopErr.Error())
	}
	return vsched.Outcome{Obs: strings.Join(obs, " | "), Violations: viol}
}

// ---------------------------------------------------------------------------------------------
// Scenario family stop-restart-backoff-*: Stop while a supervised restart is waiting out its backoff.
//
// A child under a Restart directive with WithExponentialBackoff(1s, 2s) panics on a `boom` message: it is
// suspended and its parent arms the delayed restart (a goroutine sleeping on the bubble's clock). Events
// {stop, advance 0.4s, advance 0.7s} in EVERY order: Stop can land before, inside or after the delay
// window (the restart is due 1s after the fault). Afterwards virtual time is advanced well past every
// backoff. Oracle (same clauses as above, extended to PreStart):
//   * no user hook (PreStart / Receive / PostStop) is entered after Stop returned   -> hook-entered-after-stop-returned
//   * PostStop exactly once (during the teardown) for every actor that was running when Stop was called;
//     at most once for the one that was suspended waiting for its restart
//   * no user actor is running after Stop returned (and after all timers fired)     -> actor-running-after-stop-returned
//   * children before parents for the PostStops of the teardown.
// ---------------------------------------------------------------------------------------------

type c17Boom struct{}

type c17RActor struct {
	name string
	log  *vfLog
}

func (a *c17RActor) PreStart(*Context) error { a.log.add("prestart:%s", a.name); return nil }
func (a *c17RActor) PostStop(*Context) error { a.log.add("poststop:%s", a.name); return nil }
func (a *c17RActor) Receive(ctx *ReceiveContext) {
	switch ctx.Message().(type) {
	case *c17Boom:
		a.log.add("enter:%s:boom", a.name)
		panic("c17: boom")
	case *c17Msg:
		a.log.add("enter:%s:msg", a.name)
	}
}

type c17RShape struct {
	name   string
	parent []int // parent index, -1 = user guardian
	faulty int   // the actor that panics (must have a parent actor)
}

var c17RShapes = []c17RShape{
	{"child", []int{-1, 0}, 1},
	{"grandchild", []int{-1, 0, 1}, 2},
	{"sibling", []int{-1, 0, 0}, 1},
	{"child-with-own-child", []int{-1, 0, 1}, 1},
}

func c17RestartRun(t *testing.T, shape c17RShape, c *vsched.Chooser) vsched.Outcome {
	n := len(shape.parent)
	lg := &vfLog{}
	var (
		obs     []string
		viol    []vsched.Violation
		invalid string
		running []string
		mu      sync.Mutex
		done    bool
	)
	runningAtStop := make([]bool, n)
	fail := func(sig, format string, a ...any) { viol = append(viol, vsched.Fail(sig, format, a...)) }
	p := vfBubble(t, func() {
		ctx := context.Background()
		sys := c17NewSystem("c17r")
		pids := make([]*PID, n)
		for i := 0; i < n; i++ {
			sup := supervisor.NewSupervisor(
				supervisor.WithDirective(&gerrors.PanicError{}, supervisor.RestartDirective),
				supervisor.WithExponentialBackoff(time.Second, 2*time.Second, 0))
			act := &c17RActor{name: c17Names[i], log: lg}
			var err error
			if shape.parent[i] < 0 {
				pids[i], err = sys.Spawn(ctx, c17Names[i], act, WithLongLived(), WithSupervisor(sup))
			} else {
				pids[i], err = pids[shape.parent[i]].SpawnChild(ctx, c17Names[i], act, WithLongLived(), WithSupervisor(sup))
			}
			if err != nil {
				panic(fmt.Sprintf("spawn %s: %v", c17Names[i], err))
			}
		}
		vfSettle()
		if err := Tell(ctx, pids[shape.faulty], &c17Boom{}); err != nil {
			panic(err)
		}
		vfSettle() // the faulty actor is suspended, its delayed restart is armed
		if !pids[shape.faulty].IsSuspended() {
			invalid = "the faulty actor is not suspended after the fault (harness expectation)"
		}
		seen := 0
		step := func(label string) {
			vfSettle()
			snap := lg.snapshot()
			fresh := append([]string(nil), snap[seen:]...)
			seen = len(snap)
			sort.Strings(fresh)
			obs = append(obs, label+"{"+strings.Join(fresh, ",")+"}")
		}
		remaining := []string{"stop", "adv0.4s", "adv0.7s"}
		for len(remaining) > 0 {
			k := c.Choose("event", len(remaining), nil, func(i int) string { return remaining[i] })
			ev := remaining[k]
			remaining = append(remaining[:k], remaining[k+1:]...)
			switch ev {
			case "stop":
				for i := 0; i < n; i++ {
					runningAtStop[i] = pids[i].IsRunning()
				}
				lg.add("stop-called")
				go func() {
					_ = sys.Stop(ctx)
					lg.add("stop-returned")
					mu.Lock()
					done = true
					mu.Unlock()
				}()
			case "adv0.4s":
				time.Sleep(400 * time.Millisecond)
			case "adv0.7s":
				time.Sleep(700 * time.Millisecond)
			}
			step(ev)
		}
		mu.Lock()
		d := done
		mu.Unlock()
		if !d {
			time.Sleep(DefaultShutdownTimeout + time.Minute)
			vfSettle()
			invalid = "Stop did not return at quiescence (no verdict)"
		}
		// every backoff timer fires
		time.Sleep(time.Minute)
		step("drain")
		for i := 0; i < n; i++ {
			if pids[i].IsRunning() {
				running = append(running, c17Names[i])
			}
		}
		sys.stopCoalescedFailureDrain()
		vfSettle()
	})
	if p != nil {
		return vsched.Outcome{Invalid: fmt.Sprintf("harness panic: %v", p)}
	}
	if invalid != "" {
		return vsched.Outcome{Invalid: invalid}
	}
	evs := lg.snapshot()
	stopRet := -1
	for i, e := range evs {
		if e == "stop-returned" {
			stopRet = i
		}
	}
	if stopRet < 0 {
		return vsched.Outcome{Invalid: "stop-returned marker missing"}
	}
	stopCalled := -1
	for i, e := range evs {
		if e == "stop-called" {
			stopCalled = i
		}
	}
	stops := map[string]int{} // PostStops of the teardown (after Stop was called)
	lastStop := map[string]int{}
	for i, e := range evs {
		hook := strings.HasPrefix(e, "prestart:") || strings.HasPrefix(e, "poststop:") || strings.HasPrefix(e, "enter:")
		if hook && i > stopRet {
			fail("hook-entered-after-stop-returned", "%s after Stop returned; log: %v", e, evs)
		}
		if strings.HasPrefix(e, "poststop:") && i > stopCalled {
			nm := strings.TrimPrefix(e, "poststop:")
			stops[nm]++
			lastStop[nm] = i
		}
	}
	for i := 0; i < n; i++ {
		nm := c17Names[i]
		switch {
		case stops[nm] > 1:
			fail("poststop-ran-more-than-once", "actor %s: PostStop ran %d times during the teardown; log: %v", nm, stops[nm], evs)
		case stops[nm] == 0 && runningAtStop[i]:
			// an actor that was suspended (waiting for its restart) when Stop was called is not a
			// "running user actor" of the statement: 0 or 1 PostStop are both accepted for it
			fail("poststop-never-ran", "actor %s was running when Stop was called and its PostStop never ran; log: %v", nm, evs)
		}
		if pa := shape.parent[i]; pa >= 0 && stops[nm] > 0 && stops[c17Names[pa]] > 0 && lastStop[c17Names[pa]] < lastStop[nm] {
			fail("parent-poststop-before-child-poststop-finished", "PostStop of parent %s before the PostStop of child %s; log: %v", c17Names[pa], nm, evs)
		}
	}
	if len(running) > 0 {
		fail("actor-running-after-stop-returned", "actors %v report IsRunning() after Stop returned and every timer fired; log: %v", running, evs)
	}
	return vsched.Outcome{Obs: strings.Join(obs, " | "), Violations: viol}
}

func TestVerifC17(t *testing.T) {
	defer vsched.Finish(t)
	r := vsched.Rep()
	r.Assumption("granularity: events (start of Stop, gate releases) are separated by quiescence; races inside one quiescent step (e.g. Tell racing the running->stopped transition of its target) are not explored")
	r.Assumption("the dispatcher is built with 8 workers (GOMAXPROCS raised to 8 around NewActorSystem only) so that up to 4 parked user functions never exhaust it")
	var scs []vsched.Scenario
	// the (tiny) restart-backoff scenarios first so that a starved budget never skips them
	for _, sh := range c17RShapes {
		sh := sh
		scs = append(scs, vsched.Scenario{
			Cfg: vsched.Config{Scenario: "stop-restart-backoff-" + sh.name, Bound: 0, SplitDepth: 1, Params: map[string]any{
				"tree_parent_index": fmt.Sprint(sh.parent), "faulty": c17Names[sh.faulty], "supervisor": "Restart on panic, exponential backoff 1s..2s",
				"events": "all permutations of {stop, advance 0.4s, advance 0.7s} after the fault (restart due 1s after it)",
			}},
			Run: func(c *vsched.Chooser) vsched.Outcome { return c17RestartRun(t, sh, c) },
		})
	}
	for _, sh := range c17Shapes {
		sh := sh
		if !r.Thorough() && len(sh.parent) == 4 && sh.name != "ytree4" && sh.name != "forest4" && sh.name != "chain4" {
			continue // quick tier: 3 of the 5 four-actor shapes
		}
		scs = append(scs, vsched.Scenario{
			Cfg: vsched.Config{Scenario: "stop-" + sh.name, Bound: 0, SplitDepth: 3, Params: map[string]any{
				"tree_parent_index": fmt.Sprint(sh.parent), "events": "all permutations of {stop, relX, relX2?, relY?, relG1?, relG2?}",
				"choices": "gated handler actor x gated PostStop actor (or none) x 0..2 grains x (thorough: second gated handler actor or none) x event order",
			}},
			Run: func(c *vsched.Chooser) vsched.Outcome { return c17Run(t, sh, r.Thorough(), c) },
		})
	}
	vsched.ExploreAll(scs)
}
