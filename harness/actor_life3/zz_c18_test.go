//go:build verif

package actor

import (
	"context"
	"errors"
	"fmt"
	"sort"
	"strings"
	"sync"
	"testing"

	"github.com/tochemey/goakt/v4/internal/address"
	"github.com/tochemey/goakt/v4/internal/internalpb"
	"github.com/tochemey/goakt/v4/internal/verif/vsched"
	"github.com/tochemey/goakt/v4/test/data/testpb"
)

// ---------------------------------------------------------------------------------------------
// C18 — undeliverable messages surface as dead letters exactly once.
//
// One execution = a fresh real actor system in a fresh bubble with a subscriber on the events topic
// and four user actors:
//   bnd   NonBlockingBoundedMailbox(2); starts with its handler parked in a gate message and ONE message
//         already queued, so the next send fills the ring and every further one overflows;
//   unh   calls ctx.Unhandled() for messages of kind "u", handles kind "h";
//   snd   only used as a sender identity (snd.Tell(...));
//   gone  spawned and shut down before the sequence starts.
// Then a sequence of `depth` operations, EVERY sequence over the enabled alphabet (vsched.Explore):
//   ovf/N ovf/A    Tell to bnd from NoSender / from actor snd
//   ovf2           two sender goroutines (NoSender and snd) Tell to bnd at the same time
//   gate, rel      queue a new gate message to bnd / open every gate
//   unh/N unh/A    unhandled-kind message to unh;  unh2 = both senders at the same time;  ok = handled kind
//   dead/N         local Tell to the stopped actor (the caller gets an error: not accepted)
//   rdead, rmiss   the in-package inbound remote-tell path (deliverRemoteTellMessage) for the stopped
//                  actor (remote sender address) / for an address that never existed (empty sender)
//   coal1..3       a failed coalesced outbound batch of 1..3 messages (enqueueCoalescedFailure, the
//                  CoalescingErrorHandler wired into the remoting client) with mixed senders
// At the end every gate is opened, the bubble is settled, the subscriber is drained and
// ActorSystem.Metric is read.
//
// Oracle (ground truth, not a prediction: "dropped" = accepted by the runtime and never handled):
//   * every message whose send call was accepted (local Tell returned nil; remote/coalesced entry point
//     called) is, at quiescence, EITHER handled by its target (once) OR published as a dead letter
//     exactly once — never both, never neither, never twice;
//   * a message for which the actor called Unhandled() is published exactly once;
//   * a rejected send (Tell returned an error) is not handled and published at most once;
//   * every published dead letter carries the original message, the original sender path (NoSender's
//     path when there was none) and the receiver path;
//   * Metric().DeadlettersCount() == number of Deadletter events the subscriber received.
// ---------------------------------------------------------------------------------------------

type c18Gate struct {
	id string
	ch chan struct{}
}
type c18Msg struct {
	id   string
	kind byte // 'h' handled, 'u' unhandled
}

type c18Rec struct {
	mu        sync.Mutex
	handled   map[string]int
	unhandled map[string]int
}

func (r *c18Rec) note(m map[string]int, id string) {
	r.mu.Lock()
	m[id]++
	r.mu.Unlock()
}

type c18Actor struct{ rec *c18Rec }

func (a *c18Actor) PreStart(*Context) error { return nil }
func (a *c18Actor) PostStop(*Context) error { return nil }
func (a *c18Actor) Receive(ctx *ReceiveContext) {
	switch m := ctx.Message().(type) {
	case *c18Gate:
		a.rec.note(a.rec.handled, m.id)
		<-m.ch
	case *c18Msg:
		if m.kind == 'u' {
			a.rec.note(a.rec.unhandled, m.id)
			ctx.Unhandled()
			return
		}
		a.rec.note(a.rec.handled, m.id)
	}
}

type c18Sent struct {
	id       string
	op       string
	receiver string // expected receiver path
	sender   string // expected sender path
	rejected bool   // the send call returned an error
	mustDrop bool   // remote / coalesced entry points: the runtime has no way to deliver it
}

var c18Ops = []string{"ovf/N", "ovf/A", "ovf2", "gate", "rel", "unh/N", "unh/A", "unh2", "ok", "dead/N", "rdead", "rmiss", "coal1", "coal2", "coal3"}

func c18Run(t *testing.T, depth int, c *vsched.Chooser) vsched.Outcome {
	rec := &c18Rec{handled: map[string]int{}, unhandled: map[string]int{}}
	var (
		sent      []*c18Sent
		sentMu    sync.Mutex
		opsDone   []string
		published []*Deadletter
		foreign   int
		count     int64
		obs       []string
		viol      []vsched.Violation
		invalid   string
	)
	fail := func(sig, format string, a ...any) { viol = append(viol, vsched.Fail(sig, format, a...)) }

	p := vfBubble(t, func() {
		ctx := context.Background()
		sys := c17NewSystem("c18")
		sub, err := sys.Subscribe()
		if err != nil {
			panic(err)
		}
		spawn := func(name string, opts ...SpawnOption) *PID {
			pid, err := sys.Spawn(ctx, name, &c18Actor{rec: rec}, append([]SpawnOption{WithLongLived()}, opts...)...)
			if err != nil {
				panic(err)
			}
			return pid
		}
		bnd := spawn("bnd", WithMailbox(NewNonBlockingBoundedMailbox(2)))
		unh := spawn("unh")
		snd := spawn("snd")
		gone := spawn("gone")
		vfSettle()
		gonePath := gone.Path().String()
		if err := gone.Shutdown(ctx); err != nil {
			panic(err)
		}
		vfSettle()
		noSender := sys.NoSender().Path().String()
		sndPath := snd.Path().String()
		remoteSender := address.New("rs", "c18", "10.0.0.9", 9000)
		remoteRecv := func(name string) *address.Address { return address.New(name, "c18", "10.0.0.9", 9000) }
		missing := address.New("never", "c18", sys.Host(), sys.Port())

		var gates []chan struct{}
		next := 0
		newID := func() string { next++; return fmt.Sprintf("m%d", next) }
		record := func(s *c18Sent) {
			sentMu.Lock()
			sent = append(sent, s)
			sentMu.Unlock()
		}
		// local send; from == nil means the package-level Tell (no sender)
		tell := func(op string, from, to *PID, toPath string, msg any, id string) {
			s := &c18Sent{id: id, op: op, receiver: toPath, sender: noSender}
			var err error
			if from == nil {
				err = Tell(ctx, to, msg)
			} else {
				s.sender = from.Path().String()
				err = from.Tell(ctx, to, msg)
			}
			s.rejected = err != nil
			record(s)
		}
		remoteMsg := func(id, senderAddr, receiverAddr string) *internalpb.RemoteMessage {
			payload := &testpb.Reply{Content: id}
			b, err := sys.remoting.Serializer(payload).Serialize(payload)
			if err != nil {
				panic(err)
			}
			return &internalpb.RemoteMessage{Sender: senderAddr, Receiver: receiverAddr, Message: b}
		}
		gated := true
		{ // initial state of bnd: parked in a gate, one message queued
			g := &c18Gate{id: newID(), ch: make(chan struct{})}
			gates = append(gates, g.ch)
			tell("init-gate", nil, bnd, bnd.Path().String(), g, g.id)
			vfSettle()
			id := newID()
			tell("init-queued", nil, bnd, bnd.Path().String(), &c18Msg{id: id, kind: 'h'}, id)
			vfSettle()
		}
		defer func() {
			for _, g := range gates {
				select {
				case <-g:
				default:
					close(g)
				}
			}
		}()

		for step := 0; step < depth; step++ {
			var enabled []string
			for _, o := range c18Ops {
				if (o == "gate" && gated) || (o == "rel" && !gated) {
					continue
				}
				enabled = append(enabled, o)
			}
			op := enabled[c.Choose("fault", len(enabled), nil, func(i int) string { return enabled[i] })]
			opsDone = append(opsDone, op)
			switch op {
			case "ovf/N", "ovf/A":
				from := snd
				if op == "ovf/N" {
					from = nil
				}
				id := newID()
				tell(op, from, bnd, bnd.Path().String(), &c18Msg{id: id, kind: 'h'}, id)
			case "ovf2", "unh2":
				to, kind := bnd, byte('h')
				if op == "unh2" {
					to, kind = unh, 'u'
				}
				id1, id2 := newID(), newID()
				var wg sync.WaitGroup
				wg.Add(2)
				go func() {
					defer wg.Done()
					tell(op, nil, to, to.Path().String(), &c18Msg{id: id1, kind: kind}, id1)
				}()
				go func() {
					defer wg.Done()
					tell(op, snd, to, to.Path().String(), &c18Msg{id: id2, kind: kind}, id2)
				}()
				wg.Wait()
			case "gate":
				g := &c18Gate{id: newID(), ch: make(chan struct{})}
				gates = append(gates, g.ch)
				gated = true
				tell(op, nil, bnd, bnd.Path().String(), g, g.id)
			case "rel":
				for _, g := range gates {
					select {
					case <-g:
					default:
						close(g)
					}
				}
				gated = false
			case "unh/N", "unh/A":
				from := snd
				if op == "unh/N" {
					from = nil
				}
				id := newID()
				tell(op, from, unh, unh.Path().String(), &c18Msg{id: id, kind: 'u'}, id)
			case "ok":
				id := newID()
				tell(op, nil, unh, unh.Path().String(), &c18Msg{id: id, kind: 'h'}, id)
			case "dead/N":
				id := newID()
				tell(op, nil, gone, gonePath, &c18Msg{id: id, kind: 'h'}, id)
			case "rdead":
				id := newID()
				record(&c18Sent{id: id, op: op, receiver: gonePath, sender: newPath(remoteSender).String(), mustDrop: true})
				sys.deliverRemoteTellMessage(ctx, remoteMsg(id, remoteSender.String(), gone.getAddress().String()))
			case "rmiss":
				id := newID()
				record(&c18Sent{id: id, op: op, receiver: newPath(missing).String(), sender: noSender, mustDrop: true})
				sys.deliverRemoteTellMessage(ctx, remoteMsg(id, "", missing.String()))
			case "coal1", "coal2", "coal3":
				k := int(op[4] - '0')
				var batch []*internalpb.RemoteMessage
				for i := 0; i < k; i++ {
					id := newID()
					recv := remoteRecv(fmt.Sprintf("r%d", i))
					s := &c18Sent{id: id, op: op, receiver: newPath(recv).String(), sender: noSender, mustDrop: true}
					senderAddr := ""
					if i%2 == 1 {
						senderAddr = snd.getAddress().String()
						s.sender = sndPath
					}
					record(s)
					batch = append(batch, remoteMsg(id, senderAddr, recv.String()))
				}
				sys.enqueueCoalescedFailure("10.0.0.9:9000", batch, errors.New("c18: connection refused"))
			}
			vfSettle()
		}
		// quiescence with every gate open
		for _, g := range gates {
			select {
			case <-g:
			default:
				close(g)
			}
		}
		vfSettle()
		if m := sys.Metric(ctx); m != nil {
			count = m.DeadlettersCount()
		} else {
			invalid = "Metric() returned nil"
		}
		vfSettle()
		for m := range sub.Iterator() {
			if dl, ok := m.Payload().(*Deadletter); ok {
				published = append(published, dl)
			}
		}
		if err := vfStopSystem(sys); err != nil {
			panic(err)
		}
	})
	if p != nil {
		return vsched.Outcome{Invalid: fmt.Sprintf("harness panic: %v", p)}
	}
	if invalid != "" {
		return vsched.Outcome{Invalid: invalid}
	}

	// ------------------------------------------------------------------------------ oracle
	type dlInfo struct{ sender, receiver string }
	dls := map[string][]dlInfo{}
	for _, dl := range published {
		id := ""
		switch m := dl.Message().(type) {
		case *c18Msg:
			id = m.id
		case *c18Gate:
			id = m.id
		case *testpb.Reply:
			id = m.GetContent()
		default:
			foreign++
			continue
		}
		info := dlInfo{}
		if dl.Sender() != nil {
			info.sender = dl.Sender().String()
		}
		if dl.Receiver() != nil {
			info.receiver = dl.Receiver().String()
		}
		dls[id] = append(dls[id], info)
	}
	known := map[string]*c18Sent{}
	seq := strings.Join(opsDone, " ")
	for _, s := range sent {
		known[s.id] = s
		h, u, d := rec.handled[s.id], rec.unhandled[s.id], len(dls[s.id])
		cause := strings.SplitN(s.op, "/", 2)[0]
		switch {
		case s.rejected:
			if h+u > 0 {
				fail("rejected-send-was-handled", "ops [%s]: %s message %s: the send returned an error but the message was handled", seq, s.op, s.id)
			}
			if d > 1 {
				fail("dead-letter-published-more-than-once/"+cause, "ops [%s]: %s message %s (rejected send) published %d times", seq, s.op, s.id, d)
			}
		case h > 1 || u > 1:
			fail("message-handled-more-than-once", "ops [%s]: %s message %s handled %d times", seq, s.op, s.id, h+u)
		case u == 1 && d == 0:
			fail("unhandled-message-not-published", "ops [%s]: %s message %s: the actor called Unhandled() but no dead letter was published", seq, s.op, s.id)
		case h == 1 && d > 0:
			fail("handled-message-also-published-as-dead-letter", "ops [%s]: %s message %s was handled and published %d times", seq, s.op, s.id, d)
		case h == 0 && u == 0 && d == 0:
			fail("dropped-message-not-published/"+cause, "ops [%s]: %s message %s was accepted, never handled and never published as a dead letter", seq, s.op, s.id)
		case d > 1:
			fail("dead-letter-published-more-than-once/"+cause, "ops [%s]: %s message %s published %d times", seq, s.op, s.id, d)
		}
		for _, info := range dls[s.id] {
			if info.receiver != s.receiver {
				fail("dead-letter-with-wrong-receiver/"+cause, "ops [%s]: %s message %s: dead letter receiver %q, want %q", seq, s.op, s.id, info.receiver, s.receiver)
			}
			if info.sender != s.sender {
				fail("dead-letter-with-wrong-sender/"+cause, "ops [%s]: %s message %s: dead letter sender %q, want %q", seq, s.op, s.id, info.sender, s.sender)
			}
		}
	}
	for id := range dls {
		if known[id] == nil {
			fail("dead-letter-for-a-message-never-sent", "ops [%s]: dead letter with unknown message id %q", seq, id)
		}
	}
	if int(count) != len(published) {
		fail("dead-letter-count-differs-from-number-published", "ops [%s]: Metric().DeadlettersCount()=%d, %d Deadletter events were published (%d of them not from this harness)", seq, count, len(published), foreign)
	}

	// observation: per message (in send order) what became of it
	sort.SliceStable(sent, func(i, j int) bool { return len(sent[i].id) < len(sent[j].id) || (len(sent[i].id) == len(sent[j].id) && sent[i].id < sent[j].id) })
	for _, s := range sent {
		st := "handled"
		switch {
		case s.rejected:
			st = "rejected"
		case rec.unhandled[s.id] > 0:
			st = "unhandled"
		case len(dls[s.id]) > 0:
			st = "dropped"
		}
		obs = append(obs, fmt.Sprintf("%s:%s=%s/%d", s.id, s.op, st, len(dls[s.id])))
	}
	obs = append(obs, fmt.Sprintf("count=%d", count))
	return vsched.Outcome{Obs: strings.Join(obs, " "), Violations: viol}
}

func TestVerifC18(t *testing.T) {
	defer vsched.Finish(t)
	r := vsched.Rep()
	r.Assumption("remote causes are driven through goakt's in-package entry points (deliverRemoteTellMessage for an inbound remote tell, enqueueCoalescedFailure = the CoalescingErrorHandler of the remoting client); sockets, the wire codec and the coalescer itself are not run")
	r.Assumption("operations are separated by quiescence; the two senders of ovf2/unh2 run as two goroutines inside one step, their relative order is whatever the Go scheduler picks (the oracle does not depend on it)")
	depth := vsched.Pick(4, 5)
	vsched.Explore(vsched.Config{Scenario: "drop-cause-sequences", Bound: 0, SplitDepth: 2, Params: map[string]any{
		"depth": depth, "alphabet": strings.Join(c18Ops, " "), "initial": "bnd parked in a gate with 1 of 2 ring slots used",
	}}, func(c *vsched.Chooser) vsched.Outcome { return c18Run(t, depth, c) })
}
