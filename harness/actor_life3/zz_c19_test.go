//go:build verif

package actor

import (
	"context"
	"errors"
	"fmt"
	"os"
	"sort"
	"strconv"
	"strings"
	"sync"
	"testing"
	"time"

	"github.com/reugn/go-quartz/quartz"

	"github.com/tochemey/goakt/v4/internal/cluster"
	"github.com/tochemey/goakt/v4/internal/verif/vsched"
	"github.com/tochemey/goakt/v4/log"
)

// ---------------------------------------------------------------------------------------------
// C19 — scheduled messages are delivered as scheduled, and cancelled ones stop.
//
// Part 1 (scenario local-schedule-ops, vsched.BFS, model checking): every sequence of <= depth
// operations over
//     SO  ScheduleOnce(d, ref "once")        SP  Schedule(i, ref "per")
//     P/R/C(once), P/R/C(per)                 PauseSchedule / ResumeSchedule / CancelSchedule
//     U   Cancel+Pause+Resume of a reference that was never used
//     A1..A4  advance virtual time by d-1ns, d, i, 3i          (d = 3s, i = 2s)
// on a fresh real actor system in a fresh bubble (go-quartz runs on package time, i.e. on the bubble's
// fake clock). SO / SP are only enabled while the reference model holds no live schedule under that
// reference (re-using a live reference is not specified). After EVERY operation the bubble is settled
// and the deliveries seen so far (message instance + virtual receive time, recorded by the target actor)
// are validated against the reference model c19Model — a boring record of the schedules with the
// instants of schedule / pause / resume / cancel, driven by the operations and their return values:
//   once   never more than one delivery; never before t0+d; none while paused or after a cancel that
//          returned nil; delivered when quiescent at any T >= t0+d (never paused) or T >= r+d (r = the
//          instant ResumeSchedule was called on the paused schedule: the pause is lifted by the call);
//   per    never before t0+i; consecutive deliveries of one active segment at least i apart; none while
//          paused / after cancel; at quiescence the next delivery is never overdue (T - last < i, resp.
//          T - segmentStart < i before the first one). The phase after a resume is not specified by the
//          statement: any first delivery in (r, r+i] is accepted;
//   errors Cancel/Pause/Resume of an unknown or a cancelled reference must return an error.
// "At most one delivery already in flight completing after CancelSchedule returns": operations are
// issued at quiescence, where no job function is running and the target's mailbox is empty, so nothing
// is in flight and the allowance is 0 here (the in-flight allowance is exercised in part 2).
//
// Part 2 (scenarios cron-claim-*, vsched.Explore): N scheduler instances ("nodes", real
// newScheduler + real go-quartz), each on its own node-side actorSystem (c19NewNode: cluster engine wired,
// fully started, or - scenarios *-Kstarting - still inside ActorSystem.Start when the schedule is
// registered) whose getCluster() returns a fake cluster.Cluster that
// implements only ClaimScheduleFire as an atomic put-if-absent with TTL on a store SHARED by the nodes,
// with a gate in front of the atomic step. All nodes register the same cron schedule ("* * * * * *",
// same reference) for one local target. Events: advance to the next tick (every node's tick handler
// runs into its gate), release one pending claim (cost 0) or release it with an injected store error
// (cost 1), CancelSchedule on node 0. ALL orders. Oracle: per tick at most one delivery over all nodes;
// a node delivers iff its claim won; after CancelSchedule returned on a node no new tick handler of that
// node starts (tick handlers already parked in a claim may complete: in flight); and (non-vacuity, from
// ScheduleWithCron's documented "exactly once per trigger tick") a tick all of whose claims were
// released without an injected error is delivered.
// ---------------------------------------------------------------------------------------------

const (
	c19D = 3 * time.Second
	c19I = 2 * time.Second
)

type c19Tick struct {
	inst int // scheduling instance (part 1) or node index (part 2)
}

type c19Delivery struct {
	inst int
	at   time.Time
}

type c19Target struct {
	mu  sync.Mutex
	got []c19Delivery
}

func (a *c19Target) PreStart(*Context) error { return nil }
func (a *c19Target) PostStop(*Context) error { return nil }
func (a *c19Target) Receive(ctx *ReceiveContext) {
	if m, ok := ctx.Message().(*c19Tick); ok {
		a.mu.Lock()
		a.got = append(a.got, c19Delivery{inst: m.inst, at: time.Now()})
		a.mu.Unlock()
	}
}
func (a *c19Target) snapshot() []c19Delivery {
	a.mu.Lock()
	defer a.mu.Unlock()
	return append([]c19Delivery(nil), a.got...)
}

func c19NewSystem(name string) *actorSystem {
	sys, err := NewActorSystem(name, WithLogger(log.DiscardLogger))
	if err != nil {
		panic(err)
	}
	if err := sys.Start(context.Background()); err != nil {
		panic(err)
	}
	return sys.(*actorSystem)
}

// ------------------------------------------------------------------------------------- part 1

type c19Op int

const (
	c19SO c19Op = iota
	c19SP
	c19PauseOnce
	c19PausePer
	c19ResumeOnce
	c19ResumePer
	c19CancelOnce
	c19CancelPer
	c19Unknown
	c19A1
	c19A2
	c19A3
	c19A4
	c19NumOps
)

var c19OpNames = [...]string{"SO", "SP", "P(once)", "P(per)", "R(once)", "R(per)", "C(once)", "C(per)", "U", "A(d-1ns)", "A(d)", "A(i)", "A(3i)"}

func (o c19Op) String() string { return c19OpNames[o] }

type c19State int

const (
	c19None c19State = iota
	c19Active
	c19Paused
	c19Cancelled
	c19Done
)

var c19StateNames = [...]string{"none", "active", "paused", "cancelled", "done"}

// c19Sched is the reference model's record of one reference.
type c19Sched struct {
	once      bool
	state     c19State
	inst      int
	t0        time.Time // instant the schedule call returned nil
	segStart  time.Time // start of the current active segment (t0 or the resume instant)
	resumed   bool      // the current segment was started by ResumeSchedule
	nInSeg    int       // deliveries in the current segment
	last      time.Time // last delivery of the current segment
	delivered int       // total deliveries of this instance
	resumeErr string    // error returned by the ResumeSchedule call that lifted the pause ("" = nil)
}

type c19Model struct {
	refs   map[string]*c19Sched
	byInst map[int]*c19Sched
	stale  map[int]string // instances that were cancelled or replaced -> why
	nInst  int
	viol   []vsched.Violation
	hist   string
}

func c19NewModel() *c19Model {
	return &c19Model{refs: map[string]*c19Sched{"once": {once: true}, "per": {}}, byInst: map[int]*c19Sched{}, stale: map[int]string{}}
}

func (m *c19Model) fail(sig, format string, a ...any) {
	m.viol = append(m.viol, vsched.Fail(sig, "history [%s]: %s", m.hist, fmt.Sprintf(format, a...)))
}

// delivery validates one observed delivery (they arrive in receive order).
func (m *c19Model) delivery(d c19Delivery) {
	s := m.byInst[d.inst]
	if s == nil {
		m.fail("delivery-of-unknown-instance", "instance %d at %v", d.inst, d.at)
		return
	}
	kind := "periodic"
	if s.once {
		kind = "once"
	}
	if s.inst != d.inst {
		m.fail(kind+"-delivered-after-cancel-returned", "instance %d (%s) delivered at %v", d.inst, m.stale[d.inst], d.at)
		return
	}
	switch s.state {
	case c19Cancelled:
		m.fail(kind+"-delivered-after-cancel-returned", "instance %d delivered at %v although CancelSchedule had returned nil", d.inst, d.at)
		return
	case c19Paused:
		m.fail(kind+"-delivered-while-paused", "instance %d delivered at %v although PauseSchedule had returned nil and it was not resumed", d.inst, d.at)
		return
	case c19Done:
		m.fail("once-delivered-more-than-once", "instance %d delivered again at %v", d.inst, d.at)
		return
	}
	if s.once {
		if d.at.Before(s.t0.Add(c19D)) {
			m.fail("once-delivered-before-its-delay", "scheduled at %v with delay %v, delivered at %v", s.t0, c19D, d.at)
		}
		s.delivered++
		s.state = c19Done
		return
	}
	switch {
	case s.nInSeg == 0 && !s.resumed && d.at.Before(s.segStart.Add(c19I)):
		m.fail("periodic-delivered-before-its-interval", "scheduled at %v with interval %v, first delivery at %v", s.segStart, c19I, d.at)
	case s.nInSeg > 0 && d.at.Before(s.last.Add(c19I)):
		m.fail("periodic-deliveries-closer-than-the-interval", "deliveries at %v and %v, interval %v", s.last, d.at, c19I)
	}
	s.nInSeg++
	s.delivered++
	s.last = d.at
}

// quiescent checks that nothing is overdue at the quiescent instant now.
func (m *c19Model) quiescent(now time.Time) {
	for _, ref := range []string{"once", "per"} {
		s := m.refs[ref]
		if s.state != c19Active {
			continue
		}
		if s.once {
			due := s.t0.Add(c19D)
			if s.resumed && s.segStart.Add(c19D).After(due) {
				due = s.segStart.Add(c19D)
			}
			if !now.Before(due) {
				if s.resumed {
					m.fail("once-not-delivered-after-pause-and-resume", "scheduled at %v (delay %v), paused, ResumeSchedule called at %v (returned %q), now %v: never delivered", s.t0, c19D, s.segStart, s.resumeErr, now)
					s.state = c19Done // report once
				} else {
					m.fail("once-not-delivered-when-due", "scheduled at %v (delay %v), now %v: not delivered", s.t0, c19D, now)
					s.state = c19Done
				}
			}
			continue
		}
		base := s.segStart
		if s.nInSeg > 0 {
			base = s.last
		}
		if !now.Before(base.Add(c19I)) {
			if s.resumed {
				m.fail("periodic-delivery-missing-after-resume", "ResumeSchedule called at %v (returned %q), last delivery/segment start %v, interval %v, now %v", s.segStart, s.resumeErr, base, c19I, now)
			} else {
				m.fail("periodic-delivery-missing-when-due", "scheduled at %v, last delivery/segment start %v, interval %v, now %v", s.t0, base, c19I, now)
			}
			s.last, s.nInSeg = now, s.nInSeg+1 // report once per gap
		}
	}
}

func c19ErrStr(err error) string {
	if err == nil {
		return ""
	}
	return err.Error()
}

// applySchedule / applyCtl update the model from an operation and its return value.
func (m *c19Model) applySchedule(ref string, err error, now time.Time) int {
	s := m.refs[ref]
	if err != nil {
		return 0
	}
	if s.inst != 0 {
		m.stale[s.inst] = "replaced (" + c19StateNames[s.state] + ")"
	}
	m.nInst++
	ns := &c19Sched{once: s.once, state: c19Active, inst: m.nInst, t0: now, segStart: now}
	m.refs[ref] = ns
	// older instances keep pointing at their own record so that a late delivery is attributed
	m.byInst[ns.inst] = ns
	return ns.inst
}

func (m *c19Model) applyCtl(op string, ref string, err error, now time.Time) {
	s := m.refs[ref]
	switch s.state {
	case c19None:
		if err == nil {
			m.fail("unknown-reference-accepted", "%s(%q) returned nil although nothing was ever scheduled under it", op, ref)
		}
		return
	case c19Cancelled:
		if err == nil {
			m.fail("cancelled-reference-accepted", "%s(%q) returned nil although the schedule had been cancelled", op, ref)
		}
		return
	case c19Done:
		return // a one-shot that already fired: the statement does not say what the calls report
	}
	switch op {
	case "Cancel":
		if err == nil {
			s.state = c19Cancelled
			m.stale[s.inst] = "cancelled"
		}
	case "Pause":
		if err == nil {
			s.state = c19Paused
		}
	case "Resume":
		if s.state == c19Paused {
			// the call lifts the pause (the reference is known, paused and not cancelled)
			s.state, s.segStart, s.resumed, s.nInSeg, s.resumeErr = c19Active, now, true, 0, c19ErrStr(err)
		} else if err == nil {
			// resuming an active schedule is not specified; if it is accepted a new segment starts
			s.segStart, s.resumed, s.nInSeg, s.resumeErr = now, true, 0, ""
		}
	}
}

func (m *c19Model) canon(now time.Time) string {
	var sb strings.Builder
	rel := func(t time.Time) string {
		if t.IsZero() {
			return "-"
		}
		return now.Sub(t).String()
	}
	for _, ref := range []string{"once", "per"} {
		s := m.refs[ref]
		fmt.Fprintf(&sb, "%s:%s t0=%s seg=%s res=%v/%s n=%v last=%s;", ref, c19StateNames[s.state], rel(s.t0), rel(s.segStart), s.resumed, s.resumeErr, s.nInSeg > 0, rel(s.last))
	}
	return sb.String()
}

// c19ImplCanon dumps everything in the real scheduler that can influence the future: for both
// references the goakt key/meta maps and the quartz queue entry (suspended flag, next run time relative
// to now, trigger description incl. the run-once trigger's expired flag).
func c19ImplCanon(sys *actorSystem, now time.Time) string {
	var sb strings.Builder
	sc := sys.scheduler
	for _, ref := range []string{"once", "per", "ghost"} {
		key, hasKey := sc.scheduledKeys.Get(ref)
		_, hasMeta := sc.scheduledMeta.Get(ref)
		fmt.Fprintf(&sb, "%s:key=%v meta=%v", ref, hasKey, hasMeta)
		if !hasKey {
			key = quartz.NewJobKey(ref)
		}
		if job, err := sc.quartzScheduler.GetScheduledJob(key); err == nil {
			next := "max"
			if !job.JobDetail().Options().Suspended {
				next = time.Duration(job.NextRunTime() - now.UnixNano()).String()
			}
			fmt.Fprintf(&sb, " job{susp=%v next=%s trig=%s}", job.JobDetail().Options().Suspended, next, job.Trigger().Description())
		}
		sb.WriteString(";")
	}
	return sb.String()
}

var (
	c19EnabledMu sync.Mutex
	c19Enabled   = map[string][2]bool{} // history -> {once live, per live} in the model
)

func c19HistKey(h []c19Op) string {
	var sb strings.Builder
	for _, o := range h {
		sb.WriteByte(byte('a' + o))
	}
	return sb.String()
}

func c19Exec(t *testing.T, hist []c19Op) vsched.StepResult {
	m := c19NewModel()
	names := make([]string, len(hist))
	for i, o := range hist {
		names[i] = o.String()
	}
	m.hist = strings.Join(names, " ")
	var canon, lastObs string
	p := vfBubble(t, func() {
		ctx := context.Background()
		sys := c19NewSystem("c19")
		tgt := &c19Target{}
		pid, err := sys.Spawn(ctx, "tgt", tgt, WithLongLived())
		if err != nil {
			panic(err)
		}
		vfSettle()
		seen := 0
		for _, op := range hist {
			now := time.Now()
			var ret []string
			switch op {
			case c19SO:
				// the message must carry the instance the model is about to create
				msg := &c19Tick{inst: m.nInst + 1}
				err := sys.ScheduleOnce(ctx, msg, pid, c19D, WithReference("once"))
				m.applySchedule("once", err, now)
				ret = append(ret, c19ErrStr(err))
			case c19SP:
				msg := &c19Tick{inst: m.nInst + 1}
				err := sys.Schedule(ctx, msg, pid, c19I, WithReference("per"))
				m.applySchedule("per", err, now)
				ret = append(ret, c19ErrStr(err))
			case c19PauseOnce, c19PausePer, c19ResumeOnce, c19ResumePer, c19CancelOnce, c19CancelPer:
				ref := "once"
				if op == c19PausePer || op == c19ResumePer || op == c19CancelPer {
					ref = "per"
				}
				var err error
				name := ""
				switch op {
				case c19PauseOnce, c19PausePer:
					name, err = "Pause", sys.PauseSchedule(ref)
				case c19ResumeOnce, c19ResumePer:
					name, err = "Resume", sys.ResumeSchedule(ref)
				default:
					name, err = "Cancel", sys.CancelSchedule(ref)
				}
				m.applyCtl(name, ref, err, now)
				ret = append(ret, c19ErrStr(err))
			case c19Unknown:
				for _, f := range []struct {
					n string
					f func(string) error
				}{{"Cancel", sys.CancelSchedule}, {"Pause", sys.PauseSchedule}, {"Resume", sys.ResumeSchedule}} {
					err := f.f("ghost")
					if err == nil {
						m.fail("unknown-reference-accepted", "%sSchedule(\"ghost\") returned nil", f.n)
					}
					ret = append(ret, c19ErrStr(err))
				}
			case c19A1:
				time.Sleep(c19D - 1)
			case c19A2:
				time.Sleep(c19D)
			case c19A3:
				time.Sleep(c19I)
			case c19A4:
				time.Sleep(3 * c19I)
			}
			vfSettle()
			got := tgt.snapshot()
			var ds []string
			for _, d := range got[seen:] {
				m.delivery(d)
				ds = append(ds, fmt.Sprintf("%d@%v", d.inst, d.at.Sub(now)))
			}
			seen = len(got)
			m.quiescent(time.Now())
			lastObs = fmt.Sprintf("%s -> ret=%q deliveries=%v", op, ret, ds)
		}
		now := time.Now()
		canon = c19ImplCanon(sys, now) + " || " + m.canon(now)
		if err := vfStopSystem(sys); err != nil {
			panic(err)
		}
	})
	if p != nil {
		return vsched.StepResult{Canon: "panic:" + c19HistKey(hist), Obs: fmt.Sprint(p), Dead: true,
			Violations: []vsched.Violation{vsched.Fail("harness-panic", "history [%s]: %v", m.hist, p)}}
	}
	c19EnabledMu.Lock()
	c19Enabled[c19HistKey(hist)] = [2]bool{
		m.refs["once"].state == c19Active || m.refs["once"].state == c19Paused,
		m.refs["per"].state == c19Active || m.refs["per"].state == c19Paused,
	}
	c19EnabledMu.Unlock()
	return vsched.StepResult{Canon: canon, Obs: lastObs + " @ " + canon, Violations: m.viol}
}

func c19Alphabet(hist []c19Op) []c19Op {
	c19EnabledMu.Lock()
	live := c19Enabled[c19HistKey(hist)]
	c19EnabledMu.Unlock()
	var out []c19Op
	for o := c19Op(0); o < c19NumOps; o++ {
		if (o == c19SO && live[0]) || (o == c19SP && live[1]) {
			continue
		}
		out = append(out, o)
	}
	return out
}

// c19Macro is one BFS step: a single operation, except at depth 1 where it is a PAIR of operations so
// that the engine's first-step sharding spreads the work (most single first operations are no-ops on
// an empty scheduler). The set of histories explored is exactly "all sequences of <= depth operations".
type c19Macro []c19Op

func (m c19Macro) String() string {
	parts := make([]string, len(m))
	for i, o := range m {
		parts[i] = o.String()
	}
	return strings.Join(parts, " ")
}

func c19Flatten(h []c19Macro) []c19Op {
	var out []c19Op
	for _, m := range h {
		out = append(out, m...)
	}
	return out
}

func c19MacroAlphabet(hist []c19Macro) []c19Macro {
	var out []c19Macro
	if len(hist) == 0 {
		for a := c19Op(0); a < c19NumOps; a++ {
			for b := c19Op(0); b < c19NumOps; b++ {
				if (a == c19SO && b == c19SO) || (a == c19SP && b == c19SP) {
					continue // the reference is live after the first operation
				}
				out = append(out, c19Macro{a, b})
			}
		}
		return out
	}
	for _, o := range c19Alphabet(c19Flatten(hist)) {
		out = append(out, c19Macro{o})
	}
	return out
}

// ------------------------------------------------------------------------------------- part 2

type c19Claim struct {
	node   int
	key    string
	ttl    time.Duration
	round  int      // tick round in which the call arrived
	gate   chan int // 0 = run the atomic step, 1 = fail with an injected store error
	result string   // "won" | "lost" | "error" (set when the call returned)
}

type c19Store struct {
	mu      sync.Mutex
	entries map[string]time.Time // key -> expiry
	pending []*c19Claim
	all     []*c19Claim
	round   int
}

func (s *c19Store) putIfAbsent(key string, ttl time.Duration) error {
	s.mu.Lock()
	defer s.mu.Unlock()
	if exp, ok := s.entries[key]; ok && time.Now().Before(exp) {
		return cluster.ErrScheduleFireClaimed
	}
	s.entries[key] = time.Now().Add(ttl)
	return nil
}

// c19FakeCluster implements the one cluster.Cluster method the scheduler uses; every other method
// would panic on the nil embedded interface (none is called).
type c19FakeCluster struct {
	cluster.Cluster
	store *c19Store
	node  int
}

func (f *c19FakeCluster) ClaimScheduleFire(_ context.Context, key string, ttl time.Duration) error {
	cl := &c19Claim{node: f.node, key: key, ttl: ttl, gate: make(chan int)}
	f.store.mu.Lock()
	cl.round = f.store.round
	f.store.pending = append(f.store.pending, cl)
	f.store.all = append(f.store.all, cl)
	f.store.mu.Unlock()
	if mode := <-cl.gate; mode == 1 {
		cl.result = "error"
		return errors.New("c19: claim store unavailable")
	}
	err := f.store.putIfAbsent(key, ttl)
	if err == nil {
		cl.result = "won"
	} else {
		cl.result = "lost"
	}
	return err
}

// c19NewNode builds the actor-system side of one cluster node as the scheduler sees it: the cluster
// engine is wired (the fake), clustering is enabled, NoSender is the hosting system's, and the node is
// either fully started (`started` set) or still inside ActorSystem.Start (`starting` set, `started` not
// yet: the state in which actors spawned/relocated onto a starting node run PreStart/PostStart). The real
// getCluster / InCluster / NoSender of actorSystem run unchanged.
func c19NewNode(host *actorSystem, cl cluster.Cluster, starting bool) *actorSystem {
	ns := &actorSystem{cluster: cl, noSender: host.NoSender(), logger: log.DiscardLogger}
	ns.clusterEnabled.Store(true)
	if starting {
		ns.starting.Store(true)
	} else {
		ns.started.Store(true)
	}
	return ns
}

func c19CronRun(t *testing.T, nodes, ticks int, withCancel bool, startingNodes int, c *vsched.Chooser) vsched.Outcome {
	var (
		viol    []vsched.Violation
		obs     []string
		invalid string
	)
	fail := func(sig, format string, a ...any) { viol = append(viol, vsched.Fail(sig, format, a...)) }
	p := vfBubble(t, func() {
		ctx := context.Background()
		sys := c19NewSystem("c19c")
		tgt := &c19Target{}
		pid, err := sys.Spawn(ctx, "tgt", tgt, WithLongLived())
		if err != nil {
			panic(err)
		}
		store := &c19Store{entries: map[string]time.Time{}}
		scheds := make([]*scheduler, nodes)
		for i := range scheds {
			// the last `startingNodes` nodes register the schedule while they are still starting
			ns := c19NewNode(sys, &c19FakeCluster{store: store, node: i}, i >= nodes-startingNodes)
			scheds[i] = newScheduler(log.DiscardLogger, time.Second, ns)
			scheds[i].Start(ctx)
			if err := scheds[i].ScheduleWithCron(&c19Tick{inst: i}, pid, "* * * * * *", WithReference("cron")); err != nil {
				panic(fmt.Sprintf("ScheduleWithCron node %d: %v", i, err))
			}
		}
		vfSettle()
		releaseAll := func() {
			for {
				store.mu.Lock()
				pend := store.pending
				store.pending = nil
				store.mu.Unlock()
				if len(pend) == 0 {
					return
				}
				for _, cl := range pend {
					cl.gate <- 0
				}
				vfSettle()
			}
		}
		defer func() {
			releaseAll()
			for _, s := range scheds {
				s.Stop(ctx)
			}
			vfSettle()
		}()

		delivered := 0
		perRound := map[int]int{}        // tick round -> deliveries
		faultInRound := map[int]bool{}   // an error was injected into a claim of this round
		cancelRound := -1                // round during which node 0 was cancelled
		cancelDone := !withCancel
		for {
			store.mu.Lock()
			pend := append([]*c19Claim(nil), store.pending...)
			round := store.round
			store.mu.Unlock()
			// deterministic order of the pending calls: by node (one call per node and round at most)
			sort.Slice(pend, func(i, j int) bool {
				if pend[i].round != pend[j].round {
					return pend[i].round < pend[j].round
				}
				return pend[i].node < pend[j].node
			})
			type ev struct {
				kind  string
				claim *c19Claim
			}
			var evs []ev
			var costs []int
			if round < ticks {
				evs, costs = append(evs, ev{kind: "advance"}), append(costs, 0)
			}
			for _, cl := range pend {
				evs, costs = append(evs, ev{"release", cl}), append(costs, 0)
			}
			if !cancelDone && round >= 1 {
				evs, costs = append(evs, ev{kind: "cancel0"}), append(costs, 0)
			}
			for _, cl := range pend {
				evs, costs = append(evs, ev{"release-with-store-error", cl}), append(costs, 1)
			}
			if len(evs) == 0 {
				break
			}
			if costs[0] != 0 {
				// keep the engine's convention (option 0 costs nothing): cannot happen, releases come first
				panic("c19: first option has a cost")
			}
			k := c.Choose("event", len(evs), costs, func(i int) string {
				if evs[i].claim != nil {
					return fmt.Sprintf("%s(node%d,tick%d)", evs[i].kind, evs[i].claim.node, evs[i].claim.round)
				}
				return evs[i].kind
			})
			e := evs[k]
			switch e.kind {
			case "advance":
				store.mu.Lock()
				store.round++
				r := store.round
				store.mu.Unlock()
				time.Sleep(time.Second)
				vfSettle()
				store.mu.Lock()
				arrived := map[int]int{}
				for _, cl := range store.all {
					if cl.round == r {
						arrived[cl.node]++
					}
				}
				store.mu.Unlock()
				// no claim was released during this step: nothing may have been delivered
				got := tgt.snapshot()
				direct := map[int]int{}
				for _, d := range got[delivered:] {
					direct[d.inst]++
					fail("cron-tick-delivered-without-consulting-the-claim", "node%d delivered tick %d while no claim of it had been released (claims of this node pending for the tick: %d)", d.inst, r, arrived[d.inst])
				}
				perRound[r] += len(got) - delivered
				delivered = len(got)
				for nd := 0; nd < nodes; nd++ {
					want := 1
					if nd == 0 && cancelRound >= 0 {
						want = 0
					}
					switch {
					case arrived[nd] > want && want == 0:
						fail("cron-tick-handler-started-after-cancel-returned", "node0 called ClaimScheduleFire for tick %d although CancelSchedule had returned nil during tick %d", r, cancelRound)
					case arrived[nd] > 1:
						fail("cron-tick-handled-twice-on-one-node", "node%d called ClaimScheduleFire %d times for tick %d", nd, arrived[nd], r)
					case arrived[nd] < want && direct[nd] == 0:
						invalid = fmt.Sprintf("node%d neither reached its claim nor delivered for tick %d (harness expectation)", nd, r)
					}
				}
				obs = append(obs, fmt.Sprintf("tick%d", r))
			case "cancel0":
				if err := scheds[0].CancelSchedule("cron"); err != nil {
					fail("cancel-of-live-cron-schedule-failed", "CancelSchedule on node0 returned %v", err)
				}
				cancelDone, cancelRound = true, round
				vfSettle()
				obs = append(obs, "cancel0")
			default:
				store.mu.Lock()
				for i, cl := range store.pending {
					if cl == e.claim {
						store.pending = append(store.pending[:i], store.pending[i+1:]...)
						break
					}
				}
				store.mu.Unlock()
				mode := 0
				if e.kind == "release-with-store-error" {
					mode = 1
					faultInRound[e.claim.round] = true
				}
				e.claim.gate <- mode
				vfSettle()
				got := tgt.snapshot()
				delta := len(got) - delivered
				for _, d := range got[delivered:] {
					if d.inst != e.claim.node {
						fail("cron-delivery-by-a-node-whose-claim-was-not-released", "delivery by node%d while only node%d's claim for tick %d was released", d.inst, e.claim.node, e.claim.round)
					}
				}
				delivered = len(got)
				perRound[e.claim.round] += delta
				switch {
				case e.claim.result == "won" && delta == 0:
					fail("cron-claim-won-but-tick-not-delivered", "node%d won the claim %q and delivered nothing", e.claim.node, e.claim.key)
				case e.claim.result != "won" && delta > 0:
					fail("cron-tick-delivered-without-winning-the-claim", "node%d delivered tick %d although its claim result was %q", e.claim.node, e.claim.round, e.claim.result)
				case delta > 1:
					fail("cron-tick-delivered-more-than-once", "node%d delivered tick %d %d times", e.claim.node, e.claim.round, delta)
				}
				obs = append(obs, fmt.Sprintf("n%d.t%d=%s/%d", e.claim.node, e.claim.round, e.claim.result, delta))
			}
		}
		for r := 1; r <= ticks; r++ {
			switch {
			case perRound[r] > 1:
				fail("cron-tick-delivered-more-than-once", "tick %d was delivered %d times across the %d nodes", r, perRound[r], nodes)
			case perRound[r] == 0 && !faultInRound[r] && !(nodes == 1 && cancelRound >= 0 && cancelRound < r):
				fail("cron-tick-not-delivered-by-any-node", "tick %d: every claim was released without an injected error and no node delivered", r)
			}
		}
		// keys: all claims of one round must race for the same key, different rounds for different keys
		store.mu.Lock()
		keyOf := map[int]string{}
		for _, cl := range store.all {
			if k, ok := keyOf[cl.round]; ok && k != cl.key {
				fail("cron-nodes-claim-different-keys-for-one-tick", "tick %d: keys %q and %q", cl.round, k, cl.key)
			}
			keyOf[cl.round] = cl.key
		}
		store.mu.Unlock()
		releaseAll()
		for _, s := range scheds {
			s.Stop(ctx)
		}
		scheds = nil
		if err := vfStopSystem(sys); err != nil {
			panic(err)
		}
	})
	if p != nil {
		return vsched.Outcome{Invalid: fmt.Sprintf("harness panic: %v", p)}
	}
	if invalid != "" {
		return vsched.Outcome{Invalid: invalid}
	}
	return vsched.Outcome{Obs: strings.Join(obs, " "), Violations: viol}
}

func TestVerifC19(t *testing.T) {
	defer vsched.Finish(t)
	r := vsched.Rep()
	r.Assumption("go-quartz (v0.15.2) runs un-instrumented inside the bubble on the fake clock; its internal interleavings are not explored")
	r.Assumption("cluster cron: the cluster engine is a fake whose ClaimScheduleFire is an atomic put-if-absent with TTL (the documented contract of internal/cluster.ClaimScheduleFire = olric NX+EX); olric and the real wrapper are not run; no node lags behind a tick by more than the claim TTL (the stale-tick skip is not exercised)")
	depth := vsched.Pick(4, 6)
	budget := 3600.0
	if f, err := strconv.ParseFloat(os.Getenv("VERIF_BUDGET_S"), 64); err == nil {
		budget = f
	}
	start := time.Now()

	// ---- part 2 first (small): the cron scenarios share at most 60% of the wall budget
	type cfg struct {
		nodes, ticks int
		cancel       bool
		faults       int // bound on injected claim-store errors
		starting     int // number of nodes that register the schedule while still inside ActorSystem.Start
	}
	cfgs := vsched.Pick(
		[]cfg{{3, 1, false, 1, 0}, {3, 1, false, 1, 3}, {2, 2, false, 1, 1}, {2, 2, true, 1, 0}, {3, 2, false, 0, 0}},
		[]cfg{{3, 1, false, 1, 0}, {3, 1, false, 1, 3}, {2, 2, false, 1, 1}, {2, 2, true, 1, 0}, {3, 2, false, 1, 0}, {3, 2, false, 1, 2}, {3, 2, true, 0, 0}, {2, 3, true, 0, 0}})
	for k, cf := range cfgs {
		cf := cf
		name := fmt.Sprintf("cron-claim-%dnodes-%dticks", cf.nodes, cf.ticks)
		if cf.cancel {
			name += "-cancel"
		}
		if cf.starting > 0 {
			name += fmt.Sprintf("-%dstarting", cf.starting)
		}
		// smallest first; together they may use at most 60% of the wall budget (the BFS keeps the rest)
		_ = k
		dl := start.Add(time.Duration(0.6 * budget * float64(time.Second)))
		vsched.Explore(vsched.Config{Scenario: name, Bound: cf.faults, SplitDepth: 3, Deadline: dl, Params: map[string]any{
			"nodes": cf.nodes, "ticks": cf.ticks, "cancel_on_node0": cf.cancel, "cron": "* * * * * *", "fault": "injected claim-store error (cost 1)", "fault_bound": cf.faults, "nodes_registering_while_starting": cf.starting,
		}}, func(c *vsched.Chooser) vsched.Outcome { return c19CronRun(t, cf.nodes, cf.ticks, cf.cancel, cf.starting, c) })
	}

	// ---- part 1: every single operation first (depth 1), then the BFS proper whose first step is a pair
	e := vsched.NewEnum("local-schedule-single-op", map[string]any{"alphabet": strings.Join(c19OpNames[:], " ")})
	for o := c19Op(0); o < c19NumOps; o++ {
		if !e.Mine() {
			continue
		}
		res := c19Exec(t, []c19Op{o})
		for _, v := range res.Violations {
			e.Fail(v.Signature, o.String(), "%s", v.Detail)
		}
		e.Case(o.String(), res.Obs, 1, o == c19SO || o == c19SP)
	}
	e.Done()
	vsched.BFS(vsched.BFSConfig{Scenario: "local-schedule-ops", Depth: depth - 1, ShardFirstOp: true, Params: map[string]any{
		"operations_per_history": depth, "bfs_steps": "first step = 2 operations, every further step = 1", "d": c19D.String(), "i": c19I.String(), "alphabet": strings.Join(c19OpNames[:], " "),
	}}, c19MacroAlphabet, func(h []c19Macro) vsched.StepResult { return c19Exec(t, c19Flatten(h)) }, func(m c19Macro) string { return m.String() })
}
