//go:build verif

package actor

// Environment shared by C41 and the replicator part of C39: N real replicatorActor instances spawned
// as ordinary actors of one real actor system inside a synctest bubble. Their outgoing traffic is
// captured (the topicActor field of every replicator points to a capture actor; cluster and remoting
// are small fakes that route to the sibling replicators), so that the explorer owns the network:
// every published delta / tombstone and every anti-entropy full state sits in a pool until an event
// delivers it to a chosen replica through the real message handlers.

import (
	"context"
	"fmt"
	"sort"
	"strings"
	"sync"
	"time"

	"github.com/tochemey/goakt/v4/crdt"
	"github.com/tochemey/goakt/v4/internal/address"
	"github.com/tochemey/goakt/v4/internal/cluster"
	"github.com/tochemey/goakt/v4/internal/codec"
	"github.com/tochemey/goakt/v4/internal/ddata"
	"github.com/tochemey/goakt/v4/internal/internalpb"
	"github.com/tochemey/goakt/v4/internal/remoteclient"
	"github.com/tochemey/goakt/v4/internal/types"
)

// c41Pub is one message published by a replicator to the CRDT topic.
type c41Pub struct {
	from string
	msg  any
}

type c41Forward struct {
	to  *PID
	msg any
}

// c41Capture stands in for the topic actor and for the remote peer that receives anti-entropy
// replies; it also forwards messages on behalf of the explorer (so that they carry a sender).
type c41Capture struct {
	mu    sync.Mutex
	pubs  []c41Pub
	fulls []*internalpb.CRDTFullState
}

func (c *c41Capture) PreStart(*Context) error { return nil }
func (c *c41Capture) PostStop(*Context) error { return nil }
func (c *c41Capture) Receive(ctx *ReceiveContext) {
	switch m := ctx.Message().(type) {
	case *Publish:
		from := ""
		if s := ctx.Sender(); s != nil {
			from = s.ID()
		}
		c.mu.Lock()
		c.pubs = append(c.pubs, c41Pub{from: from, msg: m.Message()})
		c.mu.Unlock()
	case *internalpb.CRDTFullState:
		c.mu.Lock()
		c.fulls = append(c.fulls, m)
		c.mu.Unlock()
	case *c41Forward:
		ctx.Tell(m.to, m.msg)
	}
}

func (c *c41Capture) drain() ([]c41Pub, []*internalpb.CRDTFullState) {
	c.mu.Lock()
	defer c.mu.Unlock()
	p, f := c.pubs, c.fulls
	c.pubs, c.fulls = nil, nil
	return p, f
}

// c41Cluster / c41Remoting: only the methods the replicator's coordinated read uses.
type c41Cluster struct {
	cluster.Cluster
	peers []*cluster.Peer
}

func (c *c41Cluster) Peers(context.Context) ([]*cluster.Peer, error) { return c.peers, nil }

type c41Remoting struct {
	remoteclient.Client
	env *c41Env
}

func (r *c41Remoting) RemoteLookup(_ context.Context, host string, port int, name string) (*address.Address, error) {
	return address.New(name, "c41", host, port), nil
}

func (r *c41Remoting) RemoteAsk(ctx context.Context, _, to *address.Address, message any, timeout time.Duration) (any, error) {
	return Ask(ctx, r.env.pids[to.Port()], message, timeout)
}

func (r *c41Remoting) RemoteTell(ctx context.Context, _, to *address.Address, message any) error {
	return Tell(ctx, r.env.pids[to.Port()], message)
}

type c41Env struct {
	sys  *actorSystem
	ttl  time.Duration
	pids []*PID
	acts []*replicatorActor
	cap  *c41Capture
	cpid *PID
}

// c41NewEnv must be called inside a bubble.
func c41NewEnv(n int, ttl time.Duration) *c41Env {
	ctx := context.Background()
	e := &c41Env{ttl: ttl, cap: &c41Capture{}}
	e.sys = vfNewSystem("c41")
	cfg := crdt.NewConfig(crdt.WithAntiEntropyInterval(0), crdt.WithPruneInterval(0), crdt.WithTombstoneTTL(ttl))
	e.sys.extensions.Set(crdtConfigExtensionID, &crdtConfigExtension{config: cfg})
	var err error
	if e.cpid, err = e.sys.Spawn(ctx, "capture", e.cap, WithLongLived()); err != nil {
		panic(err)
	}
	for i := 0; i < n; i++ {
		act := newReplicatorActor()
		pid, err := e.sys.Spawn(ctx, fmt.Sprintf("rep%d", i), act, WithLongLived())
		if err != nil {
			panic(err)
		}
		e.pids = append(e.pids, pid)
		e.acts = append(e.acts, act)
	}
	vfSettle()
	for i, act := range e.acts {
		if act.pid == nil || act.nodeID == "" {
			panic("c41NewEnv: replicator did not complete PostStart")
		}
		act.topicActor = e.cpid
		var peers []*cluster.Peer
		for j := 0; j < n; j++ {
			if j != i {
				peers = append(peers, &cluster.Peer{Host: "peer", RemotingPort: j})
			}
		}
		act.clusterRef = &c41Cluster{peers: peers}
		act.remoting = &c41Remoting{env: e}
	}
	return e
}

// reset puts every replicator back into its freshly started state (the state PreStart builds) and
// empties the capture; must be called at quiescence.
func (e *c41Env) reset() {
	for _, a := range e.acts {
		a.store = make(map[string]crdt.ReplicatedData)
		a.keyTypes = make(map[string]crdt.DataType)
		a.subscriptions = make(map[string]types.Unit)
		a.watchers = make(map[string][]*PID)
		a.tombstones = make(map[string]*tombstone)
		a.versions = make(map[string]uint64)
		a.msgSeq.Store(0)
		a.pendingDeltas, a.pendingTombstones = nil, nil
	}
	e.cap.drain()
}

func (e *c41Env) stop() {
	if err := vfStopSystem(e.sys); err != nil {
		panic(err)
	}
}

func (e *c41Env) index(nodeID string) int {
	for i, a := range e.acts {
		if a.nodeID == nodeID {
			return i
		}
	}
	return -1
}

func (e *c41Env) ask(i int, msg any) any {
	resp, err := Ask(context.Background(), e.pids[i], msg, time.Second)
	if err != nil {
		panic(fmt.Sprintf("ask replica %d %T: %v", i, msg, err))
	}
	vfSettle()
	return resp
}

func (e *c41Env) tell(i int, msg any) {
	if err := Tell(context.Background(), e.pids[i], msg); err != nil {
		panic(fmt.Sprintf("tell replica %d %T: %v", i, msg, err))
	}
	vfSettle()
}

// tellAs delivers msg to replica i with the capture actor as sender.
func (e *c41Env) tellAs(i int, msg any) {
	if err := Tell(context.Background(), e.cpid, &c41Forward{to: e.pids[i], msg: msg}); err != nil {
		panic(err)
	}
	vfSettle()
}

func (e *c41Env) get(i int, key crdt.Key, coord crdt.Coordination) crdt.ReplicatedData {
	resp := e.ask(i, &crdt.Get{Key: key, ReadFrom: coord})
	return resp.(*crdt.GetResponse).Data
}

// digest asks replica i for its anti-entropy digest through the real handler.
func (e *c41Env) digest(i int) *internalpb.CRDTDigest {
	return e.ask(i, &dataCenterDigestRequest{}).(*internalpb.CRDTDigest)
}

// fullStateFor lets replica j answer replica i's digest (real handleDigest); nil when j has nothing to send.
func (e *c41Env) fullStateFor(i, j int) *internalpb.CRDTFullState {
	d := e.digest(i)
	e.cap.drain()
	e.tellAs(j, d)
	_, fulls := e.cap.drain()
	if len(fulls) == 0 {
		return nil
	}
	return fulls[0]
}

// c41Value renders a CRDT value through its public accessors (sorted).
func c41Value(d crdt.ReplicatedData) string {
	switch x := d.(type) {
	case nil:
		return "<none>"
	case *crdt.GCounter:
		return fmt.Sprintf("G%d%v", x.Value(), c41SortedU(x.State()))
	case *crdt.PNCounter:
		p, n := x.State()
		return fmt.Sprintf("PN%d+%v-%v", x.Value(), c41SortedU(p), c41SortedU(n))
	case *crdt.Flag:
		return fmt.Sprintf("F%v", x.Enabled())
	case *crdt.LWWRegister:
		return fmt.Sprintf("L%v@%d/%s", x.Value(), x.Timestamp(), x.NodeID())
	case *crdt.MVRegister:
		return "MV" + fmt.Sprint(c41SortedAny(x.Values()))
	case *crdt.ORSet:
		es, clk := x.RawState()
		var parts []string
		for _, en := range es {
			ds := make([]string, len(en.Dots))
			for k, dt := range en.Dots {
				ds[k] = fmt.Sprintf("%s:%d", dt.NodeID, dt.Counter)
			}
			sort.Strings(ds)
			parts = append(parts, fmt.Sprintf("%v=%v", en.Element, ds))
		}
		sort.Strings(parts)
		return fmt.Sprintf("OS%v%v", parts, c41SortedU(clk))
	case *crdt.ORMap:
		ks := c41SortedAny(x.Keys())
		var parts []string
		for _, k := range ks {
			v, _ := x.Get(k)
			parts = append(parts, k+"="+c41Value(v))
		}
		raw := x.RawState()
		return fmt.Sprintf("OM%v%v", parts, c41SortedU(raw.KeyClock))
	}
	return fmt.Sprintf("%T", d)
}

func c41SortedU(m map[string]uint64) []string {
	out := make([]string, 0, len(m))
	for k, v := range m {
		out = append(out, fmt.Sprintf("%s=%d", k[strings.LastIndex(k, "/")+1:], v))
	}
	sort.Strings(out)
	return out
}

func c41SortedAny(in []any) []string {
	out := make([]string, len(in))
	for i, v := range in {
		out[i] = fmt.Sprint(v)
	}
	sort.Strings(out)
	return out
}

// c41MsgString renders a pooled wire message independent of absolute time.
func c41MsgString(e *c41Env, m any, now time.Time) string {
	switch x := m.(type) {
	case *internalpb.CRDTTombstone:
		id, _, _ := codec.DecodeCRDTKey(x.GetKey())
		return fmt.Sprintf("tomb(%s by %d age %d)", id, e.index(x.GetDeletedByNode()), now.UnixNano()-x.GetDeletedAtNanos())
	case *internalpb.CRDTDelta:
		id, _, _ := codec.DecodeCRDTKey(x.GetKey())
		d, err := ddata.DecodeCRDT(x.GetData(), ddata.NewCRDTValueSerializer())
		if err != nil {
			return "delta(undecodable)"
		}
		return fmt.Sprintf("delta(%s from %d %s)", id, e.index(x.GetOriginNode()), c41Value(d))
	case *internalpb.CRDTFullState:
		var parts []string
		for _, en := range x.GetEntries() {
			id, _, _ := codec.DecodeCRDTKey(en.GetKey())
			d, err := ddata.DecodeCRDT(en.GetData(), ddata.NewCRDTValueSerializer())
			if err != nil {
				parts = append(parts, id+"=undecodable")
				continue
			}
			parts = append(parts, id+"="+c41Value(d))
		}
		sort.Strings(parts)
		return fmt.Sprintf("full%v", parts)
	}
	return fmt.Sprintf("%T", m)
}
