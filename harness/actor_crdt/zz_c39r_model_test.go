//go:build verif

package actor

// Reference models for the replicator part of C39. This file is the package-actor twin of
// harness/crdt/zz_c38_model_test.go (same models, same comparison; only public accessors of package crdt
// are used here, and the raw-state dump helpers are left out). Keep the two in sync.

import (
	"fmt"
	"sort"
	"strings"
	"time"

	"github.com/tochemey/goakt/v4/crdt"
)

// c39rState is a CRDT value as held by a replicator, with the reference knowledge of its holder.
type c39rState struct {
	d crdt.ReplicatedData
	m any
}

// ---------------------------------------------------------------------------------------------
// Raw-state dump (every private field; maps sorted by key, slices in stored order) and observable
// value (what the public read accessors return; sets/multisets sorted so that map iteration order
// and entry order cannot leak into the observation).
// ---------------------------------------------------------------------------------------------

func c39rU64Map(m map[string]uint64) string {
	ks := make([]string, 0, len(m))
	for k := range m {
		ks = append(ks, k)
	}
	sort.Strings(ks)
	var b strings.Builder
	b.WriteByte('[')
	for i, k := range ks {
		if i > 0 {
			b.WriteByte(' ')
		}
		fmt.Fprintf(&b, "%s=%d", k, m[k])
	}
	b.WriteByte(']')
	return b.String()
}

func c39rSortedAny(in []any) []string {
	out := make([]string, len(in))
	for i, v := range in {
		out[i] = fmt.Sprint(v)
	}
	sort.Strings(out)
	return out
}

// c39rObs is the observable value of a CRDT: only public read accessors are used.
func c39rObs(d crdt.ReplicatedData) string {
	switch x := d.(type) {
	case nil:
		return "nil"
	case *crdt.GCounter:
		return fmt.Sprintf("val=%d slots=%s", x.Value(), c39rU64Map(x.State()))
	case *crdt.PNCounter:
		p, n := x.State()
		return fmt.Sprintf("val=%d +%s -%s", x.Value(), c39rU64Map(p), c39rU64Map(n))
	case *crdt.Flag:
		return fmt.Sprintf("enabled=%v", x.Enabled())
	case *crdt.LWWRegister:
		return fmt.Sprintf("v=%v ts=%d n=%s", x.Value(), x.Timestamp(), x.NodeID())
	case *crdt.MVRegister:
		return "vals=" + strings.Join(c39rSortedAny(x.Values()), ",")
	case *crdt.ORSet:
		return "elems=" + strings.Join(c39rSortedAny(x.Elements()), ",")
	case *crdt.ORMap:
		ks := x.Keys()
		sort.Slice(ks, func(i, j int) bool { return fmt.Sprint(ks[i]) < fmt.Sprint(ks[j]) })
		var b strings.Builder
		b.WriteString("keys=")
		for i, k := range ks {
			if i > 0 {
				b.WriteByte(',')
			}
			v, ok := x.Get(k)
			if !ok || v == nil {
				fmt.Fprintf(&b, "%v:<none>", k)
			} else {
				fmt.Fprintf(&b, "%v:{%s}", k, c39rObs(v))
			}
		}
		return b.String()
	}
	return fmt.Sprintf("?%T", d)
}

func c39rNode(rep int) string { return fmt.Sprintf("n%d", rep) }

// ---------------------------------------------------------------------------------------------
// Reference models. All model values are immutable (operations copy).
// ---------------------------------------------------------------------------------------------

type c39rDot struct {
	rep string
	cnt uint64
}

func (d c39rDot) String() string { return fmt.Sprintf("%s:%d", d.rep, d.cnt) }

func c39rCopyU(m map[string]uint64) map[string]uint64 {
	o := make(map[string]uint64, len(m))
	for k, v := range m {
		o[k] = v
	}
	return o
}

func c39rMaxU(a, b map[string]uint64) map[string]uint64 {
	o := c39rCopyU(a)
	for k, v := range b {
		if v > o[k] {
			o[k] = v
		}
	}
	return o
}

// grow-only counter: per node slot, join = pointwise max.
type c39rGC struct{ s map[string]uint64 }

// PN counter: two grow-only counters.
type c39rPN struct{ p, n map[string]uint64 }

type c39rFL struct{ on bool }

// LWW: the greatest (ts,node) write; several values only when two different values carry the very
// same (ts,node) (then the winner is unspecified and any of them is accepted).
type c39rLW struct {
	set  bool
	ts   int64
	node string
	vals map[string]bool
}

// MV register: all known writes and the set of superseded ones.
type c39rMV struct {
	w map[c39rDot]string
	s map[c39rDot]bool
}

// OR-Set: all known add events and the set of observed-removed ones (classic tombstone OR-Set).
type c39rOS struct {
	a map[c39rDot]string
	r map[c39rDot]bool
}

// OR-Map with nested grow-only counters: keys as OR-Set; nested slots are tracked only for keys for
// which no removal is known (the value of a re-added key is left unspecified by the reference).
type c39rOM struct {
	keys    c39rOS
	nested  map[string]map[string]uint64
	removed map[string]bool
}

func c39rOSJoin(a, b c39rOS) c39rOS {
	o := c39rOS{a: map[c39rDot]string{}, r: map[c39rDot]bool{}}
	for k, v := range a.a {
		o.a[k] = v
	}
	for k, v := range b.a {
		o.a[k] = v
	}
	for k := range a.r {
		o.r[k] = true
	}
	for k := range b.r {
		o.r[k] = true
	}
	return o
}

func c39rOSValue(m c39rOS) map[string]bool {
	out := map[string]bool{}
	for d, e := range m.a {
		if !m.r[d] {
			out[e] = true
		}
	}
	return out
}

func c39rOSOwn(m c39rOS, rep string) uint64 {
	var n uint64
	for d := range m.a {
		if d.rep == rep && d.cnt > n {
			n = d.cnt
		}
	}
	return n
}

func c39rOSKey(m c39rOS) string {
	as := make([]string, 0, len(m.a))
	for d, e := range m.a {
		as = append(as, d.String()+"="+e)
	}
	sort.Strings(as)
	rs := make([]string, 0, len(m.r))
	for d := range m.r {
		rs = append(rs, d.String())
	}
	sort.Strings(rs)
	return "a[" + strings.Join(as, " ") + "]r[" + strings.Join(rs, " ") + "]"
}

func c39rSetKeys(m map[string]bool) []string {
	out := make([]string, 0, len(m))
	for k := range m {
		out = append(out, k)
	}
	sort.Strings(out)
	return out
}

// c39rJoin is the reference join.
func c39rJoin(a, b any) any {
	switch x := a.(type) {
	case c39rGC:
		return c39rGC{c39rMaxU(x.s, b.(c39rGC).s)}
	case c39rPN:
		y := b.(c39rPN)
		return c39rPN{c39rMaxU(x.p, y.p), c39rMaxU(x.n, y.n)}
	case c39rFL:
		return c39rFL{x.on || b.(c39rFL).on}
	case c39rLW:
		y := b.(c39rLW)
		switch {
		case !y.set:
			return x
		case !x.set:
			return y
		case x.ts != y.ts:
			if x.ts > y.ts {
				return x
			}
			return y
		case x.node != y.node:
			if x.node > y.node {
				return x
			}
			return y
		}
		o := c39rLW{set: true, ts: x.ts, node: x.node, vals: map[string]bool{}}
		for v := range x.vals {
			o.vals[v] = true
		}
		for v := range y.vals {
			o.vals[v] = true
		}
		return o
	case c39rMV:
		y := b.(c39rMV)
		o := c39rMV{w: map[c39rDot]string{}, s: map[c39rDot]bool{}}
		for k, v := range x.w {
			o.w[k] = v
		}
		for k, v := range y.w {
			o.w[k] = v
		}
		for k := range x.s {
			o.s[k] = true
		}
		for k := range y.s {
			o.s[k] = true
		}
		return o
	case c39rOS:
		return c39rOSJoin(x, b.(c39rOS))
	case c39rOM:
		y := b.(c39rOM)
		o := c39rOM{keys: c39rOSJoin(x.keys, y.keys), nested: map[string]map[string]uint64{}, removed: map[string]bool{}}
		for k := range x.removed {
			o.removed[k] = true
		}
		for k := range y.removed {
			o.removed[k] = true
		}
		for k, v := range x.nested {
			o.nested[k] = c39rCopyU(v)
		}
		for k, v := range y.nested {
			o.nested[k] = c39rMaxU(o.nested[k], v)
		}
		return o
	}
	panic(fmt.Sprintf("c39rJoin: %T", a))
}

// c39rMKey is a canonical string of a model value (equal strings <=> equal knowledge).
func c39rMKey(m any) string {
	switch x := m.(type) {
	case c39rGC:
		return "G" + c39rU64Map(x.s)
	case c39rPN:
		return "PN+" + c39rU64Map(x.p) + "-" + c39rU64Map(x.n)
	case c39rFL:
		return fmt.Sprintf("F%v", x.on)
	case c39rLW:
		return fmt.Sprintf("L%v/%d/%s/%v", x.set, x.ts, x.node, c39rSetKeys(x.vals))
	case c39rMV:
		ws := make([]string, 0, len(x.w))
		for d, v := range x.w {
			ws = append(ws, d.String()+"="+v)
		}
		sort.Strings(ws)
		ss := make([]string, 0, len(x.s))
		for d := range x.s {
			ss = append(ss, d.String())
		}
		sort.Strings(ss)
		return "MVw[" + strings.Join(ws, " ") + "]s[" + strings.Join(ss, " ") + "]"
	case c39rOS:
		return "OS" + c39rOSKey(x)
	case c39rOM:
		ks := make([]string, 0, len(x.nested))
		for k := range x.nested {
			ks = append(ks, k)
		}
		sort.Strings(ks)
		var b strings.Builder
		b.WriteString("OM" + c39rOSKey(x.keys) + "n[")
		for _, k := range ks {
			b.WriteString(k + c39rU64Map(x.nested[k]) + " ")
		}
		b.WriteString("]x" + fmt.Sprint(c39rSetKeys(x.removed)))
		return b.String()
	}
	panic(fmt.Sprintf("c39rMKey: %T", m))
}

// c39rAgree compares the observable value of the real CRDT with the reference value. It returns ""
// when they agree, otherwise a structural class of the difference and a written-out detail.
func c39rAgree(d crdt.ReplicatedData, m any) (class, detail string) {
	cmpSlots := func(kind string, got, want map[string]uint64) (string, string) {
		below, above := false, false
		for k, v := range want {
			if got[k] < v {
				below = true
			}
		}
		for k, v := range got {
			if v > want[k] {
				above = true
			}
		}
		switch {
		case below && above:
			return kind + "-slots-below-and-above-reference", fmt.Sprintf("got %s want %s", c39rU64Map(got), c39rU64Map(want))
		case below:
			return kind + "-increment-lost", fmt.Sprintf("got %s want %s", c39rU64Map(got), c39rU64Map(want))
		case above:
			return kind + "-increment-invented", fmt.Sprintf("got %s want %s", c39rU64Map(got), c39rU64Map(want))
		}
		return "", ""
	}
	cmpSet := func(kind, what string, got []string, want map[string]bool) (string, string) {
		g := map[string]bool{}
		for _, e := range got {
			g[e] = true
		}
		lost, extra := false, false
		for e := range want {
			if !g[e] {
				lost = true
			}
		}
		for e := range g {
			if !want[e] {
				extra = true
			}
		}
		det := fmt.Sprintf("got %v want %v", c39rSetKeys(g), c39rSetKeys(want))
		switch {
		case lost && extra:
			return kind + "-loses-and-resurrects-" + what, det
		case lost:
			return kind + "-loses-" + what, det
		case extra:
			return kind + "-resurrects-" + what, det
		}
		return "", ""
	}
	switch x := d.(type) {
	case *crdt.GCounter:
		w := m.(c39rGC)
		if c, dt := cmpSlots("gcounter", x.State(), w.s); c != "" {
			return c, dt
		}
		var sum uint64
		for _, v := range w.s {
			sum += v
		}
		if x.Value() != sum {
			return "gcounter-value-not-sum-of-slots", fmt.Sprintf("Value()=%d want %d", x.Value(), sum)
		}
	case *crdt.PNCounter:
		w := m.(c39rPN)
		p, n := x.State()
		if c, dt := cmpSlots("pncounter-inc", p, w.p); c != "" {
			return c, dt
		}
		if c, dt := cmpSlots("pncounter-dec", n, w.n); c != "" {
			return c, dt
		}
		var sum int64
		for _, v := range w.p {
			sum += int64(v)
		}
		for _, v := range w.n {
			sum -= int64(v)
		}
		if x.Value() != sum {
			return "pncounter-value-not-difference-of-slots", fmt.Sprintf("Value()=%d want %d", x.Value(), sum)
		}
	case *crdt.Flag:
		w := m.(c39rFL)
		if x.Enabled() != w.on {
			if w.on {
				return "flag-enable-lost", "Enabled()=false want true"
			}
			return "flag-enable-invented", "Enabled()=true want false"
		}
	case *crdt.LWWRegister:
		w := m.(c39rLW)
		if !w.set {
			if x.Timestamp() != 0 || x.NodeID() != "" || x.Value() != nil {
				return "lww-value-invented", "got " + c39rObs(x) + " want unset"
			}
			return "", ""
		}
		det := fmt.Sprintf("got %s want ts=%d n=%s v in %v", c39rObs(x), w.ts, w.node, c39rSetKeys(w.vals))
		if x.Timestamp() < w.ts || (x.Timestamp() == w.ts && x.NodeID() < w.node) {
			return "lww-exposes-older-write", det
		}
		if x.Timestamp() > w.ts || x.NodeID() > w.node {
			return "lww-exposes-unknown-write", det
		}
		if !w.vals[fmt.Sprint(x.Value())] {
			return "lww-value-does-not-belong-to-winning-write", det
		}
	case *crdt.MVRegister:
		w := m.(c39rMV)
		want := map[string]bool{}
		for dt, v := range w.w {
			if !w.s[dt] {
				want[v] = true
			}
		}
		return cmpSet("mvregister", "value", c39rSortedAny(x.Values()), want)
	case *crdt.ORSet:
		return cmpSet("orset", "element", c39rSortedAny(x.Elements()), c39rOSValue(m.(c39rOS)))
	case *crdt.ORMap:
		w := m.(c39rOM)
		want := c39rOSValue(w.keys)
		if c, dt := cmpSet("ormap", "key", c39rSortedAny(x.Keys()), want); c != "" {
			return c, dt
		}
		if x.Len() != len(want) {
			return "ormap-len-differs-from-keys", fmt.Sprintf("Len()=%d keys=%d", x.Len(), len(want))
		}
		for _, k := range c39rSetKeys(want) {
			if w.removed[k] {
				continue // value of a key with a known removal: unspecified by the reference
			}
			v, ok := x.Get(k)
			if !ok || v == nil {
				return "ormap-key-without-value", "key " + k
			}
			g, ok := v.(*crdt.GCounter)
			if !ok {
				return "ormap-nested-type-changed", fmt.Sprintf("%T", v)
			}
			if c, dt := cmpSlots("ormap-nested", g.State(), w.nested[k]); c != "" {
				return c, "key " + k + ": " + dt
			}
		}
	default:
		return "unknown-type", fmt.Sprintf("%T", d)
	}
	return "", ""
}

// ---------------------------------------------------------------------------------------------
// Type specifications: fresh value, per-replica operation alphabet on the real code and on the model.
// ---------------------------------------------------------------------------------------------

type c39rOp struct {
	name string
	// maint: maintenance operation (compaction), not an update.
	maint bool
	apply func(s crdt.ReplicatedData, rep int) crdt.ReplicatedData
	// model returns the new knowledge and the knowledge the produced delta is meant to carry
	// (nil = the operation changes nothing, no delta required).
	model func(m any, rep int) (any, any)
	// model39 (optional) replaces model where the replication semantics of the operation differs
	// from its local effect (LWW: the local Set overwrites, the replicated register keeps the
	// greatest timestamp).
	model39 func(m any, rep int) (any, any)
}

type c39rSpec struct {
	name   string
	fresh  func() crdt.ReplicatedData
	bottom func() any
	ops    []c39rOp
}

func c39rSpecs(thorough bool) []c39rSpec {
	var specs []c39rSpec

	// ---- GCounter
	gInc := func(v uint64) c39rOp {
		return c39rOp{name: fmt.Sprintf("inc%d", v),
			apply: func(s crdt.ReplicatedData, rep int) crdt.ReplicatedData {
				return s.(*crdt.GCounter).Increment(c39rNode(rep), v)
			},
			model: func(m any, rep int) (any, any) {
				n := c39rCopyU(m.(c39rGC).s)
				n[c39rNode(rep)] += v
				return c39rGC{n}, c39rGC{map[string]uint64{c39rNode(rep): n[c39rNode(rep)]}}
			}}
	}
	specs = append(specs, c39rSpec{name: "gcounter", fresh: func() crdt.ReplicatedData { return crdt.NewGCounter() },
		bottom: func() any { return c39rGC{map[string]uint64{}} }, ops: []c39rOp{gInc(1), gInc(2)}})

	// ---- PNCounter
	pnOp := func(dec bool, v uint64) c39rOp {
		nm := "inc"
		if dec {
			nm = "dec"
		}
		return c39rOp{name: fmt.Sprintf("%s%d", nm, v),
			apply: func(s crdt.ReplicatedData, rep int) crdt.ReplicatedData {
				if dec {
					return s.(*crdt.PNCounter).Decrement(c39rNode(rep), v)
				}
				return s.(*crdt.PNCounter).Increment(c39rNode(rep), v)
			},
			model: func(m any, rep int) (any, any) {
				x := m.(c39rPN)
				p, n := c39rCopyU(x.p), c39rCopyU(x.n)
				id := c39rNode(rep)
				if dec {
					n[id] += v
					return c39rPN{p, n}, c39rPN{map[string]uint64{}, map[string]uint64{id: n[id]}}
				}
				p[id] += v
				return c39rPN{p, n}, c39rPN{map[string]uint64{id: p[id]}, map[string]uint64{}}
			}}
	}
	pnOps := []c39rOp{pnOp(false, 1), pnOp(true, 1)}
	if thorough {
		pnOps = append(pnOps, pnOp(false, 2), pnOp(true, 2))
	}
	specs = append(specs, c39rSpec{name: "pncounter", fresh: func() crdt.ReplicatedData { return crdt.NewPNCounter() },
		bottom: func() any { return c39rPN{map[string]uint64{}, map[string]uint64{}} }, ops: pnOps})

	// ---- Flag
	specs = append(specs, c39rSpec{name: "flag", fresh: func() crdt.ReplicatedData { return crdt.NewFlag() },
		bottom: func() any { return c39rFL{} },
		ops: []c39rOp{{name: "enable",
			apply: func(s crdt.ReplicatedData, rep int) crdt.ReplicatedData { return s.(*crdt.Flag).Enable() },
			model: func(m any, rep int) (any, any) {
				if m.(c39rFL).on {
					return m, nil
				}
				return c39rFL{true}, c39rFL{true}
			}}}})

	// ---- LWWRegister: timestamps {1,2}; two values per (replica, timestamp) so that ties between
	// nodes, and the same (timestamp,node) carrying different values, are all reachable.
	lwSet := func(v string, ts int64) c39rOp {
		return c39rOp{name: fmt.Sprintf("set(%s,t%d)", v, ts),
			apply: func(s crdt.ReplicatedData, rep int) crdt.ReplicatedData {
				return s.(*crdt.LWWRegister).Set(fmt.Sprintf("%s%d", v, rep), time.Unix(0, ts), c39rNode(rep))
			},
			model: func(m any, rep int) (any, any) { // local effect: overwrite
				w := c39rLW{set: true, ts: ts, node: c39rNode(rep), vals: map[string]bool{fmt.Sprintf("%s%d", v, rep): true}}
				return w, w
			},
			model39: func(m any, rep int) (any, any) { // replicated register: greatest write known
				w := c39rLW{set: true, ts: ts, node: c39rNode(rep), vals: map[string]bool{fmt.Sprintf("%s%d", v, rep): true}}
				j := c39rJoin(m, w)
				return j, j
			}}
	}
	specs = append(specs, c39rSpec{name: "lwwregister", fresh: func() crdt.ReplicatedData { return crdt.NewLWWRegister() },
		bottom: func() any { return c39rLW{} },
		ops:    []c39rOp{lwSet("x", 1), lwSet("y", 1), lwSet("x", 2), lwSet("y", 2)}})

	// ---- MVRegister
	mvSet := func(v string) c39rOp {
		return c39rOp{name: "set(" + v + ")",
			apply: func(s crdt.ReplicatedData, rep int) crdt.ReplicatedData {
				return s.(*crdt.MVRegister).Set(c39rNode(rep), fmt.Sprintf("%s%d", v, rep))
			},
			model: func(m any, rep int) (any, any) {
				x := m.(c39rMV)
				o := c39rMV{w: map[c39rDot]string{}, s: map[c39rDot]bool{}}
				var own uint64
				for d, val := range x.w {
					o.w[d] = val
					o.s[d] = true // every known write is superseded
					if d.rep == c39rNode(rep) && d.cnt > own {
						own = d.cnt
					}
				}
				for d := range x.s {
					o.s[d] = true
				}
				o.w[c39rDot{c39rNode(rep), own + 1}] = fmt.Sprintf("%s%d", v, rep)
				return o, o // the delta is the whole register
			}}
	}
	specs = append(specs, c39rSpec{name: "mvregister", fresh: func() crdt.ReplicatedData { return crdt.NewMVRegister() },
		bottom: func() any { return c39rMV{w: map[c39rDot]string{}, s: map[c39rDot]bool{}} },
		ops:    []c39rOp{mvSet("x"), mvSet("y")}})

	// ---- ORSet. What a delta carries is a wire-format choice the property does not constrain: the
	// documented one is "only the dots added/removed by the update"; a delta that is the whole set is
	// equally legitimate. The reference follows what the implementation under test ships.
	osFull := false
	{
		p := crdt.NewORSet().Add("n0", "a")
		p.ResetDelta()
		if d, ok := p.Add("n0", "b").Delta().(*crdt.ORSet); ok && d != nil && d.Contains("a") {
			osFull = true
		}
	}
	osAdd := func(e string) c39rOp {
		return c39rOp{name: "add(" + e + ")",
			apply: func(s crdt.ReplicatedData, rep int) crdt.ReplicatedData { return s.(*crdt.ORSet).Add(c39rNode(rep), e) },
			model: func(m any, rep int) (any, any) {
				x := m.(c39rOS)
				d := c39rDot{c39rNode(rep), c39rOSOwn(x, c39rNode(rep)) + 1}
				dl := c39rOS{a: map[c39rDot]string{d: e}, r: map[c39rDot]bool{}}
				if osFull {
					return c39rOSJoin(x, dl), c39rOSJoin(x, dl)
				}
				return c39rOSJoin(x, dl), dl
			}}
	}
	osRm := func(e string) c39rOp {
		return c39rOp{name: "rm(" + e + ")",
			apply: func(s crdt.ReplicatedData, rep int) crdt.ReplicatedData { return s.(*crdt.ORSet).Remove(e) },
			model: func(m any, rep int) (any, any) {
				x := m.(c39rOS)
				dl := c39rOS{a: map[c39rDot]string{}, r: map[c39rDot]bool{}}
				for d, el := range x.a {
					if el == e && !x.r[d] {
						dl.r[d] = true
					}
				}
				if len(dl.r) == 0 {
					return m, nil
				}
				if osFull {
					return c39rOSJoin(x, dl), c39rOSJoin(x, dl)
				}
				return c39rOSJoin(x, dl), dl
			}}
	}
	osCompact := c39rOp{name: "compact", maint: true,
		apply: func(s crdt.ReplicatedData, rep int) crdt.ReplicatedData { return s.(*crdt.ORSet).Compact() },
		model: func(m any, rep int) (any, any) { return m, nil }}
	specs = append(specs, c39rSpec{name: "orset", fresh: func() crdt.ReplicatedData { return crdt.NewORSet() },
		bottom: func() any { return c39rOS{a: map[c39rDot]string{}, r: map[c39rDot]bool{}} },
		ops:    []c39rOp{osAdd("a"), osAdd("b"), osRm("a"), osRm("b"), osCompact}})

	// ---- ORMap with nested GCounter values (set = read the current nested counter, add one on
	// the replica's own slot, write it back).
	omSet := func(k string) c39rOp {
		return c39rOp{name: "set(" + k + ")",
			apply: func(s crdt.ReplicatedData, rep int) crdt.ReplicatedData {
				mp := s.(*crdt.ORMap)
				cur := crdt.NewGCounter()
				if v, ok := mp.Get(k); ok && v != nil {
					cur = v.(*crdt.GCounter)
				}
				return mp.Set(c39rNode(rep), k, cur.Increment(c39rNode(rep), 1))
			},
			model: func(m any, rep int) (any, any) {
				x := m.(c39rOM)
				d := c39rDot{c39rNode(rep), c39rOSOwn(x.keys, c39rNode(rep)) + 1}
				dl := c39rOM{keys: c39rOS{a: map[c39rDot]string{d: k}, r: map[c39rDot]bool{}}, nested: map[string]map[string]uint64{}, removed: map[string]bool{}}
				if !x.removed[k] {
					n := c39rCopyU(x.nested[k])
					n[c39rNode(rep)]++
					dl.nested[k] = n
				}
				o := c39rJoin(x, dl)
				return o, o // the delta is the whole map
			}}
	}
	omRm := func(k string) c39rOp {
		return c39rOp{name: "rm(" + k + ")",
			apply: func(s crdt.ReplicatedData, rep int) crdt.ReplicatedData { return s.(*crdt.ORMap).Remove(k) },
			model: func(m any, rep int) (any, any) {
				x := m.(c39rOM)
				dl := c39rOM{keys: c39rOS{a: map[c39rDot]string{}, r: map[c39rDot]bool{}}, nested: map[string]map[string]uint64{}, removed: map[string]bool{k: true}}
				for d, el := range x.keys.a {
					if el == k && !x.keys.r[d] {
						dl.keys.r[d] = true
					}
				}
				if len(dl.keys.r) == 0 {
					return m, nil
				}
				o := c39rJoin(x, dl)
				return o, o
			}}
	}
	omCompact := c39rOp{name: "compact", maint: true,
		apply: func(s crdt.ReplicatedData, rep int) crdt.ReplicatedData { return s.(*crdt.ORMap).Compact() },
		model: func(m any, rep int) (any, any) { return m, nil }}
	specs = append(specs, c39rSpec{name: "ormap", fresh: func() crdt.ReplicatedData { return crdt.NewORMap() },
		bottom: func() any {
			return c39rOM{keys: c39rOS{a: map[c39rDot]string{}, r: map[c39rDot]bool{}}, nested: map[string]map[string]uint64{}, removed: map[string]bool{}}
		},
		ops: []c39rOp{omSet("p"), omSet("q"), omRm("p"), omRm("q"), omCompact}})

	return specs
}

// ---------------------------------------------------------------------------------------------
// Structural causes. A failure whose inputs satisfy one of these preconditions is reported under a
// signature that names the precondition, so that every other failure mode keeps its own signature.
// ---------------------------------------------------------------------------------------------

// c39rClockGap reports whether the causal clock of an ORSet claims a dot (n,k), k <= clock[n], that the
// replica never received according to the reference knowledge (neither the add nor its removal).
func c39rClockGap(clock map[string]uint64, m c39rOS) bool {
	for n, c := range clock {
		for k := uint64(1); k <= c; k++ {
			d := c39rDot{n, k}
			if _, known := m.a[d]; !known && !m.r[d] {
				return true
			}
		}
	}
	return false
}

func c39rCause(ins ...*c39rState) string {
	for i, x := range ins {
		switch v := x.d.(type) {
		case *crdt.LWWRegister:
			for _, y := range ins[i+1:] {
				if u, ok := y.d.(*crdt.LWWRegister); ok && u.Timestamp() == v.Timestamp() && u.NodeID() == v.NodeID() && v.NodeID() != "" && fmt.Sprint(u.Value()) != fmt.Sprint(v.Value()) {
					return "inputs-with-same-timestamp-and-node-but-different-values"
				}
			}
		case *crdt.ORSet:
			if _, clk := v.RawState(); c39rClockGap(clk, x.m.(c39rOS)) {
				return "input-clock-covers-dots-never-received"
			}
		case *crdt.ORMap:
			if c39rClockGap(v.RawState().KeyClock, x.m.(c39rOM).keys) {
				return "input-clock-covers-dots-never-received"
			}
		}
	}
	return ""
}

// c39rNestedOnlyCause: two ORMap values with the same key set that differ only in the nested value of
// keys for which a removal is known to the (joined) reference knowledge.
func c39rNestedOnlyCause(l, r crdt.ReplicatedData, m any) string {
	a, ok1 := l.(*crdt.ORMap)
	b, ok2 := r.(*crdt.ORMap)
	om, ok3 := m.(c39rOM)
	if !ok1 || !ok2 || !ok3 {
		return ""
	}
	ka, kb := c39rSortedAny(a.Keys()), c39rSortedAny(b.Keys())
	if strings.Join(ka, ",") != strings.Join(kb, ",") {
		return ""
	}
	differs := false
	for _, k := range ka {
		va, _ := a.Get(k)
		vb, _ := b.Get(k)
		if c39rObs(va) != c39rObs(vb) {
			if !om.removed[k] {
				return ""
			}
			differs = true
		}
	}
	if differs {
		return "only-nested-value-of-removed-and-readded-key-differs"
	}
	return ""
}
