//go:build verif

package actor

import (
	"fmt"
	"time"

	"github.com/tochemey/goakt/v4/internal/verif/vsched"
)

// c41BFS is vsched.BFS (state = history, successor = replay of the history plus one event, dedup on
// the canonical state) with one difference: executions are run in batches, each batch inside ONE
// bubble set up by batch (one actor system serves a whole batch, the harness resets the replicators
// between executions), and the wall budget is checked between batches, outside the bubble (inside a
// bubble time.Now is virtual).
//
// exec additionally returns an auxiliary value describing the reached state (what alphabet needs to
// know about it); it is kept for frontier states only and handed to alphabet.
func c41BFS[Op any, Aux any](cfg vsched.BFSConfig, batchSize int, alphabet func(hist []Op, aux Aux) []Op, exec func(hist []Op) (vsched.StepResult, Aux),
	show func(Op) string, batch func(run func()) any) *vsched.ScenarioStats {
	r := vsched.Rep()
	st := r.NewScenario(cfg.Scenario, "states")
	st.Bound = cfg.Depth
	st.BoundCompleted = -1
	st.Params = cfg.Params
	if scen := r.ReplayScenario(); scen != "" && scen != cfg.Scenario {
		st.Capped = "skipped (replay of another scenario)"
		return st
	}
	showAll := func(h []Op) []string {
		out := make([]string, len(h))
		for i, op := range h {
			out[i] = show(op)
		}
		return out
	}
	seen := map[uint64]struct{}{}
	type node struct {
		hist []Op
		aux  Aux
	}
	var frontier []node
	// runAll executes the histories in batches; it returns false when the budget ran out.
	runAll := func(work [][]Op, depth int, each func(h []Op, res vsched.StepResult, aux Aux)) bool {
		for len(work) > 0 {
			if !r.TimeLeft() || (!cfg.Deadline.IsZero() && time.Now().After(cfg.Deadline)) {
				st.Capped = fmt.Sprintf("wall budget reached at depth %d", depth)
				return false
			}
			n := batchSize
			if n > len(work) {
				n = len(work)
			}
			done := 0
			var cur []Op
			p := batch(func() {
				for _, h := range work[:n] {
					cur = h
					res, aux := exec(h)
					each(h, res, aux)
					done++
				}
			})
			if p != nil {
				// the bubble died while executing cur: a panic raised by the code under test (or the harness)
				r.ReportViolation(cfg.Scenario, vsched.Fail("panic-while-executing-history", "%v", p), map[string]any{"history": showAll(cur), "params": cfg.Params})
				done++ // skip the offending history
			}
			work = work[done:]
		}
		return true
	}
	var rootAux Aux
	if !runAll([][]Op{nil}, 0, func(h []Op, res vsched.StepResult, aux Aux) {
		rootAux = aux
		seen[vsched.Hash64(res.Canon)] = struct{}{}
		st.States = 1
		for _, v := range res.Violations {
			r.ReportViolation(cfg.Scenario, v, map[string]any{"history": []string{}, "params": cfg.Params})
		}
	}) {
		return st
	}
	frontier = []node{{nil, rootAux}}
	for depth := 1; depth <= cfg.Depth; depth++ {
		var work [][]Op
		for _, n := range frontier {
			h := n.hist
			for oi, op := range alphabet(h, n.aux) {
				if depth == 1 && cfg.ShardFirstOp && !r.OwnsIndex(int64(oi)) {
					continue
				}
				nh := make([]Op, len(h)+1)
				copy(nh, h)
				nh[len(h)] = op
				work = append(work, nh)
			}
		}
		var next []node
		ok := runAll(work, depth, func(h []Op, res vsched.StepResult, aux Aux) {
			st.Transitions++
			st.Executions++
			st.Decisions += int64(len(h))
			if len(h) > st.MaxDecisions {
				st.MaxDecisions = len(h)
			}
			st.Observe(res.Obs, len(h) > 1)
			if len(st.Samples) < 3 && (len(h) >= cfg.Depth || len(h) >= 3) {
				st.Sample(map[string]any{"history": showAll(h), "observation": res.Obs, "state": res.Canon})
			}
			for _, v := range res.Violations {
				v.Detail += fmt.Sprintf("; history=%v", showAll(h))
				r.ReportViolation(cfg.Scenario, v, map[string]any{"history": showAll(h), "params": cfg.Params})
			}
			k := vsched.Hash64(res.Canon)
			if _, dup := seen[k]; dup {
				return
			}
			seen[k] = struct{}{}
			st.States++
			if !res.Dead {
				next = append(next, node{h, aux})
			}
		})
		if !ok {
			return st
		}
		st.BoundCompleted = depth
		frontier = next
		if len(frontier) == 0 {
			st.BoundCompleted = cfg.Depth
			break
		}
	}
	return st
}
