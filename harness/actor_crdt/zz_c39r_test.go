//go:build verif

package actor

// C39 (replicator part) — replicas that apply the same updates converge, through the real
// replicatorActor handlers (handleUpdate: apply, Delta, ResetDelta, publish; handleProtoDelta /
// handleDelta: store the delta or merge it into the current value; handleDigest / handleFullState:
// anti-entropy), including the protobuf encoding of every delta and full state.
//
// Explicit-state BFS over event histories of N real replicators (see zz_c41_env_test.go):
//   O(k,i)   update k of the type's alphabet at replica i (Ask crdt.Update); what the replicator publishes
//            goes to the pool (at most L updates per history)
//   X(m->j)  deliver pooled delta m to replica j != origin; a second delivery to the same replica is a
//            duplicate (at most D per history); nothing forces a delivery
//   A(i->j)  anti-entropy: j's digest is answered by i and the full state (if i decides to send one) is
//            handled by j (at most F per history)
// The reference (knowledge of every replica, what a delta carries, value of a knowledge) is the one of
// the pure part (zz_c39r_model_test.go). After the last event of every history:
//   (1) every replica's stored value has the value of its knowledge (reported at the first deviation),
//   (2) replicas with the same knowledge expose the same value,
//   (3) the merge of all replicas' values (both fold orders) has the value of the joined knowledge and
//       equals what every replica with complete knowledge exposes.

import (
	"fmt"
	"strings"
	"testing"
	"time"

	"github.com/tochemey/goakt/v4/crdt"
	"github.com/tochemey/goakt/v4/internal/internalpb"
	"github.com/tochemey/goakt/v4/internal/verif/vsched"
)

type c39rEv struct {
	kind byte
	a, b int
}

type c39rMsg struct {
	pb     *internalpb.CRDTDelta
	origin int
	dm     any
	cnt    []int
}

type c39rInfo struct {
	origins          []int
	cnts             [][]int
	nOps, nDup, nFul int
}

func c39rKey(name string) crdt.Key {
	switch name {
	case "gcounter":
		return crdt.GCounterKey("k")
	case "pncounter":
		return crdt.PNCounterKey("k")
	case "flag":
		return crdt.FlagKey("k")
	case "mvregister":
		return crdt.MVRegisterKey("k")
	case "orset":
		return crdt.ORSetKey("k")
	case "ormap":
		return crdt.ORMapKey("k")
	}
	panic(name)
}

func c39rScenario(t *testing.T, spec c39rSpec, reps, L, D, F int, deadline time.Time) {
	name := fmt.Sprintf("c39r/%s/r%d-u%d-d%d-f%d", spec.name, reps, L, D, F)
	key := c39rKey(spec.name)
	var ops []c39rOp
	for _, op := range spec.ops {
		if !op.maint {
			ops = append(ops, op)
		}
	}
	show := func(e c39rEv) string {
		switch e.kind {
		case 'O':
			return fmt.Sprintf("%s@%d", ops[e.a].name, e.b)
		case 'X':
			return fmt.Sprintf("deliver msg%d->%d", e.a, e.b)
		case 'A':
			return fmt.Sprintf("antientropy %d->%d", e.a, e.b)
		}
		return "?"
	}
	var env *c41Env
	batch := func(run func()) any {
		return vfBubble(t, func() {
			env = c41NewEnv(reps, time.Hour)
			run()
			env.stop()
		})
	}
	exec := func(h []c39rEv) (vsched.StepResult, c39rInfo) {
		var res vsched.StepResult
		env.reset()
		know := make([]any, reps)
		for i := range know {
			know[i] = spec.bottom()
		}
		var pool []c39rMsg
		info := c39rInfo{}
		states := func() []*c39rState {
			out := make([]*c39rState, reps)
			for i, a := range env.acts {
				d := a.store[key.ID()]
				if d == nil {
					d = spec.fresh()
				}
				out[i] = &c39rState{d: d, m: know[i]}
			}
			return out
		}
		agreeAll := func() (int, string, string) {
			for i, s := range states() {
				if class, det := c39rAgree(s.d, s.m); class != "" {
					return i, class, det
				}
			}
			return -1, "", ""
		}
		deviatedBefore := false
		for n, ev := range h {
			last := n == len(h)-1
			ctx := ""
			var ins []*c39rState
			switch ev.kind {
			case 'O':
				op, i := ops[ev.a], ev.b
				mf := op.model
				if op.model39 != nil {
					mf = op.model39
				}
				nm, dm := mf(know[i], i)
				ins = append(ins, states()[i])
				env.ask(i, &crdt.Update{Key: key, Initial: spec.fresh(), Modify: func(cur crdt.ReplicatedData) crdt.ReplicatedData { return op.apply(cur, i) }})
				know[i] = nm
				info.nOps++
				pubs, _ := env.cap.drain()
				if len(pubs) == 0 && dm != nil && !deviatedBefore && last {
					res.Violations = append(res.Violations, vsched.Fail("update-publishes-no-delta", "%s changed the value of replica %d but nothing was published", show(ev), i))
				}
				for _, p := range pubs {
					pb, ok := p.msg.(*internalpb.CRDTDelta)
					if !ok {
						continue
					}
					if dm == nil {
						// a redundant delta after an update without effect (e.g. a Flag decoded from the
						// wire is dirty): it cannot carry more than its sender knows
						dm = nm
					}
					pool = append(pool, c39rMsg{pb: pb, origin: i, dm: dm, cnt: make([]int, reps)})
				}
				ctx = "update"
			case 'X':
				m := &pool[ev.a]
				ins = append(ins, states()[ev.b])
				if dd, err := env.acts[ev.b].decodeDelta(m.pb); err == nil {
					ins = append(ins, &c39rState{d: dd.Delta, m: m.dm})
				}
				env.tell(ev.b, m.pb)
				know[ev.b] = c39rJoin(know[ev.b], m.dm)
				ctx = "delta-delivery"
				if m.cnt[ev.b] > 0 {
					info.nDup++
					ctx = "duplicate-delta-delivery"
				}
				m.cnt[ev.b]++
			case 'A':
				ss := states()
				ins = append(ins, ss[ev.b], ss[ev.a])
				if fs := env.fullStateFor(ev.b, ev.a); fs != nil {
					env.tell(ev.b, fs)
					know[ev.b] = c39rJoin(know[ev.b], know[ev.a])
				}
				info.nFul++
				ctx = "full-state-merge"
			}
			if i, class, det := agreeAll(); class != "" {
				if !deviatedBefore && last {
					res.Violations = append(res.Violations, vsched.Fail(c39rSig(ctx+"-"+class, c39rCause(ins...)), "replica %d after %s: stored %s, knowledge %s: %s", i, show(ev), c41Value(states()[i].d), c39rMKey(know[i]), det))
				}
				deviatedBefore = true
			}
		}
		// canonical state: stored values (raw, through the public raw-state accessors), versions,
		// knowledge, pool with delivery counts, budgets
		ss := states()
		var b, obs strings.Builder
		for i, a := range env.acts {
			_, has := a.store[key.ID()]
			fmt.Fprintf(&b, "R%d{%v %s v%d know=%s}", i, has, c41Value(a.store[key.ID()]), a.versions[key.ID()], c39rMKey(know[i]))
			fmt.Fprintf(&obs, "%s;", c39rObs(ss[i].d))
		}
		for k, m := range pool {
			fmt.Fprintf(&b, " m%d{%s %v}", k, c41MsgString(env, m.pb, time.Now()), m.cnt)
			info.origins = append(info.origins, m.origin)
			info.cnts = append(info.cnts, append([]int(nil), m.cnt...))
		}
		fmt.Fprintf(&b, " |%d,%d,%d", info.nOps, info.nDup, info.nFul)
		res.Canon, res.Obs = b.String(), obs.String()
		if deviatedBefore {
			return res, info
		}
		// (2)
		for i := 0; i < reps; i++ {
			for j := i + 1; j < reps; j++ {
				if c39rMKey(know[i]) == c39rMKey(know[j]) && c39rObs(ss[i].d) != c39rObs(ss[j].d) {
					cs := c39rCause(ss[i], ss[j])
					if cs == "" {
						cs = c39rNestedOnlyCause(ss[i].d, ss[j].d, know[i])
					}
					res.Violations = append(res.Violations, vsched.Fail(c39rSig("same-updates-seen-but-different-value", cs), "replicas %d and %d have both seen %s; %d exposes %s, %d exposes %s", i, j, c39rMKey(know[i]), i, c39rObs(ss[i].d), j, c39rObs(ss[j].d)))
				}
			}
		}
		// (3)
		jm, fwd, bwd := know[0], ss[0].d, ss[reps-1].d
		for i := 1; i < reps; i++ {
			jm = c39rJoin(jm, know[i])
			fwd = fwd.Merge(ss[i].d)
			bwd = bwd.Merge(ss[reps-1-i].d)
		}
		fo, bo := c39rObs(fwd), c39rObs(bwd)
		if fo != bo {
			cs := c39rCause(ss...)
			if cs == "" {
				cs = c39rNestedOnlyCause(fwd, bwd, jm)
			}
			res.Violations = append(res.Violations, vsched.Fail(c39rSig("merge-of-all-full-states-depends-on-order", cs), "fold 0..n exposes %s, fold n..0 exposes %s", fo, bo))
		}
		if class, det := c39rAgree(fwd, jm); class != "" {
			res.Violations = append(res.Violations, vsched.Fail(c39rSig("merge-of-all-full-states-"+class, c39rCause(ss...)), "merge of the stored values %s, joined knowledge %s: %s", c41Value(fwd), c39rMKey(jm), det))
		}
		for i := 0; i < reps; i++ {
			if c39rMKey(know[i]) == c39rMKey(jm) && c39rObs(ss[i].d) != fo {
				cs := c39rCause(ss...)
				if cs == "" {
					cs = c39rNestedOnlyCause(ss[i].d, fwd, jm)
				}
				res.Violations = append(res.Violations, vsched.Fail(c39rSig("replica-that-saw-everything-differs-from-merge-of-full-states", cs), "replica %d has seen every update and exposes %s; the merge of all stored values exposes %s", i, c39rObs(ss[i].d), fo))
			}
		}
		return res, info
	}
	alphabet := func(h []c39rEv, info c39rInfo) []c39rEv {
		var evs []c39rEv
		if info.nOps < L {
			for i := 0; i < reps; i++ {
				for k := range ops {
					evs = append(evs, c39rEv{'O', k, i})
				}
			}
		}
		for m, o := range info.origins {
			for j := 0; j < reps; j++ {
				if j == o || info.cnts[m][j] >= 2 || (info.cnts[m][j] == 1 && info.nDup >= D) {
					continue
				}
				evs = append(evs, c39rEv{'X', m, j})
			}
		}
		if info.nFul < F {
			for i := 0; i < reps; i++ {
				for j := 0; j < reps; j++ {
					if i != j {
						evs = append(evs, c39rEv{'A', i, j})
					}
				}
			}
		}
		return evs
	}
	maxDepth := L + L*(reps-1) + D + F
	c41BFS(vsched.BFSConfig{Scenario: name, Depth: maxDepth, ShardFirstOp: true, Deadline: deadline,
		Params: map[string]any{"type": spec.name, "replicas": reps, "max_updates": L, "max_duplicates": D, "max_fullstate_merges": F}},
		400, alphabet, exec, show, batch)
}

func c39rSig(base, cause string) string {
	if cause == "" {
		return base
	}
	return base + "--" + cause
}

func TestVerifC39Replicator(t *testing.T) {
	defer vsched.Finish(t)
	r := vsched.Rep()
	r.Assumption("replicator part: replicators run as ordinary actors of one non-clustered actor system in a synctest bubble; the topic actor is replaced by a capture actor (the explorer delivers), handlers and wire encoding are the real ones")
	specs := map[string]c39rSpec{}
	for _, sp := range c39rSpecs(false) {
		specs[sp.name] = sp
	}
	type plan struct {
		name          string
		reps, L, D, F int
	}
	plans := []plan{
		{"gcounter", 2, vsched.Pick(3, 4), vsched.Pick(0, 1), 1}, {"gcounter", 3, vsched.Pick(2, 3), 0, 1},
		{"pncounter", 2, vsched.Pick(2, 3), 1, 1},
		{"flag", 3, vsched.Pick(2, 3), 1, 1},
		{"mvregister", 2, vsched.Pick(2, 3), 1, 1},
		{"orset", 2, 3, vsched.Pick(0, 1), 1}, {"orset", 3, vsched.Pick(2, 3), 0, vsched.Pick(0, 1)},
		{"ormap", 2, 3, vsched.Pick(0, 1), vsched.Pick(0, 1)},
	}
	if r.Thorough() {
		plans = append(plans, plan{"mvregister", 3, 2, 1, 1}, plan{"ormap", 3, 3, 0, 0})
	}
	// cumulative deadlines, proportional to the expected size of the scenarios (time a scenario does
	// not use is inherited by the later ones)
	weight := func(p plan) float64 {
		w := 1.0
		if p.reps >= 3 || p.L >= 3 {
			w = 3
		}
		if p.reps >= 3 && p.L >= 3 {
			w = 9
		}
		return w
	}
	sum := 0.0
	for _, pl := range plans {
		sum += weight(pl)
	}
	start := time.Now()
	acc := 0.0
	for _, pl := range plans {
		acc += weight(pl)
		c39rScenario(t, specs[pl.name], pl.reps, pl.L, pl.D, pl.F, c41Deadline(start, acc/sum))
	}
}
