//go:build verif

package actor

// C41 — deleted CRDT keys stay deleted until their tombstone expires.
//
// Explicit-state BFS over event histories of N real replicators (see zz_c41_env_test.go). Events:
//   U(i) update key k at replica i (Ask crdt.Update)      D(i) delete k at i (Ask crdt.Delete)
//   P(i) prune tick at i                                  F(i<-j) i's digest is answered by j (anti-entropy);
//   X(m->j) deliver pooled message m (delta / tombstone     the full state goes to the pool, addressed to i
//           published by another replica, or a full      T(d) advance virtual time by d in {TTL-1ns, 2ns}
//           state addressed to j) to replica j
// A pooled message stays in the pool (it can be delivered again: duplicates), nothing forces a
// delivery (loss/delay). Every history is replayed on a fresh actor system in a fresh bubble.
//
// Reference: replica i has *received* a tombstone (own Delete, or delivery of a peer's tombstone) with
// deletion time t; the tombstone is unexpired while now-t <= TTL (the instant now-t == TTL is never
// generated). While some received tombstone is unexpired, replica i must not expose a value for k
// (Get returns no data, the store has no entry), and must not accept an update, a delta, a full-state
// entry for k, nor hand out a value through a coordinated read: these acceptance probes are run at the
// end of every history (after the canonical state was taken; successors replay the history without them).

import (
	"fmt"
	"os"
	"sort"
	"strconv"
	"strings"
	"testing"
	"time"

	"github.com/tochemey/goakt/v4/crdt"
	"github.com/tochemey/goakt/v4/internal/codec"
	"github.com/tochemey/goakt/v4/internal/ddata"
	"github.com/tochemey/goakt/v4/internal/internalpb"
	"github.com/tochemey/goakt/v4/internal/verif/vsched"
)

const c41TTL = 10 * time.Second

var c41Advances = []time.Duration{c41TTL - time.Nanosecond, 2 * time.Nanosecond}

type c41Ev struct {
	kind byte
	a, b int
}

func (e c41Ev) String() string {
	switch e.kind {
	case 'U':
		return fmt.Sprintf("update@%d", e.a)
	case 'D':
		return fmt.Sprintf("delete@%d", e.a)
	case 'P':
		return fmt.Sprintf("prune@%d", e.a)
	case 'F':
		return fmt.Sprintf("fullstate-request %d<-%d", e.a, e.b)
	case 'X':
		return fmt.Sprintf("deliver msg%d->%d", e.a, e.b)
	case 'T':
		return fmt.Sprintf("advance(%v)", c41Advances[e.a])
	}
	return "?"
}

type c41PoolMsg struct {
	msg    any
	origin int       // publishing replica (delta / tombstone)
	dest   int       // -1: any replica but origin; else the only addressee (full state)
	delAt  time.Time // tombstone: deletion time as recorded by the harness
	tomb   bool
}

type c41Run struct {
	env   *c41Env
	key   crdt.Key
	flag  bool
	pool  []c41PoolMsg
	recvd [][]time.Time // per replica: deletion times of the tombstones it received
	viol  []vsched.Violation
}

func (r *c41Run) update(i int) {
	if r.flag {
		r.env.ask(i, &crdt.Update{Key: r.key, Initial: crdt.NewFlag(), Modify: func(c crdt.ReplicatedData) crdt.ReplicatedData { return c.(*crdt.Flag).Enable() }})
		return
	}
	node := fmt.Sprintf("n%d", i)
	r.env.ask(i, &crdt.Update{Key: r.key, Initial: crdt.NewGCounter(), Modify: func(c crdt.ReplicatedData) crdt.ReplicatedData { return c.(*crdt.GCounter).Increment(node, 1) }})
}

// collect moves what the replicators published since the last call into the pool.
func (r *c41Run) collect(now time.Time) {
	pubs, _ := r.env.cap.drain()
	for _, p := range pubs {
		pm := c41PoolMsg{msg: p.msg, origin: r.env.index(p.from), dest: -1}
		if _, ok := p.msg.(*internalpb.CRDTTombstone); ok {
			pm.tomb, pm.delAt = true, now
		}
		dup := false
		for _, q := range r.pool {
			if q.origin == pm.origin && q.dest == pm.dest && c41MsgString(r.env, q.msg, now) == c41MsgString(r.env, pm.msg, now) {
				dup = true
			}
		}
		if !dup {
			r.pool = append(r.pool, pm)
		}
	}
}

func (r *c41Run) fire(ev c41Ev) {
	e := r.env
	switch ev.kind {
	case 'U':
		r.update(ev.a)
	case 'D':
		now := time.Now()
		e.ask(ev.a, &crdt.Delete{Key: r.key})
		r.recvd[ev.a] = append(r.recvd[ev.a], now)
	case 'P':
		e.tell(ev.a, &pruneTick{})
	case 'F':
		if fs := e.fullStateFor(ev.a, ev.b); fs != nil {
			pm := c41PoolMsg{msg: fs, origin: ev.b, dest: ev.a}
			dup := false
			for _, q := range r.pool {
				if q.dest == pm.dest && q.origin == pm.origin && c41MsgString(e, q.msg, time.Now()) == c41MsgString(e, fs, time.Now()) {
					dup = true
				}
			}
			if !dup {
				r.pool = append(r.pool, pm)
			}
		}
	case 'X':
		pm := r.pool[ev.a]
		e.tell(ev.b, pm.msg)
		if pm.tomb {
			r.recvd[ev.b] = append(r.recvd[ev.b], pm.delAt)
		}
	case 'T':
		time.Sleep(c41Advances[ev.a])
		vfSettle()
	}
	r.collect(time.Now())
}

// active: ages of the unexpired tombstones replica i has received.
func (r *c41Run) active(i int, now time.Time) []int64 {
	var ages []int64
	for _, t := range r.recvd[i] {
		if age := now.Sub(t); age <= c41TTL {
			ages = append(ages, int64(age))
		}
	}
	sort.Slice(ages, func(a, b int) bool { return ages[a] < ages[b] })
	return ages
}

func (r *c41Run) canon(now time.Time) (string, string) {
	e := r.env
	var b, obs strings.Builder
	id := r.key.ID()
	for i, a := range e.acts {
		fmt.Fprintf(&b, "R%d{", i)
		ks := make([]string, 0, len(a.store))
		for k := range a.store {
			ks = append(ks, k)
		}
		sort.Strings(ks)
		for _, k := range ks {
			fmt.Fprintf(&b, "%s=%s v%d;", k, c41Value(a.store[k]), a.versions[k])
		}
		_, typed := a.keyTypes[id]
		fmt.Fprintf(&b, " typed=%v", typed)
		if ts, ok := a.tombstones[id]; ok {
			fmt.Fprintf(&b, " tomb(age %d by %d)", now.Sub(ts.deletedAt), e.index(ts.deletedBy))
		}
		fmt.Fprintf(&b, " recv%v}", r.active(i, now))
		fmt.Fprintf(&obs, "%d:%s/%v;", i, c41Value(a.store[id]), len(r.active(i, now)) > 0)
	}
	ps := make([]string, len(r.pool))
	for i, pm := range r.pool {
		// the pool order is part of the event names, so it stays part of the state
		ps[i] = fmt.Sprintf("%d:%s from %d to %d", i, c41MsgString(e, pm.msg, now), pm.origin, pm.dest)
	}
	b.WriteString(" pool" + fmt.Sprint(ps))
	return b.String(), obs.String()
}

func (r *c41Run) fail(sig, format string, a ...any) {
	r.viol = append(r.viol, vsched.Fail(sig, format, a...))
}

// exposes reports whether replica i shows a value for the key (Get through the real handler, and the
// store itself).
func (r *c41Run) exposes(i int) (bool, string) {
	d := r.env.get(i, r.key, 0)
	_, inStore := r.env.acts[i].store[r.key.ID()]
	return d != nil || inStore, fmt.Sprintf("Get=%s store-entry=%v", c41Value(d), inStore)
}

func (r *c41Run) held(i int) string {
	if _, ok := r.env.acts[i].tombstones[r.key.ID()]; ok {
		return "while-its-tombstone-is-held"
	}
	// structural precondition of the one known way to get here: a tombstone with an older deletion
	// time was received after one with a newer deletion time
	for a := range r.recvd[i] {
		for b := a + 1; b < len(r.recvd[i]); b++ {
			if r.recvd[i][b].Before(r.recvd[i][a]) {
				return "tombstone-no-longer-held-before-expiry--older-tombstone-received-after-newer"
			}
		}
	}
	return "tombstone-no-longer-held-before-expiry"
}

// oracle checks the invariant and runs the acceptance probes on every replica with an unexpired tombstone.
func (r *c41Run) oracle() {
	e := r.env
	now := time.Now()
	ser := ddata.NewCRDTValueSerializer()
	var probe crdt.ReplicatedData = crdt.NewFlag().Enable()
	if !r.flag {
		probe = crdt.NewGCounter().Increment("probe", 1)
	}
	pb, err := ddata.EncodeCRDT(probe, ser)
	if err != nil {
		panic(err)
	}
	for i := range e.acts {
		ages := r.active(i, now)
		if len(ages) == 0 {
			continue
		}
		ctx := fmt.Sprintf("replica %d received tombstones with ages %v (TTL %v)", i, ages, c41TTL)
		if x, d := r.exposes(i); x {
			r.fail("tombstoned-key-exposes-value--"+r.held(i), "%s but exposes the key: %s", ctx, d)
			continue
		}
		h := r.held(i)
		r.update(i)
		if x, d := r.exposes(i); x {
			r.fail("tombstoned-key-accepts-update--"+h, "%s but accepted an update: %s", ctx, d)
			continue
		}
		e.tell(i, &internalpb.CRDTDelta{Key: codec.EncodeCRDTKey(r.key.ID(), r.key.Type()), OriginNode: "probe-node", Data: pb})
		if x, d := r.exposes(i); x {
			r.fail("tombstoned-key-accepts-delta--"+h, "%s but accepted a peer delta: %s", ctx, d)
			continue
		}
		e.tell(i, &internalpb.CRDTFullState{Entries: []*internalpb.CRDTFullStateEntry{{Key: codec.EncodeCRDTKey(r.key.ID(), r.key.Type()), Data: pb}}})
		if x, d := r.exposes(i); x {
			r.fail("tombstoned-key-accepts-full-state-entry--"+h, "%s but accepted an anti-entropy full-state entry: %s", ctx, d)
			continue
		}
		e.tell(i, &internalpb.CRDTDeltaBatch{Deltas: []*internalpb.CRDTDelta{{Key: codec.EncodeCRDTKey(r.key.ID(), r.key.Type()), OriginNode: "probe-node", Data: pb}}, OriginDc: &internalpb.DataCenter{Name: "other-dc"}})
		if x, d := r.exposes(i); x {
			r.fail("tombstoned-key-accepts-cross-dc-delta--"+h, "%s but accepted a delta of a cross-datacenter batch: %s", ctx, d)
			continue
		}
		// coordinated read: the peers answer with whatever they hold
		peerHas := false
		for j, a := range e.acts {
			if _, ok := a.store[r.key.ID()]; ok && j != i {
				peerHas = true
			}
		}
		d := e.get(i, r.key, crdt.All)
		if d != nil {
			r.fail("tombstoned-key-exposed-by-coordinated-read--"+h, "%s but Get(ReadFrom=All) returned %s (a peer still holds the key: %v)", ctx, c41Value(d), peerHas)
			continue
		}
		if x, dd := r.exposes(i); x {
			r.fail("tombstoned-key-stored-by-coordinated-read--"+h, "%s but a coordinated read stored the key: %s", ctx, dd)
		}
	}
}

type c41Info struct {
	pool []c41PoolMsg // only origin/dest are used
	tomb []bool       // replica holds a tombstone (prune is a no-op otherwise)
}

// c41Deadline returns the instant at which the given fraction of the process wall budget is used up.
func c41Deadline(start time.Time, frac float64) time.Time {
	total := 3600.0
	if f, err := strconv.ParseFloat(os.Getenv("VERIF_BUDGET_S"), 64); err == nil {
		total = f
	}
	return start.Add(time.Duration(total * frac * float64(time.Second)))
}

func c41Scenario(t *testing.T, name string, reps, depth int, flag bool, deadline time.Time) {
	key := crdt.GCounterKey("k")
	if flag {
		key = crdt.FlagKey("k")
	}
	var env *c41Env
	batch := func(run func()) any {
		return vfBubble(t, func() {
			env = c41NewEnv(reps, c41TTL)
			run()
			env.stop()
		})
	}
	exec := func(h []c41Ev) (vsched.StepResult, c41Info) {
		var res vsched.StepResult
		env.reset()
		r := &c41Run{env: env, key: key, flag: flag, recvd: make([][]time.Time, reps)}
		for _, ev := range h {
			r.fire(ev)
		}
		res.Canon, res.Obs = r.canon(time.Now())
		info := c41Info{pool: append([]c41PoolMsg(nil), r.pool...), tomb: make([]bool, reps)}
		for i, a := range env.acts {
			_, info.tomb[i] = a.tombstones[key.ID()]
		}
		r.oracle()
		res.Violations = r.viol
		return res, info
	}
	alphabet := func(h []c41Ev, info c41Info) []c41Ev {
		var evs []c41Ev
		for i := 0; i < reps; i++ {
			evs = append(evs, c41Ev{'U', i, 0}, c41Ev{'D', i, 0})
		}
		for i := 0; i < reps; i++ {
			if info.tomb[i] {
				evs = append(evs, c41Ev{'P', i, 0})
			}
			for j := 0; j < reps; j++ {
				if j != i {
					evs = append(evs, c41Ev{'F', i, j})
				}
			}
		}
		for m, pm := range info.pool {
			for j := 0; j < reps; j++ {
				if (pm.dest == -1 && j != pm.origin) || pm.dest == j {
					evs = append(evs, c41Ev{'X', m, j})
				}
			}
		}
		for k := range c41Advances {
			evs = append(evs, c41Ev{'T', k, 0})
		}
		return evs
	}
	c41BFS(vsched.BFSConfig{Scenario: name, Depth: depth, ShardFirstOp: true, Deadline: deadline,
		Params: map[string]any{"replicas": reps, "depth": depth, "ttl": c41TTL.String(), "crdt": map[bool]string{true: "flag", false: "gcounter"}[flag]}},
		400, alphabet, exec, func(e c41Ev) string { return e.String() }, batch)
}

func TestVerifC41(t *testing.T) {
	defer vsched.Finish(t)
	r := vsched.Rep()
	r.Assumption("replicators run as ordinary actors of one non-clustered actor system in a synctest bubble; topic actor, cluster and remoting are replaced by a capture actor and routing fakes, the message handlers are the real ones")
	r.Assumption("no replicator restart, no snapshot restore (tombstones are neither persisted nor part of a snapshot)")
	start := time.Now()
	c41Scenario(t, "c41/flag/r2", 2, vsched.Pick(7, 10), true, c41Deadline(start, 0.5))
	c41Scenario(t, "c41/gcounter/r2", 2, vsched.Pick(5, 7), false, c41Deadline(start, 0.75))
	c41Scenario(t, "c41/flag/r3", 3, vsched.Pick(4, 7), true, c41Deadline(start, 1.0))
}
