//go:build verif

package remoteclient

import (
	"encoding/binary"
	"errors"
	"fmt"
	"io"
	"net"
	"sort"
	"strings"
	"sync"

	"google.golang.org/protobuf/proto"

	"github.com/tochemey/goakt/v4/internal/internalpb"
	inet "github.com/tochemey/goakt/v4/internal/net"
)

// Shared plumbing of the remoteclient_x harnesses (C27, C29): an in-memory "remote node".
//
// The REAL inet.Client of the code under test is given pooled connections that are client ends of
// net.Pipe pairs (inet.Client.Put is the exported way to hand a connection to the idle pool; the
// client's address has no port, so a dial attempt fails immediately and deterministically without
// touching the network). The server end of each pipe is served by c27Server.serve, a goroutine
// that speaks the real wire protocol with the package's own serializer (inet.ProtoSerializer,
// the same frame detection order as inet.ProtoServer.handleConn) and stops after each fully read
// request until the harness tells it what to do with it (reply / error reply / close / process and
// cut the reply): the responder's behaviour is an explicit, enumerated event.

type c27Cmd int

const (
	c27Ok       c27Cmd = iota // process the request, write the success reply
	c27ErrReply               // do not process; reply with an internalpb.Error frame
	c27Drop                   // do not process; close the connection
	c27Cut                    // process the request, write half of the reply frame, close
	c27Quit                   // teardown
)

func (c c27Cmd) String() string {
	return [...]string{"ok", "error-reply", "close-before-processing", "process-then-cut-reply", "quit"}[c]
}

type c27Pending struct {
	req proto.Message
	md  *inet.Metadata // frame level metadata (nil for a legacy frame)
}

type c27SrvConn struct {
	idx     int
	srv     net.Conn
	cmd     chan c27Cmd
	pending *c27Pending
	closed  bool
	served  int
}

type c27Server struct {
	mu    sync.Mutex
	ser   *inet.ProtoSerializer
	conns []*c27SrvConn
	wg    sync.WaitGroup
	// process handles one request that the "remote node" accepts and returns the reply.
	process func(conn int, p *c27Pending) proto.Message
	bad     []string // protocol problems seen by the responder (always a harness/code fault)
	auto    bool     // reply ok to every request at once (no harness events)
}

func c27NewServer(process func(conn int, p *c27Pending) proto.Message) *c27Server {
	return &c27Server{ser: inet.NewProtoSerializer(), process: process}
}

// addConn creates one pipe, starts its responder and returns the client end.
func (s *c27Server) addConn() net.Conn {
	cli, srv := net.Pipe()
	sc := &c27SrvConn{idx: len(s.conns), srv: srv, cmd: make(chan c27Cmd)}
	s.mu.Lock()
	s.conns = append(s.conns, sc)
	s.mu.Unlock()
	s.wg.Add(1)
	go s.serve(sc)
	return cli
}

func c27ReadFrame(r io.Reader) ([]byte, error) {
	var hdr [4]byte
	if _, err := io.ReadFull(r, hdr[:]); err != nil {
		return nil, err
	}
	n := binary.BigEndian.Uint32(hdr[:])
	if n < 8 || n > 1<<24 {
		return nil, fmt.Errorf("bad frame length %d", n)
	}
	frame := make([]byte, n)
	copy(frame, hdr[:])
	if _, err := io.ReadFull(r, frame[4:]); err != nil {
		return nil, err
	}
	return frame, nil
}

// c27Decode mirrors the format detection of inet.ProtoServer.handleConn.
func c27Decode(ser *inet.ProtoSerializer, frame []byte) (proto.Message, *inet.Metadata, error) {
	if len(frame) >= 12 {
		msg, md, _, err := ser.UnmarshalBinaryWithMetadata(frame)
		if errors.Is(err, inet.ErrInvalidMessageLength) {
			m, _, e := ser.UnmarshalBinary(frame)
			return m, nil, e
		}
		return msg, md, err
	}
	m, _, e := ser.UnmarshalBinary(frame)
	return m, nil, e
}

func (s *c27Server) serve(sc *c27SrvConn) {
	defer s.wg.Done()
	markClosed := func() {
		_ = sc.srv.Close()
		s.mu.Lock()
		sc.closed = true
		sc.pending = nil
		s.mu.Unlock()
	}
	for {
		frame, err := c27ReadFrame(sc.srv)
		if err != nil {
			if !errors.Is(err, io.EOF) && !errors.Is(err, io.ErrClosedPipe) {
				s.mu.Lock()
				s.bad = append(s.bad, fmt.Sprintf("conn%d read: %v", sc.idx, err))
				s.mu.Unlock()
			}
			markClosed()
			return
		}
		msg, md, err := c27Decode(s.ser, frame)
		if err != nil {
			s.mu.Lock()
			s.bad = append(s.bad, fmt.Sprintf("conn%d decode: %v", sc.idx, err))
			s.mu.Unlock()
			markClosed()
			return
		}
		p := &c27Pending{req: msg, md: md}
		s.mu.Lock()
		sc.pending = p
		s.mu.Unlock()
		cmd := c27Ok
		if !s.auto {
			cmd = <-sc.cmd
		}
		s.mu.Lock()
		sc.pending = nil
		sc.served++
		s.mu.Unlock()
		var reply proto.Message
		switch cmd {
		case c27Quit, c27Drop:
			markClosed()
			return
		case c27ErrReply:
			reply = &internalpb.Error{Code: internalpb.Code_CODE_UNAVAILABLE, Message: "injected"}
		case c27Ok, c27Cut:
			reply = s.process(sc.idx, p)
		}
		data, err := s.ser.MarshalBinary(reply)
		if err != nil {
			panic(err)
		}
		if cmd == c27Cut {
			_, _ = sc.srv.Write(data[:len(data)/2])
			markClosed()
			return
		}
		if _, err := sc.srv.Write(data); err != nil {
			markClosed() // the client gave up on this connection (deadline / discard)
			return
		}
	}
}

// pendingConns returns the connections that hold a fully read, unanswered request.
func (s *c27Server) pendingConns() []*c27SrvConn {
	s.mu.Lock()
	defer s.mu.Unlock()
	var out []*c27SrvConn
	for _, sc := range s.conns {
		if sc.pending != nil && !sc.closed {
			out = append(out, sc)
		}
	}
	return out
}

// shutdown releases every responder (end of an execution; the bubble must not keep blocked goroutines).
func (s *c27Server) shutdown() {
	s.mu.Lock()
	conns := append([]*c27SrvConn(nil), s.conns...)
	s.mu.Unlock()
	for _, sc := range conns {
		s.mu.Lock()
		pend := sc.pending != nil && !sc.closed
		s.mu.Unlock()
		if pend && !s.auto {
			sc.cmd <- c27Quit
		}
		_ = sc.srv.Close()
	}
	s.wg.Wait()
}

func c27Sorted(m map[string]int) string {
	keys := make([]string, 0, len(m))
	for k := range m {
		keys = append(keys, k)
	}
	sort.Strings(keys)
	var b strings.Builder
	for _, k := range keys {
		fmt.Fprintf(&b, "%s=%d ", k, m[k])
	}
	return b.String()
}
