//go:build verif

package remoteclient

import (
	"context"
	"fmt"
	"strings"
	"sync"
	"testing"

	"google.golang.org/protobuf/types/known/wrapperspb"

	"github.com/tochemey/goakt/v4/internal/internalpb"
	inet "github.com/tochemey/goakt/v4/internal/net"
	"github.com/tochemey/goakt/v4/internal/verif/vsched"
	"github.com/tochemey/goakt/v4/internal/verif/vsync"
	"github.com/tochemey/goakt/v4/remote"
)

// C27 part B — thread interleavings of the REAL coalescer (submit / run / close) under the controlled
// scheduler. Scheduling points: every channel statement of coalescer.go (the three selects of submit,
// the writer's main select, the select in drainReady) and its shimmed sync operations (closeOnce,
// WaitGroup). The transport is the real inet.Client over one pipe whose responder replies at once.
//
// Two families, chosen so that the writer's main select never has both cases ready while it is
// evaluated (its pick would then be a random choice of the Go runtime, see part A):
//
//	submit-vs-close  one submit races close while the writer is idle (one message in total: after
//	                 the writer took it the queue is empty, so `<-done` is the only ready case)
//	callers-only     2 callers x 2 submits race each other and the writer; close runs after the
//	                 window, on an idle writer
type c27FineSc struct {
	name     string
	callers  int
	per      int
	maxBatch int
	closer   bool
	bound    int
}

func c27FineScope(file, fn string) bool { return strings.HasSuffix(file, "coalescer.go") }

func c27Fine(t *testing.T, sc c27FineSc, c *vsched.Chooser) (out vsched.Outcome) {
	vsync.ResetPools()
	p := vsched.Bubble(t, func() {
		pser := remote.NewProtoSerializer()
		w := &c27World{pser: pser}
		srv := c27NewServer(w.process)
		srv.auto = true
		nc := inet.NewClient("c27-no-dial", inet.WithMaxIdleConns(2))
		nc.Put(srv.addConn())
		co := newCoalescer("dest", nc, coalescingConfig{maxBatch: sc.maxBatch, errHandler: w.onError})
		vsched.Settle() // the writer is blocked in its main select
		s := vsched.New(c)
		s.Auto = true
		s.Scope = c27FineScope
		s.MaxSteps = 2000
		var mu sync.Mutex
		closeInvoked, closeReturned := false, false
		callers := make([]*c27Caller, sc.callers)
		for j := range callers {
			cr := &c27Caller{id: j, results: map[int]error{}, overlap: map[int]bool{}}
			callers[j] = cr
			s.Go(fmt.Sprintf("caller%d", j), func() {
				for seq := 0; seq < sc.per; seq++ {
					payload, err := pser.Serialize(wrapperspb.String(fmt.Sprintf("c%d-%d", cr.id, seq)))
					if err != nil {
						panic(err)
					}
					mu.Lock()
					cr.next = seq + 1
					mu.Unlock()
					err = co.submit(context.Background(), &internalpb.RemoteMessage{Sender: fmt.Sprintf("caller%d", cr.id), Receiver: "target", Message: payload})
					mu.Lock()
					cr.results[seq] = err
					cr.overlap[seq] = closeInvoked
					mu.Unlock()
				}
			})
		}
		doClose := func() {
			mu.Lock()
			closeInvoked = true
			mu.Unlock()
			co.close()
			mu.Lock()
			closeReturned = true
			mu.Unlock()
		}
		if sc.closer {
			s.Go("closer", doClose)
		}
		s.Cleanup(func() { go co.close() })
		s.Start()
		s.Run()
		s.Stop()
		vsched.Settle()
		if !sc.closer {
			doClose()
		}
		vsched.Settle()
		_ = nc.Close()
		srv.shutdown()
		vsched.Settle()
		if s.Wedged != "" {
			out.Invalid = "wedged: " + s.Wedged
			return
		}
		mu.Lock()
		defer mu.Unlock()
		w.mu.Lock()
		defer w.mu.Unlock()
		var v []vsched.Violation
		if s.Deadlock || s.Livelock {
			v = append(v, vsched.Fail("coalescer-deadlock", "blocked: %v", s.Blocked))
		}
		for _, tp := range s.ThreadPanics {
			v = append(v, vsched.Fail("panic-in-thread", "%s", tp))
		}
		if !closeReturned {
			if len(s.ThreadPanics) == 0 { // a thread panic is a verdict of its own
				out.Invalid = "close did not return: " + s.Describe()
			}
			out.Violations = v
			return
		}
		var left []string
		for len(co.in) > 0 {
			left = append(left, c27MsgID(<-co.in, pser))
		}
		v = append(v, c27Oracle(sc.callers, sc.per, callers, w, left, "thread schedule (see replay)")...)
		if len(srv.bad) > 0 {
			v = append(v, vsched.Fail("responder-saw-malformed-frame", "%v", srv.bad))
		}
		out.Violations = v
		out.Obs = c27Obs(callers, w, left)
	})
	if p != nil {
		out.Violations = append(out.Violations, vsched.Fail("panic", "panic in execution: %v", p))
	}
	return out
}

func c27FineScenarios(t *testing.T) []vsched.Scenario {
	scs := []c27FineSc{
		{name: "fine/submit-vs-close/idle-writer", callers: 1, per: 1, maxBatch: 2, closer: true, bound: vsched.Pick(2, 4)},
		{name: "fine/2callers-x2/close-after", callers: 2, per: 2, maxBatch: 2, bound: vsched.Pick(2, 3)},
	}
	if vsched.Rep().Thorough() {
		scs = append(scs, c27FineSc{name: "fine/3callers-x1/maxBatch1/close-after", callers: 3, per: 1, maxBatch: 1, bound: 3})
	}
	var all []vsched.Scenario
	for _, sc := range scs {
		sc := sc
		all = append(all, vsched.Scenario{
			Cfg: vsched.Config{Scenario: sc.name, Bound: sc.bound, Params: map[string]any{"callers": sc.callers, "per_caller": sc.per, "maxBatch": sc.maxBatch, "close_in_window": sc.closer}},
			Run: func(c *vsched.Chooser) vsched.Outcome { return c27Fine(t, sc, c) },
		})
	}
	return all
}
