//go:build verif

package remoteclient

import (
	"context"
	"fmt"
	"strings"
	"sync"
	"testing"
	"time"

	"google.golang.org/protobuf/proto"
	"google.golang.org/protobuf/types/known/wrapperspb"

	"github.com/tochemey/goakt/v4/internal/address"
	"github.com/tochemey/goakt/v4/internal/internalpb"
	inet "github.com/tochemey/goakt/v4/internal/net"
	"github.com/tochemey/goakt/v4/internal/verif/vsched"
	"github.com/tochemey/goakt/v4/remote"
)

// C27 — remote tells keep per-caller order and are never silently dropped.
//
// Part A (gate/event mode, this file): the REAL remoteclient.client (RemoteTell, Close) with send
// coalescing on, its REAL per-destination coalescer and the REAL inet.Client; only the connection
// factory is replaced (in-package) by one that returns an inet.Client whose idle pool holds net.Pipe
// connections served by the harness responder (zz_c27_common_test.go). One execution = one sequence
// of events, enumerated exhaustively by vsched.Explore:
//   submit(caller j)        caller j's goroutine issues its next RemoteTell (callers are sequential)
//   reply-ok(conn i)        the remote node processes the request it holds and replies
//   close                   client.Close() (once, at any position)
//   faults (cost 1 each)    error reply / connection closed before processing / request processed
//                           but reply cut in the middle / virtual time passes the flush deadline
// After every event the bubble is settled (every goroutine durably blocked).
//
// Oracle at the end (after Close returned): per caller the messages processed by the remote node are
// in send order, none twice; every message whose RemoteTell returned nil was processed by the remote
// node or was handed to the coalescing error handler, the latter exactly once ("either ... or" is
// read inclusively: a batch that was processed but whose reply was lost is reported as failed, which
// no at-most-once transport can avoid); the slice given to the handler keeps its content.
//
// The writer goroutine's `select { case <-done: ...; case m := <-in: ... }` is decided by the Go
// runtime at random when both cases are ready. Its only observable effect is whether, after Close
// with more than maxBatch messages queued, the writer exits (messages left in the queue) or takes
// another batch. The harness owns that choice as an enumerated decision and realises it by
// rejection: an attempt whose runtime pick differs from the wanted one is discarded and the same
// event sequence is re-executed (see c27Memo). A calibration run decides first whether the exit
// branch has an observable effect at all (it has none once the writer drains its whole queue).

// ---------------------------------------------------------------------------------------------
// choosers

type c27Choose interface {
	choose(kind string, n int, costs []int, label func(int) string) int
}

// c27Memo replays the decisions of an earlier attempt of the same execution and asks the explorer
// only for new ones, so that re-executing an attempt does not consume explorer decisions.
type c27Memo struct {
	c    *vsched.Chooser
	memo []int
	pos  int
}

func (m *c27Memo) choose(kind string, n int, costs []int, label func(int) string) int {
	if m.pos < len(m.memo) {
		v := m.memo[m.pos]
		m.pos++
		return v
	}
	v := m.c.Choose(kind, n, costs, label)
	m.memo = append(m.memo, v)
	m.pos++
	return v
}

// c27Script picks the option whose label starts with the next script entry (calibration only).
type c27Script struct {
	script []string
	pos    int
}

func (s *c27Script) choose(kind string, n int, costs []int, label func(int) string) int {
	if s.pos >= len(s.script) {
		return 0
	}
	want := s.script[s.pos]
	s.pos++
	for i := 0; i < n; i++ {
		if strings.HasPrefix(label(i), want) {
			return i
		}
	}
	panic("c27 calibration script: no option " + want)
}

// ---------------------------------------------------------------------------------------------

type c27Scenario struct {
	name     string
	callers  int
	per      int
	maxBatch int
	conns    int
	bound    int
	// submitTimeout > 0: RemoteTell contexts carry this deadline and "advance submit deadline" is an event
	submitTimeout time.Duration
}

type c27Caller struct {
	id      int
	cmd     chan int
	next    int
	busy    bool
	results map[int]error // seq -> RemoteTell result
	// closeInvokedAtReturn[seq]: Close had been invoked when the RemoteTell returned
	overlap map[int]bool
}

type c27Handled struct {
	ids      []string
	retained []*internalpb.RemoteMessage
	err      string
}

type c27World struct {
	mu        sync.Mutex
	isLate    func(conn int) bool // the client had already given up on the request being processed
	late      map[string]bool
	delivered []string
	handled   []c27Handled
	pser      *remote.ProtoSerializer
}

func c27MsgID(m *internalpb.RemoteMessage, pser *remote.ProtoSerializer) string {
	if m == nil {
		return "<nil>"
	}
	v, err := pser.Deserialize(m.GetMessage())
	if err != nil {
		return "<undecodable>"
	}
	if s, ok := v.(*wrapperspb.StringValue); ok {
		return s.GetValue()
	}
	return fmt.Sprintf("<%T>", v)
}

func (w *c27World) process(conn int, p *c27Pending) proto.Message {
	req, ok := p.req.(*internalpb.RemoteTellRequest)
	if !ok {
		return &internalpb.Error{Code: internalpb.Code_CODE_INVALID_ARGUMENT, Message: "unexpected request"}
	}
	w.mu.Lock()
	for _, m := range req.GetRemoteMessages() {
		id := c27MsgID(m, w.pser)
		w.delivered = append(w.delivered, id)
		if w.isLate != nil && w.isLate(conn) {
			if w.late == nil {
				w.late = map[string]bool{}
			}
			w.late[id] = true
		}
	}
	w.mu.Unlock()
	return new(internalpb.RemoteTellResponse)
}

func (w *c27World) onError(dest string, msgs []*internalpb.RemoteMessage, err error) {
	h := c27Handled{retained: msgs, err: fmt.Sprint(err)}
	for _, m := range msgs {
		h.ids = append(h.ids, c27MsgID(m, w.pser))
	}
	w.mu.Lock()
	w.handled = append(w.handled, h)
	w.mu.Unlock()
}

// c27CloseStrands: calibration result, see c27Calibrate.
var c27CloseStrands bool

type c27Attempt struct {
	out       vsched.Outcome
	retry     bool // runtime select pick differed from the wanted one
	sawDone   bool // calibration: the exit branch was observed with messages left in the queue
	ambiguous int
}

func c27Gate(t *testing.T, sc c27Scenario, ch c27Choose, calibrating bool) (res c27Attempt) {
	p := vsched.Bubble(t, func() {
		w := &c27World{pser: remote.NewProtoSerializer()}
		srv := c27NewServer(w.process)
		cl := NewClient(WithSendCoalescing(sc.maxBatch), WithCoalescingErrorHandler(w.onError)).(*client)
		cl.clientFactory = func(host string, port int) *inet.Client {
			nc := inet.NewClient("c27-no-dial", inet.WithMaxIdleConns(sc.conns))
			for i := 0; i < sc.conns; i++ {
				nc.Put(srv.addConn())
			}
			return nc
		}
		to := address.New("target", "sys", "10.0.0.1", 9000)
		dest := "10.0.0.1:9000"
		var mu sync.Mutex
		closeFired, closeReturned := false, false
		callers := make([]*c27Caller, sc.callers)
		var cwg sync.WaitGroup
		for j := range callers {
			cr := &c27Caller{id: j, cmd: make(chan int), results: map[int]error{}, overlap: map[int]bool{}}
			callers[j] = cr
			from := address.New(fmt.Sprintf("caller%d", j), "sys", "10.0.0.2", 9000)
			cwg.Add(1)
			go func() {
				defer cwg.Done()
				for seq := range cr.cmd {
					ctx, cancel := context.Background(), func() {}
					if sc.submitTimeout > 0 {
						ctx, cancel = context.WithTimeout(ctx, sc.submitTimeout)
					}
					err := cl.RemoteTell(ctx, from, to, wrapperspb.String(fmt.Sprintf("c%d-%d", cr.id, seq)))
					cancel()
					mu.Lock()
					cr.results[seq] = err
					cr.overlap[seq] = closeFired
					cr.busy = false
					mu.Unlock()
				}
			}()
		}
		coal := func() *coalescer {
			c, _ := cl.coalescers.Get(dest)
			return c
		}
		var co *coalescer // remembered: Close resets the map
		qlen := func() int {
			if co == nil {
				co = coal()
			}
			if co == nil {
				return 0
			}
			return len(co.in)
		}
		orphan := map[int]bool{}
		w.isLate = func(conn int) bool { return orphan[conn] }
		selAmbig := false
		var trace []string

		type ev struct {
			name        string
			cost        int
			fire        func()
			flushReturn bool
		}
		for step := 0; step < 200; step++ {
			var zero, faults []ev
			mu.Lock()
			cf := closeFired
			if !cf {
				for _, cr := range callers {
					if !cr.busy && cr.next < sc.per {
						cr := cr
						zero = append(zero, ev{name: fmt.Sprintf("submit c%d", cr.id), fire: func() {
							mu.Lock()
							cr.busy = true
							seq := cr.next
							cr.next++
							mu.Unlock()
							cr.cmd <- seq
						}})
					}
				}
			}
			anyBlocked := false
			for _, cr := range callers {
				if cr.busy {
					anyBlocked = true
				}
			}
			mu.Unlock()
			pend := srv.pendingConns()
			live := false
			for _, pc := range pend {
				pc := pc
				isLive := !orphan[pc.idx]
				live = live || isLive
				suffix := ""
				if !isLive {
					suffix = " (late: client gave up)"
				}
				zero = append(zero, ev{name: fmt.Sprintf("reply-ok conn%d%s", pc.idx, suffix), flushReturn: isLive, fire: func() { pc.cmd <- c27Ok }})
				if isLive {
					for _, f := range []c27Cmd{c27ErrReply, c27Drop, c27Cut} {
						f := f
						faults = append(faults, ev{name: fmt.Sprintf("fault %s conn%d", f, pc.idx), cost: 1, flushReturn: true, fire: func() { pc.cmd <- f }})
					}
				} else {
					faults = append(faults, ev{name: fmt.Sprintf("fault %s conn%d (late)", c27Drop, pc.idx), cost: 1, fire: func() { pc.cmd <- c27Drop }})
				}
			}
			if !cf {
				zero = append(zero, ev{name: "close", fire: func() {
					mu.Lock()
					closeFired = true
					mu.Unlock()
					go func() {
						cl.Close()
						mu.Lock()
						closeReturned = true
						mu.Unlock()
					}()
				}})
			}
			if live {
				faults = append(faults, ev{name: "fault flush-deadline-passes", cost: 1, flushReturn: true, fire: func() {
					for _, pc := range pend {
						orphan[pc.idx] = true
					}
					time.Sleep(coalescerFlushTimeout)
				}})
			}
			if sc.submitTimeout > 0 && anyBlocked {
				faults = append(faults, ev{name: "fault submit-deadline-passes", cost: 1, fire: func() { time.Sleep(sc.submitTimeout) }})
			}
			evs := append(zero, faults...)
			if len(evs) == 0 {
				break
			}
			if len(zero) == 0 {
				// only a blocked submit deadline can be left without a zero cost alternative
				evs[0].cost = 0
			}
			costs := make([]int, len(evs))
			for i := range evs {
				costs[i] = evs[i].cost
			}
			pick := ch.choose("event", len(evs), costs, func(i int) string { return evs[i].name })
			e := evs[pick]
			trace = append(trace, e.name)
			qBefore, closedBefore, wasAmbig := qlen(), cf, selAmbig
			e.fire()
			vsched.Settle()
			qlen() // remember the coalescer as soon as it exists
			if !e.flushReturn {
				continue
			}
			mu.Lock()
			exited := closeReturned
			mu.Unlock()
			switch {
			case wasAmbig && qBefore > 0:
				res.ambiguous++
				actual := 0
				if exited && qlen() > 0 {
					actual = 1
				}
				if calibrating {
					if actual == 1 {
						res.sawDone = true
					}
				} else if c27CloseStrands {
					want := ch.choose("run-select", 2, nil, func(i int) string {
						return [...]string{"writer select picks <-in (takes another batch)", "writer select picks <-done (drains maxBatch, exits)"}[i]
					})
					if want != actual {
						res.retry = true
					}
				}
				selAmbig = actual == 0
			case wasAmbig:
				selAmbig = false
			default:
				selAmbig = closedBefore && qBefore > 0
			}
			if res.retry {
				break
			}
		}

		// teardown: make sure Close ran and returned; an abandoned attempt (retry) fails whatever is
		// still pending so that the writer runs out of work and Close can finish.
		mu.Lock()
		if !closeFired {
			closeFired = true
			go func() {
				cl.Close()
				mu.Lock()
				closeReturned = true
				mu.Unlock()
			}()
		}
		mu.Unlock()
		for i := 0; i < 200; i++ {
			vsched.Settle()
			pend := srv.pendingConns()
			if len(pend) == 0 {
				break
			}
			for _, pc := range pend {
				pc.cmd <- c27Drop
			}
		}
		vsched.Settle()
		for _, cr := range callers {
			close(cr.cmd)
		}
		srv.shutdown()
		cwg.Wait()
		vsched.Settle()
		if res.retry {
			return
		}

		// ---------------- oracle ----------------
		mu.Lock()
		defer mu.Unlock()
		w.mu.Lock()
		defer w.mu.Unlock()
		var v []vsched.Violation
		if !closeReturned {
			res.out.Invalid = "Close did not return"
			return
		}
		var left []string
		if co != nil {
			for len(co.in) > 0 {
				left = append(left, c27MsgID(<-co.in, w.pser))
			}
		}
		v = append(v, c27Oracle(sc.callers, sc.per, callers, w, left, strings.Join(trace, " | "))...)
		if len(srv.bad) > 0 {
			v = append(v, vsched.Fail("responder-saw-malformed-frame", "%v", srv.bad))
		}
		res.out.Violations = v
		res.out.Obs = c27Obs(callers, w, left)
	})
	if p != nil {
		res.out.Violations = append(res.out.Violations, vsched.Fail("panic", "panic in execution: %v", p))
	}
	return res
}

func c27Obs(callers []*c27Caller, w *c27World, left []string) string {
	var b strings.Builder
	b.WriteString("delivered=" + strings.Join(w.delivered, ",") + " handled=")
	for _, h := range w.handled {
		b.WriteString("[" + strings.Join(h.ids, ",") + "]")
	}
	b.WriteString(" left=" + strings.Join(left, ",") + " res=")
	for _, cr := range callers {
		for s := 0; s < len(cr.results); s++ {
			if cr.results[s] == nil {
				b.WriteString("a")
			} else {
				b.WriteString("e")
			}
		}
		b.WriteString("/")
	}
	return b.String()
}

// c27Oracle checks the property on the final, quiescent state.
func c27Oracle(ncallers, per int, callers []*c27Caller, w *c27World, left []string, trace string) []vsched.Violation {
	var v []vsched.Violation
	deliveredN := map[string]int{}
	lastSeq := map[int]int{}
	for _, id := range w.delivered {
		deliveredN[id]++
		var cj, seq int
		if _, err := fmt.Sscanf(id, "c%d-%d", &cj, &seq); err != nil {
			v = append(v, vsched.Fail("remote-node-received-unknown-message", "%q; trace: %s", id, trace))
			continue
		}
		if deliveredN[id] > 1 {
			continue // reported as a duplicate below
		}
		if prev, ok := lastSeq[cj]; ok && seq <= prev && w.late[id] {
			v = append(v, vsched.Fail("order-violated-by-late-processing-of-abandoned-batch", "caller %d: message %d was processed by the remote node after message %d: its batch hit the flush deadline (client gave up, batch went to the error handler, writer continued on another connection) and the remote node processed it afterwards; delivered=%v; trace: %s", cj, seq, prev, w.delivered, trace))
		} else if ok && seq <= prev {
			v = append(v, vsched.Fail("per-caller-order-violated", "caller %d: message %d processed after message %d; delivered=%v; trace: %s", cj, seq, prev, w.delivered, trace))
		}
		lastSeq[cj] = seq
	}
	for id, n := range deliveredN {
		if n > 1 {
			v = append(v, vsched.Fail("delivered-more-than-once", "%s processed %d times; delivered=%v; trace: %s", id, n, w.delivered, trace))
		}
	}
	handledN := map[string]int{}
	for _, h := range w.handled {
		for i, id := range h.ids {
			handledN[id]++
			if i < len(h.retained) && c27MsgID(h.retained[i], w.pser) != id {
				v = append(v, vsched.Fail("error-handler-slice-mutated-after-call", "handler batch %v: entry %d is now %s; trace: %s", h.ids, i, c27MsgID(h.retained[i], w.pser), trace))
			}
		}
		if len(h.retained) != len(h.ids) {
			v = append(v, vsched.Fail("error-handler-slice-mutated-after-call", "handler batch %v changed length; trace: %s", h.ids, trace))
		}
	}
	for id, n := range handledN {
		if n > 1 {
			v = append(v, vsched.Fail("error-handler-got-message-more-than-once", "%s handed over %d times; trace: %s", id, n, trace))
		}
	}
	inQueue := map[string]bool{}
	for _, id := range left {
		inQueue[id] = true
	}
	for _, cr := range callers {
		for seq := 0; seq < cr.next; seq++ {
			err, returned := cr.results[seq]
			id := fmt.Sprintf("c%d-%d", cr.id, seq)
			if !returned {
				v = append(v, vsched.Fail("remote-tell-never-returned", "%s; trace: %s", id, trace))
				continue
			}
			if err != nil {
				continue // not accepted: the property says nothing about it
			}
			if deliveredN[id] > 0 || handledN[id] > 0 {
				continue
			}
			switch {
			case inQueue[id] && !cr.overlap[seq]:
				v = append(v, vsched.Fail("close-leaves-accepted-messages-in-queue", "%s was accepted (RemoteTell returned nil before Close was called), Close returned, and the message still sits in the coalescer queue: neither sent nor given to the error handler; left in queue=%v delivered=%v handled=%d batches; trace: %s", id, left, w.delivered, len(w.handled), trace))
			case inQueue[id]:
				v = append(v, vsched.Fail("submit-racing-close-leaves-message-in-queue", "%s was accepted by a submit that overlapped close, and sits in the queue after the writer exited; trace: %s", id, trace))
			default:
				v = append(v, vsched.Fail("accepted-message-vanished", "%s was accepted but was neither processed by the remote node nor given to the error handler nor left in the queue; delivered=%v; trace: %s", id, w.delivered, trace))
			}
		}
	}
	return v
}

// c27Calibrate decides whether the writer's exit branch is observable: one caller queues 3 messages
// behind an in-flight one (maxBatch 2), Close is called, two replies follow. If the runtime picks the
// done branch at the first reply, the writer exits after the second one with a message left behind.
func c27Calibrate(t *testing.T) (strands bool, ambiguous int) {
	sc := c27Scenario{name: "calibrate", callers: 1, per: 4, maxBatch: 2, conns: 1}
	for i := 0; i < 48; i++ {
		s := &c27Script{script: []string{"submit c0", "submit c0", "submit c0", "submit c0", "close", "reply-ok", "reply-ok", "reply-ok"}}
		r := c27Gate(t, sc, s, true)
		ambiguous += r.ambiguous
		if r.sawDone {
			return true, ambiguous
		}
	}
	return false, ambiguous
}

func c27RunGate(t *testing.T, sc c27Scenario, c *vsched.Chooser) vsched.Outcome {
	m := &c27Memo{c: c}
	for attempt := 0; attempt < 400; attempt++ {
		m.pos = 0
		r := c27Gate(t, sc, m, false)
		if !r.retry {
			return r.out
		}
	}
	return vsched.Outcome{Invalid: "runtime select branch could not be realised in 400 attempts"}
}

func TestVerifC27(t *testing.T) {
	defer vsched.Finish(t)
	r := vsched.Rep()
	strands, amb := c27Calibrate(t)
	c27CloseStrands = strands
	r.Note("calibration: writer exit branch observable (close leaves queued messages behind) = %v (ambiguous selects seen: %d)", strands, amb)
	r.Assumption("events are atomic: after each event the system runs to quiescence (part A); the Go runtime's random pick between the ready cases of the writer's select is enumerated as a decision and realised by re-execution")
	r.Assumption("net.Pipe connections (synchronous, no partial writes) stand in for TCP; the remote node is the harness responder speaking the real frame protocol")
	b := vsched.Pick(1, 2)
	scs := []c27Scenario{
		{name: "gate/2callers-x2/maxBatch2", callers: 2, per: 2, maxBatch: 2, conns: 3, bound: b},
		{name: "gate/1caller-x4/maxBatch2", callers: 1, per: 4, maxBatch: 2, conns: 3, bound: b},
		{name: "gate/2callers-x3/maxBatch1-backpressure", callers: 2, per: 3, maxBatch: 1, conns: 3, bound: 0, submitTimeout: time.Second},
	}
	if r.Thorough() {
		scs = append(scs,
			c27Scenario{name: "gate/3callers-x2/maxBatch2", callers: 3, per: 2, maxBatch: 2, conns: 3, bound: 0},
			c27Scenario{name: "gate/1caller-x6/maxBatch1-backpressure", callers: 1, per: 6, maxBatch: 1, conns: 3, bound: 2, submitTimeout: time.Second})
	}
	var all []vsched.Scenario
	for _, sc := range scs {
		sc := sc
		all = append(all, vsched.Scenario{
			Cfg: vsched.Config{Scenario: sc.name, Bound: sc.bound, Params: map[string]any{"callers": sc.callers, "per_caller": sc.per, "maxBatch": sc.maxBatch, "pooled_conns": sc.conns}},
			Run: func(c *vsched.Chooser) vsched.Outcome { return c27RunGate(t, sc, c) },
		})
	}
	all = append(all, c27FineScenarios(t)...)
	vsched.ExploreAll(all)
}
