//go:build verif

package address

import (
	"fmt"
	"strconv"
	"strings"
	"testing"

	"github.com/tochemey/goakt/v4/internal/verif/vsched"
)

// C26 — actor addresses survive their text form.
//
// Scenario "roundtrip": the full product of small per-component alphabets (system, name, host, port,
// parent shape), filtered by the REAL Validate()==nil; for every valid address a:
//   Parse(a.String()) succeeds, the result Equals(a), carries the same parent name, and
//   HostPortOf(a.String()) == host ":" port.
// Scenario "no-panic": every string over a delimiter-biased alphabet up to a length bound behind every
// scheme prefix, and every single-character edit (delete / substitute / insert) of every valid string
// form, goes through Parse, ParseWithIncarnationID and HostPortOf: none may panic.

const c26UUID = "123e4567-e89b-42d3-a456-426614174000"

type c26ParentShape int

const (
	c26NoParent c26ParentShape = iota
	c26ParentP
	c26ParentOtherCaseSystem // parent system differs in letter case only (accepted: EqualFold)
	c26ParentLongName        // 255 character parent name
	c26ParentWithGrandparent // the parent itself has a parent
	c26ParentSameName        // rejected by Validate (filter witness)
	c26ParentOtherPort       // rejected by Validate (filter witness)
	c26ParentNoSender        // explicit NoSender() parent == no parent
	c26NumParentShapes
)

func (s c26ParentShape) String() string {
	return [...]string{"none", "p", "p-other-case-system", "p-255", "p-with-grandparent", "p-same-name", "p-other-port", "nosender"}[s]
}

func c26SwapCase(s string) string {
	var b strings.Builder
	for _, c := range s {
		switch {
		case c >= 'a' && c <= 'z':
			b.WriteRune(c - 32)
		case c >= 'A' && c <= 'Z':
			b.WriteRune(c + 32)
		default:
			b.WriteRune(c)
		}
	}
	return b.String()
}

// c26Build constructs the address of one product element with the real constructors.
func c26Build(system, name, host string, port int, shape c26ParentShape) (a *Address, wantParent string) {
	switch shape {
	case c26NoParent:
		return New(name, system, host, port), ""
	case c26ParentP:
		return NewWithParent(name, system, host, port, New("p", system, host, port)), "p"
	case c26ParentOtherCaseSystem:
		return NewWithParent(name, system, host, port, New("P-0_q.r", c26SwapCase(system), host, port)), "P-0_q.r"
	case c26ParentLongName:
		pn := strings.Repeat("p", 255)
		return NewWithParent(name, system, host, port, New(pn, system, host, port)), pn
	case c26ParentWithGrandparent:
		gp := New("g", system, host, port)
		return NewWithParent(name, system, host, port, NewWithParent("p", system, host, port, gp)), "p"
	case c26ParentSameName:
		return NewWithParent(name, system, host, port, New(name, system, host, port)), name
	case c26ParentOtherPort:
		return NewWithParent(name, system, host, port, New("p", system, host, port+1)), "p"
	default:
		return NewWithParent(name, system, host, port, NoSender()), ""
	}
}

func c26IsIPv6ish(host string) bool { return strings.Contains(host, ":") }

func c26ParentName(a *Address) string {
	if p := a.Parent(); p != nil && !p.Equals(NoSender()) {
		return p.Name()
	}
	return ""
}

// c26CheckRoundTrip applies the property's oracle to one VALID address; returns the observation.
func c26CheckRoundTrip(e *vsched.Enum, input string, a *Address, wantParent string) string {
	s := a.String()
	// reference text of the endpoint: raw host, ':', decimal port
	wantHP := a.Host() + ":" + strconv.Itoa(a.Port())
	hp, ok := HostPortOf(s)
	if !ok || hp != wantHP {
		e.Fail("hostport-of-string-differs", input, "%s: HostPortOf(%q) = (%q,%v) want (%q,true)", input, s, hp, ok, wantHP)
	}
	b, err := Parse(s)
	if err != nil {
		if c26IsIPv6ish(a.Host()) {
			e.Fail("ipv6-host-string-not-parseable", input, "%s: String()=%q Parse error: %v", input, s, err)
		} else {
			e.Fail("string-form-not-parseable", input, "%s: String()=%q Parse error: %v", input, s, err)
		}
		return "parse-error|" + hp
	}
	if !b.Equals(a) || !a.Equals(b) {
		if c26IsIPv6ish(a.Host()) && (b.Host() != a.Host() || b.Port() != a.Port()) {
			e.Fail("ipv6-host-split-at-wrong-colon", input, "%s: String()=%q parsed host=%q port=%d", input, s, b.Host(), b.Port())
		} else {
			e.Fail("parsed-address-differs", input, "%s: String()=%q parsed system=%q host=%q port=%d name=%q", input, s, b.System(), b.Host(), b.Port(), b.Name())
		}
	}
	if got := c26ParentName(b); got != wantParent {
		e.Fail("parent-name-differs", input, "%s: String()=%q parsed parent name %q want %q", input, s, got, wantParent)
	}
	return fmt.Sprintf("ok|%s|%s|%s|%d|%s|%s", b.System(), b.Host(), hp, b.Port(), c26ParentName(b), b.Name())
}

func c26Hosts(thorough bool) []string {
	h := []string{"localhost", "127.0.0.1", "a-b.c", "my_host", "0.0.0.0", "H", "xn--bcher-kva.example",
		"::1", "::", "fe80::1", "2001:db8::2", "1:2:3:4:5:6:7:8", "::ffff:1.2.3.4", "fe80::1%eth0",
		"[::1]", ""} // the last two are rejected by Validate (filter witnesses)
	if thorough {
		h = append(h, "10.255.255.254", "host.with.many.labels.example.org", "a", "0", "2001:0db8:0000:0000:0000:ff00:0042:8329", "::2:3", "1::", "ff02::1:ff00:1", "64:ff9b::192.0.2.33", "fe80::1%1")
	}
	return h
}

func TestVerifC26(t *testing.T) {
	defer vsched.Finish(t)
	r := vsched.Rep()
	r.Assumption("hosts are host names, IPv4 and IPv6 literals (incl. zone and v4-mapped forms) as in the property statement; other host strings that Validate() happens to accept (e.g. containing '/' or '@') are outside the stated domain and not enumerated")
	valid := c26RoundTrip(r)
	c26NoPanic(t, r, valid)
}

func c26RoundTrip(r *vsched.Report) []string {
	systems := []string{"s", "Sys-1", "a.b_c", "0", "Z9"}
	names := []string{"n", "A-1_x.y", strings.Repeat("a", 255), "n ", "0", strings.Repeat("a", 256) /* invalid */, "-x" /* invalid */}
	ports := []int{0, 1, 80, 9000, 65535, 65536 /* invalid */, -1 /* invalid */}
	if r.Thorough() {
		systems = append(systems, "goakt", "A", strings.Repeat("s", 64), "s.-_")
		names = append(names, "\tn", "p", "goakt", "N.", "9-9")
		ports = append(ports, 2, 443, 8080, 10000, 32768, 65534)
	}
	hosts := c26Hosts(r.Thorough())
	e := vsched.NewEnum("roundtrip", map[string]any{"systems": len(systems), "names": len(names), "hosts": len(hosts), "ports": len(ports), "parent_shapes": int(c26NumParentShapes),
		"domain": "product of the component alphabets, filtered by the real Validate()==nil"})
	validSet := map[string]struct{}{}
	var valid []string
	nValid := 0
	for _, sys := range systems {
		for _, name := range names {
			for _, host := range hosts {
				for shape := c26NoParent; shape < c26NumParentShapes; shape++ {
					for _, port := range ports { // innermost: 7 (13) values, co-prime with the shard counts
						// the valid string forms are needed by every shard (no-panic edits), so the
						// construction runs everywhere; Mine() only guards the oracle work
						a, wantParent := c26Build(sys, name, host, port, shape)
						isValid := a.Validate() == nil
						if isValid {
							if _, ok := validSet[a.String()]; !ok {
								validSet[a.String()] = struct{}{}
								valid = append(valid, a.String())
							}
						}
						if !e.Mine() {
							continue
						}
						input := fmt.Sprintf("system=%q name=%q host=%q port=%d parent=%s", sys, c26Short(name), host, port, shape)
						if !isValid {
							// outside the property's domain: recorded as a trivial case, no oracle
							e.Case(input, "rejected-by-validate", 1, false)
							continue
						}
						nValid++
						obs := c26CheckRoundTrip(e, input, a, wantParent)
						// non-trivial: valid address (the oracle ran); distinct = distinct parsed component vectors
						e.Case(input, obs, 3, true)
					}
				}
			}
		}
	}
	e.Done()
	if r.Shard == 0 {
		r.Note("roundtrip: %d distinct valid string forms in the domain", len(valid))
	}
	_ = nValid
	return valid
}

func c26Short(s string) string {
	if len(s) > 24 {
		return fmt.Sprintf("%s..(%d)", s[:8], len(s))
	}
	return s
}

// c26Try runs the three string consumers on s and reports panics; returns an outcome class.
func c26Try(e *vsched.Enum, s string, coarse bool) (obs string) {
	input := strconv.Quote(s)
	func() {
		defer func() {
			if p := recover(); p != nil {
				e.Fail("parse-panics", input, "Parse(%s) panicked: %v", input, p)
				obs = "panic"
			}
		}()
		a, err := Parse(s)
		if err != nil {
			obs = "err:" + c26ErrClass(err)
			return
		}
		if coarse {
			// outcome class only (the edit scenarios would otherwise produce ~4*10^5 distinct vectors)
			obs = fmt.Sprintf("ok:%s|colon-in-host=%v|%d|parent=%v", a.System(), strings.Contains(a.Host(), ":"), a.Port(), c26ParentName(a) != "")
			return
		}
		obs = fmt.Sprintf("ok:%s|%s|%d|%s|%s", a.System(), a.Host(), a.Port(), c26ParentName(a), a.Name())
	}()
	func() {
		defer func() {
			if p := recover(); p != nil {
				e.Fail("parse-with-incarnation-panics", input, "ParseWithIncarnationID(%s) panicked: %v", input, p)
			}
		}()
		_, _ = ParseWithIncarnationID(s, c26UUID)
	}()
	func() {
		defer func() {
			if p := recover(); p != nil {
				e.Fail("hostportof-panics", input, "HostPortOf(%s) panicked: %v", input, p)
			}
		}()
		hp, ok := HostPortOf(s)
		if coarse {
			obs += fmt.Sprintf("|hp:%v", ok)
			return
		}
		obs += fmt.Sprintf("|hp:%s,%v", hp, ok)
	}()
	return obs
}

func c26ErrClass(err error) string {
	m := err.Error()
	// strconv errors quote the input: keep only the class
	if i := strings.Index(m, "strconv."); i >= 0 {
		if j := strings.LastIndex(m, ": "); j >= 0 {
			return "strconv" + m[j:]
		}
	}
	if strings.Contains(m, "out of range") {
		return "out of range"
	}
	return m
}

func c26NoPanic(t *testing.T, r *vsched.Report, valid []string) {
	alphabet := []byte("g:/@1-")
	maxLen := 6
	if r.Thorough() {
		alphabet = []byte("g:/@1-[% ")
		maxLen = 7
	}
	prefixes := []string{"", "goakt://", "goakt:/", "x://", "goakt://s@", "goakt://s@h:", "goakt://s@h:1/"}
	e := vsched.NewEnum("no-panic-short-strings", map[string]any{"alphabet": string(alphabet), "max_len": maxLen, "prefixes": prefixes})
	buf := make([]byte, 0, maxLen)
	var rec func()
	rec = func() {
		for _, p := range prefixes {
			if e.Mine() {
				s := p + string(buf)
				obs := c26Try(e, s, false)
				// non-trivial: the string got past the scheme check (some delimiter logic ran)
				e.Case(strconv.Quote(s), obs, 3, !strings.HasPrefix(obs, "err:address protocol") && !strings.HasPrefix(obs, "err:address is required"))
			}
		}
		if len(buf) == maxLen {
			return
		}
		for _, c := range alphabet {
			buf = append(buf, c)
			rec()
			buf = buf[:len(buf)-1]
		}
	}
	rec()
	e.Done()

	edits := []byte("g:/@1-[]% \x00")
	e2 := vsched.NewEnum("no-panic-edits-of-valid-forms", map[string]any{"valid_forms": len(valid), "edit_alphabet": strconv.Quote(string(edits)),
		"domain": "every single-character deletion, substitution and insertion at every position of every valid string form"})
	for _, v := range valid {
		if len(v) > 120 {
			continue // the 255 character names only repeat the same position class; bounded for time
		}
		for pos := 0; pos <= len(v); pos++ {
			// deletion
			if pos < len(v) && e2.Mine() {
				s := v[:pos] + v[pos+1:]
				e2.Case(strconv.Quote(s), c26Try(e2, s, true), 3, true)
			}
			for _, c := range edits {
				if pos < len(v) && v[pos] != c && e2.Mine() {
					s := v[:pos] + string(c) + v[pos+1:]
					e2.Case(strconv.Quote(s), c26Try(e2, s, true), 3, true)
				}
				if e2.Mine() {
					s := v[:pos] + string(c) + v[pos:]
					e2.Case(strconv.Quote(s), c26Try(e2, s, true), 3, true)
				}
			}
		}
	}
	e2.Done()
}
