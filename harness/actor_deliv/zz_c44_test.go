//go:build verif

package actor

import (
	"context"
	"fmt"
	"os"
	"sort"
	"strings"
	"testing"
	"time"

	"github.com/tochemey/goakt/v4/internal/commands"
	"github.com/tochemey/goakt/v4/internal/verif/vsched"
)

// =============================================================================================
// C44 -- work-pulling delivers every job to some worker, confirmed exactly once to the producer; a job
// held by a worker that stops is redelivered to another worker.
//
// One execution = a fresh real actor system in a fresh bubble: producer endpoint "jobs"
// (AsReliableWorkPullingProducer, with delivery confirmations) with the REAL
// workPullingProducerController, and up to two worker endpoints "w1", "w2"
// (AsReliableWorkPullingWorker, window W) with their REAL consumerController companions. All
// controller-to-controller traffic goes through the explorer's pool (mailbox wrapper of
// zz_c42_test.go). Events (each followed by vsched.Settle and the invariants):
//
//	produce       the application hands the next job (k = 1..N) to the producer endpoint (enabled while
//	              the endpoint holds an unanswered RequestNext)
//	confirm w     worker w's application confirms the Delivery it holds
//	join w        worker endpoint w is spawned (a stopped worker may join again as a new incarnation
//	              when the join budget allows)
//	stop w        worker endpoint w is shut down (with or without a job in its hands); its controller
//	              dies with it, the producer controller learns it through its death watch
//	deliver/drop/dup m   as in C42 (drop and dup are faults, cost 1)
//	tick          virtual time advances by one resend interval: the resend tick of every live worker
//	              controller fires (all workers use the same interval and phase; the ticks touch
//	              disjoint controllers, so their relative order is immaterial)
//
// Pool messages addressed to a dead worker incarnation are removed at once (a dead actor processes
// nothing: delivering and dropping them is the same no-op). Messages FROM a dead incarnation stay.
// Search (cooperative level-synchronous BFS, c42Search) and continuation as in C42; the continuation
// additionally spawns a worker when none is alive, and lets one more interval pass after the goal was
// reached so that a late second confirmation would surface.
// =============================================================================================

type c44Params struct {
	name          string
	n, w          int
	faults, ticks int
	stops         int // stop budget
	joins         int // join budget per worker name
}

type c44Worker struct {
	name  string
	inc   int // incarnation number (0 = never joined)
	alive bool
	pid   *PID
	ccPID *PID
	ep    *c42Consumer
	cc    *consumerController
	names *c42Names
	seenP int // presentations already processed by the oracle
}

func (k *c44Worker) tag() string { return fmt.Sprintf("%s#%d", k.name, k.inc) }

type c44Held struct {
	job     string
	worker  string // incarnation tag
	atEvent int
	done    bool
}

type c44Presentation struct {
	job     string
	worker  string
	atEvent int
}

type c44World struct {
	t   *testing.T
	p   c44Params
	sys *actorSystem
	net *c42Net

	prodPID, pcPID *PID
	prod           *c42Producer
	pc             *workPullingProducerController
	workers        []*c44Worker          // current incarnation per name, fixed order
	byCtrl         map[*PID]*c44Worker   // controller PID -> incarnation (all incarnations ever)
	incs           map[string]*c44Worker // tag -> incarnation snapshot owner
	all            []*c44Worker          // every incarnation ever, in join order

	produced, faults, ticks, stops int
	presented                      []c44Presentation
	held                           []*c44Held

	viol   []vsched.Violation
	sigs   map[string]bool
	events []string
}

func (w *c44World) fail(sig, format string, a ...any) {
	if w.sigs[sig] {
		return
	}
	w.sigs[sig] = true
	w.viol = append(w.viol, vsched.Fail(sig, "%s | after events: %s", fmt.Sprintf(format, a...), strings.Join(w.events, " ; ")))
}

func c44NewWorld(t *testing.T, p c44Params) *c44World {
	w := &c44World{t: t, p: p, net: &c42Net{}, sigs: map[string]bool{}, byCtrl: map[*PID]*c44Worker{}, incs: map[string]*c44Worker{}}
	ctx := context.Background()
	w.sys = vfNewSystem("c44")
	w.net.onCapture = func(m *c42Msg) {
		// nonces are created by the worker controllers; note them per incarnation in creation order
		if n := c42NonceOf(m.msg); n != "" {
			if k := w.byCtrl[m.from]; k != nil {
				k.names.note(n)
			}
		}
	}
	w.prod = &c42Producer{}
	var err error
	w.prodPID, err = w.sys.Spawn(ctx, "jobs", w.prod, AsReliableWorkPullingProducer(WithReliableRetryInterval(1000*time.Hour), WithReliableDeliveryConfirmation()))
	if err != nil {
		panic(err)
	}
	vfSettle()
	w.pcPID, err = w.sys.resolveReliableCompanion(ctx, "jobs", ReliableControllerRoleProducer, nil)
	if err != nil {
		panic(err)
	}
	w.net.c42Intercept(w.pcPID)
	w.pc = w.pcPID.actor.(*workPullingProducerController)
	for _, n := range []string{"w1", "w2"} {
		w.workers = append(w.workers, &c44Worker{name: n})
	}
	vfSettle()
	return w
}

func (w *c44World) stop() { _ = vfStopSystem(w.sys) }

// join spawns a new incarnation of the named worker endpoint.
func (w *c44World) join(idx int) {
	old := w.workers[idx]
	k := &c44Worker{name: old.name, inc: old.inc + 1, alive: true, names: &c42Names{}}
	k.ep = &c42Consumer{name: k.tag()}
	// the controller registers from its PostStart, i.e. during Spawn, before the harness can learn its
	// PID: the nonce of that first RegisterConsumer is noted right after the spawn (below).
	w.workers[idx] = k
	w.all = append(w.all, k)
	w.incs[k.tag()] = k
	var err error
	k.pid, err = w.sys.Spawn(context.Background(), k.name, k.ep, AsReliableWorkPullingWorker("jobs", WithReliableFlowControlWindow(w.p.w), WithReliableResendInterval(c42Interval)))
	if err != nil {
		panic(fmt.Sprintf("join %s: %v", k.name, err))
	}
	vfSettle()
	k.ccPID, err = w.sys.resolveReliableCompanion(context.Background(), k.name, ReliableControllerRoleConsumer, nil)
	if err != nil {
		panic(err)
	}
	w.byCtrl[k.ccPID] = k
	w.net.c42Intercept(k.ccPID)
	k.cc = k.ccPID.actor.(*consumerController)
	// nonces captured before byCtrl knew the controller (the PostStart registration)
	for _, m := range w.net.c42Snapshot() {
		if m.from == k.ccPID {
			k.names.note(c42NonceOf(m.msg))
		}
	}
}

func (w *c44World) stopWorker(idx int) {
	k := w.workers[idx]
	if k.ep.pending != nil {
		w.held = append(w.held, &c44Held{job: k.ep.pending.MessageID(), worker: k.tag(), atEvent: len(w.events)})
	}
	k.alive = false
	_ = k.pid.Shutdown(context.Background())
}

// purge removes pool messages addressed to dead worker incarnations.
func (w *c44World) purge() {
	for _, m := range w.net.c42Snapshot() {
		if k := w.byCtrl[m.to]; k != nil && !k.alive {
			w.net.c42Remove(m)
		}
	}
}

func (w *c44World) binding(k *c44Worker) *bindingWork {
	b := w.pc.bindings[k.name]
	if b != nil && b.controller == k.ccPID {
		return b
	}
	return nil
}

// renderer: nonces are ranked per worker incarnation (they are only ever compared within one
// worker's registration), messages carry the incarnation tag of their worker side.
func (w *c44World) renderer() func(m *c42Msg) string {
	pool := w.net.c42Snapshot()
	rank := map[*c44Worker]func(string) string{}
	for _, k := range w.all {
		var live []string
		if k.cc != nil {
			live = append(live, k.cc.registrationNonce)
		}
		if b := w.binding(k); b != nil {
			live = append(live, b.registrationNonce)
		}
		for _, m := range pool {
			if m.from == k.ccPID || m.to == k.ccPID {
				live = append(live, c42NonceOf(m.msg))
			}
		}
		rank[k] = k.names.ranker(live)
	}
	sess := func(s string) string {
		if s == w.pc.sessionID {
			return "S"
		}
		return "S?"
	}
	return func(m *c42Msg) string {
		k := w.byCtrl[m.from]
		dir := ">P "
		if k == nil {
			k = w.byCtrl[m.to]
			dir = "<P "
		}
		if k == nil {
			return "?? " + c42Render(m.msg, func(string) string { return "n?" }, sess)
		}
		return k.tag() + dir + c42Render(m.msg, rank[k], sess)
	}
}

func (w *c44World) ops(explore bool) []c42Op {
	var out []c42Op
	if w.prod.request != nil && w.produced < w.p.n {
		out = append(out, c42Op{label: "produce", run: func() {
			w.produced++
			_ = Tell(context.Background(), w.prodPID, &c42Submit{k: w.produced})
		}})
	}
	for _, k := range w.workers {
		k := k
		if k.alive && k.ep.pending != nil {
			out = append(out, c42Op{label: "confirm " + k.tag(), run: func() {
				_ = Tell(context.Background(), k.pid, &c42DoConfirm{})
			}})
		}
	}
	render := w.renderer()
	type ent struct {
		s string
		m *c42Msg
	}
	var ents []ent
	seen := map[string]bool{}
	for _, m := range w.net.c42Snapshot() {
		s := render(m)
		if seen[s] {
			continue
		}
		seen[s] = true
		ents = append(ents, ent{s, m})
	}
	// always canonical (also in the continuation): several worker controllers may be active in the same
	// settle (tick), so the capture order of their messages is not a deterministic function of the events
	sort.SliceStable(ents, func(i, j int) bool { return ents[i].s < ents[j].s })
	for _, e := range ents {
		m := e.m
		out = append(out, c42Op{label: "deliver " + e.s, run: func() { w.net.c42Remove(m); w.net.c42Deliver(m) }})
	}
	if explore {
		for i, k := range w.workers {
			i, k := i, k
			// the two worker names are interchangeable for the controllers (bindings are keyed by name
			// and ordered by registration), so w2 only joins once w1 has joined (symmetry reduction)
			if !k.alive && k.inc < w.p.joins && (i == 0 || w.workers[0].inc > 0) {
				out = append(out, c42Op{label: "join " + k.name, run: func() { w.join(i) }})
			}
			if k.alive && w.stops < w.p.stops {
				out = append(out, c42Op{label: "stop " + k.tag(), run: func() { w.stops++; w.stopWorker(i) }})
			}
		}
		if w.faults < w.p.faults {
			for _, e := range ents {
				m := e.m
				{
					out = append(out, c42Op{label: "drop " + e.s, cost: 1, run: func() { w.faults++; w.net.c42Remove(m) }})
				}
				{
					out = append(out, c42Op{label: "dup " + e.s, cost: 1, run: func() {
						w.faults++
						w.net.c42Add(&c42Msg{from: m.from, to: m.to, msg: m.msg})
					}})
				}
			}
		}
		if w.ticks < w.p.ticks {
			// free while the network is idle; overtaking pool messages is the "delay" fault (cost 1)
			if len(ents) == 0 {
				out = append(out, c42Op{label: "tick", run: func() { w.ticks++; time.Sleep(c42Interval) }})
			} else if w.faults < w.p.faults {
				out = append(out, c42Op{label: "tick(delaying the pool)", cost: 1, run: func() { w.ticks++; w.faults++; time.Sleep(c42Interval) }})
			}
		}
	}
	return out
}

func (w *c44World) fire(op c42Op) {
	w.events = append(w.events, op.label)
	op.run()
	vfSettle()
	w.purge()
	w.check()
}

func (w *c44World) check() {
	// new presentations
	for _, k := range w.all {
		for ; k.seenP < len(k.ep.presented); k.seenP++ {
			p := k.ep.presented[k.seenP]
			w.presented = append(w.presented, c44Presentation{job: p.id, worker: k.tag(), atEvent: len(w.events)})
			if p.content != p.id {
				w.fail("C44:wrong-payload", "worker %s was handed job %s with payload %q", k.tag(), p.id, p.content)
			}
			for _, h := range w.held {
				if !h.done && h.job == p.id && h.worker != k.tag() {
					h.done = true
				}
			}
		}
		for _, e := range k.ep.errs {
			w.fail("C44:endpoint-contract-error", "%s: %s", k.tag(), e)
		}
	}
	for _, e := range w.prod.errs {
		w.fail("C44:endpoint-contract-error", "producer: %s", e)
	}
	for id, n := range w.prod.confirmed {
		if n > 1 {
			w.fail("C44:job-confirmed-more-than-once", "the producer was told %d times that job %s is confirmed (notices=%v)", n, id, w.prod.confirmLog)
		}
	}
}

func (w *c44World) done() bool {
	if w.prod.submitted != w.p.n {
		return false
	}
	for k := 1; k <= w.p.n; k++ {
		if w.prod.confirmed[c42MsgID(k)] < 1 {
			return false
		}
	}
	return true
}

func (w *c44World) anyAlive() bool {
	for _, k := range w.workers {
		if k.alive {
			return true
		}
	}
	return false
}

// continuation: no more faults, no more stops; a worker is made available when none is alive.
func (w *c44World) continuation() {
	ticks := 0
	extra := 0
	for steps := 0; steps < 600; steps++ {
		if !w.anyAlive() {
			w.fire(c42Op{label: "join* w1", run: func() { w.join(0) }})
			continue
		}
		ops := w.ops(false)
		if len(ops) > 0 {
			w.fire(ops[0])
			continue
		}
		if w.done() {
			// one more interval so that late duplicates (if any) surface, then stop
			if extra >= 1 {
				break
			}
			extra++
		} else if ticks >= c42ContTicks {
			break
		}
		ticks++
		w.fire(c42Op{label: "tick*", run: func() { time.Sleep(c42Interval) }})
	}
	handed := map[string][]string{}
	for _, p := range w.presented {
		handed[p.job] = append(handed[p.job], p.worker)
	}
	for k := 1; k <= w.p.n; k++ {
		id := c42MsgID(k)
		if w.prod.submitted < k {
			w.fail("C44:job-never-accepted", "after the fault-free continuation the producer controller never asked for job %s (submitted=%d); %s", id, w.prod.submitted, w.describe())
			continue
		}
		if len(handed[id]) == 0 {
			w.fail("C44:job-never-handed-to-a-worker", "job %s was produced but never handed to any worker; %s", id, w.describe())
		}
		if w.prod.confirmed[id] == 0 {
			w.fail("C44:job-never-confirmed", "job %s was never confirmed to the producer (handed to %v); %s", id, handed[id], w.describe())
		}
	}
	for _, h := range w.held {
		if !h.done {
			w.fail("C44:held-job-not-redelivered", "worker %s stopped while holding job %s and the job was never handed to another worker afterwards (handed: %v); %s", h.worker, h.job, handed[h.job], w.describe())
		}
	}
}

func (w *c44World) describe() string {
	var b []string
	for _, n := range w.pc.bindingOrder {
		bd := w.pc.bindings[n]
		if bd == nil {
			continue
		}
		var u []string
		for _, d := range bd.unconfirmed {
			u = append(u, fmt.Sprintf("%s@%d", d.messageID, d.workerSeq))
		}
		b = append(b, fmt.Sprintf("%s{cur=%d conf=%d demand=%d unc=%v}", n, bd.currentSeq, bd.confirmedSeq, bd.demandUpTo, u))
	}
	var pend []string
	for _, p := range w.pc.pending {
		pend = append(pend, p.messageID)
	}
	return fmt.Sprintf("producer controller: running=%v pending=%v bindings=%v notices=%v", w.pcPID.IsRunning(), pend, b, w.prod.confirmLog)
}

// canon: see the merge argument at c42World.canon; here additionally the worker set (incarnation,
// liveness), the per-binding sub-flows of the work-pulling controller (map rendered in sorted order;
// bindingOrder and nextWorker kept as they drive the round robin), and the oracle's memory (which
// incarnations each job was handed to, confirmation notices, open redelivery obligations).
func (w *c44World) canon() string {
	render := w.renderer()
	var pool []string
	for _, m := range w.net.c42Snapshot() {
		pool = append(pool, render(m))
	}
	sort.Strings(pool)
	var sb strings.Builder
	var pend []string
	for _, p := range w.pc.pending {
		pend = append(pend, p.messageID)
	}
	fmt.Fprintf(&sb, "PC{run=%v failed=%v store=%d pend=%v hs=%d order=%v next=%d", w.pcPID.IsRunning(), w.pc.failed, w.pc.storeSeq, pend, w.pc.handshake, w.pc.bindingOrder, w.pc.nextWorker)
	var names []string
	for n := range w.pc.bindings {
		names = append(names, n)
	}
	sort.Strings(names)
	for _, n := range names {
		bd := w.pc.bindings[n]
		owner := w.byCtrl[bd.controller]
		tag, nonce := "?", "?"
		if owner != nil {
			tag = owner.tag()
			var live []string
			live = append(live, owner.cc.registrationNonce, bd.registrationNonce)
			for _, m := range w.net.c42Snapshot() {
				if m.from == owner.ccPID || m.to == owner.ccPID {
					live = append(live, c42NonceOf(m.msg))
				}
			}
			nonce = owner.names.ranker(live)(bd.registrationNonce)
		}
		var u []string
		for _, d := range bd.unconfirmed {
			u = append(u, fmt.Sprintf("%s@%d", d.messageID, d.workerSeq))
		}
		fmt.Fprintf(&sb, " B[%s %s nonce=%s cur=%d conf=%d demand=%d unc=%v]", n, tag, nonce, bd.currentSeq, bd.confirmedSeq, bd.demandUpTo, u)
	}
	sb.WriteString("}")
	for _, k := range w.workers {
		if k.inc == 0 {
			fmt.Fprintf(&sb, " W{%s never}", k.name)
			continue
		}
		if !k.alive {
			fmt.Fprintf(&sb, " W{%s dead}", k.tag())
			continue
		}
		var live []string
		live = append(live, k.cc.registrationNonce)
		if b := w.binding(k); b != nil {
			live = append(live, b.registrationNonce)
		}
		for _, m := range w.net.c42Snapshot() {
			if m.from == k.ccPID || m.to == k.ccPID {
				live = append(live, c42NonceOf(m.msg))
			}
		}
		nonce := k.names.ranker(live)
		inflight := int64(0)
		if k.cc.inFlight != nil {
			inflight = k.cc.inFlight.Seq()
		}
		gapLimited := !k.cc.lastGapRequest.IsZero() && time.Since(k.cc.lastGapRequest) < k.cc.resendInterval
		pendJob := "-"
		if k.ep.pending != nil {
			pendJob = k.ep.pending.MessageID()
		}
		fmt.Fprintf(&sb, " W{%s run=%v failed=%v pc=%v sess=%v nonce=%s exp=%d conf=%d upTo=%d buf=%s inflight=%d saw=%v gapLimited=%v holds=%s}",
			k.tag(), k.ccPID.IsRunning(), k.cc.failed, k.cc.producerController != nil, k.cc.sessionID != "", nonce(k.cc.registrationNonce), k.cc.expectedSeq, k.cc.confirmedSeq, k.cc.requestUpToSeq, c42Seqs(k.cc.buffer), inflight, k.cc.sawValidTraffic, gapLimited, pendJob)
	}
	// oracle memory
	handed := map[string]map[string]bool{}
	for _, p := range w.presented {
		if handed[p.job] == nil {
			handed[p.job] = map[string]bool{}
		}
		handed[p.job][p.worker] = true
	}
	for k := 1; k <= w.p.n; k++ {
		id := c42MsgID(k)
		var hs []string
		for t := range handed[id] {
			hs = append(hs, t)
		}
		sort.Strings(hs)
		fmt.Fprintf(&sb, " J{%s to=%v notices=%d}", id, hs, w.prod.confirmed[id])
	}
	for _, h := range w.held {
		fmt.Fprintf(&sb, " H{%s %s done=%v}", h.job, h.worker, h.done)
	}
	fmt.Fprintf(&sb, " EP{req=%v produced=%d submitted=%d} B{f=%d t=%d s=%d} viol=%d POOL%v", w.prod.request != nil, w.produced, w.prod.submitted, w.faults, w.ticks, w.stops, len(w.viol), pool)
	return sb.String()
}

func (w *c44World) obs() string {
	var ps []string
	for _, p := range w.presented {
		ps = append(ps, p.job+">"+p.worker)
	}
	var held []string
	for _, h := range w.held {
		held = append(held, fmt.Sprintf("%s@%s:%v", h.job, h.worker, h.done))
	}
	return fmt.Sprintf("handed=%v notices=%v held-at-stop=%v store=%d pool=%d", ps, w.prod.confirmLog, held, w.pc.storeSeq, len(w.net.c42Snapshot()))
}

func c44Exec(t *testing.T, p c44Params, hist []string, withCont bool) (res c42Result) {
	pn := vfBubble(t, func() {
		w := c44NewWorld(t, p)
		defer w.stop()
		w.check()
		for i, lab := range hist {
			var found *c42Op
			ops := w.ops(true)
			for j := range ops {
				if ops[j].label == lab {
					found = &ops[j]
					break
				}
			}
			if found == nil {
				res.invalid = fmt.Sprintf("event %d %q not enabled while replaying (enabled: %v)", i, lab, c42Labels(ops))
				return
			}
			w.fire(*found)
		}
		res.canon = w.canon()
		ops := w.ops(true)
		res.ops = c42Labels(ops)
		if len(ops) == 0 || withCont {
			res.leaf = true
			w.continuation()
		}
		res.obs = w.obs()
		res.viol = w.viol
	})
	if pn != nil {
		res.invalid = fmt.Sprintf("harness panic: %v", pn)
	}
	return res
}

func c44Scenarios() []c44Params {
	r := vsched.Rep()
	mk := func(n, win, f, tk, stops, joins int) c44Params {
		return c44Params{name: fmt.Sprintf("workpull/N%d/W%d/F%d/T%d/stops%d/joins%d", n, win, f, tk, stops, joins), n: n, w: win, faults: f, ticks: tk, stops: stops, joins: joins}
	}
	if s := os.Getenv("VERIF_C44_CFG"); s != "" { // development aid
		var n, win, f, tk, stops, joins int
		fmt.Sscanf(s, "%d,%d,%d,%d,%d,%d", &n, &win, &f, &tk, &stops, &joins)
		return []c44Params{mk(n, win, f, tk, stops, joins)}
	}
	if !r.Thorough() {
		return []c44Params{mk(3, 1, 1, 0, 1, 1), mk(2, 1, 1, 1, 1, 1)} // 84,942 + 107,153 transitions
	}
	// 300,087 / (rejoin, fault free) / 1,116,829 / 1,387,632 transitions
	return []c44Params{mk(3, 1, 1, 1, 1, 1), mk(3, 1, 0, 1, 1, 2), mk(3, 1, 2, 0, 1, 1), mk(2, 2, 1, 0, 1, 1)}
}

func TestVerifC44(t *testing.T) {
	defer vsched.Finish(t)
	start := c42SharedStart()
	r := vsched.Rep()
	r.Assumption("controller-to-controller traffic is intercepted by wrapping the controllers' mailboxes after the real spawn transaction; the endpoints are harness actors following the documented contract; volatile work queue; worker death reaches the producer controller through the local death watch (not a pool message)")
	scs := c44Scenarios()
	for i, p := range scs {
		p := p
		cp := c42Params{name: p.name, n: p.n, w: p.w, faults: p.faults, ticks: p.ticks}
		c42Search(t, cp, map[string]any{"stop_budget": p.stops, "joins_per_worker": p.joins, "workers": 2}, 200, c42Deadline(start, i, len(scs)), func(h []string, cont bool) c42Result { return c44Exec(t, p, h, cont) },
			func(v vsched.Violation) bool { return strings.HasPrefix(v.Signature, "C44:") })
	}
}

var _ = commands.NewAck
