//go:build verif

package actor

import (
	"context"
	"fmt"
	"sort"
	"strings"
	"sync"
	"time"

	"github.com/tochemey/goakt/v4/internal/commands"
	"github.com/tochemey/goakt/v4/test/data/testpb"
)

// =============================================================================================
// C42 / C43 / C44 -- shared infrastructure: the harness-owned "network" between the reliable-delivery
// controllers, the application endpoints, and the world (one real actor system per execution).
//
// Seam: after a controller companion has been spawned by the real spawn transaction, its user
// mailbox (pid.mailbox) is replaced by c42NetMailbox, a wrapper around the original mailbox that
// diverts exactly the five controller-to-controller protocol messages (RegisterConsumer,
// RegistrationAck, Request, Ack, SequencedMessage) into the explorer-owned pool instead of enqueueing
// them; everything else (PostStart, ticks, the local endpoint handshake, Terminated, ...) passes
// through untouched. A pool message is delivered by the original sender PID's Tell with the wrapper
// in pass-through mode, so the controllers' sender authentication sees the genuine sender.
// /repo is not edited; nothing of the controllers is stubbed.
// =============================================================================================

// c42Msg is one captured controller-to-controller message.
type c42Msg struct {
	from, to *PID
	msg      any
}

// c42Net is the explorer-owned pool plus the capture hooks' bookkeeping.
type c42Net struct {
	mu   sync.Mutex
	pool []*c42Msg
	pass bool // set only by the (single) harness goroutine while the system is quiescent
	// onCapture is called (under mu) for every captured message, in capture order.
	onCapture func(m *c42Msg)
}

// c42NetMailbox wraps a controller's real mailbox.
type c42NetMailbox struct {
	inner Mailbox
	net   *c42Net
}

func c42IsProtocol(m any) bool {
	switch m.(type) {
	case *commands.RegisterConsumer, *commands.RegistrationAck, *commands.Request, *commands.Ack, *commands.SequencedMessage:
		return true
	}
	return false
}

func (b *c42NetMailbox) Enqueue(rc *ReceiveContext) error {
	if c42IsProtocol(rc.message) {
		b.net.mu.Lock()
		if !b.net.pass {
			m := &c42Msg{from: rc.sender, to: rc.self, msg: rc.message}
			b.net.pool = append(b.net.pool, m)
			if b.net.onCapture != nil {
				b.net.onCapture(m)
			}
			b.net.mu.Unlock()
			return nil
		}
		b.net.mu.Unlock()
	}
	return b.inner.Enqueue(rc)
}
func (b *c42NetMailbox) Dequeue() *ReceiveContext { return b.inner.Dequeue() }
func (b *c42NetMailbox) IsEmpty() bool            { return b.inner.IsEmpty() }
func (b *c42NetMailbox) Len() int64               { return b.inner.Len() }
func (b *c42NetMailbox) Dispose()                 { b.inner.Dispose() }

// c42Intercept swaps the controller's mailbox (the system must be quiescent).
func (n *c42Net) c42Intercept(ctrl *PID) {
	if _, ok := ctrl.mailbox.(*c42NetMailbox); ok {
		return
	}
	ctrl.mailbox = &c42NetMailbox{inner: ctrl.mailbox, net: n}
}

// c42Deliver hands a pool message to its destination controller as if the network had delivered it.
func (n *c42Net) c42Deliver(m *c42Msg) {
	n.mu.Lock()
	n.pass = true
	n.mu.Unlock()
	_ = m.from.Tell(context.Background(), m.to, m.msg) // ErrDead = lost to a dead controller
	n.mu.Lock()
	n.pass = false
	n.mu.Unlock()
}

func (n *c42Net) c42Remove(m *c42Msg) {
	n.mu.Lock()
	defer n.mu.Unlock()
	for i, x := range n.pool {
		if x == m {
			n.pool = append(n.pool[:i:i], n.pool[i+1:]...)
			return
		}
	}
}

func (n *c42Net) c42Add(m *c42Msg) {
	n.mu.Lock()
	n.pool = append(n.pool, m)
	n.mu.Unlock()
}

func (n *c42Net) c42Snapshot() []*c42Msg {
	n.mu.Lock()
	defer n.mu.Unlock()
	return append([]*c42Msg(nil), n.pool...)
}

// ---------------------------------------------------------------------------------------------
// Application endpoints (the environment of the controllers; they follow the documented contract).
// ---------------------------------------------------------------------------------------------

type c42Submit struct{ k int } // harness -> producer endpoint: "the application has message k ready"
type c42DoConfirm struct{}     // harness -> consumer endpoint: "the application finished processing"

func c42MsgID(k int) string { return fmt.Sprintf("m-%d", k) }

// c42Producer is the producer endpoint: it answers RequestNext with the oldest ready message
// (idempotently for a retried grant) and acknowledges Stored. All fields are touched only in its
// own mailbox turns and read by the harness at quiescence.
type c42Producer struct {
	controller   *PID
	request      *RequestNext
	ready        []int
	lastToken    string
	lastProduced *Produced
	submitted    int              // messages handed to the controller (Produced sent)
	stored       map[string]int64 // messageID -> seq reported by Stored
	confirmed    map[string]int   // messageID -> number of DeliveryConfirmed notices
	confirmLog   []string
	errs         []string
}

func (x *c42Producer) PreStart(*Context) error { return nil }
func (x *c42Producer) PostStop(*Context) error { return nil }
func (x *c42Producer) Receive(ctx *ReceiveContext) {
	switch msg := ctx.Message().(type) {
	case *PostStart:
	case *RequestNext:
		if !msg.IsAuthorizedFor(ctx.Self(), ctx.Sender()) {
			return
		}
		x.controller = ctx.Sender()
		if msg.Token() == x.lastToken && x.lastProduced != nil {
			ctx.Tell(x.controller, x.lastProduced)
			return
		}
		x.request = msg
		x.flush(ctx)
	case *Stored:
		if x.stored == nil {
			x.stored = map[string]int64{}
		}
		x.stored[msg.MessageID()] = msg.Seq()
		ack, err := NewStoredAck(msg)
		if err != nil {
			x.errs = append(x.errs, err.Error())
			return
		}
		ctx.Tell(ctx.Sender(), ack)
	case *DeliveryConfirmed:
		if x.confirmed == nil {
			x.confirmed = map[string]int{}
		}
		x.confirmed[msg.MessageID()]++
		x.confirmLog = append(x.confirmLog, fmt.Sprintf("%s@%d", msg.MessageID(), msg.Seq()))
	case *c42Submit:
		x.ready = append(x.ready, msg.k)
		x.flush(ctx)
	default:
		ctx.Unhandled()
	}
}

func (x *c42Producer) flush(ctx *ReceiveContext) {
	if x.request == nil || len(x.ready) == 0 {
		return
	}
	k := x.ready[0]
	produced, err := NewProduced(x.request, c42MsgID(k), &testpb.Reply{Content: c42MsgID(k)})
	if err != nil {
		x.errs = append(x.errs, err.Error())
		return
	}
	x.ready = x.ready[1:]
	x.lastToken = x.request.Token()
	x.lastProduced = produced
	x.request = nil
	x.submitted++
	ctx.Tell(x.controller, produced)
}

// c42Presented is one Delivery handed to the consumer application.
type c42Presented struct {
	seq     int64
	id      string
	content string
}

// c42Consumer is the consumer endpoint: it records every Delivery it is handed and confirms the
// latest one only when the harness says so (consumer speed is an explored dimension).
type c42Consumer struct {
	name      string
	presented []c42Presented // every Delivery in arrival order (re-presentations included)
	pending   *Delivery      // the latest Delivery not yet confirmed by the application
	confirmed []string       // message ids in application-confirm order
	errs      []string
	// illegal re-presentations, detected when the Delivery arrives (the application knows what it
	// has confirmed at that moment)
	repAfterConfirm []string
	repNotLatest    []string
}

func (x *c42Consumer) PreStart(*Context) error { return nil }
func (x *c42Consumer) PostStop(*Context) error { return nil }
func (x *c42Consumer) Receive(ctx *ReceiveContext) {
	switch msg := ctx.Message().(type) {
	case *PostStart:
	case *Delivery:
		if !msg.IsAuthorizedFor(ctx.Self(), ctx.Sender()) {
			x.errs = append(x.errs, "unauthorized delivery")
			return
		}
		content := "?"
		if r, ok := msg.Payload().(*testpb.Reply); ok {
			content = r.GetContent()
		}
		p := c42Presented{seq: msg.Seq(), id: msg.MessageID(), content: content}
		seenBefore := false
		lastDistinct := ""
		for _, q := range x.presented {
			if q.id == p.id {
				seenBefore = true
			}
			lastDistinct = q.id
		}
		if seenBefore {
			// a re-presentation is legal only while the message is the unconfirmed one in flight
			for _, id := range x.confirmed {
				if id == p.id {
					x.repAfterConfirm = append(x.repAfterConfirm, fmt.Sprintf("%s@%d", p.id, p.seq))
				}
			}
			if lastDistinct != p.id {
				x.repNotLatest = append(x.repNotLatest, fmt.Sprintf("%s@%d after %s", p.id, p.seq, lastDistinct))
			}
		}
		x.presented = append(x.presented, p)
		x.pending = msg
	case *c42DoConfirm:
		if x.pending == nil {
			return
		}
		c, err := NewConfirmed(x.pending)
		if err != nil {
			x.errs = append(x.errs, err.Error())
			return
		}
		x.confirmed = append(x.confirmed, x.pending.MessageID())
		to := x.pending.controller
		x.pending = nil
		ctx.Tell(to, c)
	default:
		ctx.Unhandled()
	}
}

// ---------------------------------------------------------------------------------------------
// Canonical rendering of protocol messages (nonces and the session are renamed structurally).
// ---------------------------------------------------------------------------------------------

// c42Names renames opaque identifiers (registration nonces, tokens) to their rank among the
// identifiers that are still live in the state, by creation order. The controllers use these values
// only in equality tests, so any order-preserving renaming yields an isomorphic future.
type c42Names struct {
	order map[string]int // creation index
}

func (n *c42Names) note(id string) {
	if id == "" {
		return
	}
	if n.order == nil {
		n.order = map[string]int{}
	}
	if _, ok := n.order[id]; !ok {
		n.order[id] = len(n.order) + 1
	}
}

// rank returns a function mapping each live identifier to "n<rank>".
func (n *c42Names) ranker(live []string) func(string) string {
	set := map[string]bool{}
	var ids []string
	for _, id := range live {
		if id == "" || set[id] {
			continue
		}
		set[id] = true
		ids = append(ids, id)
	}
	sort.Slice(ids, func(i, j int) bool { return n.order[ids[i]] < n.order[ids[j]] })
	rk := map[string]string{}
	for i, id := range ids {
		rk[id] = fmt.Sprintf("n%d", i)
	}
	return func(id string) string {
		if id == "" {
			return "-"
		}
		if s, ok := rk[id]; ok {
			return s
		}
		return "n?"
	}
}

func c42NonceOf(m any) string {
	switch x := m.(type) {
	case *commands.RegisterConsumer:
		return x.Nonce()
	case *commands.RegistrationAck:
		return x.Nonce()
	case *commands.Request:
		return x.RegistrationNonce()
	case *commands.Ack:
		return x.RegistrationNonce()
	}
	return ""
}

// c42Render writes a protocol message; sess maps a session id to a stable label.
func c42Render(m any, nonce func(string) string, sess func(string) string) string {
	switch x := m.(type) {
	case *commands.RegisterConsumer:
		return fmt.Sprintf("Register(%s)", nonce(x.Nonce()))
	case *commands.RegistrationAck:
		return fmt.Sprintf("RegAck(%s,%s,next=%d)", sess(x.SessionID()), nonce(x.Nonce()), x.NextSeq())
	case *commands.Request:
		return fmt.Sprintf("Request(%s,%s,conf=%d,upTo=%d,timeout=%v)", sess(x.SessionID()), nonce(x.RegistrationNonce()), x.ConfirmedSeq(), x.RequestUpToSeq(), x.ViaTimeout())
	case *commands.Ack:
		return fmt.Sprintf("Ack(%s,%s,conf=%d)", sess(x.SessionID()), nonce(x.RegistrationNonce()), x.ConfirmedSeq())
	case *commands.SequencedMessage:
		return fmt.Sprintf("Seq(%s,%s,seq=%d)", sess(x.SessionID()), x.MessageID(), x.Seq())
	}
	return fmt.Sprintf("%T", m)
}

func c42Kind(m any) string {
	switch m.(type) {
	case *commands.RegisterConsumer:
		return "Register"
	case *commands.RegistrationAck:
		return "RegAck"
	case *commands.Request:
		return "Request"
	case *commands.Ack:
		return "Ack"
	case *commands.SequencedMessage:
		return "Seq"
	}
	return "?"
}

var c42Kinds = []string{"Register", "RegAck", "Request", "Ack", "Seq"}

func c42Seqs(b []*commands.SequencedMessage) string {
	var s []string
	for _, m := range b {
		s = append(s, fmt.Sprint(m.Seq()))
	}
	return "[" + strings.Join(s, ",") + "]"
}

var _ = time.Second
