//go:build verif

package actor

import (
	"bufio"
	"bytes"
	"context"
	"encoding/json"
	"fmt"
	"os"
	"path/filepath"
	"sort"
	"strings"
	"testing"
	"time"

	"github.com/tochemey/goakt/v4/internal/commands"
	"github.com/tochemey/goakt/v4/internal/verif/vsched"
)

// =============================================================================================
// C42 -- reliable point-to-point delivery is ordered and gap-free under message faults
// C43 -- the producer never outruns the consumer's demand (same runs, own oracle)
//
// One execution = a fresh real actor system in a fresh bubble: producer endpoint "prod"
// (AsReliableProducer) and consumer endpoint "cons" (AsReliableConsumer, window W) with the REAL
// producerController / consumerController companions created by the real spawn transaction. The
// controllers' mailboxes are wrapped (see zz_c42_test.go) so that every controller-to-controller
// message lands in the explorer's pool. Events (each followed by vsched.Settle and the invariants):
//
//	produce        the application hands the next message (k = 1..N) to the producer endpoint; enabled
//	               only while the endpoint holds an unanswered RequestNext (an earlier submission would
//	               merely sit in the endpoint's own buffer, which is outside the controllers)
//	confirm        the consumer application confirms the Delivery it was handed
//	deliver m      the network delivers pool message m (any m: reordering and delay are free)
//	drop m         fault, cost 1: pool message m is lost
//	dup m          fault, cost 1: pool message m is duplicated (the copy stays in the pool)
//	tick           virtual time advances to the consumer controller's next resend tick (at most T
//	               times during exploration; the producer controller's local retry tick only talks
//	               to its own endpoint and is configured out of reach). Free while the pool is empty
//	               (idle network, slow applications); with messages in the pool it is the "delay"
//	               fault, cost 1: those messages arrive after the timeout has fired
//
// Search: explicit-state breadth-first search over event histories (c42Search; the shard processes
// share every level); a state is reached by replaying its (shortest) history on a fresh system,
// successor = replay + one event. States are merged on c42World.canon(), see the argument there.
// Fault budget F bounds drop+dup+delay per history, tick budget T the ticks of the exploration. At every
// state without enabled events (and at the depth horizon) the fault-free continuation runs: deliver
// everything FIFO, confirm, produce the remaining messages, tick when nothing else is possible, at
// most c42ContTicks ticks, invariants checked after every step, and finally eventual confirmation of
// all N messages is required. Every other state's continuation is a path of the search itself.
// =============================================================================================

const (
	c42Interval  = time.Second // consumer controller resend interval (virtual)
	c42ContTicks = 12          // tick horizon of the fault-free continuation
)

type c42Params struct {
	name     string
	n, w     int  // messages, flow-control window
	faults   int  // fault budget
	ticks    int  // tick budget during exploration
	onlyDrop bool // fault alphabet restricted to message loss
}

type c42Op struct {
	label string
	cost  int
	run   func()
}

type c42World struct {
	t   *testing.T
	p   c42Params
	sys *actorSystem
	net *c42Net

	prodPID, consPID, pcPID, ccPID *PID
	prod                           *c42Producer
	cons                           *c42Consumer
	pc                             *producerController
	cc                             *consumerController
	names                          c42Names

	produced int // produce events fired
	faults   int
	ticks    int

	// C43 bookkeeping
	maxEmitted int64 // highest seq of any SequencedMessage the producer controller sent
	highestReq int64 // highest RequestUpToSeq of any Request handed to the producer controller
	// C42 bookkeeping
	viol   []vsched.Violation
	sigs   map[string]bool
	events []string
}

func (w *c42World) fail(sig, format string, a ...any) {
	if w.sigs[sig] {
		return
	}
	w.sigs[sig] = true
	w.viol = append(w.viol, vsched.Fail(sig, "%s | after events: %s", fmt.Sprintf(format, a...), strings.Join(w.events, " ; ")))
}

func c42NewWorld(t *testing.T, p c42Params) *c42World {
	w := &c42World{t: t, p: p, net: &c42Net{}, sigs: map[string]bool{}}
	ctx := context.Background()
	w.sys = vfNewSystem("c42")
	w.net.onCapture = func(m *c42Msg) {
		w.names.note(c42NonceOf(m.msg))
		if sm, ok := m.msg.(*commands.SequencedMessage); ok && sm.Seq() > w.maxEmitted {
			w.maxEmitted = sm.Seq()
		}
	}
	w.prod = &c42Producer{}
	var err error
	w.prodPID, err = w.sys.Spawn(ctx, "prod", w.prod, AsReliableProducer("cons", WithReliableRetryInterval(1000*time.Hour), WithReliableDeliveryConfirmation()))
	if err != nil {
		panic(err)
	}
	vfSettle()
	w.pcPID, err = w.sys.resolveReliableCompanion(ctx, "prod", ReliableControllerRoleProducer, nil)
	if err != nil {
		panic(err)
	}
	w.net.c42Intercept(w.pcPID)
	w.pc = w.pcPID.actor.(*producerController)

	w.cons = &c42Consumer{name: "cons"}
	w.consPID, err = w.sys.Spawn(ctx, "cons", w.cons, AsReliableConsumer("prod", WithReliableFlowControlWindow(p.w), WithReliableResendInterval(c42Interval)))
	if err != nil {
		panic(err)
	}
	vfSettle()
	w.ccPID, err = w.sys.resolveReliableCompanion(ctx, "cons", ReliableControllerRoleConsumer, nil)
	if err != nil {
		panic(err)
	}
	w.net.c42Intercept(w.ccPID)
	w.cc = w.ccPID.actor.(*consumerController)
	vfSettle()
	return w
}

func (w *c42World) stop() {
	_ = vfStopSystem(w.sys)
}

// renderer returns the canonical rendering function for the current state.
func (w *c42World) renderer() func(m *c42Msg) string {
	live := []string{w.cc.registrationNonce, w.pc.registrationNonce}
	for _, m := range w.net.c42Snapshot() {
		live = append(live, c42NonceOf(m.msg))
	}
	nonce := w.names.ranker(live)
	sess := func(s string) string {
		if s == w.pc.sessionID {
			return "S"
		}
		return "S?"
	}
	return func(m *c42Msg) string { return c42Render(m.msg, nonce, sess) }
}

// ops lists the events enabled in the current quiescent state in a canonical order. Pool messages
// with the same canonical rendering are interchangeable, so only one representative gets events.
func (w *c42World) ops(explore bool) []c42Op {
	var out []c42Op
	if w.prod.request != nil && w.produced < w.p.n {
		out = append(out, c42Op{label: "produce", run: func() {
			w.produced++
			_ = Tell(context.Background(), w.prodPID, &c42Submit{k: w.produced})
		}})
	}
	if w.cons.pending != nil {
		out = append(out, c42Op{label: "confirm", run: func() {
			_ = Tell(context.Background(), w.consPID, &c42DoConfirm{})
		}})
	}
	render := w.renderer()
	pool := w.net.c42Snapshot()
	type ent struct {
		s string
		m *c42Msg
	}
	var ents []ent
	seen := map[string]bool{}
	for _, m := range pool {
		s := render(m)
		if seen[s] {
			continue
		}
		seen[s] = true
		ents = append(ents, ent{s, m})
	}
	if explore {
		sort.Slice(ents, func(i, j int) bool { return ents[i].s < ents[j].s })
	}
	for _, e := range ents {
		m := e.m
		out = append(out, c42Op{label: "deliver " + e.s, run: func() { w.deliver(m) }})
	}
	if explore && w.faults < w.p.faults {
		for _, e := range ents {
			m := e.m
			{
				out = append(out, c42Op{label: "drop " + e.s, cost: 1, run: func() { w.faults++; w.net.c42Remove(m) }})
			}
			if !w.p.onlyDrop {
				out = append(out, c42Op{label: "dup " + e.s, cost: 1, run: func() {
					w.faults++
					w.net.c42Add(&c42Msg{from: m.from, to: m.to, msg: m.msg})
				}})
			}
		}
	}
	if explore && w.ticks < w.p.ticks {
		// Time passing while the network is idle is free (slow applications are no fault); a tick that
		// overtakes messages still in the pool is the "delay" fault (cost 1): those messages arrive
		// after the receiver's timeout fired.
		if len(pool) == 0 {
			out = append(out, c42Op{label: "tick", run: func() { w.ticks++; time.Sleep(c42Interval) }})
		} else if w.faults < w.p.faults && !w.p.onlyDrop {
			out = append(out, c42Op{label: "tick(delaying the pool)", cost: 1, run: func() { w.ticks++; w.faults++; time.Sleep(c42Interval) }})
		}
	}
	return out
}

func (w *c42World) deliver(m *c42Msg) {
	w.net.c42Remove(m)
	if rq, ok := m.msg.(*commands.Request); ok && m.to == w.pcPID && rq.RequestUpToSeq() > w.highestReq {
		w.highestReq = rq.RequestUpToSeq()
	}
	w.net.c42Deliver(m)
}

// fire runs one event, settles and evaluates the invariants.
func (w *c42World) fire(op c42Op) {
	w.events = append(w.events, op.label)
	op.run()
	vfSettle()
	w.check()
}

// check evaluates the state invariants of C42 and C43 at quiescence.
func (w *c42World) check() {
	// ---- C42: what the consumer application has been handed
	var ids []string // distinct message ids in first-presentation order
	first := map[string]bool{}
	for _, p := range w.cons.presented {
		if !first[p.id] {
			first[p.id] = true
			ids = append(ids, p.id)
		}
	}
	for i, id := range ids {
		if want := c42MsgID(i + 1); id != want {
			// the (i+1)-th distinct message handed over is not the (i+1)-th produced one
			var k int
			fmt.Sscanf(id, "m-%d", &k)
			if k > i+1 {
				w.fail("C42:gap-message-skipped", "consumer was handed %s as its %d-th distinct message (presented=%v)", id, i+1, w.cons.presented)
			} else {
				w.fail("C42:out-of-order-or-duplicate-delivery", "consumer was handed %s as its %d-th distinct message (presented=%v)", id, i+1, w.cons.presented)
			}
			break
		}
	}
	for _, p := range w.cons.presented {
		var k int
		fmt.Sscanf(p.id, "m-%d", &k)
		if p.content != p.id || p.seq != int64(k) {
			w.fail("C42:wrong-payload-or-sequence", "delivery %+v does not carry the message produced at that position", p)
		}
	}
	for _, e := range w.cons.repAfterConfirm {
		w.fail("C42:represented-after-confirmation", "delivery %s was handed to the application again after the application had confirmed it (presented=%v confirmed=%v)", e, w.cons.presented, w.cons.confirmed)
	}
	for _, e := range w.cons.repNotLatest {
		w.fail("C42:represented-not-in-flight", "delivery %s was handed to the application again although a later message had been handed over (presented=%v confirmed=%v)", e, w.cons.presented, w.cons.confirmed)
	}
	for _, e := range append(append([]string{}, w.cons.errs...), w.prod.errs...) {
		w.fail("C42:endpoint-contract-error", "%s", e)
	}
	// ---- C43
	if w.maxEmitted > w.highestReq {
		w.fail("C43:emitted-beyond-demand", "producer controller emitted seq=%d but the highest demand it was ever handed is %d", w.maxEmitted, w.highestReq)
	}
	if len(w.cc.buffer) > w.cc.window {
		w.fail("C43:consumer-buffer-exceeds-window", "consumer controller buffer %s holds %d > window %d", c42Seqs(w.cc.buffer), len(w.cc.buffer), w.cc.window)
	}
}

// canon dumps everything that can influence the future behaviour or a future verdict.
//
// Merge argument: the future of a quiescent state is a function of (1) both controllers' private
// fields, (2) the pool (as a multiset: any element may be delivered next), (3) the endpoints' state
// that the events read (held RequestNext, unconfirmed Delivery, number of messages produced), (4)
// the oracle's memory (what was presented/confirmed so far, maxEmitted, highestReq), (5) the budgets
// used, (6) virtual time relative to the tick phase and to lastGapRequest. Time only advances by tick
// events of exactly one resend interval and all other events take zero virtual time, so the tick
// timer is always a whole interval away and now-lastGapRequest is a multiple of the interval: only
// "was a gap request sent since the last tick" matters. Mailboxes are empty at quiescence. Session
// id, tokens and nonces are opaque values used only in equality tests; they are renamed by
// creation-order rank among the values still alive (rendering), which preserves all equalities.
// The producer controller's handshake fields: at quiescence the handshake is Idle or Credit (the
// endpoint answers Stored synchronously with StoredAck); token/lastCompletedToken only matter for
// retried RequestNext (producer tick, out of reach) and are reduced to the phase.
func (w *c42World) canon() string {
	render := w.renderer()
	var pool []string
	for _, m := range w.net.c42Snapshot() {
		pool = append(pool, render(m))
	}
	sort.Strings(pool)
	live := []string{w.cc.registrationNonce, w.pc.registrationNonce}
	for _, m := range w.net.c42Snapshot() {
		live = append(live, c42NonceOf(m.msg))
	}
	nonce := w.names.ranker(live)
	var unc []string
	for _, u := range w.pc.unconfirmed {
		unc = append(unc, fmt.Sprint(u.Seq()))
	}
	inflight := int64(0)
	if w.cc.inFlight != nil {
		inflight = w.cc.inFlight.Seq()
	}
	gapLimited := !w.cc.lastGapRequest.IsZero() && time.Since(w.cc.lastGapRequest) < w.cc.resendInterval
	pend := int64(0)
	if w.cons.pending != nil {
		pend = w.cons.pending.Seq()
	}
	var pres []string
	for _, p := range w.cons.presented {
		pres = append(pres, fmt.Sprint(p.seq))
	}
	// the oracle only needs: the distinct ids in first-presentation order, which ids were
	// re-presented illegally (already reported), the last presented id, the confirmed set.
	presKey := c42PresentedKey(w.cons.presented)
	return fmt.Sprintf("PC{run=%v failed=%v cur=%d conf=%d unc=[%s] cc=%v nonce=%s demand=%d span=%d hs=%d pend=%d} "+
		"CC{run=%v failed=%v pc=%v sess=%v nonce=%s exp=%d conf=%d upTo=%d buf=%s inflight=%d saw=%v gapLimited=%v} "+
		"EP{req=%v produced=%d submitted=%d pending=%d appconf=%d pres=%s notices=%d} OR{maxEmit=%d hiReq=%d viol=%d} B{f=%d t=%d} POOL%v",
		w.pcPID.IsRunning(), w.pc.failed, w.pc.currentSeq, w.pc.confirmedSeq, strings.Join(unc, ","), w.pc.consumerController != nil, nonce(w.pc.registrationNonce), w.pc.demandUpTo, w.pc.windowSpan, w.pc.handshake, w.pc.pendingSeq,
		w.ccPID.IsRunning(), w.cc.failed, w.cc.producerController != nil, w.cc.sessionID != "", nonce(w.cc.registrationNonce), w.cc.expectedSeq, w.cc.confirmedSeq, w.cc.requestUpToSeq, c42Seqs(w.cc.buffer), inflight, w.cc.sawValidTraffic, gapLimited,
		w.prod.request != nil, w.produced, w.prod.submitted, pend, len(w.cons.confirmed), presKey, len(w.prod.confirmLog), w.maxEmitted, w.highestReq, len(w.viol), w.faults, w.ticks, pool)
}

// c42PresentedKey is the part of the presentation history that future verdicts depend on: the
// distinct ids in first-presentation order and the id presented last.
func c42PresentedKey(ps []c42Presented) string {
	var ids []string
	seen := map[string]bool{}
	for _, p := range ps {
		if !seen[p.id] {
			seen[p.id] = true
			ids = append(ids, p.id)
		}
	}
	last := "-"
	if len(ps) > 0 {
		last = ps[len(ps)-1].id
	}
	return strings.Join(ids, ",") + "/last=" + last
}

// obs is the observation vector of an execution (distinct outcomes are counted on it).
func (w *c42World) obs() string {
	var pres []string
	for _, p := range w.cons.presented {
		pres = append(pres, fmt.Sprintf("%s@%d", p.id, p.seq))
	}
	return fmt.Sprintf("presented=%v appconfirmed=%v notices=%v pc{cur=%d conf=%d demand=%d} cc{exp=%d upTo=%d buf=%s} maxEmit=%d hiReq=%d pool=%d",
		pres, w.cons.confirmed, w.prod.confirmLog, w.pc.currentSeq, w.pc.confirmedSeq, w.pc.demandUpTo, w.cc.expectedSeq, w.cc.requestUpToSeq, c42Seqs(w.cc.buffer), w.maxEmitted, w.highestReq, len(w.net.c42Snapshot()))
}

func (w *c42World) done() bool {
	distinct := map[string]bool{}
	for _, id := range w.cons.confirmed {
		distinct[id] = true
	}
	if len(distinct) != w.p.n || w.pc.confirmedSeq != int64(w.p.n) || len(w.pc.unconfirmed) != 0 {
		return false
	}
	for k := 1; k <= w.p.n; k++ {
		if w.prod.confirmed[c42MsgID(k)] < 1 {
			return false
		}
	}
	return true
}

// continuation: no more faults; the network delivers everything in FIFO order, the applications
// keep going, time passes when nothing else can happen.
func (w *c42World) continuation() {
	ticks := 0
	for steps := 0; steps < 400; steps++ {
		ops := w.ops(false)
		if len(ops) > 0 {
			w.fire(ops[0])
			continue
		}
		if w.done() {
			break
		}
		if ticks >= c42ContTicks {
			break
		}
		ticks++
		w.fire(c42Op{label: "tick*", run: func() { time.Sleep(c42Interval) }})
	}
	if !w.done() {
		w.fail("C42:not-eventually-confirmed", "after the fault-free continuation (%d ticks): app confirmed %v, producer controller confirmedSeq=%d unconfirmed=%d, notices=%v, pc running=%v cc running=%v, pool=%d",
			ticks, w.cons.confirmed, w.pc.confirmedSeq, len(w.pc.unconfirmed), w.prod.confirmLog, w.pcPID.IsRunning(), w.ccPID.IsRunning(), len(w.net.c42Snapshot()))
	}
}

// ---------------------------------------------------------------------------------------------
// The search
// ---------------------------------------------------------------------------------------------

type c42Result struct {
	canon   string
	obs     string
	ops     []string // labels of the events enabled in the reached state
	costs   []int
	viol    []vsched.Violation
	invalid string
	leaf    bool
}

// c42Exec replays hist on a fresh system in a fresh bubble; withCont forces the continuation.
func c42Exec(t *testing.T, p c42Params, hist []string, withCont bool) (res c42Result) {
	pn := vfBubble(t, func() {
		w := c42NewWorld(t, p)
		defer w.stop()
		w.check()
		for i, lab := range hist {
			var found *c42Op
			ops := w.ops(true)
			for j := range ops {
				if ops[j].label == lab {
					found = &ops[j]
					break
				}
			}
			if found == nil {
				res.invalid = fmt.Sprintf("event %d %q not enabled while replaying (enabled: %v)", i, lab, c42Labels(ops))
				return
			}
			w.fire(*found)
		}
		res.canon = w.canon()
		ops := w.ops(true)
		res.ops = c42Labels(ops)
		for _, o := range ops {
			res.costs = append(res.costs, o.cost)
		}
		if len(ops) == 0 || withCont {
			res.leaf = true
			w.continuation()
		}
		res.obs = w.obs()
		res.viol = w.viol
	})
	if pn != nil {
		res.invalid = fmt.Sprintf("harness panic: %v", pn)
	}
	return res
}

func c42Labels(ops []c42Op) []string {
	out := make([]string, len(ops))
	for i, o := range ops {
		out[i] = o.label
	}
	return out
}

type c42Node struct {
	hist []string
	ops  []string
}

// c42Search is the breadth-first search, level synchronous and cooperative over the shard processes:
// every shard holds the same frontier (same order) and the same set of visited states; of level L it
// executes the successors of the frontier nodes i with i mod S == shard, writes the states it found
// that are new to it (canonical hash, parent index, event, enabled events) to a file in the run
// directory, waits until the files of all shards for that level are there, and merges them in shard
// order into the next frontier. Every transition is thus executed by exactly one shard and every
// state is expanded once. A shard that runs out of budget says so in its file and all shards stop
// (exhaustive:false). With a single shard no files are used.
func c42Search(t *testing.T, p c42Params, params map[string]any, maxDepth int, deadline time.Time, exec func(hist []string, cont bool) c42Result, filter func(v vsched.Violation) bool) {
	r := vsched.Rep()
	st := r.NewScenario(p.name, "states")
	st.Bound = p.faults
	st.BoundCompleted = -1
	st.Params = map[string]any{"messages": p.n, "window": p.w, "fault_budget": p.faults, "tick_budget": p.ticks, "max_depth": maxDepth}
	for k, v := range params {
		st.Params[k] = v
	}
	if r.ReplayScenario() != "" {
		if r.ReplayScenario() == p.name {
			c42Replay(p, exec, filter)
		} else {
			st.Capped = "skipped (replay of another scenario)"
		}
		return
	}
	nsh, me := r.NShards, r.Shard
	dir := ""
	if nsh > 1 {
		out := os.Getenv("VERIF_OUT")
		if out == "" {
			nsh, me = 1, 0 // no place to cooperate in: explore everything alone
		} else {
			dir = filepath.Join(filepath.Dir(out), "coop")
			_ = os.MkdirAll(dir, 0o755)
		}
	}
	scen := strings.NewReplacer("/", "_", " ", "_").Replace(p.name)
	levelFile := func(level, shard int) string {
		return filepath.Join(dir, fmt.Sprintf("%s.L%d.S%d.jsonl", scen, level, shard))
	}
	expired := func() bool {
		return !r.TimeLeft() || (!deadline.IsZero() && time.Now().After(deadline))
	}
	seen := map[uint64]struct{}{}
	record := func(h []string, res c42Result) {
		st.Executions++
		st.Transitions++
		st.Decisions += int64(len(h))
		if len(h) > st.MaxDecisions {
			st.MaxDecisions = len(h)
		}
		if res.invalid != "" {
			st.Invalid++
			st.InvalidReasons[res.invalid[:min(len(res.invalid), 80)]]++
			return
		}
		nontrivial := false
		for _, e := range h {
			if strings.HasPrefix(e, "drop ") || strings.HasPrefix(e, "dup ") || strings.HasPrefix(e, "tick") {
				nontrivial = true
			}
		}
		st.Observe(res.obs, nontrivial)
		if len(st.Samples) < 2 && len(h) >= 6 || (len(st.Samples) < 4 && nontrivial && len(h) >= 8 && res.leaf) {
			st.Sample(map[string]any{"history": h, "observation": res.obs, "state": res.canon, "leaf_with_continuation": res.leaf})
		}
	}
	report := func(h []string, res c42Result) {
		for _, v := range res.viol {
			if filter != nil && !filter(v) {
				continue
			}
			r.ReportViolation(p.name, v, map[string]any{"history": h, "params": st.Params})
		}
	}
	root := exec(nil, false)
	if root.invalid != "" {
		st.Invalid++
		st.Capped = "root execution invalid: " + root.invalid
		return
	}
	// determinism audit of the root
	if again := exec(nil, false); again.canon != root.canon || strings.Join(again.ops, "|") != strings.Join(root.ops, "|") {
		st.Nondeterminism++
		st.Capped = "NONDETERMINISM in the root execution"
		r.Note("scenario %s: root differs between two runs:\n%s\n%s", p.name, root.canon, again.canon)
		return
	}
	seen[vsched.Hash64(root.canon)] = struct{}{}
	if me == 0 {
		st.States = 1
		report(nil, root)
	}
	type found struct {
		P   int      `json:"p"`             // index of the parent in the frontier
		O   string   `json:"o"`             // the event
		H   uint64   `json:"h"`             // hash of the canonical state
		Ops []string `json:"ops,omitempty"` // events enabled there
		End bool     `json:"end,omitempty"` // last line of the file
		Cap string   `json:"cap,omitempty"` // the writer ran out of budget
	}
	frontier := []c42Node{{nil, root.ops}}
	for depth := 1; depth <= maxDepth && len(frontier) > 0; depth++ {
		// ---- my share of this level
		var mine []found
		capped := ""
		local := map[uint64]struct{}{}
	level:
		for i, n := range frontier {
			if i%nsh != me {
				continue
			}
			for _, op := range n.ops {
				if expired() {
					capped = fmt.Sprintf("wall budget reached at depth %d", depth)
					break level
				}
				h := make([]string, len(n.hist)+1)
				copy(h, n.hist)
				h[len(n.hist)] = op
				res := exec(h, depth == maxDepth)
				record(h, res)
				if res.invalid != "" {
					continue
				}
				report(h, res)
				k := vsched.Hash64(res.canon)
				if _, ok := seen[k]; ok {
					continue
				}
				if _, ok := local[k]; ok {
					continue
				}
				local[k] = struct{}{}
				mine = append(mine, found{P: i, O: op, H: k, Ops: res.ops})
			}
		}
		// ---- exchange
		all := [][]found{mine}
		if nsh > 1 {
			tmp := levelFile(depth, me) + ".tmp"
			f, err := os.Create(tmp)
			if err != nil {
				panic(err)
			}
			w := bufio.NewWriter(f)
			enc := json.NewEncoder(w)
			for _, x := range mine {
				_ = enc.Encode(x)
			}
			_ = enc.Encode(found{End: true, Cap: capped})
			_ = w.Flush()
			_ = f.Close()
			if err := os.Rename(tmp, levelFile(depth, me)); err != nil {
				panic(err)
			}
			all = make([][]found, nsh)
			for j := 0; j < nsh; j++ {
				if j == me {
					all[j] = mine
					continue
				}
				var b []byte
				for {
					var err error
					if b, err = os.ReadFile(levelFile(depth, j)); err == nil {
						break
					}
					if expired() {
						st.Capped = fmt.Sprintf("wall budget reached at depth %d while waiting for shard %d", depth, j)
						return
					}
					time.Sleep(5 * time.Millisecond)
				}
				dec := json.NewDecoder(bytes.NewReader(b))
				for dec.More() {
					var x found
					if err := dec.Decode(&x); err != nil {
						panic(fmt.Sprintf("coop file %s: %v", levelFile(depth, j), err))
					}
					if x.End {
						if x.Cap != "" && capped == "" {
							capped = fmt.Sprintf("shard %d: %s", j, x.Cap)
						}
						break
					}
					all[j] = append(all[j], x)
				}
			}
		}
		if capped != "" {
			st.Capped = capped
			return
		}
		// ---- merge (identical in every shard)
		var next []c42Node
		for j, list := range all {
			for _, x := range list {
				if _, ok := seen[x.H]; ok {
					continue
				}
				seen[x.H] = struct{}{}
				if j == me || nsh == 1 {
					st.States++
				}
				if len(x.Ops) > 0 {
					par := frontier[x.P]
					h := make([]string, len(par.hist)+1)
					copy(h, par.hist)
					h[len(par.hist)] = x.O
					next = append(next, c42Node{h, x.Ops})
				}
			}
		}
		frontier = next
		if os.Getenv("VERIF_C42_TRACE") != "" {
			fmt.Printf("TRACE %s %s depth=%d frontier=%d states(mine)=%d transitions(mine)=%d seen=%d\n", time.Now().Format("15:04:05.000"), p.name, depth, len(frontier), st.States, st.Transitions, len(seen))
		}
		if len(frontier) > 0 && depth == maxDepth {
			st.Capped = fmt.Sprintf("depth horizon %d reached with %d open states (their continuation was checked)", maxDepth, len(frontier))
			return
		}
	}
	st.BoundCompleted = p.faults
}

// c42Replay re-executes the history stored in a replay file.
func c42Replay(p c42Params, exec func(hist []string, cont bool) c42Result, filter func(v vsched.Violation) bool) {
	b, err := os.ReadFile(os.Getenv("VERIF_REPLAY"))
	if err != nil {
		panic(err)
	}
	var m struct {
		Case struct {
			History []string `json:"history"`
		} `json:"case"`
	}
	if err := json.Unmarshal(b, &m); err != nil {
		panic(err)
	}
	res := exec(m.Case.History, true)
	fmt.Printf("REPLAY scenario=%s events=%d\n", p.name, len(m.Case.History))
	for i, e := range m.Case.History {
		fmt.Printf("  #%d %s\n", i, e)
	}
	fmt.Printf("  state: %s\n  obs: %s\n", res.canon, res.obs)
	if res.invalid != "" {
		fmt.Printf("  invalid: %s\n", res.invalid)
	}
	for _, v := range res.viol {
		if filter != nil && !filter(v) {
			continue
		}
		fmt.Printf("  VIOLATION-REPLAYED signature=%s\n    %s\n", v.Signature, v.Detail)
		vsched.Rep().ReportViolation(p.name, v, map[string]any{"history": m.Case.History})
	}
}

func c42Scenarios() []c42Params {
	r := vsched.Rep()
	mk := func(n, w, f, tk int, onlyDrop bool) c42Params {
		name := fmt.Sprintf("p2p/N%d/W%d/F%d/T%d", n, w, f, tk)
		if onlyDrop {
			name += "/drops-only"
		}
		return c42Params{name: name, n: n, w: w, faults: f, ticks: tk, onlyDrop: onlyDrop}
	}
	if s := os.Getenv("VERIF_C42_CFG"); s != "" { // development aid
		var n, w, f, tk int
		fmt.Sscanf(s, "%d,%d,%d,%d", &n, &w, &f, &tk)
		return []c42Params{mk(n, w, f, tk, false)}
	}
	if !r.Thorough() {
		return []c42Params{mk(3, 2, 1, 1, false), mk(3, 3, 1, 0, false)} // 70,466 + 121,138 transitions
	}
	// ascending cost: 244,833 / 486,302 / 1,049,032 / 1,110,256 transitions
	return []c42Params{mk(3, 3, 1, 1, false), mk(3, 2, 2, 0, false), mk(3, 2, 1, 3, false), mk(3, 2, 2, 1, false)}
}

// c42SharedStart returns a start instant common to all shard processes of this run (the first
// process to arrive writes it into the cooperation directory). Deadlines are derived from it, so a
// shard process that was started late does not drag the level barriers of the others past their own
// deadlines.
func c42SharedStart() time.Time {
	r := vsched.Rep()
	out := os.Getenv("VERIF_OUT")
	if r.NShards <= 1 || out == "" || r.ReplayScenario() != "" {
		return time.Now()
	}
	dir := filepath.Join(filepath.Dir(out), "coop")
	_ = os.MkdirAll(dir, 0o755)
	path := filepath.Join(dir, "START."+os.Getenv("VERIF_PROPERTY"))
	if f, err := os.OpenFile(path+".tmp", os.O_CREATE|os.O_EXCL|os.O_WRONLY, 0o644); err == nil {
		fmt.Fprintf(f, "%d", time.Now().UnixNano())
		_ = f.Close()
		_ = os.Rename(path+".tmp", path)
	}
	for i := 0; i < 2000; i++ {
		if b, err := os.ReadFile(path); err == nil {
			var ns int64
			if _, err := fmt.Sscanf(string(b), "%d", &ns); err == nil {
				return time.Unix(0, ns)
			}
		}
		time.Sleep(5 * time.Millisecond)
	}
	return time.Now()
}

// c42Deadline gives scenario i of n an equal share of the wall budget that is left.
func c42Deadline(start time.Time, i, n int) time.Time {
	budget := 3600.0
	if s := os.Getenv("VERIF_BUDGET_S"); s != "" {
		fmt.Sscanf(s, "%g", &budget)
	}
	end := start.Add(time.Duration(budget * float64(time.Second)))
	if i == 0 {
		// a pure function of the shared start: identical in every shard however late it was started
		return start.Add(end.Sub(start) / time.Duration(n))
	}
	// later scenarios begin right after a level barrier, i.e. at (almost) the same instant everywhere
	left := time.Until(end)
	if left < 0 {
		left = 0
	}
	return time.Now().Add(left / time.Duration(n-i))
}

func c42Test(t *testing.T, prop string) {
	defer vsched.Finish(t)
	start := c42SharedStart()
	r := vsched.Rep()
	r.Assumption("controller-to-controller traffic is intercepted by wrapping the controllers' mailboxes after the real spawn transaction; the endpoints are harness actors following the documented RequestNext/Produced/Stored/StoredAck and Delivery/Confirmed contract; volatile (no durable queue), no chunking, no controller restart")
	scs := c42Scenarios()
	for i, p := range scs {
		p := p
		c42Search(t, p, map[string]any{"drops_only": p.onlyDrop}, 200, c42Deadline(start, i, len(scs)), func(h []string, cont bool) c42Result { return c42Exec(t, p, h, cont) },
			func(v vsched.Violation) bool { return strings.HasPrefix(v.Signature, prop+":") })
	}
}

func TestVerifC42(t *testing.T) { c42Test(t, "C42") }
func TestVerifC43(t *testing.T) { c42Test(t, "C43") }
