//go:build verif

package actor

import (
	"context"
	"errors"
	"fmt"
	"net"
	"runtime"
	"sort"
	"strconv"
	"strings"
	"sync"
	"time"

	"google.golang.org/protobuf/proto"
	"google.golang.org/protobuf/types/known/durationpb"

	"github.com/tochemey/goakt/v4/discovery"
	gerrors "github.com/tochemey/goakt/v4/errors"
	"github.com/tochemey/goakt/v4/internal/cluster"
	"github.com/tochemey/goakt/v4/internal/codec"
	"github.com/tochemey/goakt/v4/internal/id"
	"github.com/tochemey/goakt/v4/internal/internalpb"
	"github.com/tochemey/goakt/v4/internal/remoteclient"
	"github.com/tochemey/goakt/v4/internal/strconvx"
	"github.com/tochemey/goakt/v4/log"
	"github.com/tochemey/goakt/v4/remote"
)

// ---------------------------------------------------------------------------------------------
// Shared by C30 and C36 (identifier prefix c3x): an in-memory cluster shared by 2-3 REAL actor
// systems of one bubble.
//
//   c3xWorld    the shared registry state (grain records, actor records, members, leader) plus the
//               list of pending gates;
//   c3xCluster  per node implementation of cluster.Cluster on top of the world. Every registry
//               operation first parks on a gate (a bubble channel) and is applied atomically, under
//               the world's mutex, only when the controller releases that gate; so the controller
//               decides the total order of registry operations across nodes, and may answer an
//               operation with an injected fault instead of applying it;
//   c3xRemoting per node remoteclient.Client: a real client (serializers, no connection is ever
//               opened) whose RemoteSpawn / RemoteActivateGrain / RemoteTellGrain / RemoteAskGrain
//               build the very request the real client builds and hand it, after a "deliver" gate,
//               to the target system's own handler function (remoteSpawnHandler, ...), then decode
//               the reply the way the real client does.
//
// Contract of the fake registry = documented contract of internal/cluster: a write is visible to
// every later read (one linearizable map), PutGrainIfAbsent / PutActorIfAbsent are atomic
// test-and-set operations, Remove of a missing key is not an error, Get of a missing key returns
// ErrGrainNotFound / ErrActorNotFound.
//
// PutGrainIfAbsent: goakt's package function cluster.PutGrainIfAbsent(ctx, cl, grain) only takes the
// atomic path for the builtin engine type; for any other Cluster value it runs GrainExists followed
// by PutGrain. The fake recognises that pair by its caller (runtime.Callers) and performs it as ONE
// registry step (one gate, test-and-set under the mutex at GrainExists, the following PutGrain of the
// same call only confirms): what is explored is the production contract (atomic NX), not the
// non-atomic fallback that exists for mocks.
// ---------------------------------------------------------------------------------------------

type c3xOpKey struct{}

func c3xWithOp(ctx context.Context, op string) context.Context {
	return context.WithValue(ctx, c3xOpKey{}, op)
}

func c3xOp(ctx context.Context) string {
	if v, ok := ctx.Value(c3xOpKey{}).(string); ok {
		return v
	}
	return "bg"
}

type c3xGate struct {
	label  string
	kind   string
	node   int
	op     string
	faults []string
	ch     chan int
}

type c3xWorld struct {
	mu       sync.Mutex
	draining bool
	pend     []*c3xGate
	names    []string
	sys      []*actorSystem
	grains   map[string]*internalpb.Grain
	actors   map[string]*internalpb.Actor
	leader   int
	flips    int
	rr       int
	nxOpen   map[string]string // "op@node" -> key of a test-and-set whose confirming PutGrain has not arrived yet
	herr     []string
	trace    []string
	faults   map[string][]string // gate kind -> fault outcomes offered (each costs 1)
	// note is called (under mu) after every applied/answered registry operation.
	note func(node int, op, kind, result string)
}

func c3xNewWorld(names []string) *c3xWorld {
	return &c3xWorld{
		names:  names,
		sys:    make([]*actorSystem, len(names)),
		grains: map[string]*internalpb.Grain{},
		actors: map[string]*internalpb.Actor{},
		nxOpen: map[string]string{},
		faults: map[string][]string{},
	}
}

func (w *c3xWorld) host() string         { return "127.0.0.1" }
func (w *c3xWorld) remPort(node int) int { return 9001 + node }
func (w *c3xWorld) peersPort(node int) int {
	return 7001 + node
}

func (w *c3xWorld) nodeOfPort(port int) int {
	n := port - 9001
	if n < 0 || n >= len(w.names) {
		return -1
	}
	return n
}

func (w *c3xWorld) nodeOfSystem(sys ActorSystem) int {
	for i, s := range w.sys {
		if ActorSystem(s) == sys {
			return i
		}
	}
	return -1
}

func (w *c3xWorld) harnessError(format string, a ...any) {
	w.herr = append(w.herr, fmt.Sprintf(format, a...))
}

// wait parks the calling goroutine on a new gate and returns the outcome chosen by the controller
// (0 = normal, i>0 = faults[i-1]). While draining every gate is open.
func (w *c3xWorld) wait(ctx context.Context, node int, kind string) int {
	w.mu.Lock()
	if w.draining {
		w.mu.Unlock()
		return 0
	}
	op := c3xOp(ctx)
	g := &c3xGate{label: op + ":" + kind + "@" + w.names[node], kind: kind, node: node, op: op, faults: w.faults[kind], ch: make(chan int, 1)}
	w.pend = append(w.pend, g)
	w.mu.Unlock()
	return <-g.ch
}

// pending returns the parked gates in a schedule independent order (by label).
func (w *c3xWorld) pending() []*c3xGate {
	w.mu.Lock()
	defer w.mu.Unlock()
	out := append([]*c3xGate(nil), w.pend...)
	sort.SliceStable(out, func(i, j int) bool { return out[i].label < out[j].label })
	for i := 1; i < len(out); i++ {
		if out[i].label == out[i-1].label {
			w.harnessError("two parked gates share the label %s", out[i].label)
		}
	}
	return out
}

func (w *c3xWorld) release(g *c3xGate, outcome int) {
	w.mu.Lock()
	for i, p := range w.pend {
		if p == g {
			w.pend = append(w.pend[:i], w.pend[i+1:]...)
			break
		}
	}
	lab := g.label
	if outcome > 0 {
		lab += "!" + g.faults[outcome-1]
	}
	w.trace = append(w.trace, lab)
	w.mu.Unlock()
	g.ch <- outcome
}

func (w *c3xWorld) drain() {
	w.mu.Lock()
	w.draining = true
	p := w.pend
	w.pend = nil
	w.mu.Unlock()
	for _, g := range p {
		close(g.ch)
	}
}

func (w *c3xWorld) traceString() string {
	w.mu.Lock()
	defer w.mu.Unlock()
	return strings.Join(w.trace, " ")
}

func (w *c3xWorld) ownerName(g *internalpb.Grain) string {
	if g == nil {
		return "-"
	}
	n := w.nodeOfPort(int(g.GetPort()))
	if n < 0 || g.GetHost() != w.host() {
		return fmt.Sprintf("?%s:%d", g.GetHost(), g.GetPort())
	}
	return w.names[n]
}

func (w *c3xWorld) noteLocked(node int, op, kind, result string) {
	if len(w.nxOpen) > 0 && kind != "NX.put" {
		w.harnessError("registry operation %s by %s@%s applied between the two halves of an atomic put-if-absent", kind, op, w.names[node])
	}
	if w.note != nil {
		w.note(node, op, kind, result)
	}
}

// ---------------------------------------------------------------------------------------------
// node construction: a real, started actor system switched to cluster mode in-package, the way the
// package's own MockSimpleClusterReadyActorSystem fixture prepares one (cluster, remoting,
// clusterNode, remoteConfig set directly; clusterEnabled on), but on top of a fully started system so
// that guardians, the dispatcher, the death watch, the passivation manager and the singleton manager
// are the real ones.
// ---------------------------------------------------------------------------------------------

func c3xNewNode(w *c3xWorld, node int, singleton bool) *actorSystem {
	as, err := NewActorSystem("c3x", WithLogger(log.DiscardLogger))
	if err != nil {
		panic(fmt.Sprintf("c3xNewNode: %v", err))
	}
	sys := as.(*actorSystem)
	// before Start: every address created by this node carries its own host:port
	sys.remoteConfig = remote.NewConfig(w.host(), w.remPort(node))
	sys.remoteHostPort = net.JoinHostPort(w.host(), strconv.Itoa(w.remPort(node)))
	if err := sys.Start(context.Background()); err != nil {
		panic(fmt.Sprintf("c3xNewNode start: %v", err))
	}
	inner := remoteclient.NewClient(
		remoteclient.WithClientSerializers(new(PoisonPill), &poisonPillSerializer{}),
	)
	sys.locker.Lock()
	sys.cluster = &c3xCluster{w: w, node: node}
	sys.remoting = &c3xRemoting{Client: inner, w: w, node: node}
	sys.clusterNode = &discovery.Node{Name: "c3x", Host: w.host(), DiscoveryPort: 6001 + node, PeersPort: w.peersPort(node), RemotingPort: w.remPort(node)}
	sys.locker.Unlock()
	sys.clusterEnabled.Store(true)
	sys.remotingEnabled.Store(true)
	if singleton {
		if err := sys.spawnSingletonManager(context.Background()); err != nil {
			panic(fmt.Sprintf("c3xNewNode singleton manager: %v", err))
		}
	}
	w.sys[node] = sys
	return sys
}

// c3xStopNode takes the node out of cluster mode (the fakes have no Stop/leave protocol; none of it
// belongs to the properties) and stops the system.
func c3xStopNode(sys *actorSystem) error {
	sys.clusterEnabled.Store(false)
	sys.remotingEnabled.Store(false)
	sys.locker.Lock()
	sys.cluster = nil
	sys.remoting = nil
	sys.locker.Unlock()
	return vfStopSystem(sys)
}

// ---------------------------------------------------------------------------------------------
// fake cluster
// ---------------------------------------------------------------------------------------------

var c3xErrInjected = errors.New("c3x: injected registry failure")

type c3xCluster struct {
	w    *c3xWorld
	node int
}

var _ cluster.Cluster = (*c3xCluster)(nil)

// c3xCalledFromNX reports whether the fake method was called by cluster.PutGrainIfAbsent.
func c3xCalledFromNX() bool {
	var pcs [6]uintptr
	n := runtime.Callers(3, pcs[:])
	frames := runtime.CallersFrames(pcs[:n])
	for i := 0; i < 2; i++ {
		f, more := frames.Next()
		if strings.HasSuffix(f.Function, "internal/cluster.PutGrainIfAbsent") {
			return true
		}
		if !more {
			break
		}
	}
	return false
}

func (c *c3xCluster) Start(context.Context) error { return nil }
func (c *c3xCluster) Stop(context.Context) error  { return nil }

func (c *c3xCluster) GrainExists(ctx context.Context, identity string) (bool, error) {
	w := c.w
	op := c3xOp(ctx)
	if c3xCalledFromNX() {
		// first half of the atomic put-if-absent: one gate, test-and-set
		k := w.wait(ctx, c.node, "NX")
		w.mu.Lock()
		defer w.mu.Unlock()
		if k > 0 {
			w.noteLocked(c.node, op, "NX", "err")
			return false, c3xErrInjected
		}
		if g, ok := w.grains[identity]; ok {
			w.noteLocked(c.node, op, "NX", "exists:"+w.ownerName(g))
			return true, nil
		}
		w.noteLocked(c.node, op, "NX", "ok")
		w.nxOpen[op+"@"+w.names[c.node]] = identity
		return false, nil
	}
	k := w.wait(ctx, c.node, "GrainExists")
	w.mu.Lock()
	defer w.mu.Unlock()
	if k > 0 {
		w.noteLocked(c.node, op, "GrainExists", "err")
		return false, c3xErrInjected
	}
	g, ok := w.grains[identity]
	if ok {
		w.noteLocked(c.node, op, "GrainExists", "present:"+w.ownerName(g))
	} else {
		w.noteLocked(c.node, op, "GrainExists", "absent")
	}
	return ok, nil
}

func (c *c3xCluster) GetGrain(ctx context.Context, identity string) (*internalpb.Grain, error) {
	w := c.w
	op := c3xOp(ctx)
	k := w.wait(ctx, c.node, "GetGrain")
	w.mu.Lock()
	defer w.mu.Unlock()
	if k > 0 {
		w.noteLocked(c.node, op, "GetGrain", "err")
		return nil, c3xErrInjected
	}
	g, ok := w.grains[identity]
	if !ok {
		w.noteLocked(c.node, op, "GetGrain", "notfound")
		return nil, cluster.ErrGrainNotFound
	}
	w.noteLocked(c.node, op, "GetGrain", "found:"+w.ownerName(g))
	return proto.Clone(g).(*internalpb.Grain), nil
}

func (c *c3xCluster) PutGrain(ctx context.Context, grain *internalpb.Grain) error {
	w := c.w
	op := c3xOp(ctx)
	key := grain.GetGrainId().GetValue()
	if c3xCalledFromNX() {
		// second half of the atomic put-if-absent: no gate, the slot was taken at the test-and-set
		w.mu.Lock()
		defer w.mu.Unlock()
		nk := op + "@" + w.names[c.node]
		if w.nxOpen[nk] != key {
			w.harnessError("PutGrain half of put-if-absent without its test-and-set (%s)", nk)
		}
		delete(w.nxOpen, nk)
		w.grains[key] = proto.Clone(grain).(*internalpb.Grain)
		w.noteLocked(c.node, op, "NX.put", "ok:"+w.ownerName(grain))
		return nil
	}
	k := w.wait(ctx, c.node, "PutGrain")
	w.mu.Lock()
	defer w.mu.Unlock()
	if k > 0 {
		w.noteLocked(c.node, op, "PutGrain", "err")
		return c3xErrInjected
	}
	prev := w.ownerName(w.grains[key])
	w.grains[key] = proto.Clone(grain).(*internalpb.Grain)
	w.noteLocked(c.node, op, "PutGrain", "ok:"+w.ownerName(grain)+"<-"+prev)
	return nil
}

// c3xRemoveCaller names the goakt code path that issued a RemoveGrain (used only to word the
// signature of a violation by its root cause).
func c3xRemoveCaller() string {
	var pcs [12]uintptr
	n := runtime.Callers(3, pcs[:])
	frames := runtime.CallersFrames(pcs[:n])
	for {
		f, more := frames.Next()
		switch {
		case strings.HasSuffix(f.Function, ".(*grainPID).deactivate"):
			return "deactivation"
		case strings.HasSuffix(f.Function, ".tryRemoteGrainActivation"):
			return "remote-activation-fallback"
		case strings.HasSuffix(f.Function, ".tryPeerActivation"):
			return "peer-activation-rollback"
		case strings.Contains(f.Function, ".finalizeGrainActivation"), strings.Contains(f.Function, ".activateGrainLocally"),
			strings.Contains(f.Function, ".ensureExistingGrainProcess"), strings.Contains(f.Function, ".ensureNewGrainProcess"):
			return "activation-rollback"
		}
		if !more {
			return "other-path"
		}
	}
}

func (c *c3xCluster) RemoveGrain(ctx context.Context, identity string) error {
	w := c.w
	op := c3xOp(ctx)
	via := c3xRemoveCaller()
	k := w.wait(ctx, c.node, "RemoveGrain")
	w.mu.Lock()
	defer w.mu.Unlock()
	if k > 0 {
		w.noteLocked(c.node, op, "RemoveGrain", "err")
		return c3xErrInjected
	}
	prev := w.ownerName(w.grains[identity])
	delete(w.grains, identity)
	w.noteLocked(c.node, op, "RemoveGrain", "ok:"+prev+":"+via)
	return nil
}

func (c *c3xCluster) Grains(context.Context, time.Duration) ([]*internalpb.Grain, error) {
	w := c.w
	w.mu.Lock()
	defer w.mu.Unlock()
	keys := make([]string, 0, len(w.grains))
	for k := range w.grains {
		keys = append(keys, k)
	}
	sort.Strings(keys)
	out := make([]*internalpb.Grain, 0, len(keys))
	for _, k := range keys {
		out = append(out, proto.Clone(w.grains[k]).(*internalpb.Grain))
	}
	return out, nil
}

func (c *c3xCluster) GrainsByHost(ctx context.Context, host string, port int, d time.Duration) ([]*internalpb.Grain, error) {
	all, _ := c.Grains(ctx, d)
	var out []*internalpb.Grain
	for _, g := range all {
		if g.GetHost() == host && int(g.GetPort()) == port {
			out = append(out, g)
		}
	}
	return out, nil
}

// ---- actors -----------------------------------------------------------------------------------

func (c *c3xCluster) actorOwner(a *internalpb.Actor) string {
	if a == nil {
		return "-"
	}
	for i := range c.w.names {
		if strings.Contains(a.GetAddress(), net.JoinHostPort(c.w.host(), strconv.Itoa(c.w.remPort(i)))) {
			return c.w.names[i]
		}
	}
	return "?" + a.GetAddress()
}

func (c *c3xCluster) PutActor(ctx context.Context, actor *internalpb.Actor) error {
	w := c.w
	op := c3xOp(ctx)
	name := c3xActorName(actor)
	k := w.wait(ctx, c.node, "PutActor")
	w.mu.Lock()
	defer w.mu.Unlock()
	if k > 0 {
		w.noteLocked(c.node, op, "PutActor", "err")
		return c3xErrInjected
	}
	prev := c.actorOwner(w.actors[name])
	w.actors[name] = proto.Clone(actor).(*internalpb.Actor)
	w.noteLocked(c.node, op, "PutActor", "ok:"+c.actorOwner(actor)+"<-"+prev)
	return nil
}

func (c *c3xCluster) PutActorIfAbsent(ctx context.Context, actor *internalpb.Actor) error {
	w := c.w
	op := c3xOp(ctx)
	name := c3xActorName(actor)
	k := w.wait(ctx, c.node, "PutActorNX")
	w.mu.Lock()
	defer w.mu.Unlock()
	if k > 0 {
		w.noteLocked(c.node, op, "PutActorNX", "err")
		return c3xErrInjected
	}
	if prev, ok := w.actors[name]; ok {
		w.noteLocked(c.node, op, "PutActorNX", "exists:"+c.actorOwner(prev))
		return cluster.ErrActorAlreadyExists
	}
	w.actors[name] = proto.Clone(actor).(*internalpb.Actor)
	w.noteLocked(c.node, op, "PutActorNX", "ok:"+c.actorOwner(actor))
	return nil
}

func (c *c3xCluster) GetActor(ctx context.Context, actorName string) (*internalpb.Actor, error) {
	w := c.w
	op := c3xOp(ctx)
	k := w.wait(ctx, c.node, "GetActor")
	w.mu.Lock()
	defer w.mu.Unlock()
	if k > 0 {
		w.noteLocked(c.node, op, "GetActor", "err")
		return nil, c3xErrInjected
	}
	a, ok := w.actors[actorName]
	if !ok {
		w.noteLocked(c.node, op, "GetActor", "notfound")
		return nil, cluster.ErrActorNotFound
	}
	w.noteLocked(c.node, op, "GetActor", "found:"+c.actorOwner(a))
	return proto.Clone(a).(*internalpb.Actor), nil
}

func (c *c3xCluster) RemoveActor(ctx context.Context, actorName string) error {
	w := c.w
	op := c3xOp(ctx)
	k := w.wait(ctx, c.node, "RemoveActor")
	w.mu.Lock()
	defer w.mu.Unlock()
	if k > 0 {
		w.noteLocked(c.node, op, "RemoveActor", "err")
		return c3xErrInjected
	}
	prev := c.actorOwner(w.actors[actorName])
	delete(w.actors, actorName)
	w.noteLocked(c.node, op, "RemoveActor", "ok:"+prev)
	return nil
}

func (c *c3xCluster) ActorExists(ctx context.Context, actorName string) (bool, error) {
	w := c.w
	op := c3xOp(ctx)
	k := w.wait(ctx, c.node, "ActorExists")
	w.mu.Lock()
	defer w.mu.Unlock()
	if k > 0 {
		w.noteLocked(c.node, op, "ActorExists", "err")
		return false, c3xErrInjected
	}
	a, ok := w.actors[actorName]
	if ok {
		w.noteLocked(c.node, op, "ActorExists", "present:"+c.actorOwner(a))
	} else {
		w.noteLocked(c.node, op, "ActorExists", "absent")
	}
	return ok, nil
}

func (c *c3xCluster) Actors(context.Context, time.Duration) ([]*internalpb.Actor, error) {
	w := c.w
	w.mu.Lock()
	defer w.mu.Unlock()
	keys := make([]string, 0, len(w.actors))
	for k := range w.actors {
		keys = append(keys, k)
	}
	sort.Strings(keys)
	out := make([]*internalpb.Actor, 0, len(keys))
	for _, k := range keys {
		out = append(out, proto.Clone(w.actors[k]).(*internalpb.Actor))
	}
	return out, nil
}

func (c *c3xCluster) ActorsByHost(ctx context.Context, host string, port int, d time.Duration) ([]*internalpb.Actor, error) {
	all, _ := c.Actors(ctx, d)
	hp := net.JoinHostPort(host, strconv.Itoa(port))
	var out []*internalpb.Actor
	for _, a := range all {
		if strings.Contains(a.GetAddress(), hp) {
			out = append(out, a)
		}
	}
	return out, nil
}

func (c *c3xCluster) CountActorsByHost(ctx context.Context, d time.Duration) (map[string]int, error) {
	all, _ := c.Actors(ctx, d)
	out := map[string]int{}
	for _, a := range all {
		for i := range c.w.names {
			hp := net.JoinHostPort(c.w.host(), strconv.Itoa(c.w.remPort(i)))
			if strings.Contains(a.GetAddress(), hp) {
				out[hp]++
			}
		}
	}
	return out, nil
}

// ---- membership -------------------------------------------------------------------------------

func (c *c3xCluster) peer(i int) *cluster.Peer {
	return &cluster.Peer{Host: c.w.host(), DiscoveryPort: 6001 + i, PeersPort: c.w.peersPort(i), RemotingPort: c.w.remPort(i), Coordinator: i == c.w.leader, CreatedAt: int64(1000 + i)}
}

// Members is the leader query: a gate ("Members"); the fault outcome "flip" means a leadership change
// happened before this answer (sticky: every later answer on every node names the new coordinator).
func (c *c3xCluster) Members(ctx context.Context) ([]*cluster.Peer, error) {
	w := c.w
	op := c3xOp(ctx)
	k := 0
	if _, gated := w.faults["Members"]; gated {
		k = w.wait(ctx, c.node, "Members")
	}
	w.mu.Lock()
	defer w.mu.Unlock()
	if k > 0 {
		w.leader = (w.leader + 1) % len(w.names)
		w.flips++
	}
	out := make([]*cluster.Peer, 0, len(w.names))
	for i := range w.names {
		out = append(out, c.peer(i))
	}
	if _, gated := w.faults["Members"]; gated {
		w.noteLocked(c.node, op, "Members", "leader:"+w.names[w.leader])
	}
	return out, nil
}

func (c *c3xCluster) Peers(context.Context) ([]*cluster.Peer, error) {
	w := c.w
	w.mu.Lock()
	defer w.mu.Unlock()
	var out []*cluster.Peer
	for i := range w.names {
		if i != c.node {
			out = append(out, c.peer(i))
		}
	}
	return out, nil
}

func (c *c3xCluster) IsLeader(context.Context) bool {
	c.w.mu.Lock()
	defer c.w.mu.Unlock()
	return c.w.leader == c.node
}

func (c *c3xCluster) Events() <-chan *cluster.Event  { return nil }
func (c *c3xCluster) GetPartition(string) uint64    { return 0 }
func (c *c3xCluster) IsRunning() bool               { return true }
func (c *c3xCluster) LastRebalanceEvent() time.Time { return time.Time{} }
func (c *c3xCluster) ClaimScheduleFire(context.Context, string, time.Duration) error {
	return nil
}
func (c *c3xCluster) PutJobKey(context.Context, string, []byte) error { return nil }
func (c *c3xCluster) DeleteJobKey(context.Context, string) error      { return nil }
func (c *c3xCluster) JobKey(context.Context, string) ([]byte, error)  { return nil, nil }
func (c *c3xCluster) NextRoundRobinValue(context.Context, string) (int, error) {
	c.w.mu.Lock()
	defer c.w.mu.Unlock()
	c.w.rr++
	return c.w.rr, nil
}

// c3xActorName extracts the registry key (the actor name) of a serialized actor record.
func c3xActorName(a *internalpb.Actor) string {
	addr := a.GetAddress()
	// goakt://system@host:port/name  -> last path element
	if i := strings.LastIndex(addr, "/"); i >= 0 {
		return addr[i+1:]
	}
	return addr
}

// ---------------------------------------------------------------------------------------------
// fake remoting
// ---------------------------------------------------------------------------------------------

type c3xRemoting struct {
	remoteclient.Client
	w    *c3xWorld
	node int
}

var c3xErrNoRoute = errors.New("c3x: no such node")

func (r *c3xRemoting) target(host string, port int) (int, *actorSystem, error) {
	n := r.w.nodeOfPort(port)
	if n < 0 || host != r.w.host() || r.w.sys[n] == nil {
		return -1, nil, c3xErrNoRoute
	}
	return n, r.w.sys[n], nil
}

// c3xCheckProtoError mirrors remoteclient.checkProtoError (unexported there).
func c3xCheckProtoError(resp proto.Message) error {
	errResp, isError := resp.(*internalpb.Error)
	if !isError {
		return nil
	}
	msg := errResp.GetMessage()
	switch errResp.GetCode() {
	case internalpb.Code_CODE_NOT_FOUND:
		return gerrors.ErrAddressNotFound
	case internalpb.Code_CODE_DEADLINE_EXCEEDED:
		return gerrors.ErrRequestTimeout
	case internalpb.Code_CODE_UNAVAILABLE:
		return gerrors.ErrRemoteSendFailure
	case internalpb.Code_CODE_FAILED_PRECONDITION:
		if strings.Contains(msg, gerrors.ErrTypeNotRegistered.Error()) {
			return gerrors.ErrTypeNotRegistered
		}
		if strings.Contains(msg, gerrors.ErrRemotingDisabled.Error()) {
			return gerrors.ErrRemotingDisabled
		}
		if strings.Contains(msg, gerrors.ErrClusterDisabled.Error()) {
			return gerrors.ErrClusterDisabled
		}
		return errors.New(msg)
	case internalpb.Code_CODE_ALREADY_EXISTS:
		if strings.Contains(msg, gerrors.ErrActorAlreadyExists.Error()) {
			return gerrors.ErrActorAlreadyExists
		}
		if strings.Contains(msg, gerrors.ErrSingletonAlreadyExists.Error()) { //nolint:staticcheck
			return gerrors.ErrSingletonAlreadyExists //nolint:staticcheck
		}
		return gerrors.ErrActorAlreadyExists
	case internalpb.Code_CODE_INVALID_ARGUMENT:
		return fmt.Errorf("invalid argument: %s", msg)
	default:
		return errors.New(msg)
	}
}

// c3xGrainFromRequest mirrors remoteclient.getGrainFromRequest (unexported there).
func c3xGrainFromRequest(host string, port int, grainRequest *remote.GrainRequest) (*internalpb.Grain, error) {
	if err := grainRequest.Validate(); err != nil {
		return nil, fmt.Errorf("invalid grain request: %w", err)
	}
	grainRequest.Sanitize()
	port32, err := strconvx.Int2Int32(port)
	if err != nil {
		return nil, err
	}
	var dependencies []*internalpb.Dependency
	if len(grainRequest.Dependencies) > 0 {
		dependencies, err = codec.EncodeDependencies(grainRequest.Dependencies...)
		if err != nil {
			return nil, err
		}
	}
	capacity := grainRequest.MailboxCapacity
	return &internalpb.Grain{
		Host: host,
		Port: port32,
		GrainId: &internalpb.GrainId{
			Kind:  grainRequest.Kind,
			Name:  grainRequest.Name,
			Value: fmt.Sprintf("%s%s%s", grainRequest.Kind, id.GrainIdentitySeparator, grainRequest.Name),
		},
		Dependencies:      dependencies,
		ActivationRetries: int32(grainRequest.ActivationRetries),
		ActivationTimeout: durationpb.New(grainRequest.ActivationTimeout),
		MailboxCapacity:   &capacity,
		DisableRelocation: grainRequest.DisableRelocation,
		EagerRelocation:   grainRequest.EagerRelocation,
		Reentrancy:        codec.EncodeReentrancy(grainRequest.Reentrancy),
	}, nil
}

func (r *c3xRemoting) RemoteActivateGrain(ctx context.Context, host string, port int, grainRequest *remote.GrainRequest) error {
	grain, err := c3xGrainFromRequest(host, port, grainRequest)
	if err != nil {
		return err
	}
	n, peer, err := r.target(host, port)
	if err != nil {
		return err
	}
	r.w.wait(ctx, n, "deliver.activate")
	r.w.mu.Lock()
	r.w.noteLocked(n, c3xOp(ctx), "deliver.activate", "from:"+r.w.names[r.node])
	r.w.mu.Unlock()
	resp, err := peer.remoteActivateGrainHandler(ctx, nil, &internalpb.RemoteActivateGrainRequest{Grain: grain})
	if err != nil {
		return err
	}
	return c3xCheckProtoError(resp)
}

func (r *c3xRemoting) RemoteTellGrain(ctx context.Context, host string, port int, grainRequest *remote.GrainRequest, message any) error {
	grain, err := c3xGrainFromRequest(host, port, grainRequest)
	if err != nil {
		return err
	}
	serializer := r.Client.Serializer(message)
	if serializer == nil {
		return gerrors.NewErrInvalidMessage(fmt.Errorf("no serializer found for message type %T", message))
	}
	marshaled, err := serializer.Serialize(message)
	if err != nil {
		return gerrors.NewErrInvalidMessage(err)
	}
	n, peer, err := r.target(host, port)
	if err != nil {
		return err
	}
	r.w.wait(ctx, n, "deliver.tell")
	r.w.mu.Lock()
	r.w.noteLocked(n, c3xOp(ctx), "deliver.tell", "from:"+r.w.names[r.node])
	r.w.mu.Unlock()
	resp, err := peer.remoteTellGrainHandler(ctx, nil, &internalpb.RemoteTellGrainRequest{Grain: grain, Message: marshaled})
	if err != nil {
		return err
	}
	return c3xCheckProtoError(resp)
}

func (r *c3xRemoting) RemoteAskGrain(ctx context.Context, host string, port int, grainRequest *remote.GrainRequest, message any, timeout time.Duration) (any, error) {
	grain, err := c3xGrainFromRequest(host, port, grainRequest)
	if err != nil {
		return nil, err
	}
	serializer := r.Client.Serializer(message)
	if serializer == nil {
		return nil, gerrors.NewErrInvalidMessage(errors.New("no serializer found for message type"))
	}
	marshaled, err := serializer.Serialize(message)
	if err != nil {
		return nil, gerrors.NewErrInvalidMessage(err)
	}
	n, peer, err := r.target(host, port)
	if err != nil {
		return nil, err
	}
	r.w.wait(ctx, n, "deliver.ask")
	r.w.mu.Lock()
	r.w.noteLocked(n, c3xOp(ctx), "deliver.ask", "from:"+r.w.names[r.node])
	r.w.mu.Unlock()
	resp, err := peer.remoteAskGrainHandler(ctx, nil, &internalpb.RemoteAskGrainRequest{Grain: grain, Message: marshaled, RequestTimeout: durationpb.New(timeout)})
	if err != nil {
		return nil, err
	}
	if err := c3xCheckProtoError(resp); err != nil {
		return nil, err
	}
	askResp, ok := resp.(*internalpb.RemoteAskGrainResponse)
	if !ok {
		return nil, errors.New("invalid response type")
	}
	deserialized, err := serializer.Deserialize(askResp.GetMessage())
	if err != nil {
		return nil, gerrors.NewErrInvalidMessage(err)
	}
	return deserialized, nil
}

func (r *c3xRemoting) RemoteSpawn(ctx context.Context, host string, port int, spawnRequest *remote.SpawnRequest) (*string, error) {
	if err := spawnRequest.Validate(); err != nil {
		return nil, fmt.Errorf("invalid spawn option: %w", err)
	}
	spawnRequest.Sanitize()
	port32, err := strconvx.Int2Int32(port)
	if err != nil {
		return nil, err
	}
	var singletonSpec *internalpb.SingletonSpec
	if spawnRequest.Singleton != nil {
		singletonSpec = &internalpb.SingletonSpec{
			SpawnTimeout: durationpb.New(spawnRequest.Singleton.SpawnTimeout),
			WaitInterval: durationpb.New(spawnRequest.Singleton.WaitInterval),
			MaxRetries:   spawnRequest.Singleton.MaxRetries,
		}
	}
	request := &internalpb.RemoteSpawnRequest{
		Host:                host,
		Port:                port32,
		ActorName:           spawnRequest.Name,
		ActorType:           spawnRequest.Kind,
		Singleton:           singletonSpec,
		Relocatable:         spawnRequest.Relocatable,
		PassivationStrategy: codec.EncodePassivationStrategy(spawnRequest.PassivationStrategy),
		EnableStash:         spawnRequest.EnableStashing,
		Role:                spawnRequest.Role,
		Supervisor:          codec.EncodeSupervisor(spawnRequest.Supervisor),
	}
	n, peer, err := r.target(host, port)
	if err != nil {
		return nil, err
	}
	r.w.wait(ctx, n, "deliver.spawn")
	r.w.mu.Lock()
	r.w.noteLocked(n, c3xOp(ctx), "deliver.spawn", "from:"+r.w.names[r.node])
	r.w.mu.Unlock()
	resp, err := peer.remoteSpawnHandler(ctx, nil, request)
	if err != nil {
		return nil, err
	}
	if err := c3xCheckProtoError(resp); err != nil {
		return nil, err
	}
	if res, ok := resp.(*internalpb.RemoteSpawnResponse); ok && res.GetAddress() != "" {
		addr := res.GetAddress()
		return &addr, nil
	}
	return nil, gerrors.ErrInvalidResponse
}
