//go:build verif

package actor

import (
	"context"
	"fmt"
	"sort"
	"strings"
	"sync"
	"sync/atomic"
	"testing"
	"time"

	"github.com/tochemey/goakt/v4/internal/verif/vsched"
)

// ---------------------------------------------------------------------------------------------
// C36 — a cluster singleton runs at most once cluster-wide.
//
// 2-3 real, started actor systems in one bubble, switched to cluster mode on the shared fake cluster
// (members + leader, actor records) and the routing fake remoting of zz_c3x_fakes_test.go; every node
// has its real singleton manager. Every node calls SpawnSingleton(ctx, "single", actor) once (or
// twice) on its own goroutine. The whole production path runs: leader resolution
// (spawnSingletonOnLeader: cluster.Members), delegation (remoting.RemoteSpawn -> the leader's own
// remoteSpawnHandler -> SpawnSingleton again there), spawnSingletonOnLocal (single-flight,
// checkSpawnPreconditions = ActorExists, tree lookup, configPID, attachAndPublish = PutActor), the
// retry/conflict logic of retrySpawnSingleton, and the death watch.
//
// Gates (= events the explorer orders; every order is enumerated): the start of a node's second
// call, every Members query, every actor-registry call (ActorExists, GetActor, PutActor,
// PutActorIfAbsent, RemoveActor), the delivery of every RemoteSpawn at the target node, the PreStart
// hook of every instance being started (it runs after the cluster-wide name check and before the
// instance enters the local actor tree). Fault, cost 1:
// "flip" at a Members gate = a leadership change happened before this answer (from then on every
// node is told that the next node is the coordinator). Environment event, cost 1, in the "-cancelN"
// scenarios: the context of a call that is WAITING inside goakt (started, not returned, not parked on
// any gate: it waits for another call's in-flight spawn or for the leader's answer) is cancelled - the
// caller gives up, exactly what an expiring caller context does.
//
// Oracle (exactly the statement): at every quiescent point between two events the number of running
// instances of the singleton (PreStart returned nil, PostStop not yet entered), summed over all
// nodes, is at most 1. The signature says where (one node / two nodes), whether a leader change
// preceded it and whether the name was already registered when the second instance started.
// ---------------------------------------------------------------------------------------------

type c36State struct {
	w       *c3xWorld
	mu      sync.Mutex
	running []int // per node
	started []int // per node
	// dupCtx: was the name already registered in the cluster when a SECOND instance started?
	dupCtx string
	// creators: which call (operation id @ node) started an instance, in start order
	creators []string
}

var c36Cur atomic.Pointer[c36State]

type c36Singleton struct {
	node int
	up   bool
}

func (a *c36Singleton) PreStart(ctx *Context) error {
	st := c36Cur.Load()
	n := st.w.nodeOfSystem(ctx.ActorSystem())
	if n < 0 {
		return fmt.Errorf("c36: unknown system")
	}
	// the instance is being started: a gate inside PreStart lets other events happen between the
	// cluster-wide name check of this spawn and its insertion into the local actor tree
	// (whether the name is registered is sampled on entry: same step as the spawn's name check)
	st.w.mu.Lock()
	_, registered := st.w.actors[ctx.ActorName()]
	st.w.mu.Unlock()
	st.w.wait(ctx.Context(), n, "PreStart")
	st.mu.Lock()
	tot := 0
	for _, k := range st.running {
		tot += k
	}
	if tot >= 1 && st.dupCtx == "" {
		if registered {
			st.dupCtx = "although-the-name-was-already-registered"
		} else {
			st.dupCtx = "before-any-registration-was-published"
		}
	}
	st.running[n]++
	st.started[n]++
	st.creators = append(st.creators, c3xOp(ctx.Context())+"@"+st.w.names[n])
	st.mu.Unlock()
	a.node, a.up = n, true
	return nil
}

func (a *c36Singleton) Receive(*ReceiveContext) {}

func (a *c36Singleton) PostStop(*Context) error {
	st := c36Cur.Load()
	if a.up {
		a.up = false
		st.mu.Lock()
		st.running[a.node]--
		st.mu.Unlock()
	}
	return nil
}

type c36Cfg struct {
	name    string
	nodes   int
	calls   []int // calls per node
	bound   int   // leadership changes
	cancels int   // caller contexts that may be cancelled
	leader  int
}

type c36Call struct {
	op        string
	cancel    context.CancelFunc
	done      bool
	cancelled bool
}

type c36Client struct {
	node    int
	done    atomic.Bool
	mu      sync.Mutex
	results []string
}

func c36Run(t *testing.T, cfg c36Cfg, c *vsched.Chooser) (out vsched.Outcome) {
	var viol []vsched.Violation
	names := []string{"a", "b", "c"}[:cfg.nodes]
	var w *c3xWorld
	p := vfBubble(t, func() {
		w = c3xNewWorld(names)
		w.leader = cfg.leader
		st := &c36State{w: w, running: make([]int, cfg.nodes), started: make([]int, cfg.nodes)}
		w.faults["Members"] = nil // gated, no fault
		if cfg.bound > 0 {
			w.faults["Members"] = []string{"flip"}
		}
		c36Cur.Store(st)
		for i := range names {
			sys := c3xNewNode(w, i, true)
			sys.registry.Register(new(c36Singleton))
		}
		var clients []*c36Client
		var callsMu sync.Mutex
		calls := map[string]*c36Call{}
		cancelsDone := 0
		stopped := false
		allDone := func() bool {
			for _, cl := range clients {
				if !cl.done.Load() {
					return false
				}
			}
			return true
		}
		cleanup := func() {
			if stopped {
				return
			}
			stopped = true
			w.drain()
			vfSettle()
			for i := 0; i < 40 && !allDone(); i++ {
				time.Sleep(time.Second)
				vfSettle()
			}
			for _, sys := range w.sys {
				if sys != nil {
					_ = c3xStopNode(sys)
				}
			}
		}
		defer cleanup()

		for i := 0; i < cfg.nodes; i++ {
			if cfg.calls[i] == 0 {
				continue
			}
			cl := &c36Client{node: i}
			clients = append(clients, cl)
			sys := w.sys[i]
			go func() {
				defer cl.done.Store(true)
				for j := 0; j < cfg.calls[i]; j++ {
					op := fmt.Sprintf("%s%d", names[i], j)
					ctx, cancel := context.WithCancel(c3xWithOp(context.Background(), op))
					if j > 0 {
						w.wait(ctx, i, "start")
					}
					call := &c36Call{op: op, cancel: cancel}
					callsMu.Lock()
					calls[op] = call
					callsMu.Unlock()
					pid, err := sys.SpawnSingleton(ctx, "single", new(c36Singleton))
					callsMu.Lock()
					call.done = true
					callsMu.Unlock()
					cancel()
					res := "err"
					if err == nil && pid != nil {
						res = "at:" + w.ownerName36(pid.ID())
					}
					cl.mu.Lock()
					cl.results = append(cl.results, res)
					cl.mu.Unlock()
				}
			}()
		}

		maxRun := 0
		reported := false
		checkStep := func() {
			st.mu.Lock()
			tot, nodes := 0, 0
			for _, k := range st.running {
				tot += k
				if k > 0 {
					nodes++
				}
			}
			snap := fmt.Sprint(st.running)
			dup := st.dupCtx
			st.mu.Unlock()
			if tot > maxRun {
				maxRun = tot
			}
			if tot >= 2 && !reported {
				reported = true
				w.mu.Lock()
				flips := w.flips
				w.mu.Unlock()
				sig := "two-singleton-instances-running"
				if nodes >= 2 {
					sig += "-on-two-nodes"
				} else {
					sig += "-on-one-node"
				}
				if flips > 0 {
					sig += "-after-a-leader-change"
				} else {
					sig += "-with-a-stable-leader"
				}
				sig += "-second-started-" + dup
				if cancelsDone > 0 {
					sig += "-after-a-waiting-caller-gave-up"
				}
				viol = append(viol, vsched.Fail(sig, "nodes=%d calls=%v: %d instances of singleton \"single\" are running at the same time (per node %s), leader changes so far %d; events [%s]", cfg.nodes, cfg.calls, tot, snap, flips, w.traceString()))
			}
		}

		idle := 0
		for step := 0; step < 300; step++ {
			vfSettle()
			checkStep()
			pend := w.pending()
			if len(pend) == 0 {
				if allDone() {
					break
				}
				idle++
				if idle > 40 {
					out.Invalid = "calls neither parked on a gate nor finished after 40 s of virtual time: " + w.traceString()
					break
				}
				time.Sleep(time.Second)
				continue
			}
			idle = 0
			// waiting callers whose context may be cancelled now
			var waiting []*c36Call
			if cancelsDone < cfg.cancels {
				parked := map[string]bool{}
				for _, g := range pend {
					parked[g.op] = true
				}
				callsMu.Lock()
				for _, cl := range calls {
					if !cl.done && !cl.cancelled && !parked[cl.op] {
						waiting = append(waiting, cl)
					}
				}
				callsMu.Unlock()
				sort.Slice(waiting, func(i, j int) bool { return waiting[i].op < waiting[j].op })
			}
			costs := make([]int, len(pend)+len(waiting))
			for i := len(pend); i < len(costs); i++ {
				costs[i] = 1
			}
			k := c.Choose("gate", len(costs), costs, func(i int) string {
				if i < len(pend) {
					return pend[i].label
				}
				return "cancel:" + waiting[i-len(pend)].op
			})
			if k >= len(pend) {
				cl := waiting[k-len(pend)]
				callsMu.Lock()
				cl.cancelled = true
				callsMu.Unlock()
				cancelsDone++
				w.mu.Lock()
				w.trace = append(w.trace, "cancel:"+cl.op)
				w.mu.Unlock()
				cl.cancel()
				continue
			}
			g := pend[k]
			outcome := 0
			w.mu.Lock()
			flipped := w.flips
			w.mu.Unlock()
			if len(g.faults) > 0 && flipped < cfg.bound {
				fcosts := make([]int, 1+len(g.faults))
				for i := 1; i < len(fcosts); i++ {
					fcosts[i] = 1
				}
				outcome = c.Choose("fault", len(fcosts), fcosts, func(i int) string {
					if i == 0 {
						return g.label + " ok"
					}
					return g.label + " " + g.faults[i-1]
				})
			}
			w.release(g, outcome)
		}
		vfSettle()
		checkStep()
		if out.Invalid == "" && (!allDone() || len(w.pending()) > 0) {
			out.Invalid = "step horizon reached: " + w.traceString()
		}

		st.mu.Lock()
		run := fmt.Sprint(st.running)
		started := fmt.Sprint(st.started)
		creators := strings.Join(st.creators, ",")
		st.mu.Unlock()
		w.mu.Lock()
		rec := "-"
		if a, ok := w.actors["single"]; ok {
			rec = w.ownerName36(a.GetAddress())
		}
		flips := w.flips
		herr := append([]string(nil), w.herr...)
		w.mu.Unlock()
		var res []string
		for _, cl := range clients {
			cl.mu.Lock()
			res = append(res, names[cl.node]+":"+strings.Join(cl.results, ","))
			cl.mu.Unlock()
		}
		sort.Strings(res)
		out.Obs = fmt.Sprintf("running=%s started=%s by=%s max=%d record=%s flips=%d cancels=%d %s", run, started, creators, maxRun, rec, flips, cancelsDone, strings.Join(res, " "))
		if len(herr) > 0 && out.Invalid == "" {
			out.Invalid = "harness: " + strings.Join(herr, "; ")
		}
		out.Violations = viol
		cleanup()
	})
	if p != nil {
		tr := ""
		if w != nil {
			tr = w.traceString()
		}
		out.Invalid = fmt.Sprintf("panic in execution: %v (events %s)", p, tr)
	}
	return out
}

// ownerName36 maps an actor address to the node that hosts it.
func (w *c3xWorld) ownerName36(addr string) string {
	for i := range w.names {
		if strings.Contains(addr, fmt.Sprintf("%s:%d", w.host(), w.remPort(i))) {
			return w.names[i]
		}
	}
	return "?" + addr
}

func TestVerifC36(t *testing.T) {
	defer vsched.Finish(t)
	r := vsched.Rep()
	r.Assumption("the cluster registry is a linearizable map (reads see every completed write; PutActorIfAbsent atomic); all nodes see the same coordinator at any moment, a leadership change is a global, instantaneous switch observed through cluster.Members")
	r.Assumption("the explorer orders whole registry operations, Members queries, remote-spawn deliveries and the start of second calls; code between two such points runs atomically")
	var cfgs []c36Cfg
	add := func(bound, leader int, calls ...int) {
		var cs []string
		for _, k := range calls {
			cs = append(cs, fmt.Sprint(k))
		}
		cfgs = append(cfgs, c36Cfg{name: fmt.Sprintf("c36-n%d-calls%s-leader%d-flips%d", len(calls), strings.Join(cs, ""), leader, bound), nodes: len(calls), calls: calls, bound: bound, leader: leader})
	}
	// stable leader, one waiting caller may give up (its context is cancelled)
	addCancel := func(leader int, calls ...int) {
		var cs []string
		for _, k := range calls {
			cs = append(cs, fmt.Sprint(k))
		}
		cfgs = append(cfgs, c36Cfg{name: fmt.Sprintf("c36-n%d-calls%s-leader%d-flips0-cancel1", len(calls), strings.Join(cs, ""), leader), nodes: len(calls), calls: calls, cancels: 1, leader: leader})
	}
	add(0, 0, 1, 1)
	add(0, 0, 2, 1)
	add(0, 0, 1, 2)
	add(0, 0, 2, 2)
	add(0, 0, 1, 1, 1)
	add(0, 2, 1, 1, 0)
	add(1, 0, 1, 1)
	addCancel(0, 1, 2)
	addCancel(0, 2, 1)
	if r.Thorough() {
		addCancel(0, 2, 2)
		addCancel(0, 1, 1, 1)
		add(0, 1, 2, 1, 1)
		add(1, 0, 2, 1)
		add(1, 1, 1, 2)
		add(1, 0, 1, 1, 1)
		add(2, 0, 1, 1)
		add(2, 0, 2, 1)
	}
	var scs []vsched.Scenario
	for _, cfg := range cfgs {
		scs = append(scs, vsched.Scenario{
			Cfg: vsched.Config{Scenario: cfg.name, Bound: cfg.bound + cfg.cancels, SplitDepth: 4,
				Params: map[string]any{"nodes": cfg.nodes, "calls": cfg.calls, "initial_leader": cfg.leader, "max_leader_changes": cfg.bound, "max_cancelled_callers": cfg.cancels}},
			Run: func(c *vsched.Chooser) vsched.Outcome { return c36Run(t, cfg, c) },
		})
	}
	vsched.ExploreAll(scs)
}
