//go:build verif

package actor

import (
	"context"
	"errors"
	"fmt"
	"sort"
	"strings"
	"sync"
	"sync/atomic"
	"testing"
	"time"

	"github.com/flowchartsman/retry"
	"google.golang.org/protobuf/types/known/wrapperspb"

	"github.com/tochemey/goakt/v4/internal/verif/vsched"
)

// ---------------------------------------------------------------------------------------------
// C30 — a grain is active on at most one node at a time; once activity settles the registry names
// the node that holds it.
//
// 2-3 real actor systems in one bubble, switched to cluster mode on the shared fake registry and the
// routing fake remoting of zz_c3x_fakes_test.go. Each node runs a script of operations on ONE grain
// identity, one after the other, on its own goroutine:
//     S  AskGrain(identity, msg)              (activates the grain where the engine decides)
//     A  GrainIdentity(name, factory)         (explicit activation)
//     R  GrainIdentity(name, factory, WithActivationStrategy(RoundRobinActivation))
//                                             (explicit activation that may claim the grain for a PEER
//                                              and ask that peer to activate it: tryPeerActivation)
//     D  TellGrain(identity, PoisonPill)      (deactivation)
// Gates (= the events the explorer orders, all orders are enumerated): the start of every operation
// but the first of a script (the first operations are all in flight from the beginning),
// every registry call (GrainExists, GetGrain, the atomic put-if-absent "NX", PutGrain, RemoveGrain),
// every Grain.OnActivate and Grain.OnDeactivate, and the delivery of every remote request at the target node. Faults, cost 1
// each: OnActivate fails (terminal error: the retrier stops at once, no virtual time passes),
// PutGrain fails, GetGrain fails, the put-if-absent fails (error answers; the operation is not applied).
//
// Oracle
//   * at every quiescent point between two events: the grain instances that are live (OnActivate
//     returned nil, OnDeactivate not yet left its gate) belong to at most ONE node;
//   * at final quiescence (all operations returned, no gate parked): if a node holds a live
//     instance, the registry record of the identity names exactly that node. (A record left behind
//     with no live instance anywhere is not covered by the statement - "names the node that holds
//     it" - and is only part of the observation.)
// The signature of a violation = what is violated + the FIRST registry/holder inconsistency of the
// execution (the root cause): an OnActivate that succeeded while the record did not name the
// activating node (with the ownership evidence its operation had: claimed, record-names-self,
// nx-lost-owner-vanished, ...), a RemoveGrain by a node that deleted its own record while it holds a
// live instance, a RemoveGrain that deleted the record of ANOTHER node (nodes never crash here, so the
// record was not stale), a PutGrain that replaced the record of another node.
// ---------------------------------------------------------------------------------------------

type c30State struct {
	w  *c3xWorld
	mu sync.Mutex
	// live[node] = number of live instances on that node
	live []int
	// activations[node] = successful OnActivate count
	activations []int
	// basis["op@node"] = ownership evidence the operation has on that node
	basis map[string]string
	// lastBasis[node] = evidence of the last successful activation on node
	lastBasis []string
	order     []int // nodes in the order their currently live instances were activated
	// anomalies: registry/holder inconsistencies in the order they happened (see note/OnActivate);
	// the first one names the root cause in the signature of a property violation
	anomalies []string
}

func (st *c30State) anomaly(s string) { // st.mu held
	for _, a := range st.anomalies {
		if a == s {
			return
		}
	}
	st.anomalies = append(st.anomalies, s)
}

var c30Cur atomic.Pointer[c30State]

type c30Grain struct {
	liveOn int
	isLive bool
}

var _ Grain = (*c30Grain)(nil)

func (g *c30Grain) OnActivate(ctx context.Context, props *GrainProps) error {
	st := c30Cur.Load()
	node := st.w.nodeOfSystem(props.ActorSystem())
	if node < 0 {
		return errors.New("c30: unknown system")
	}
	if k := st.w.wait(ctx, node, "OnActivate"); k > 0 {
		return retry.Stop(errors.New("c30: injected activation failure"))
	}
	op := c3xOp(ctx)
	st.w.mu.Lock()
	b := st.basis[op+"@"+st.w.names[node]]
	rec := st.w.ownerName(st.w.grains[props.Identity().String()])
	st.w.mu.Unlock()
	if b == "" {
		b = "no-registry-evidence"
	}
	st.mu.Lock()
	if rec != st.w.names[node] {
		// every regular path activates only while the record names the activating node (own claim,
		// claim made on its behalf, or existing record naming it)
		st.anomaly("activation-while-record-does-not-name-the-node-evidence-" + b)
	}
	st.live[node]++
	st.activations[node]++
	st.lastBasis[node] = b
	st.order = append(st.order, node)
	st.mu.Unlock()
	g.liveOn, g.isLive = node, true
	return nil
}

func (g *c30Grain) OnDeactivate(ctx context.Context, _ *GrainProps) error {
	st := c30Cur.Load()
	if g.isLive {
		// the instance stays live while its OnDeactivate hook is running (parked on the gate)
		st.w.wait(ctx, g.liveOn, "OnDeactivate")
		g.isLive = false
		st.mu.Lock()
		st.live[g.liveOn]--
		for i := len(st.order) - 1; i >= 0; i-- {
			if st.order[i] == g.liveOn {
				st.order = append(st.order[:i], st.order[i+1:]...)
				break
			}
		}
		st.mu.Unlock()
	}
	return nil
}

func (g *c30Grain) OnReceive(ctx *GrainContext) {
	st := c30Cur.Load()
	node := st.w.nodeOfSystem(ctx.ActorSystem())
	name := "?"
	if node >= 0 {
		name = st.w.names[node]
	}
	ctx.Response(wrapperspb.String(name))
}

// c30Note derives, from the registry answers an operation receives on a node, the ownership
// evidence it holds there.
func (st *c30State) note(node int, op, kind, result string) {
	key := op + "@" + st.w.names[node]
	self := st.w.names[node]
	switch kind {
	case "NX":
		switch {
		case result == "ok":
			st.basis[key] = "claimed"
		case strings.HasPrefix(result, "exists:"):
			st.basis[key] = "nx-lost"
		default:
			st.basis[key] = "nx-error"
		}
	case "GetGrain":
		switch {
		case result == "notfound" && st.basis[key] == "nx-lost":
			st.basis[key] = "nx-lost-owner-vanished"
		case result == "notfound":
			st.basis[key] = "record-absent"
		case result == "found:"+self:
			st.basis[key] = "record-names-self"
		case strings.HasPrefix(result, "found:"):
			st.basis[key] = "record-names-other"
		}
	case "GrainExists":
		if result == "absent" {
			st.basis[key] = "record-absent"
		}
	case "RemoveGrain":
		if parts := strings.SplitN(result, ":", 3); len(parts) == 3 && parts[0] == "ok" && parts[1] != "-" {
			prev, via := parts[1], parts[2]
			st.mu.Lock()
			if prev != self {
				// nodes never crash here: a node that deletes the record of another node has
				// misjudged it as stale (or deletes on behalf of an activation that is long over)
				st.anomaly("record-of-another-node-removed-by-" + via)
			} else if st.live[node] > 0 {
				st.anomaly("own-record-removed-while-holding-a-live-instance-by-" + via)
			}
			st.mu.Unlock()
		}
	case "PutGrain":
		if i := strings.Index(result, "<-"); i >= 0 && strings.HasPrefix(result, "ok:") {
			nw, prev := result[3:i], result[i+2:]
			if prev != "-" && prev != nw {
				st.mu.Lock()
				st.anomaly("put-overwrote-the-record-of-another-node")
				st.mu.Unlock()
			}
		}
	case "deliver.activate":
		st.basis[key] = "remote-activate-request"
	case "deliver.tell", "deliver.ask":
		st.basis[key] = "forwarded-message"
	}
}

func c30First(a []string) string {
	if len(a) == 0 {
		return "no-earlier-anomaly"
	}
	return a[0]
}

type c30Cfg struct {
	name    string
	scripts []string // per node, letters S A R D
	bound   int
	faults  bool
}

type c30Client struct {
	node    int
	done    atomic.Bool
	mu      sync.Mutex
	results []string
}

func c30Run(t *testing.T, cfg c30Cfg, c *vsched.Chooser) (out vsched.Outcome) {
	var viol []vsched.Violation
	seen := map[string]bool{}
	names := []string{"a", "b", "c"}[:len(cfg.scripts)]
	var w *c3xWorld
	p := vfBubble(t, func() {
		w = c3xNewWorld(names)
		st := &c30State{w: w, live: make([]int, len(names)), activations: make([]int, len(names)), basis: map[string]string{}, lastBasis: make([]string, len(names))}
		w.note = st.note
		if cfg.faults {
			w.faults["OnActivate"] = []string{"fail"}
			w.faults["PutGrain"] = []string{"error"}
			w.faults["GetGrain"] = []string{"error"}
			w.faults["NX"] = []string{"error"}
		}
		c30Cur.Store(st)
		ident := newGrainIdentity(&c30Grain{}, "g")
		for i := range names {
			sys := c3xNewNode(w, i, false)
			sys.registry.Register(&c30Grain{})
		}
		var clients []*c30Client
		stopped := false
		cleanup := func() {
			if stopped {
				return
			}
			stopped = true
			w.drain()
			vfSettle()
			for i := 0; i < 12; i++ {
				all := true
				for _, cl := range clients {
					if !cl.done.Load() {
						all = false
					}
				}
				if all {
					break
				}
				time.Sleep(time.Second)
				vfSettle()
			}
			for _, sys := range w.sys {
				if sys != nil {
					_ = c3xStopNode(sys)
				}
			}
		}
		defer cleanup()

		for i, script := range cfg.scripts {
			cl := &c30Client{node: i}
			clients = append(clients, cl)
			sys := w.sys[i]
			go func() {
				defer cl.done.Store(true)
				for j, opc := range script {
					ctx := c3xWithOp(context.Background(), fmt.Sprintf("%s%d", names[i], j))
					if j > 0 {
						w.wait(ctx, i, "start."+string(opc))
					}
					var res string
					switch opc {
					case 'S':
						r, err := sys.AskGrain(ctx, ident, wrapperspb.String("x"), 5*time.Second)
						if err != nil {
							res = "err"
						} else if sv, ok := r.(*wrapperspb.StringValue); ok {
							res = "by:" + sv.GetValue()
						} else {
							res = fmt.Sprintf("?%T", r)
						}
					case 'A':
						_, err := sys.GrainIdentity(ctx, "g", func(context.Context) (Grain, error) { return &c30Grain{}, nil })
						if err != nil {
							res = "err"
						} else {
							res = "ok"
						}
					case 'R':
						_, err := sys.GrainIdentity(ctx, "g", func(context.Context) (Grain, error) { return &c30Grain{}, nil }, WithActivationStrategy(RoundRobinActivation))
						if err != nil {
							res = "err"
						} else {
							res = "ok"
						}
					case 'D':
						if err := sys.TellGrain(ctx, ident, new(PoisonPill)); err != nil {
							res = "err"
						} else {
							res = "ok"
						}
					}
					cl.mu.Lock()
					cl.results = append(cl.results, string(opc)+"="+res)
					cl.mu.Unlock()
				}
			}()
		}

		allDone := func() bool {
			for _, cl := range clients {
				if !cl.done.Load() {
					return false
				}
			}
			return true
		}
		maxLive := 0
		checkStep := func() {
			st.mu.Lock()
			var holders []int
			tot := 0
			for n, k := range st.live {
				if k > 0 {
					holders = append(holders, n)
				}
				tot += k
			}
			if tot > maxLive {
				maxLive = tot
			}
			var sig, detail string
			if len(holders) >= 2 {
				last := st.order[len(st.order)-1]
				sig = "two-nodes-active-after-" + c30First(st.anomalies)
				var hs []string
				for _, h := range holders {
					hs = append(hs, names[h]+"("+st.lastBasis[h]+")")
				}
				detail = fmt.Sprintf("live instances of the grain on nodes %s at the same time; last activated on %s; anomalies so far %v; ", strings.Join(hs, ","), names[last], st.anomalies)
			}
			st.mu.Unlock()
			if sig != "" && !seen[sig] {
				seen[sig] = true
				w.mu.Lock()
				reg := w.ownerName(w.grains[ident.String()])
				w.mu.Unlock()
				viol = append(viol, vsched.Fail(sig, "scripts=%v %sregistry names %s; events [%s]", cfg.scripts, detail, reg, w.traceString()))
			}
		}

		idle := 0
		for step := 0; step < 400; step++ {
			vfSettle()
			checkStep()
			pend := w.pending()
			if len(pend) == 0 {
				if allDone() {
					break
				}
				idle++
				if idle > 12 {
					out.Invalid = "operations neither parked on a gate nor finished after 12 s of virtual time: " + w.traceString()
					break
				}
				time.Sleep(time.Second)
				continue
			}
			idle = 0
			k := c.Choose("gate", len(pend), nil, func(i int) string { return pend[i].label })
			g := pend[k]
			outcome := 0
			if len(g.faults) > 0 {
				costs := make([]int, 1+len(g.faults))
				for i := 1; i < len(costs); i++ {
					costs[i] = 1
				}
				outcome = c.Choose("fault", len(costs), costs, func(i int) string {
					if i == 0 {
						return g.label + " ok"
					}
					return g.label + " " + g.faults[i-1]
				})
			}
			w.release(g, outcome)
		}
		vfSettle()
		checkStep()
		if out.Invalid == "" && (!allDone() || len(w.pending()) > 0) {
			out.Invalid = "step horizon reached: " + w.traceString()
		}

		// final oracle
		st.mu.Lock()
		var holders []string
		for n, k := range st.live {
			if k > 0 {
				holders = append(holders, names[n])
			}
		}
		acts := fmt.Sprint(st.activations)
		first := c30First(st.anomalies)
		anoms := append([]string(nil), st.anomalies...)
		st.mu.Unlock()
		w.mu.Lock()
		reg := w.ownerName(w.grains[ident.String()])
		herr := append([]string(nil), w.herr...)
		w.mu.Unlock()
		if out.Invalid == "" && len(holders) == 1 && reg != holders[0] {
			sig := "registry-names-nobody-while-a-node-holds-the-grain"
			if reg != "-" {
				sig = "registry-names-another-node-than-the-holder"
			}
			sig += "-after-" + first
			viol = append(viol, vsched.Fail(sig, "scripts=%v at final quiescence node %s holds the live instance but the registry names %s; anomalies %v; events [%s]", cfg.scripts, holders[0], reg, anoms, w.traceString()))
		}
		var res []string
		for _, cl := range clients {
			cl.mu.Lock()
			res = append(res, names[cl.node]+":"+strings.Join(cl.results, ","))
			cl.mu.Unlock()
		}
		sort.Strings(holders)
		out.Obs = fmt.Sprintf("holders=%v reg=%s acts=%s maxlive=%d %s", holders, reg, acts, maxLive, strings.Join(res, " "))
		if len(herr) > 0 && out.Invalid == "" {
			out.Invalid = "harness: " + strings.Join(herr, "; ")
		}
		out.Violations = viol
		cleanup()
	})
	if p != nil {
		tr := ""
		if w != nil {
			tr = w.traceString()
		}
		out.Invalid = fmt.Sprintf("panic in execution: %v (events %s)", p, tr)
	}
	return out
}

func TestVerifC30(t *testing.T) {
	defer vsched.Finish(t)
	r := vsched.Rep()
	r.Assumption("the cluster registry is a linearizable map with an atomic put-if-absent (documented contract of internal/cluster); reads see every completed write")
	r.Assumption("the explorer orders whole registry operations, operation starts, OnActivate calls and remote deliveries; code between two such points runs atomically (no instruction-level interleaving inside one node)")
	var cfgs []c30Cfg
	add := func(bound int, scripts ...string) {
		cfgs = append(cfgs, c30Cfg{name: fmt.Sprintf("c30-%s-f%d", strings.Join(scripts, "_"), bound), scripts: scripts, bound: bound, faults: bound > 0})
	}
	// scenarios expected clean on the unchanged tree come first (they are the ones that expose a
	// broken claim / ownership test), then the scenarios that contain deactivations
	add(2, "S", "S")
	add(2, "A", "A")
	add(2, "A", "S")
	add(1, "S", "R")
	add(0, "A", "A", "A")
	add(0, "SD", "S")
	add(0, "AD", "A")
	add(0, "SDS", "S")
	if r.Thorough() {
		add(1, "SS", "S")
		add(1, "R", "R")
		add(1, "S", "S", "S")
		add(1, "SD", "S")
		add(1, "SD", "A")
		add(1, "AD", "S")
		add(0, "SD", "R")
		add(0, "SD", "SD")
		add(0, "SD", "S", "S")
		add(0, "SDS", "SD")
	}
	var scs []vsched.Scenario
	for _, cfg := range cfgs {
		scs = append(scs, vsched.Scenario{
			Cfg: vsched.Config{Scenario: cfg.name, Bound: cfg.bound, SplitDepth: 4,
				Params: map[string]any{"scripts": cfg.scripts, "faults": cfg.faults}},
			Run: func(c *vsched.Chooser) vsched.Outcome { return c30Run(t, cfg, c) },
		})
	}
	vsched.ExploreAll(scs)
}
