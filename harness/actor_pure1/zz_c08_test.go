//go:build verif

package actor

import (
	"fmt"
	"math"
	"math/big"
	"sort"
	"strings"
	"testing"
	"time"

	"github.com/tochemey/goakt/v4/internal/verif/vsched"
	"github.com/tochemey/goakt/v4/supervisor"
)

// C08 — restart backoff and fault counting are arithmetically correct.
//
// Part 1 ("backoff-pairs"): bounded-exhaustive enumeration of (initial, maximum) configurations, each
// normalised by the REAL supervisor.WithExponentialBackoff, and for each configuration the whole sweep
// of fault counts n through the REAL backoffDelay. Reference = math/big: min(I*2^(n-1), M).
// Part 2 ("fault-window"): every sequence of inter-fault gaps (length <= L) for every window, on a real
// PID's recordFault under the bubble's virtual clock. Reference = counter with reset.

// c08Delays returns the boundary-biased delay alphabet (sorted, de-duplicated).
func c08Delays(thorough bool) []int64 {
	set := map[int64]struct{}{}
	add := func(v int64) { set[v] = struct{}{} }
	for _, v := range []int64{0, -1, 1, 2, 3, math.MinInt64, math.MaxInt64, math.MaxInt64 - 1,
		int64(time.Millisecond), int64(100 * time.Millisecond), int64(time.Second), int64(time.Hour)} {
		add(v)
	}
	for k := 1; k <= 62; k++ {
		p := int64(1) << uint(k)
		add(p - 1)
		add(p)
		add(p + 1)
	}
	if thorough {
		// every two-bit pattern 2^k + 2^j and every "run of ones" 2^k - 2^j
		for k := 1; k <= 62; k++ {
			for j := 0; j < k; j++ {
				add(int64(1)<<uint(k) + int64(1)<<uint(j))
				add(int64(1)<<uint(k) - int64(1)<<uint(j))
			}
		}
		for _, ms := range []int64{5, 10, 50, 200, 250, 500} {
			add(ms * int64(time.Millisecond))
		}
		for _, s := range []int64{2, 5, 10, 30, 60, 300, 600} {
			add(s * int64(time.Second))
		}
	}
	out := make([]int64, 0, len(set))
	for v := range set {
		out = append(out, v)
	}
	sort.Slice(out, func(i, j int) bool { return out[i] < out[j] })
	return out
}

// c08Counts returns the fault-count alphabet, ascending: every n in [-2, 70] (so that every pair of
// consecutive shifts that can matter is adjacent) plus the int64 boundaries.
func c08Counts() []int64 {
	set := map[int64]struct{}{}
	for n := int64(-2); n <= 70; n++ {
		set[n] = struct{}{}
	}
	for k := 1; k <= 62; k++ {
		p := int64(1) << uint(k)
		set[p-1], set[p], set[p+1] = struct{}{}, struct{}{}, struct{}{}
	}
	set[math.MaxInt64], set[math.MaxInt64-1], set[math.MinInt64], set[math.MinInt64+1] = struct{}{}, struct{}{}, struct{}{}, struct{}{}
	out := make([]int64, 0, len(set))
	for v := range set {
		out = append(out, v)
	}
	sort.Slice(out, func(i, j int) bool { return out[i] < out[j] })
	return out
}

var c08MaxI64 = big.NewInt(math.MaxInt64)

// c08Product returns I*2^(n-1) for n >= 1, I >= 1 as a big integer; for n-1 >= 64 the product is at
// least 2^64, i.e. larger than every int64 maximum, and the marker (2^64) is returned instead of the
// (astronomically long) true value: only its relation to M <= MaxInt64 matters.
func c08Product(i, n int64) *big.Int {
	sh := n - 1
	if sh >= 64 {
		return new(big.Int).Lsh(big.NewInt(1), 64)
	}
	return new(big.Int).Lsh(big.NewInt(i), uint(sh))
}

func c08RefDelay(i, m, n int64) int64 {
	p := c08Product(i, n)
	if p.Cmp(big.NewInt(m)) <= 0 {
		return p.Int64()
	}
	return m
}

func TestVerifC08(t *testing.T) {
	defer vsched.Finish(t)
	r := vsched.Rep()
	r.Assumption("backoffDelay is only reachable with (InitialDelay, MaxDelay) produced by supervisor.WithExponentialBackoff (only call site: handleRestartDirective); raw un-normalised argument pairs are not part of the domain")
	r.Assumption("recordFault is driven on a zero-value PID (no actor system); time comes from the synctest bubble's virtual clock")
	c08Backoff(t, r)
	c08FaultWindow(t, r)
}

func c08Backoff(t *testing.T, r *vsched.Report) {
	delays := c08Delays(r.Thorough())
	counts := c08Counts()
	maxes := delays
	if r.Thorough() {
		maxes = c08Delays(false) // thorough: rich initial alphabet x boundary maximum alphabet
	}
	e := vsched.NewEnum("backoff-pairs", map[string]any{
		"initial_values": len(delays), "maximum_values": len(maxes), "fault_counts": len(counts),
		"domain": "init x max from {0,-1,1,2,3,MinInt64,MaxInt64(-1),2^k-1,2^k,2^k+1 (k<=62),1ms,100ms,1s,1h}" +
			" (thorough: init additionally every 2^k+2^j, 2^k-2^j and common ms/s values); n in [-2,70] u {2^k-1,2^k,2^k+1} u int64 extremes, ascending",
	})
	for _, initRaw := range delays {
		for _, maxRaw := range maxes {
			if !e.Mine() {
				continue
			}
			input := fmt.Sprintf("init=%d max=%d", initRaw, maxRaw)
			sup := supervisor.NewSupervisor(supervisor.WithExponentialBackoff(time.Duration(initRaw), time.Duration(maxRaw), 0))
			I, M := int64(sup.InitialDelay()), int64(sup.MaxDelay())
			enabled := initRaw > 0
			// tie the supervisor's view to the configuration
			switch {
			case !enabled && I > 0:
				e.Fail("backoff-enabled-by-non-positive-initial", input, "%s: InitialDelay()=%d for configured initial %d", input, I, initRaw)
			case enabled && I != initRaw:
				e.Fail("configured-initial-not-kept", input, "%s: InitialDelay()=%d", input, I)
			case enabled && M < I:
				e.Fail("maximum-below-initial-after-normalisation", input, "%s: MaxDelay()=%d InitialDelay()=%d", input, M, I)
			case enabled && maxRaw >= initRaw && M != maxRaw:
				e.Fail("configured-maximum-not-kept", input, "%s: MaxDelay()=%d", input, M)
			}
			var obs strings.Builder
			clamped, unclamped := false, false
			var prev int64
			havePrev := false
			var prevN int64
			for _, n := range counts {
				got := int64(backoffDelay(n, time.Duration(I), time.Duration(M)))
				in := fmt.Sprintf("%s (effective I=%d M=%d) n=%d", input, I, M, n)
				wrapped := false
				switch {
				case I <= 0:
					// disabled: the delay is zero for every fault count
					if got != 0 {
						e.Fail("nonzero-delay-when-disabled", in, "%s: got %d", in, got)
					}
				case n < 1:
					// fault counts start at one; only the range clauses apply
					if got < 0 {
						e.Fail("negative-delay", in, "%s: got %d", in, got)
					} else if got > M {
						e.Fail("delay-exceeds-maximum", in, "%s: got %d", in, got)
					}
				default:
					want := c08RefDelay(I, M, n)
					if want == M {
						clamped = true
					} else {
						unclamped = true
					}
					if got != want {
						p := c08Product(I, n)
						sh := n - 1
						switch {
						case got < 0:
							e.Fail("negative-delay", in, "%s: got %d want %d", in, got, want)
						case got > M:
							e.Fail("delay-exceeds-maximum", in, "%s: got %d want %d", in, got, want)
						case sh < 64 && p.Cmp(c08MaxI64) > 0 && got == int64(uint64(I)<<uint(sh)) && got > 0:
							// the true product does not fit int64 and the returned value is exactly the
							// wrapped (mod 2^64) shift result, which happens to be positive and <= M
							wrapped = true
							e.Fail("wraps-to-small-positive", in, "%s: got %d (= I<<%d mod 2^64) want %d: true product %s overflows int64", in, got, sh, want, p.String())
						case p.Cmp(big.NewInt(M)) <= 0 && got == M:
							// the true product fits and is <= M, but the maximum was returned
							e.Fail("capped-to-maximum-below-bound", in, "%s: got M=%d want %d (= I*2^%d <= M)", in, got, want, sh)
						default:
							e.Fail("differs-from-min-formula", in, "%s: got %d want %d", in, got, want)
						}
					}
				}
				if havePrev && got < prev {
					if wrapped {
						e.Fail("delay-decreases-at-wrap", in, "%s: delay(n=%d)=%d > delay(n=%d)=%d", in, prevN, prev, n, got)
					} else {
						e.Fail("delay-decreases", in, "%s: delay(n=%d)=%d > delay(n=%d)=%d", in, prevN, prev, n, got)
					}
				}
				prev, prevN, havePrev = got, n, true
				fmt.Fprintf(&obs, "%d,", got)
			}
			// non-trivial: backoff enabled and the sweep contains both an un-clamped (pure doubling) and
			// a clamped delay, i.e. the clamp boundary lies inside the sweep
			e.Case(input, fmt.Sprintf("I=%d M=%d h=%016x", I, M, vsched.Hash64(obs.String())), len(counts), enabled && clamped && unclamped)
		}
	}
	e.Done()
}

// ---------------------------------------------------------------------------------------------
// fault window
// ---------------------------------------------------------------------------------------------

type c08Window struct {
	w    time.Duration
	gaps []time.Duration
}

func c08FaultWindow(t *testing.T, r *vsched.Report) {
	maxLen := vsched.Pick(4, 6)
	wins := []c08Window{
		{0, []time.Duration{0, 1, time.Second, time.Hour}},
		{-1, []time.Duration{0, 1, time.Second, time.Hour}},
		{time.Duration(math.MinInt64), []time.Duration{0, 1, time.Hour}},
		{1, []time.Duration{0, 1, 2, 3}},
		{time.Second, []time.Duration{0, time.Second - 1, time.Second, time.Second + 1, 2 * time.Second}},
		{time.Hour, []time.Duration{0, time.Hour - 1, time.Hour, time.Hour + 1, 3 * time.Hour}},
		{time.Duration(math.MaxInt64), []time.Duration{0, time.Hour, 20 * 365 * 24 * time.Hour}}, // 6 x 20y stays below the UnixNano range
	}
	e := vsched.NewEnum("fault-window", map[string]any{"max_sequence_length": maxLen, "windows": len(wins),
		"domain": "every sequence (length 1..L) of inter-fault gaps from {0, w-1ns, w, w+1ns, 2w} (and fixed gaps for non-positive windows) per window w"})
	for _, win := range wins {
		for l := 1; l <= maxLen; l++ {
			idx := make([]int, l)
			for {
				if e.Mine() {
					c08RunFaultSeq(t, e, win, idx)
				}
				// next sequence (odometer)
				k := l - 1
				for k >= 0 {
					idx[k]++
					if idx[k] < len(win.gaps) {
						break
					}
					idx[k] = 0
					k--
				}
				if k < 0 {
					break
				}
			}
		}
	}
	e.Done()
}

func c08RunFaultSeq(t *testing.T, e *vsched.Enum, win c08Window, idx []int) {
	var sb strings.Builder
	fmt.Fprintf(&sb, "window=%d gaps=", int64(win.w))
	for _, i := range idx {
		fmt.Fprintf(&sb, "%d,", int64(win.gaps[i]))
	}
	input := sb.String()
	var obs strings.Builder
	resets := 0
	p := vsched.Bubble(t, func() {
		pid := new(PID)
		model := int64(0)
		for step, i := range idx {
			gap := win.gaps[i]
			if gap > 0 {
				time.Sleep(gap) // virtual
			}
			got := pid.recordFault(win.w)
			// reference: the previous fault is older than a positive window => restart from one
			expired := step > 0 && win.w > 0 && gap > win.w
			if expired {
				model = 0
				resets++
			}
			model++
			if got != model {
				switch {
				case expired:
					e.Fail("no-restart-after-window-expired", input, "%s: step %d: got count %d want 1", input, step, got)
				case got == 1:
					e.Fail("restart-without-expired-window", input, "%s: step %d: got count 1 want %d", input, step, model)
				default:
					e.Fail("fault-count-not-previous-plus-one", input, "%s: step %d: got count %d want %d", input, step, got, model)
				}
				model = got // resynchronise: report each divergence once
			}
			fmt.Fprintf(&obs, "%d,", got)
		}
	})
	if p != nil {
		e.Fail("record-fault-panics", input, "%s: %v", input, p)
	}
	// non-trivial: at least two faults and at least one expiry of a positive window
	e.Case(input, fmt.Sprintf("w=%d:%s", int64(win.w), obs.String()), len(idx), len(idx) >= 2 && resets > 0)
}
