//go:build verif

package actor

import (
	"context"
	"fmt"
	"math"
	"sort"
	"strings"
	"sync"
	"testing"
	"time"

	"github.com/tochemey/goakt/v4/internal/verif/vsched"
)

// C21 — routers distribute messages according to their strategy.
//
// rr-select      REAL routeByStrategy of a REAL round-robin router actor (spawned in a REAL actor system
//                inside a bubble), called with the routee list in spawn order; the uint32 counter is
//                pre-set (in-package) around 0, 2^31 and the 2^32 wrap. Oracle: nothing panics, every
//                message is delivered exactly once, and the recipients follow SOME fixed cyclic order
//                of the n routees (first n pairwise distinct, then period n) - the weakest reading of
//                "k-th message to routee (k-1) mod n", so any stable routee numbering is accepted.
// rr-broadcast   the same router driven end to end with Broadcast messages (availableRoutees ->
//                dispatchToRoutees -> routeByStrategy). Oracle: every message delivered exactly once,
//                and the recipients follow some fixed cyclic order of the n routees.
// fanout         fan-out router end to end: every message reaches every routee exactly once.
// chash-ring     REAL consistentHashRing: all member subsets x keys: equal keys map to the same member
//                (also after rebuilding the ring with the members in any order), and removing a member
//                only moves the keys it owned.
// chash-router   REAL consistent-hash router end to end: equal keys -> same routee while membership is
//                unchanged; after removing one routee only its keys move, and in 8 further passes every
//                key (the orphaned ones included) keeps the surviving routee it got right after the removal.

// ---------------------------------------------------------------------------------------------
// test routee: zero-value constructible (the router instantiates it by reflection); deliveries go to
// the sink of the current execution.
// ---------------------------------------------------------------------------------------------

type c21Msg struct {
	id  int
	key string
}

type c21Delivery struct {
	routee string
	id     int
}

type c21SinkT struct {
	mu  sync.Mutex
	got []c21Delivery
}

func (s *c21SinkT) add(routee string, id int) {
	s.mu.Lock()
	s.got = append(s.got, c21Delivery{routee, id})
	s.mu.Unlock()
}

func (s *c21SinkT) snapshot() []c21Delivery {
	s.mu.Lock()
	defer s.mu.Unlock()
	return append([]c21Delivery(nil), s.got...)
}

var c21Sink *c21SinkT

type c21Routee struct{}

func (*c21Routee) PreStart(*Context) error { return nil }
func (*c21Routee) PostStop(*Context) error { return nil }
func (*c21Routee) Receive(ctx *ReceiveContext) {
	if m, ok := ctx.Message().(*c21Msg); ok {
		c21Sink.add(ctx.Self().Name(), m.id)
	}
}

// c21Router is one real router inside one real system inside the current bubble.
type c21Router struct {
	sys     *actorSystem
	pid     *PID
	impl    *router
	routees []*PID // in spawn order: routeeName(i, name)
}

func c21Spawn(n int, opts ...RouterOption) *c21Router {
	c21Sink = &c21SinkT{}
	sys := vfNewSystem("c21")
	pid, err := sys.SpawnRouter(context.Background(), "rt", n, &c21Routee{}, opts...)
	if err != nil {
		panic(fmt.Sprintf("c21: SpawnRouter: %v", err))
	}
	vfSettle()
	rt := &c21Router{sys: sys, pid: pid, impl: pid.actor.(*router)}
	for i := 0; i < n; i++ {
		p, ok := sys.findRoutee(routeeName(i, "rt"))
		if !ok || !p.IsRunning() {
			st := "not found"
			if ok {
				st = fmt.Sprintf("state=%b", p.state.Load())
			}
			var dump []string
			for id, rp := range rt.impl.routeesMap {
				_, inTree := sys.tree().node(id)
				dump = append(dump, fmt.Sprintf("%s state=%b inTree=%v", rp.Name(), rp.state.Load(), inTree))
			}
			sort.Strings(dump)
			msg := fmt.Sprintf("after SpawnRouter + quiescence routee %d of %d is not running (%s); router running=%v routeesMap=%d children=%d treeCount=%d %v",
				i, n, st, pid.IsRunning(), len(rt.impl.routeesMap), len(pid.Children()), sys.tree().count(), dump)
			_ = vfStopSystem(sys) // leave no blocked goroutine behind
			panic(c21SetupFailure(msg))
		}
		rt.routees = append(rt.routees, p)
	}
	return rt
}

func (rt *c21Router) stop() {
	if err := vfStopSystem(rt.sys); err != nil {
		panic(fmt.Sprintf("c21: stop: %v", err))
	}
}

func (rt *c21Router) index(name string) int {
	for i, p := range rt.routees {
		if p.Name() == name {
			return i
		}
	}
	return -1
}


// c21SetupFailure: the scenario's precondition (a router with n running routees at quiescence) was not
// reached. That is no verdict about the routing property: the execution is retried and, if it keeps
// failing, counted as invalid (never as a violation).
type c21SetupFailure string

// c21Bubble runs one case in a bubble; reset clears the case's accumulators before every attempt.
// ok=false: no verdict (setup failed three times).
func c21Bubble(t *testing.T, e *vsched.Enum, input string, reset func(), f func()) (panicked any, ok bool) {
	for attempt := 1; ; attempt++ {
		reset()
		p := vfBubble(t, f)
		sf, isSetup := p.(c21SetupFailure)
		if !isSetup {
			return p, true
		}
		vsched.Rep().Note("%s: %s: setup attempt %d failed: %s", e.St.Name, input, attempt, string(sf))
		if attempt == 3 {
			e.St.Invalid++
			e.St.InvalidReasons["router setup failed (routee not running after spawn)"]++
			return nil, false
		}
	}
}

func TestVerifC21(t *testing.T) {
	defer vsched.Finish(t)
	r := vsched.Rep()
	r.Assumption("round-robin state = (uint32 counter, routee set): the RoundRobin branch of routeByStrategy mutates nothing else, so pre-setting the counter to c in-package is equivalent to c previously routed messages")
	r.Assumption("consistent hashing is checked with the default hasher (xxh3) and the virtual-node counts 1, 3 and 150; a user supplied hasher with colliding virtual nodes is outside the domain")
	r.Assumption("all routees stay alive unless the scenario removes one through the router's own PanicSignal path; routees killed behind the router's back are not part of the property's quantifier")
	c21RRSelect(t, r)
	c21RRBroadcast(t, r)
	c21FanOut(t, r)
	c21HashRing(r)
	c21HashRouter(t, r)
}

func c21Starts(n int) []uint32 {
	var out []uint32
	w := int64(n + 2)
	for c := int64(0); c <= w; c++ {
		out = append(out, uint32(c))
	}
	for d := -w; d <= w; d++ {
		out = append(out, uint32(int64(1)<<31+d))
	}
	for d := w; d >= 1; d-- {
		out = append(out, uint32(int64(1)<<32-d))
	}
	return out
}

// c21Cyclic is the order oracle: the recipients seen so far (since the last reset) must follow SOME fixed
// cyclic order of the n routees: the first n are pairwise distinct and recipient i equals recipient i-n.
type c21Cyclic struct {
	n   int
	seq []int
}

func (c *c21Cyclic) reset() { c.seq = c.seq[:0] }

// add returns "" or a description of how the new recipient breaks the cyclic order.
func (c *c21Cyclic) add(idx int) string {
	i := len(c.seq)
	c.seq = append(c.seq, idx)
	if i >= c.n {
		if c.seq[i-c.n] != idx {
			return fmt.Sprintf("recipient #%d is routee %d but recipient #%d was routee %d (period %d)", i+1, idx, i-c.n+1, c.seq[i-c.n], c.n)
		}
		return ""
	}
	for j := 0; j < i; j++ {
		if c.seq[j] == idx {
			return fmt.Sprintf("routee %d receives again (recipient #%d) before all %d routees had their turn (recipients so far %v)", idx, i+1, c.n, c.seq)
		}
	}
	return ""
}

// c21NewDeliveries returns the deliveries recorded since *mark and advances it.
func c21NewDeliveries(mark *int) []c21Delivery {
	all := c21Sink.snapshot()
	out := all[*mark:]
	*mark = len(all)
	return out
}

// ---------------------------------------------------------------------------------------------
// rr-select
// ---------------------------------------------------------------------------------------------

func c21RRSelect(t *testing.T, r *vsched.Report) {
	sizes := vsched.Pick([]int{1, 2, 3, 4, 5, 6, 7, 8}, []int{1, 2, 3, 4, 5, 6, 7, 8, 9, 10, 11, 12, 16})
	e := vsched.NewEnum("rr-select", map[string]any{"sizes": fmt.Sprint(sizes), "counter_starts": "0..n+2, 2^31-(n+2)..2^31+(n+2), 2^32-(n+2)..2^32-1", "messages_per_case": "2n+4"})
	for _, n := range sizes {
		for _, start := range c21Starts(n) {
			if !e.Mine() {
				continue
			}
			msgs := 2*n + 4
			input := fmt.Sprintf("routees=%d counter=%d messages=%d", n, start, msgs)
			var obs strings.Builder
			p, valid := c21Bubble(t, e, input, func() { obs.Reset() }, func() {
				rt := c21Spawn(n, WithRoutingStrategy(RoundRobinRouting))
				defer rt.stop()
				rt.impl.roundRobinNext = start
				cyc := &c21Cyclic{n: n}
				mark := 0
				wrapAt := -10
				for i := 0; i < msgs; i++ {
					before := rt.impl.roundRobinNext
					if before == math.MaxUint32 {
						wrapAt = i
					}
					msg := &c21Msg{id: i}
					rc := &ReceiveContext{ctx: context.Background(), message: NewBroadcast(msg), sender: rt.sys.NoSender(), self: rt.pid}
					routees := append([]*PID(nil), rt.routees...)
					pv := c21Recover(func() { rt.impl.routeByStrategy(rc, msg, routees) })
					vfSettle()
					got := c21NewDeliveries(&mark)
					atWrap := i-wrapAt <= 1
					switch {
					case pv != nil && before == math.MaxUint32 && strings.Contains(fmt.Sprint(pv), "index out of range [-1]"):
						e.Fail("rr-counter-wrap-index-minus-one", input, "%s: message %d (counter %d -> 0): routeByStrategy panicked: %v; message not routed", input, i+1, before, pv)
					case pv != nil:
						e.Fail("rr-route-panics", input, "%s: message %d (counter before=%d): %v", input, i+1, before, pv)
					case len(got) == 0:
						e.Fail("rr-message-dropped", input, "%s: message %d (counter before=%d) reached no routee", input, i+1, before)
					}
					if len(got) > 1 {
						e.Fail("rr-message-duplicated", input, "%s: message %d delivered %d times: %v", input, i+1, len(got), got)
					}
					if len(got) != 1 || got[0].id != i {
						if len(got) == 1 {
							e.Fail("rr-unexpected-delivery", input, "%s: message %d: delivery %v", input, i+1, got[0])
						}
						obs.WriteString("-,")
						cyc.reset() // nothing was routed: the order oracle restarts
						continue
					}
					idx := rt.index(got[0].routee)
					if why := cyc.add(idx); why != "" {
						if atWrap {
							e.Fail("rr-cyclic-order-breaks-at-counter-wrap", input, "%s: message %d (counter before=%d): %s", input, i+1, before, why)
						} else {
							e.Fail("rr-not-cyclic", input, "%s: message %d (counter before=%d): %s", input, i+1, before, why)
						}
						cyc.reset()
						cyc.add(idx)
					}
					fmt.Fprintf(&obs, "%d,", idx)
				}
			})
			if !valid {
				continue
			}
			if p != nil {
				e.Fail("rr-harness-panic", input, "%s: %v", input, p)
			}
			// non-trivial (by input): >1 routee and the number of previously routed messages crosses 2^32 during the case
			e.Case(input, obs.String(), msgs, n > 1 && uint64(start)+uint64(msgs) >= 1<<32)
		}
	}
	e.Done()
}

func c21Recover(f func()) (p any) {
	defer func() { p = recover() }()
	f()
	return nil
}

// ---------------------------------------------------------------------------------------------
// rr-broadcast (end to end)
// ---------------------------------------------------------------------------------------------

func c21RRBroadcast(t *testing.T, r *vsched.Report) {
	sizes := vsched.Pick([]int{1, 2, 3, 4, 5, 6, 7, 8}, []int{1, 2, 3, 4, 5, 6, 7, 8, 9, 10, 11, 12, 16})
	e := vsched.NewEnum("rr-broadcast", map[string]any{"sizes": fmt.Sprint(sizes), "counter_starts": "0,1,2 and 2^32-(n+2)..2^32-1", "messages_per_case": "2n+4",
		"note": "the recipient order is deliberately not part of the observation: on the unchanged tree it depends on Go's randomised map iteration (that is the defect reported as rr-broadcast-order-not-cyclic)"})
	for _, n := range sizes {
		starts := []uint32{0, 1, 2}
		for d := n + 2; d >= 1; d-- {
			starts = append(starts, uint32(int64(1)<<32-int64(d)))
		}
		for _, start := range starts {
			if !e.Mine() {
				continue
			}
			msgs := 2*n + 4
			input := fmt.Sprintf("routees=%d counter=%d broadcasts=%d", n, start, msgs)
			var obs strings.Builder
			p, valid := c21Bubble(t, e, input, func() { obs.Reset() }, func() {
				rt := c21Spawn(n, WithRoutingStrategy(RoundRobinRouting))
				defer rt.stop()
				rt.impl.roundRobinNext = start
				cyc := &c21Cyclic{n: n}
				mark := 0
				for i := 0; i < msgs; i++ {
					before := rt.impl.roundRobinNext
					if err := Tell(context.Background(), rt.pid, NewBroadcast(&c21Msg{id: i})); err != nil {
						e.Fail("rr-router-not-accepting", input, "%s: broadcast %d: Tell to the router failed: %v", input, i+1, err)
						obs.WriteString("x,")
						break
					}
					vfSettle()
					got := c21NewDeliveries(&mark)
					fmt.Fprintf(&obs, "%d,", len(got))
					if len(got) == 0 {
						if before == math.MaxUint32 {
							e.Fail("rr-message-dropped-at-counter-wrap", input, "%s: broadcast %d (counter %d -> 0) reached no routee", input, i+1, before)
						} else {
							e.Fail("rr-message-dropped", input, "%s: broadcast %d (counter before=%d) reached no routee", input, i+1, before)
						}
						cyc.reset()
						continue
					}
					if len(got) > 1 || got[0].id != i {
						e.Fail("rr-message-duplicated", input, "%s: broadcast %d: deliveries %v", input, i+1, got)
						cyc.reset()
						continue
					}
					idx := rt.index(got[0].routee)
					if why := cyc.add(idx); why != "" {
						e.Fail("rr-broadcast-order-not-cyclic", input, "%s: broadcast %d: %s", input, i+1, why)
						cyc.reset()
						cyc.add(idx)
					}
				}
			})
			if !valid {
				continue
			}
			if p != nil {
				e.Fail("rr-harness-panic", input, "%s: %v", input, p)
			}
			e.Case(input, fmt.Sprintf("n=%d c=%d delivered=%s", n, start, obs.String()), msgs, n > 1)
		}
	}
	e.Done()
}

// ---------------------------------------------------------------------------------------------
// fan-out (end to end, with pool resizing)
// ---------------------------------------------------------------------------------------------

func c21FanOut(t *testing.T, r *vsched.Report) {
	depth := vsched.Pick(4, 6)
	sizes := vsched.Pick([]int{1, 2, 3, 4}, []int{1, 2, 3, 4, 5, 6})
	ops := []byte("BbUD") // B: broadcast + settle, b: broadcast without settling (burst), U: pool +1, D: pool -1
	e := vsched.NewEnum("fanout", map[string]any{"initial_sizes": fmt.Sprint(sizes), "ops": "B broadcast+settle, b broadcast (burst, settle later), U AdjustRouterPoolSize(+1), D AdjustRouterPoolSize(-1)", "max_ops": depth,
		"domain": "every op sequence of length 1..max_ops containing at least one broadcast and no U after a D, per initial pool size"})
	for _, n := range sizes {
		for l := 1; l <= depth; l++ {
			idx := make([]int, l)
			for {
				prog := make([]byte, l)
				hasB := false
				for i, k := range idx {
					prog[i] = ops[k]
					hasB = hasB || prog[i] == 'B' || prog[i] == 'b'
				}
				// "pool +1 after pool -1" is excluded: scaleDown stops whichever routees come first in a map
				// iteration and scaleUp then names the new routee after the pool size, so whether the name
				// collides with a survivor (and the pool really grows) is random on the unchanged tree;
				// pool resizing itself is not what C21 states
				if hasB && !strings.Contains(strings.SplitN(string(prog)+"D", "D", 2)[1], "U") && e.Mine() {
					c21RunFanOut(t, e, n, string(prog))
				}
				k := l - 1
				for k >= 0 {
					idx[k]++
					if idx[k] < len(ops) {
						break
					}
					idx[k] = 0
					k--
				}
				if k < 0 {
					break
				}
			}
		}
	}
	e.Done()
}

func c21LiveRoutees(rt *c21Router) []string {
	reply, err := Ask(context.Background(), rt.pid, &GetRoutees{}, time.Second)
	if err != nil {
		panic(fmt.Sprintf("c21: GetRoutees: %v", err))
	}
	names := append([]string(nil), reply.(*Routees).Names()...)
	sort.Strings(names)
	return names
}

func c21RunFanOut(t *testing.T, e *vsched.Enum, n int, prog string) {
	input := fmt.Sprintf("routees=%d program=%s", n, prog)
	var obs strings.Builder
	broadcasts := 0
	resized := false
	p, valid := c21Bubble(t, e, input, func() { obs.Reset(); broadcasts = 0; resized = false }, func() {
		rt := c21Spawn(n) // default strategy = FanOutRouting
		defer rt.stop()
		expect := map[int][]string{} // message id -> live routees at send time
		id := 0
		for _, op := range prog {
			switch op {
			case 'B', 'b':
				live := c21LiveRoutees(rt)
				if len(live) == 0 {
					// no routee: the router shuts down on the next broadcast; outside the property
					fmt.Fprintf(&obs, "%c(no-routee);", op)
					return
				}
				expect[id] = live
				if err := Tell(context.Background(), rt.pid, NewBroadcast(&c21Msg{id: id})); err != nil {
					e.Fail("fanout-router-not-accepting", input, "%s: broadcast %d: %v", input, id, err)
					return
				}
				id++
				broadcasts++
				if op == 'B' {
					vfSettle()
				}
			case 'U', 'D':
				// resizing happens at quiescence: a routee that is stopped while a fan-out delivery to it
				// is still in flight legitimately misses that message (outside the property)
				vfSettle()
				resized = true
				delta := int32(1)
				if op == 'D' {
					delta = -1
				}
				_ = Tell(context.Background(), rt.pid, NewAdjustRouterPoolSize(delta))
				vfSettle()
			}
		}
		vfSettle()
		count := map[string]int{}
		for _, d := range c21Sink.snapshot() {
			count[fmt.Sprintf("%d@%s", d.id, d.routee)]++
		}
		for m := 0; m < id; m++ {
			for _, name := range expect[m] {
				switch c := count[fmt.Sprintf("%d@%s", m, name)]; {
				case c == 0:
					e.Fail("fanout-routee-missed-message", input, "%s: message %d never reached routee %s (live at send time: %v)", input, m, name, expect[m])
				case c > 1:
					e.Fail("fanout-duplicate-delivery", input, "%s: message %d reached routee %s %d times", input, m, name, c)
				}
			}
			fmt.Fprintf(&obs, "m%d->%d;", m, len(expect[m]))
		}
	})
	if !valid {
		return
	}
	if p != nil {
		e.Fail("fanout-harness-panic", input, "%s: %v", input, p)
	}
	// non-trivial: at least two routees at some broadcast, or a resize before a broadcast
	e.Case(input, fmt.Sprintf("n=%d %s", n, obs.String()), broadcasts, n > 1 || resized)
}

// ---------------------------------------------------------------------------------------------
// consistent hash ring (pure)
// ---------------------------------------------------------------------------------------------

func c21Keys(n int) []string {
	out := make([]string, n)
	for i := range out {
		switch i % 4 {
		case 0:
			out[i] = fmt.Sprintf("k%d", i)
		case 1:
			out[i] = fmt.Sprintf("user-%04d", i*7919)
		case 2:
			out[i] = fmt.Sprintf("%x", uint64(i)*0x9e3779b97f4a7c15)
		default:
			out[i] = strings.Repeat("z", i%17+1) + fmt.Sprint(i)
		}
	}
	return out
}

func c21Owners(ring *consistentHashRing, keys []string) []string {
	out := make([]string, len(keys))
	for i, k := range keys {
		out[i] = ring.lookup(k)
	}
	return out
}

func c21HashRing(r *vsched.Report) {
	universe := vsched.Pick(4, 7)
	nKeys := vsched.Pick(128, 2048)
	vnodes := []int{0, 1, 3, 150} // 0 = default (150)
	keys := c21Keys(nKeys)
	members := make([]string, universe)
	for i := range members {
		if i%2 == 0 {
			members[i] = fmt.Sprintf("goakt://c21@127.0.0.1:0/rtRoutee%d", i)
		} else {
			members[i] = fmt.Sprintf("r%d", i)
		}
	}
	e := vsched.NewEnum("chash-ring", map[string]any{"universe": universe, "keys": nKeys, "virtual_nodes": fmt.Sprint(vnodes),
		"domain": "every non-empty member subset x virtual-node count; per subset: every key; every single-member removal; member orders identity/reverse/rotated"})
	for mask := 1; mask < 1<<universe; mask++ {
		for _, vn := range vnodes {
			if !e.Mine() {
				continue
			}
			var set []string
			for i := 0; i < universe; i++ {
				if mask&(1<<i) != 0 {
					set = append(set, members[i])
				}
			}
			input := fmt.Sprintf("members=%v virtualNodes=%d keys=%d", set, vn, nKeys)
			inSet := map[string]bool{}
			for _, m := range set {
				inSet[m] = true
			}
			ring := newConsistentHashRing(nil, vn)
			ring.set(set)
			own := c21Owners(ring, keys)
			calls := len(keys)
			for i, o := range own {
				if !inSet[o] {
					e.Fail("chash-owner-not-a-member", input, "%s: key %q -> %q", input, keys[i], o)
				}
			}
			// equal keys -> same member while membership is unchanged: repeated lookups, and rings rebuilt
			// from the same members in another order (the router rebuilds from a map iteration)
			again := c21Owners(ring, keys)
			calls += len(keys)
			for i := range own {
				if again[i] != own[i] {
					e.Fail("chash-lookup-unstable", input, "%s: key %q -> %q then %q", input, keys[i], own[i], again[i])
				}
			}
			rev := make([]string, len(set))
			for i, m := range set {
				rev[len(set)-1-i] = m
			}
			rot := append(append([]string(nil), set[1:]...), set[0])
			for _, order := range [][]string{rev, rot} {
				ring.set(order)
				o2 := c21Owners(ring, keys)
				calls += len(keys)
				for i := range own {
					if o2[i] != own[i] {
						e.Fail("chash-owner-depends-on-member-order", input, "%s: key %q -> %q, with members given as %v -> %q", input, keys[i], own[i], order, o2[i])
					}
				}
			}
			// removing a member only moves the keys it owned
			moved := 0
			if len(set) >= 2 {
				for ri, rm := range set {
					rest := append(append([]string(nil), set[:ri]...), set[ri+1:]...)
					if ri%2 == 1 { // vary the order the survivors are given in
						for a, b := 0, len(rest)-1; a < b; a, b = a+1, b-1 {
							rest[a], rest[b] = rest[b], rest[a]
						}
					}
					ring.set(rest) // same ring object, as rebuildHashRing does
					o3 := c21Owners(ring, keys)
					calls += len(keys)
					for i := range own {
						switch {
						case own[i] != rm && o3[i] != own[i]:
							e.Fail("chash-removal-moves-foreign-key", input, "%s: removing %q moved key %q from %q to %q", input, rm, keys[i], own[i], o3[i])
						case own[i] == rm && (o3[i] == rm || !inSet[o3[i]]):
							e.Fail("chash-removed-member-still-owner", input, "%s: after removing %q key %q -> %q", input, rm, keys[i], o3[i])
						case own[i] == rm:
							moved++
						}
					}
				}
			}
			// non-trivial: at least two members (ownership is a real choice)
			e.Case(input, fmt.Sprintf("%016x moved=%d", vsched.Hash64(strings.Join(own, ",")), moved), calls, len(set) >= 2)
		}
	}
	e.Done()
}

// ---------------------------------------------------------------------------------------------
// consistent-hash router (end to end)
// ---------------------------------------------------------------------------------------------

// c21PassesAfterRemoval: how often every key is routed after a routee was removed. If the router chose
// a uniformly random survivor per message for the keys of the removed routee, one orphaned key would
// look sticky over p passes with probability (1/(n-1))^(p-1) (n-1 >= 2 survivors); with >= 3 orphaned
// keys per case and p = 8 a whole case passes by luck with probability <= 2^-21, and all cases with
// n >= 3 (>= 14 in the quick tier) with probability < 10^-80.
const c21PassesAfterRemoval = 8

func c21HashRouter(t *testing.T, r *vsched.Report) {
	sizes := vsched.Pick([]int{2, 3, 4}, []int{2, 3, 4, 5, 6, 7, 8})
	nKeys := vsched.Pick(16, 128)
	keys := c21Keys(nKeys)
	extractor := func(msg any) string {
		if m, ok := msg.(*c21Msg); ok {
			return m.key
		}
		return ""
	}
	e := vsched.NewEnum("chash-router", map[string]any{"sizes": fmt.Sprint(sizes), "keys": nKeys, "virtual_nodes": "150 (default), 3",
		"passes_after_removal": c21PassesAfterRemoval,
		"domain": "per pool size x virtual-node count x removed routee (each routee, or none): every key sent twice, the routee removed through the router's PanicSignal/stop path, then every key sent again 8 times (equal keys must keep the same surviving routee on every pass)"})
	for _, n := range sizes {
		for _, vn := range []int{0, 3} {
			for victim := -1; victim < n; victim++ {
				if !e.Mine() {
					continue
				}
				input := fmt.Sprintf("routees=%d virtualNodes=%d remove=%d keys=%d", n, vn, victim, nKeys)
				var obs strings.Builder
				sent := 0
				p, valid := c21Bubble(t, e, input, func() { obs.Reset(); sent = 0 }, func() {
					opts := []RouterOption{WithConsistentHashRouter(extractor)}
					if vn > 0 {
						opts = append(opts, WithConsistentHashVirtualNodes(vn))
					}
					rt := c21Spawn(n, opts...)
					defer rt.stop()
					id := 0
					// send sends every key once and returns key index -> routee index (-1: not exactly one delivery)
					send := func(phase string) []int {
						owner := make([]int, len(keys))
						first := id
						for _, k := range keys {
							if err := Tell(context.Background(), rt.pid, NewBroadcast(&c21Msg{id: id, key: k})); err != nil {
								e.Fail("chash-router-not-accepting", input, "%s: %s: %v", input, phase, err)
							}
							id++
							sent++
						}
						vfSettle()
						got := map[int][]string{}
						for _, d := range c21Sink.snapshot() {
							got[d.id] = append(got[d.id], d.routee)
						}
						for ki := range keys {
							rs := got[first+ki]
							switch {
							case len(rs) == 0:
								e.Fail("chash-message-dropped", input, "%s: %s: key %q reached no routee", input, phase, keys[ki])
								owner[ki] = -1
							case len(rs) > 1:
								e.Fail("chash-message-duplicated", input, "%s: %s: key %q delivered to %v", input, phase, keys[ki], rs)
								owner[ki] = -1
							default:
								owner[ki] = rt.index(rs[0])
							}
						}
						return owner
					}
					o1 := send("first pass")
					o2 := send("second pass")
					for ki := range keys {
						if o1[ki] >= 0 && o2[ki] >= 0 && o1[ki] != o2[ki] {
							e.Fail("chash-equal-keys-different-routees", input, "%s: key %q went to routee %d, then to routee %d (membership unchanged)", input, keys[ki], o1[ki], o2[ki])
						}
					}
					fmt.Fprintf(&obs, "%v", o1)
					if victim < 0 {
						return
					}
					// remove the routee the way the router itself does on a routee failure
					if err := rt.routees[victim].Tell(context.Background(), rt.pid, NewPanicSignal(&c21Msg{}, "c21 removal", time.Now())); err != nil {
						panic(fmt.Sprintf("c21: PanicSignal: %v", err))
					}
					vfSettle()
					if rt.routees[victim].IsRunning() {
						panic("c21: victim routee still running after PanicSignal")
					}
					o3 := send("after removal")
					for ki := range keys {
						switch {
						case o1[ki] < 0 || o3[ki] < 0:
						case o1[ki] != victim && o3[ki] != o1[ki]:
							e.Fail("chash-removal-moves-foreign-key", input, "%s: removing routee %d moved key %q from routee %d to routee %d", input, victim, keys[ki], o1[ki], o3[ki])
						case o3[ki] == victim:
							e.Fail("chash-removed-member-still-owner", input, "%s: key %q still delivered to removed routee %d", input, keys[ki], victim)
						}
					}
					fmt.Fprintf(&obs, "|%v", o3)
					// membership is unchanged from here on: every key, in particular every key the removed
					// routee used to own, must keep reaching the SAME surviving routee on every further pass
					// (a stale ring entry makes the router fall back to a random routee per message)
					for pass := 2; pass <= c21PassesAfterRemoval; pass++ {
						oi := send(fmt.Sprintf("after removal, pass %d", pass))
						for ki := range keys {
							switch {
							case o3[ki] < 0 || oi[ki] < 0:
							case oi[ki] == victim:
								e.Fail("chash-removed-member-still-owner", input, "%s: pass %d: key %q still delivered to removed routee %d", input, pass, keys[ki], victim)
							case oi[ki] != o3[ki] && o1[ki] == victim:
								e.Fail("chash-orphaned-key-not-sticky-after-removal", input, "%s: key %q (owned by removed routee %d) went to routee %d on pass 1 and to routee %d on pass %d after the removal (membership unchanged)", input, keys[ki], victim, o3[ki], oi[ki], pass)
							case oi[ki] != o3[ki]:
								e.Fail("chash-equal-keys-different-routees", input, "%s: after the removal key %q went to routee %d on pass 1 and to routee %d on pass %d (membership unchanged)", input, keys[ki], o3[ki], oi[ki], pass)
							}
						}
					}
				})
				if !valid {
					continue
				}
				if p != nil {
					e.Fail("chash-harness-panic", input, "%s: %v", input, p)
				}
				e.Case(input, obs.String(), sent, true)
			}
		}
	}
	e.Done()
}
