//go:build verif

package actor

import (
	"context"
	"fmt"
	"strings"
	"sync"
	"testing"
	"time"

	"google.golang.org/protobuf/types/known/wrapperspb"

	inet "github.com/tochemey/goakt/v4/internal/net"
	"github.com/tochemey/goakt/v4/internal/verif/vsched"
	"github.com/tochemey/goakt/v4/remote"
)

// C28 (end-to-end part) — concurrent RemoteAsk / RemoteBatchAsk calls of the actor system's real
// remoting client over pooled pipe connections, answered by the system's real remoteAskHandler and a
// real actor that replies "<request id>@{}". Each call must return its own reply (RemoteBatchAsk: the
// replies of its requests, in request order) or an error. The wire loop is the harness responder of
// zz_c29_test.go (it holds each decoded request until the event "serve"); faults: the callers'
// deadline passes (virtual time), the remote node closes the connection instead of serving.
// The transport-level part (connection reuse with replies still in transit, SendBatchProto) is
// zz_c28_test.go in package internal/net.

type c28eOp struct {
	ids     []string // one id = RemoteAsk, several = RemoteBatchAsk
	timeout time.Duration
}

type c28eRes struct {
	op   c28eOp
	got  []string
	err  error
	done bool
}

type c28eScenario struct {
	name  string
	conns int
	ops   [][]c28eOp
	bound int
}

func c28eRun(t *testing.T, sc c28eScenario, c *vsched.Chooser) (out vsched.Outcome) {
	p := vfBubble(t, func() {
		sys := vfNewSystem("c28e", OptionFunc(func(a *actorSystem) {
			a.remoteConfig = remote.NewConfig("127.0.0.1", 9000)
		}))
		sys.remotingEnabled.Store(true)
		recv := &c29Receiver{seen: map[string][]string{}}
		pid, err := sys.Spawn(context.Background(), "recv", recv, WithLongLived())
		if err != nil {
			panic(err)
		}
		vfSettle()
		to := pid.getAddress()
		from := sys.NoSender().getAddress()
		rsp := &c29Responder{sys: sys, ser: inet.NewProtoSerializer()}
		nc := sys.remoting.NetClient(to.Host(), to.Port())
		for i := 0; i < sc.conns; i++ {
			nc.Put(rsp.addConn())
		}
		var mu sync.Mutex
		var trace []string
		res := make([][]*c28eRes, len(sc.ops))
		next := make([]int, len(sc.ops))
		busy := make([]bool, len(sc.ops))
		for j, ops := range sc.ops {
			for _, op := range ops {
				res[j] = append(res[j], &c28eRes{op: op})
			}
		}
		var cwg sync.WaitGroup
		type ev struct {
			name string
			cost int
			fire func()
		}
		advanced := 0
		for step := 0; step < 100; step++ {
			var zero, faults []ev
			mu.Lock()
			waiting := false
			for j := range sc.ops {
				if busy[j] {
					waiting = true
				}
				if !busy[j] && next[j] < len(res[j]) {
					j := j
					zero = append(zero, ev{name: fmt.Sprintf("start c%d %v", j, res[j][next[j]].op.ids), fire: func() {
						mu.Lock()
						r := res[j][next[j]]
						next[j]++
						busy[j] = true
						mu.Unlock()
						cwg.Add(1)
						go func() {
							defer cwg.Done()
							var got []string
							var err error
							show := func(v any) string {
								if s, ok := v.(*wrapperspb.StringValue); ok {
									return s.GetValue()
								}
								return fmt.Sprintf("<%T>", v)
							}
							if len(r.op.ids) == 1 {
								var rep any
								rep, err = sys.remoting.RemoteAsk(context.Background(), from, to, wrapperspb.String(r.op.ids[0]), r.op.timeout)
								if err == nil {
									got = []string{show(rep)}
								}
							} else {
								msgs := make([]any, len(r.op.ids))
								for i, id := range r.op.ids {
									msgs[i] = wrapperspb.String(id)
								}
								var reps []any
								reps, err = sys.remoting.RemoteBatchAsk(context.Background(), from, to, msgs, r.op.timeout)
								for _, x := range reps {
									got = append(got, show(x))
								}
							}
							mu.Lock()
							r.got, r.err, r.done = got, err, true
							busy[j] = false
							mu.Unlock()
						}()
					}})
				}
			}
			mu.Unlock()
			for _, pd := range rsp.pendingList() {
				pd := pd
				zero = append(zero, ev{name: fmt.Sprintf("serve conn%d", pd.conn), fire: func() { pd.cmd <- true }})
				faults = append(faults, ev{name: fmt.Sprintf("fault remote node closes conn%d", pd.conn), cost: 1, fire: func() { pd.cmd <- false }})
			}
			if waiting && advanced < 2 {
				faults = append(faults, ev{name: "fault deadline-passes(+1s)", cost: 1, fire: func() { advanced++; time.Sleep(time.Second) }})
			}
			if len(zero) == 0 {
				break
			}
			evs := append(zero, faults...)
			costs := make([]int, len(evs))
			for i := range evs {
				costs[i] = evs[i].cost
			}
			pick := c.Choose("event", len(evs), costs, func(i int) string { return evs[i].name })
			trace = append(trace, evs[pick].name)
			evs[pick].fire()
			vfSettle()
		}
		// release whatever still waits (callers whose request was never served get an error)
		for i := 0; i < 5; i++ {
			for _, pd := range rsp.pendingList() {
				pd.cmd <- false
			}
			time.Sleep(2 * time.Second)
			vfSettle()
		}
		cwg.Wait()
		tr := strings.Join(trace, " | ")
		var v []vsched.Violation
		var b strings.Builder
		for j := range res {
			for k, r := range res[j] {
				if k >= next[j] {
					b.WriteString("-;")
					continue
				}
				if !r.done {
					v = append(v, vsched.Fail("ask-never-returned", "c%d %v; trace: %s", j, r.op.ids, tr))
					continue
				}
				if r.err != nil {
					b.WriteString("err;")
					continue
				}
				b.WriteString(strings.Join(r.got, ",") + ";")
				if len(r.got) != len(r.op.ids) {
					v = append(v, vsched.Fail("wrong-number-of-replies", "c%d asked %v and got %v; trace: %s", j, r.op.ids, r.got, tr))
					continue
				}
				for i, id := range r.op.ids {
					if r.got[i] == id+"@{}" {
						continue
					}
					own := false
					for _, o := range r.op.ids {
						own = own || r.got[i] == o+"@{}"
					}
					if own {
						v = append(v, vsched.Fail("batch-ask-replies-out-of-request-order", "c%d asked %v and got %v; trace: %s", j, r.op.ids, r.got, tr))
					} else {
						v = append(v, vsched.Fail("ask-returned-another-requests-reply", "c%d asked %v and got %v; trace: %s", j, r.op.ids, r.got, tr))
					}
					break
				}
			}
			b.WriteString("/")
		}
		rsp.mu.Lock()
		if len(rsp.bad) > 0 {
			b.WriteString(fmt.Sprintf(" responder:%d", len(rsp.bad)))
		}
		rsp.mu.Unlock()
		out.Violations = v
		out.Obs = b.String()
		sys.remoting.Close()
		rsp.shutdown()
		sys.remotingEnabled.Store(false)
		if err := vfStopSystem(sys); err != nil {
			out.Invalid = "system stop failed: " + err.Error()
		}
	})
	if p != nil {
		out.Violations = append(out.Violations, vsched.Fail("panic", "panic in execution: %v", p))
	}
	return out
}

func TestVerifC28E2E(t *testing.T) {
	defer vsched.Finish(t)
	r := vsched.Rep()
	r.Assumption("end-to-end part: events are atomic; net.Pipe instead of TCP; the ProtoServer read loop is mirrored by the harness responder; the remote server socket is never started")
	one := func(id string, to time.Duration) c28eOp { return c28eOp{ids: []string{id}, timeout: to} }
	scs := []c28eScenario{
		{name: "e2e/3callers/3conns/ask+ask+batchask", conns: 3, bound: vsched.Pick(1, 2), ops: [][]c28eOp{
			{one("ask-a1", time.Second), one("ask-a2", time.Second)},
			{one("ask-b1", time.Minute)},
			{{ids: []string{"ask-c1", "ask-c2", "ask-c3"}, timeout: time.Second}},
		}},
	}
	var all []vsched.Scenario
	for _, sc := range scs {
		sc := sc
		all = append(all, vsched.Scenario{
			Cfg: vsched.Config{Scenario: sc.name, Bound: sc.bound, Params: map[string]any{"pooled_conns": sc.conns, "callers": len(sc.ops)}},
			Run: func(c *vsched.Chooser) vsched.Outcome { return c28eRun(t, sc, c) },
		})
	}
	vsched.ExploreAll(all)
}
