//go:build verif

package actor

import (
	"context"
	"encoding/binary"
	"errors"
	"fmt"
	"io"
	"net"
	nethttp "net/http"
	"sort"
	"strings"
	"sync"
	"testing"
	"time"

	"google.golang.org/protobuf/proto"
	"google.golang.org/protobuf/types/known/wrapperspb"

	"github.com/tochemey/goakt/v4/internal/internalpb"
	inet "github.com/tochemey/goakt/v4/internal/net"
	"github.com/tochemey/goakt/v4/internal/remoteclient"
	"github.com/tochemey/goakt/v4/internal/verif/vsched"
	"github.com/tochemey/goakt/v4/remote"
)

// C29 — per-message context metadata is restored on the receiver, whatever the batch grouping.
//
// End to end on the real code of both sides, joined by net.Pipe connections instead of sockets:
//   sender    the actor system's own remoting client (x.remoting, built by setupRemoting exactly as in
//             production: send coalescing on, error handler, the configured ContextPropagator):
//             RemoteTell -> injectMessageMetadata -> coalescer -> inet.Client.SendProto, and
//             RemoteAsk -> enrichContext -> inet.Client.SendProto (frame level metadata);
//   wire      the real frame encoding/decoding (inet.ProtoSerializer); the per-connection loop of
//             inet.ProtoServer.handleConn is mirrored by c29Responder (format detection in the same
//             order, metadata -> context via Metadata.ToContext) because handleConn is not
//             reachable from this package; the loop stops after each decoded request until the
//             harness lets it proceed (event "serve"), which is what makes messages pile up behind
//             an in-flight batch in every possible grouping;
//   receiver  the actor system's real remoteTellHandler / remoteAskHandler (extractContextWithPropagator,
//             messageMetadata, deliverRemoteTellMessage, handleRemoteTell/Ask) and a real actor that
//             records the headers it finds in ReceiveContext.Context().
// The remote server socket is never started (no sockets in a bubble): the system is created without
// WithRemote, its remote config (bind address + propagator) is set by an in-package option, and
// remotingEnabled is switched on after Start so that the handlers accept requests.

type c29Key struct{}

// c29Propagator injects the string map found in the context and extracts every header into a map.
type c29Propagator struct{}

func (c29Propagator) Inject(ctx context.Context, h nethttp.Header) error {
	if m, ok := ctx.Value(c29Key{}).(map[string]string); ok {
		for k, v := range m {
			h.Set(k, v)
		}
	}
	return nil
}

func (c29Propagator) Extract(ctx context.Context, h nethttp.Header) (context.Context, error) {
	m := map[string]string{}
	for k, v := range h {
		if len(v) > 0 {
			m[k] = v[0]
		} else {
			m[k] = "<novalue>"
		}
	}
	return context.WithValue(ctx, c29Key{}, m), nil
}

func c29Dump(m map[string]string) string {
	keys := make([]string, 0, len(m))
	for k := range m {
		keys = append(keys, k)
	}
	sort.Strings(keys)
	var b strings.Builder
	b.WriteString("{")
	for _, k := range keys {
		fmt.Fprintf(&b, "%s=%q,", strings.ToLower(k), m[k])
	}
	b.WriteString("}")
	return b.String()
}

// header maps of the design: none, {a:1}, {a:2, b:""}
var c29Headers = []map[string]string{nil, {"a": "1"}, {"a": "2", "b": ""}}

type c29Receiver struct {
	mu   sync.Mutex
	seen map[string][]string // message id -> header dumps seen (one per delivery)
}

func (a *c29Receiver) PreStart(*Context) error { return nil }
func (a *c29Receiver) PostStop(*Context) error { return nil }
func (a *c29Receiver) Receive(rc *ReceiveContext) {
	m, ok := rc.Message().(*wrapperspb.StringValue)
	if !ok {
		return
	}
	hdr, _ := rc.Context().Value(c29Key{}).(map[string]string)
	d := c29Dump(hdr)
	a.mu.Lock()
	a.seen[m.GetValue()] = append(a.seen[m.GetValue()], d)
	a.mu.Unlock()
	if strings.HasPrefix(m.GetValue(), "ask") {
		rc.Response(wrapperspb.String(m.GetValue() + "@" + d))
	}
}

// ---- responder (mirror of inet.ProtoServer.handleConn around the real handlers) ---------------

type c29Pending struct {
	conn  int
	req   proto.Message
	ctx   context.Context
	hasMD bool
	cmd   chan bool // true = serve, false = quit
}

type c29Responder struct {
	mu      sync.Mutex
	sys     *actorSystem
	ser     *inet.ProtoSerializer
	pending []*c29Pending
	srvEnds []net.Conn
	wg      sync.WaitGroup
	batches []string // ids per served tell request
	bad     []string
}

func c29ReadFrame(r io.Reader) ([]byte, error) {
	var hdr [4]byte
	if _, err := io.ReadFull(r, hdr[:]); err != nil {
		return nil, err
	}
	n := binary.BigEndian.Uint32(hdr[:])
	if n < 8 || n > 1<<24 {
		return nil, fmt.Errorf("bad frame length %d", n)
	}
	frame := make([]byte, n)
	copy(frame, hdr[:])
	if _, err := io.ReadFull(r, frame[4:]); err != nil {
		return nil, err
	}
	return frame, nil
}

func (r *c29Responder) addConn() net.Conn {
	cli, srv := net.Pipe()
	r.mu.Lock()
	idx := len(r.srvEnds)
	r.srvEnds = append(r.srvEnds, srv)
	r.mu.Unlock()
	r.wg.Add(1)
	go func() {
		defer r.wg.Done()
		defer srv.Close()
		for {
			frame, err := c29ReadFrame(srv)
			if err != nil {
				return
			}
			var msg proto.Message
			var md *inet.Metadata
			if len(frame) >= 12 {
				msg, md, _, err = r.ser.UnmarshalBinaryWithMetadata(frame)
				if errors.Is(err, inet.ErrInvalidMessageLength) {
					msg, _, err = r.ser.UnmarshalBinary(frame)
				}
			} else {
				msg, _, err = r.ser.UnmarshalBinary(frame)
			}
			if err != nil {
				r.mu.Lock()
				r.bad = append(r.bad, err.Error())
				r.mu.Unlock()
				return
			}
			ctx := context.Background()
			if md != nil {
				ctx = md.ToContext(ctx)
			}
			p := &c29Pending{conn: idx, req: msg, ctx: ctx, hasMD: md != nil, cmd: make(chan bool)}
			r.mu.Lock()
			r.pending = append(r.pending, p)
			r.mu.Unlock()
			serve := <-p.cmd
			r.mu.Lock()
			for i, x := range r.pending {
				if x == p {
					r.pending = append(r.pending[:i:i], r.pending[i+1:]...)
				}
			}
			r.mu.Unlock()
			if !serve {
				return
			}
			var resp proto.Message
			switch q := msg.(type) {
			case *internalpb.RemoteTellRequest:
				var ids []string
				for _, m := range q.GetRemoteMessages() {
					v, _ := r.sys.remoting.Serializer(nil).Deserialize(m.GetMessage())
					if s, ok := v.(*wrapperspb.StringValue); ok {
						ids = append(ids, s.GetValue())
					}
				}
				r.mu.Lock()
				r.batches = append(r.batches, strings.Join(ids, "+"))
				r.mu.Unlock()
				resp, err = r.sys.remoteTellHandler(ctx, nil, q)
			case *internalpb.RemoteAskRequest:
				resp, err = r.sys.remoteAskHandler(ctx, nil, q)
			default:
				err = fmt.Errorf("unexpected request %T", msg)
			}
			if err != nil || resp == nil {
				r.mu.Lock()
				r.bad = append(r.bad, fmt.Sprintf("handler: resp=%v err=%v", resp, err))
				r.mu.Unlock()
				return
			}
			data, err := r.ser.MarshalBinary(resp)
			if err != nil {
				panic(err)
			}
			if _, err := srv.Write(data); err != nil {
				return
			}
		}
	}()
	return cli
}

func (r *c29Responder) pendingList() []*c29Pending {
	r.mu.Lock()
	defer r.mu.Unlock()
	return append([]*c29Pending(nil), r.pending...)
}

func (r *c29Responder) shutdown() {
	for _, p := range r.pendingList() {
		p.cmd <- false
	}
	r.mu.Lock()
	ends := append([]net.Conn(nil), r.srvEnds...)
	r.mu.Unlock()
	for _, c := range ends {
		_ = c.Close()
	}
	r.wg.Wait()
}

// ---- scenarios ----------------------------------------------------------------------------------

type c29Scenario struct {
	name    string
	mode    string // "tell" (coalesced RemoteTell) | "ask" (RemoteAsk, frame level metadata) | "tellsync" (RemoteTell of a client without coalescing, frame level metadata)
	callers int
	per     int
	conns   int
	// perCaller: one header choice per caller; its k-th message uses header map (choice+k) mod 3
	// (keeps the quick tier small; the thorough tier chooses per message)
	perCaller bool
}

type c29Sent struct {
	id  string
	hdr int
	err error
	rep string
	ret bool
}

func c29Run(t *testing.T, sc c29Scenario, c *vsched.Chooser) (out vsched.Outcome) {
	p := vfBubble(t, func() {
		prop := c29Propagator{}
		sys := vfNewSystem("c29", OptionFunc(func(a *actorSystem) {
			a.remoteConfig = remote.NewConfig("127.0.0.1", 9000, remote.WithContextPropagator(prop))
		}))
		sys.remotingEnabled.Store(true)
		recv := &c29Receiver{seen: map[string][]string{}}
		pid, err := sys.Spawn(context.Background(), "recv", recv, WithLongLived())
		if err != nil {
			panic(err)
		}
		vfSettle()
		to := pid.getAddress()
		from := sys.NoSender().getAddress()
		rsp := &c29Responder{sys: sys, ser: inet.NewProtoSerializer()}
		sender := sys.remoting
		if sc.mode == "tellsync" {
			// a remoting client as an application would build it without send coalescing
			sender = remoteclient.NewClient(remoteclient.WithClientContextPropagator(prop))
		}
		nc := sender.NetClient(to.Host(), to.Port())
		for i := 0; i < sc.conns; i++ {
			nc.Put(rsp.addConn())
		}
		withHdr := func(h int) context.Context {
			if c29Headers[h] == nil {
				return context.Background()
			}
			return context.WithValue(context.Background(), c29Key{}, c29Headers[h])
		}
		var mu sync.Mutex
		var trace []string
		if sc.mode == "tell" {
			// the blocker: its batch stays in flight (held by the responder) while the callers submit
			if err := sys.remoting.RemoteTell(withHdr(1), from, to, wrapperspb.String("blocker")); err != nil {
				panic(err)
			}
			vfSettle()
		}
		// header map of every message: an enumerated choice
		sent := make([][]*c29Sent, sc.callers)
		for j := range sent {
			base := 0
			for k := 0; k < sc.per; k++ {
				h := (base + k) % len(c29Headers)
				if k == 0 || !sc.perCaller {
					h = c.Choose("headers", len(c29Headers), nil, func(i int) string { return fmt.Sprintf("c%d-%d headers %s", j, k, c29Dump(c29Headers[i])) })
					base = h
				}
				id := fmt.Sprintf("%s-c%d-%d", sc.mode, j, k)
				if sc.mode == "ask" {
					id = fmt.Sprintf("ask-c%d-%d", j, k)
				}
				sent[j] = append(sent[j], &c29Sent{id: id, hdr: h})
			}
		}
		next := make([]int, sc.callers)
		busy := make([]bool, sc.callers)
		var cwg sync.WaitGroup
		type ev struct {
			name string
			fire func()
		}
		for step := 0; step < 100; step++ {
			var evs []ev
			mu.Lock()
			for j := 0; j < sc.callers; j++ {
				if !busy[j] && next[j] < sc.per {
					j := j
					evs = append(evs, ev{name: fmt.Sprintf("send c%d", j), fire: func() {
						mu.Lock()
						s := sent[j][next[j]]
						next[j]++
						busy[j] = true
						mu.Unlock()
						cwg.Add(1)
						go func() {
							defer cwg.Done()
							var err error
							var rep any
							if sc.mode == "ask" {
								rep, err = sender.RemoteAsk(withHdr(s.hdr), from, to, wrapperspb.String(s.id), time.Minute)
							} else {
								err = sender.RemoteTell(withHdr(s.hdr), from, to, wrapperspb.String(s.id))
							}
							mu.Lock()
							s.err, s.ret = err, true
							if v, ok := rep.(*wrapperspb.StringValue); ok {
								s.rep = v.GetValue()
							} else if rep != nil {
								s.rep = fmt.Sprintf("<%T>", rep)
							}
							busy[j] = false
							mu.Unlock()
						}()
					}})
				}
			}
			mu.Unlock()
			for _, pd := range rsp.pendingList() {
				pd := pd
				evs = append(evs, ev{name: fmt.Sprintf("serve conn%d", pd.conn), fire: func() { pd.cmd <- true }})
			}
			if len(evs) == 0 {
				break
			}
			pick := c.Choose("event", len(evs), nil, func(i int) string { return evs[i].name })
			trace = append(trace, evs[pick].name)
			evs[pick].fire()
			vfSettle()
		}
		cwg.Wait()
		vfSettle()
		// ---- oracle ----
		var v []vsched.Violation
		tr := strings.Join(trace, " | ")
		rsp.mu.Lock()
		batches := strings.Join(rsp.batches, " ")
		bad := append([]string(nil), rsp.bad...)
		rsp.mu.Unlock()
		if len(bad) > 0 {
			v = append(v, vsched.Fail("responder-problem", "%v; trace: %s", bad, tr))
		}
		recv.mu.Lock()
		var obs strings.Builder
		obs.WriteString("batches=" + batches + " ")
		if sc.mode == "tell" {
			if got := recv.seen["blocker"]; len(got) != 1 || got[0] != c29Dump(c29Headers[1]) {
				v = append(v, vsched.Fail("receiver-context-has-other-headers/tell", "blocker injected %s, receiver saw %v; batches: %s", c29Dump(c29Headers[1]), got, batches))
			}
		}
		for j := range sent {
			for _, s := range sent[j] {
				want := c29Dump(c29Headers[s.hdr])
				got := recv.seen[s.id]
				fmt.Fprintf(&obs, "%s:%s->%v ", s.id, want, got)
				switch {
				case !s.ret:
					v = append(v, vsched.Fail("send-never-returned/"+sc.mode, "%s; trace: %s", s.id, tr))
				case s.err != nil:
					v = append(v, vsched.Fail("send-failed-without-fault/"+sc.mode, "%s: %v; trace: %s", s.id, s.err, tr))
				case len(got) != 1:
					v = append(v, vsched.Fail("message-not-received-exactly-once/"+sc.mode, "%s received %d times; batches: %s; trace: %s", s.id, len(got), batches, tr))
				case got[0] != want:
					v = append(v, vsched.Fail("receiver-context-has-other-headers/"+sc.mode, "%s was sent with headers %s, the receiving actor's context has %s; batches on the wire: %s; trace: %s", s.id, want, got[0], batches, tr))
				}
				if sc.mode == "ask" && s.ret && s.err == nil && s.rep != s.id+"@"+want {
					v = append(v, vsched.Fail("ask-reply-not-own-or-headers-differ", "%s (headers %s) got reply %q; trace: %s", s.id, want, s.rep, tr))
				}
			}
		}
		recv.mu.Unlock()
		out.Violations = v
		out.Obs = obs.String()
		sys.remoting.Close() // Stop closes it only when remoting is enabled; the coalescer's writer must exit
		if sender != sys.remoting {
			sender.Close()
		}
		rsp.shutdown()
		sys.remotingEnabled.Store(false)
		if err := vfStopSystem(sys); err != nil {
			out.Invalid = "system stop failed: " + err.Error()
		}
	})
	if p != nil {
		out.Violations = append(out.Violations, vsched.Fail("panic", "panic in execution: %v", p))
	}
	return out
}

func TestVerifC29(t *testing.T) {
	defer vsched.Finish(t)
	r := vsched.Rep()
	r.Assumption("events are atomic (system settled after each); net.Pipe instead of TCP; the ProtoServer read loop is mirrored by the harness responder (same serializer calls and format detection order), everything else is the real sender and receiver code")
	scs := []c29Scenario{
		{name: "tell/3callers-x1", mode: "tell", callers: 3, per: 1, conns: 1},
		{name: "tell/2callers-x2/header-per-caller", mode: "tell", callers: 2, per: 2, conns: 1, perCaller: true},
		{name: "ask/2callers-x1/2conns", mode: "ask", callers: 2, per: 1, conns: 2},
		{name: "tellsync/2callers-x1/2conns", mode: "tellsync", callers: 2, per: 1, conns: 2},
	}
	if r.Thorough() {
		scs = append(scs, c29Scenario{name: "tell/2callers-x2", mode: "tell", callers: 2, per: 2, conns: 1},
			c29Scenario{name: "ask/3callers-x1/3conns", mode: "ask", callers: 3, per: 1, conns: 3},
			c29Scenario{name: "tellsync/3callers-x1/3conns", mode: "tellsync", callers: 3, per: 1, conns: 3},
			c29Scenario{name: "tell/4callers-x1", mode: "tell", callers: 4, per: 1, conns: 1})
	}
	var all []vsched.Scenario
	for _, sc := range scs {
		sc := sc
		all = append(all, vsched.Scenario{
			Cfg: vsched.Config{Scenario: sc.name, Bound: 0, Params: map[string]any{"mode": sc.mode, "callers": sc.callers, "per_caller": sc.per, "header_maps": "none|{a:1}|{a:2,b:\"\"}"}},
			Run: func(c *vsched.Chooser) vsched.Outcome { return c29Run(t, sc, c) },
		})
	}
	vsched.ExploreAll(all)
}
