//go:build verif

package actor

import (
	"context"
	"fmt"
	"strings"
	"sync"
	"testing"
	"time"

	"github.com/tochemey/goakt/v4/internal/verif/vsched"
	"github.com/tochemey/goakt/v4/internal/verif/vsync"
)

// C15 — an Ask returns its own reply or an error, and an in-time reply is never lost.
//
// Real actor system (instrumented) in a bubble. Responder R answers every request with the request's
// id; a second actor Q never answers. Client threads issue Asks (PID.Ask / package Ask / SendSync);
// the firing of the first Ask's timer is a harness event (virtual time advance), so "the timer fires
// between the responder winning the responseClosed CAS and its channel send" is an enumerated case.
// contextPoolSize=2 makes response channels and contexts get reused immediately. Points: shimmed
// atomics and channel statements in pid.go Ask paths, api.go, receive_context.go Response, pools.go,
// the default mailbox and the dispatch path.

type c15Req struct{ id int }
type c15Rep struct{ id int }

type c15Responder struct {
	answer bool
	mu     sync.Mutex
	done   map[int]time.Time // request id -> virtual time at which Response returned
}

func (a *c15Responder) PreStart(*Context) error { return nil }
func (a *c15Responder) PostStop(*Context) error { return nil }
func (a *c15Responder) Receive(ctx *ReceiveContext) {
	if m, ok := ctx.Message().(*c15Req); ok && a.answer {
		vsched.Point("before-Response")
		ctx.Response(&c15Rep{id: m.id})
		a.mu.Lock()
		if a.done == nil {
			a.done = map[int]time.Time{}
		}
		a.done[m.id] = time.Now()
		a.mu.Unlock()
	}
}

var c15ScopeFuncs = []string{".(*PID).Ask", ".Ask", ".(*PID).SendSync", ".(*ReceiveContext).Response", ".(*ReceiveContext).build",
	".getResponseChannel", ".putResponseChannel", ".drainAnyChannel", ".getContext", ".recycleContext", ".toReceiveContext",
	".(*PID).doReceive", ".(*PID).runTurn", ".(*PID).finishOrReclaim", ".(*UnboundedMailbox)", ".(*NonBlockingBoundedMailbox)", ".(*dispatchState)", ".(*readyQueue).push"}

func c15Scope(file, fn string) bool {
	if !strings.Contains(file, "/actor/") {
		return false
	}
	for _, f := range c15ScopeFuncs {
		if strings.Contains(fn, f) {
			return true
		}
	}
	return false
}

type c15Result struct {
	who string
	id  int
	rep any
	err error
}

type c15Scenario struct {
	name  string
	api   string // pid | pkg | sendsync
	mode  string // "seq": one client thread issues ask1 (to R) then ask2 (to Q); "par": two threads; "stale": see below
	bound int
}

func c15Run(t *testing.T, sc c15Scenario, c *vsched.Chooser) (out vsched.Outcome) {
	vsync.ResetPools()
	c04ResetContextPool()
	p := vfBubble(t, func() {
		sys := vfNewSystem("c15")
		ctx := context.Background()
		rActor := &c15Responder{answer: true}
		mbox := func() []SpawnOption {
			if sc.mode == "stale-nb" {
				// a mailbox that recycles the handed-out context itself (recycleContext) instead of the
				// default mailbox's sentinel recycling
				return []SpawnOption{WithLongLived(), WithMailbox(NewNonBlockingBoundedMailbox(8))}
			}
			return []SpawnOption{WithLongLived()}
		}
		r, err := sys.Spawn(ctx, "r", rActor, mbox()...)
		if err != nil {
			panic(err)
		}
		q, err := sys.Spawn(ctx, "q", &c15Responder{answer: false}, mbox()...)
		if err != nil {
			panic(err)
		}
		vfSettle()
		s := vsched.New(c)
		s.Auto = true
		s.Scope = c15Scope
		s.MaxSteps = 3000
		s.FairAfter = 300
		s.TimeStep, s.MaxIdleSteps = time.Second, 14
		var mu sync.Mutex
		var results []c15Result
		batchBad := ""
		started := map[int]time.Time{}
		timeouts := map[int]time.Duration{}
		askT := func(who string, to *PID, id int, timeout time.Duration) {
			var rep any
			var err error
			mu.Lock()
			started[id] = time.Now()
			timeouts[id] = timeout
			mu.Unlock()
			switch sc.api {
			case "pid":
				rep, err = sys.NoSender().Ask(ctx, to, &c15Req{id: id}, timeout)
			case "pkg":
				rep, err = Ask(ctx, to, &c15Req{id: id}, timeout)
			case "sendsync":
				rep, err = sys.NoSender().SendSync(ctx, to.Name(), &c15Req{id: id}, timeout)
			case "batchask":
				// two requests in one BatchAsk: the replies must come back in request order; the
				// pair is folded into one result whose id is the first request's id
				var ch chan any
				ch, err = sys.NoSender().BatchAsk(ctx, to, []any{&c15Req{id: id}, &c15Req{id: id + 40}}, timeout)
				if err == nil {
					var got []int
					for v := range ch {
						if r, ok := v.(*c15Rep); ok {
							got = append(got, r.id)
						} else {
							got = append(got, -1)
						}
					}
					if len(got) == 2 && got[0] == id && got[1] == id+40 {
						rep = &c15Rep{id: id}
					} else {
						rep = &c15Rep{id: -1000 - id}
						mu.Lock()
						batchBad = fmt.Sprintf("BatchAsk(%d,%d) returned replies %v", id, id+40, got)
						mu.Unlock()
					}
				}
			}
			mu.Lock()
			results = append(results, c15Result{who, id, rep, err})
			mu.Unlock()
		}
		ask := func(who string, to *PID, id int) { askT(who, to, id, time.Second) }
		wantResults := 2
		if sc.mode == "tells" {
			// ask1 goes to R while another client keeps R busy with ordinary messages: R answers,
			// dequeues the next message (which lets the mailbox reset ask1's context) and may do all
			// that before the asking goroutine has returned from the enqueue.
			wantResults = 1
			s.Go("client1", func() { ask("ask1", r, 1) })
			s.Go("client2", func() {
				_ = sys.NoSender().Tell(ctx, r, &c15Req{id: 90})
				_ = sys.NoSender().Tell(ctx, r, &c15Req{id: 91})
			})
		} else if sc.mode == "stale" || sc.mode == "stale-nb" {
			// ask1 goes to the silent actor Q and will time out; the other client then makes Q dequeue
			// another message (which lets the mailbox recycle ask1's context) and asks R with a long
			// timeout: R's in-time reply must reach it even though ask1's timeout path runs late.
			s.Go("client1", func() { ask("ask1", q, 1) })
			s.Go("client2", func() {
				_ = sys.NoSender().Tell(ctx, q, &c15Req{id: 90})
				_ = sys.NoSender().Tell(ctx, q, &c15Req{id: 91})
				askT("ask2", r, 2, 10*time.Second)
			})
		} else if sc.mode == "seq" {
			s.Go("client", func() { ask("ask1", r, 1); ask("ask2", q, 2) })
		} else {
			s.Go("client1", func() { ask("ask1", r, 1) })
			s.Go("client2", func() { ask("ask2", q, 2) })
		}
		fired := false
		s.Events = func() []vsched.Event {
			if fired {
				return nil
			}
			return []vsched.Event{{Name: "advance-1s(timer of pending asks fires)", Cost: 1, Fire: func() { fired = true; time.Sleep(time.Second) }}}
		}
		s.Cleanup(func() { _ = vfStopSystem(sys) })
		s.Start()
		s.Run()
		s.Stop()
		for i := 0; i < 14 && !s.AllDone(); i++ {
			time.Sleep(time.Second)
		}
		vfSettle()
		var v []vsched.Violation
		if s.Wedged != "" {
			out.Invalid = "wedged: " + s.Wedged
		}
		mu.Lock()
		res := append([]c15Result(nil), results...)
		mu.Unlock()
		for _, tp := range s.ThreadPanics {
			v = append(v, vsched.Fail("panic-in-client-thread/"+sc.api, "%s", tp))
		}
		var b strings.Builder
		for _, x := range res {
			switch {
			case x.err != nil:
				fmt.Fprintf(&b, "%s=err;", x.who)
			default:
				rep, ok := x.rep.(*c15Rep)
				if !ok {
					v = append(v, vsched.Fail("ask-returned-foreign-value/"+sc.api, "%s (request %d) returned %T %v", x.who, x.id, x.rep, x.rep))
					continue
				}
				fmt.Fprintf(&b, "%s=%d;", x.who, rep.id)
				if rep.id != x.id {
					v = append(v, vsched.Fail("ask-returned-another-asks-reply/"+sc.api, "%s sent request %d and received the reply to request %d; results=%s", x.who, x.id, rep.id, c15Show(res)))
				}
			}
		}
		if !fired && sc.mode != "stale" && sc.mode != "stale-nb" && sc.api != "batchask" {
			// no timer fired: the responder answered in time, so ask1 must have received its reply
			for _, x := range res {
				if x.who == "ask1" && x.err != nil {
					v = append(v, vsched.Fail("in-time-reply-lost/"+sc.api, "ask1 failed with %v although its timer never fired and the responder replied; results=%s", x.err, c15Show(res)))
				}
			}
		}
		// an in-time reply is never lost: the responder completed Response before the asker's deadline
		rActor.mu.Lock()
		for _, x := range res {
			// (not for BatchAsk: its error may stem from the second request of the batch, whose own
			// start time the harness cannot see)
			if at, ok := rActor.done[x.id]; ok && x.err != nil && sc.api != "batchask" {
				mu.Lock()
				deadline := started[x.id].Add(timeouts[x.id])
				mu.Unlock()
				if at.Before(deadline) {
					v = append(v, vsched.Fail("in-time-reply-lost/"+sc.api, "%s (request %d) failed with %v although the responder completed Response at %s, before the deadline %s; results=%s", x.who, x.id, x.err, at.Format("15:04:05.000"), deadline.Format("15:04:05.000"), c15Show(res)))
				}
			}
		}
		rActor.mu.Unlock()
		if batchBad != "" {
			v = append(v, vsched.Fail("batchask-replies-not-own-or-out-of-order/"+sc.api, "%s", batchBad))
		}
		if len(res) != wantResults && out.Invalid == "" {
			v = append(v, vsched.Fail("ask-never-returned/"+sc.api, "only %d of the asks returned: %s; threads: %s", len(res), c15Show(res), s.Describe()))
		}
		out.Violations = v
		out.Obs = b.String() + fmt.Sprintf("fired=%v", fired)
		if err := vfStopSystem(sys); err != nil {
			out.Invalid = "system stop failed: " + err.Error()
		}
	})
	if p != nil {
		out.Violations = append(out.Violations, vsched.Fail("panic/"+sc.api, "panic in execution: %v", p))
	}
	return out
}

func c15Show(res []c15Result) string {
	var b strings.Builder
	for _, x := range res {
		fmt.Fprintf(&b, "[%s req=%d rep=%v err=%v] ", x.who, x.id, x.rep, x.err)
	}
	return b.String()
}

func TestVerifC15(t *testing.T) {
	defer vsched.Finish(t)
	if contextPoolSize != 2 {
		t.Fatalf("constant override missing: contextPoolSize=%d", contextPoolSize)
	}
	vsched.Rep().Assumption("sequentially consistent interleavings at shimmed atomics and at channel statements of the Ask/Response path; timers fire only as explicit events or when nothing else can run; contextPoolSize=2 (overridden) so response channels and contexts are reused immediately")
	var all []vsched.Scenario
	for _, api := range []string{"pid", "pkg", "sendsync", "batchask"} {
		for _, mode := range []string{"seq", "par", "stale", "tells", "stale-nb"} {
			if mode == "stale-nb" && api != "pid" {
				continue // the recycling mailbox variant is explored for one API (the Ask paths share the code)
			}
			if api == "batchask" && (mode == "stale" || mode == "tells") {
				continue // BatchAsk is a loop over PID.Ask: the two cheap modes are enough on top of the pid scenarios
			}
			sc := c15Scenario{name: api + "/" + mode, api: api, mode: mode, bound: vsched.Pick(2, 3)}
			all = append(all, vsched.Scenario{
				Cfg: vsched.Config{Scenario: sc.name, Bound: sc.bound, Params: map[string]any{"api": api, "mode": mode}},
				Run: func(c *vsched.Chooser) vsched.Outcome { return c15Run(t, sc, c) },
			})
		}
	}
	vsched.ExploreAll(all)
}
