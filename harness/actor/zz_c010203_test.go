//go:build verif

package actor

import (
	"context"
	"fmt"
	"os"
	"strings"
	"sync"
	"testing"
	"time"

	"github.com/tochemey/goakt/v4/internal/verif/vsched"
	"github.com/tochemey/goakt/v4/internal/verif/vsync"
	"github.com/tochemey/goakt/v4/supervisor"
)

// C01 / C02 / C03 — "turn" harness: a real actor system (instrumented package actor) inside a bubble,
// one actor per mailbox type, 2–3 client threads calling Tell, the system's own dispatcher workers as
// auto-registered logical threads. Scheduling points: every shimmed sync/atomic operation whose call
// site lies in the dispatch path (pid.go doReceive/runTurn/finishOrReclaim/dispatchOne/handleReceived,
// dispatch_state.go, ready_queue.go, worker.go, dispatcher.go, the mailbox files, pools.go) plus an
// explicit point inside the handler. Everything else of the system runs atomically between points.
//
// Oracles (signature prefix says which property they belong to):
//   C01: at every decision at most one invocation of the actor's handler is open;
//   C02: at quiescence every accepted Tell was handled exactly once, none twice; a mailbox that is
//        non-empty while every worker is parked, or workers spinning without ever handling the
//        pending message, is a stall;
//   C03: per sender the handled order equals the send order (FIFO mailbox types only).

type c123Msg struct {
	sender int
	seq    int
	prio   int
}

type c123H struct {
	mu       sync.Mutex
	in       int
	maxIn    int
	handled  []c123Msg
	overlap  string
	restarts int
}

type c123Actor struct{ h *c123H }

func (a *c123Actor) PreStart(*Context) error { return nil }
func (a *c123Actor) PostStop(*Context) error { return nil }
func (a *c123Actor) Receive(ctx *ReceiveContext) {
	m, ok := ctx.Message().(*c123Msg)
	if !ok {
		// lifecycle messages delivered to Receive (PostStart after a restart, ...) are handler
		// invocations too: they must not overlap another invocation
		h := a.h
		h.mu.Lock()
		h.in++
		if h.in > h.maxIn {
			h.maxIn = h.in
		}
		if h.in > 1 && h.overlap == "" {
			h.overlap = fmt.Sprintf("handler entered for %T while another invocation is open", ctx.Message())
		}
		h.mu.Unlock()
		vsched.Point("handler-sys")
		h.mu.Lock()
		h.in--
		h.mu.Unlock()
		return
	}
	h := a.h
	h.mu.Lock()
	h.in++
	if h.in > h.maxIn {
		h.maxIn = h.in
	}
	if h.in > 1 && h.overlap == "" {
		h.overlap = fmt.Sprintf("handler entered for s%d#%d while another invocation is open", m.sender, m.seq)
	}
	h.mu.Unlock()
	vsched.Point("handler")
	h.mu.Lock()
	h.handled = append(h.handled, *m)
	h.in--
	h.mu.Unlock()
	if m.prio == c123PanicPrio {
		panic("c123: injected failure")
	}
}

// c123PanicPrio marks a message whose handler panics after it was accounted for (supervised restart).
const c123PanicPrio = 99

// c123Grain is the grain counterpart of c123Actor (same handler instrumentation).
type c123Grain struct{ h *c123H }

func (g *c123Grain) OnActivate(context.Context, *GrainProps) error   { return nil }
func (g *c123Grain) OnDeactivate(context.Context, *GrainProps) error { return nil }
func (g *c123Grain) OnReceive(ctx *GrainContext) {
	m, ok := ctx.Message().(*c123Msg)
	if !ok {
		ctx.Unhandled()
		return
	}
	h := g.h
	h.mu.Lock()
	h.in++
	if h.in > h.maxIn {
		h.maxIn = h.in
	}
	if h.in > 1 && h.overlap == "" {
		h.overlap = fmt.Sprintf("grain handler entered for s%d#%d while another invocation is open", m.sender, m.seq)
	}
	h.mu.Unlock()
	vsched.Point("handler")
	h.mu.Lock()
	h.handled = append(h.handled, *m)
	h.in--
	h.mu.Unlock()
	ctx.NoErr()
}

func c123Less(a, b any) bool {
	x, ok1 := a.(*c123Msg)
	y, ok2 := b.(*c123Msg)
	if !ok1 || !ok2 {
		return ok1 && !ok2
	}
	return x.prio < y.prio
}

type c123Kind struct {
	name string
	mk   func() Mailbox
	fifo bool
	cap  int
}

func c123Kinds() []c123Kind {
	return []c123Kind{
		{"Unbounded", func() Mailbox { return NewUnboundedMailbox() }, true, 0},
		{"UnboundedSegmented", func() Mailbox { return NewUnboundedSegmentedMailbox() }, true, 0},
		{"UnboundedFair", func() Mailbox { return NewUnboundedFairMailbox() }, true, 0},
		{"NonBlockingBounded4", func() Mailbox { return NewNonBlockingBoundedMailbox(4) }, true, 4},
		{"Bounded8", func() Mailbox { return NewBoundedMailbox(8) }, true, 8},
		{"UnboundedPriority", func() Mailbox { return NewUnboundedPriorityMailBox(c123Less) }, false, 0},
		{"BoundedPriority8", func() Mailbox { return NewBoundedPriorityMailbox(8, c123Less) }, false, 8},
	}
}

type c123Scenario struct {
	name       string
	kind       c123Kind
	senders    [][]c123Msg // per client thread
	throughput int
	restart    bool // one more client thread calls pid.Restart concurrently
	grain      bool // the target is a grain (TellGrain; grain turn loop and grain mailbox)
	suprestart bool // the actor has a Restart directive and one message makes its handler panic
	bound      int
}

var c123ScopeFiles = []string{"/actor/dispatch_state.go", "/actor/ready_queue.go", "/actor/worker.go", "/actor/dispatcher.go",
	"/actor/unbounded_mailbox.go", "/actor/unbounded_segmented_mailbox.go", "/actor/unbounded_fair_mailbox.go",
	"/actor/non_blocking_bounded_mailbox.go", "/actor/bounded_priority_mailbox.go", "/actor/unbounded_priority_mailbox.go",
	"/actor/priority_intake.go", "/actor/pools.go"}

var c123ScopeFuncs2 = []string{".(*grainPID).receive", ".(*grainPID).runTurn", ".(*grainPID).finishOrReclaim", ".(*grainPID).dequeueResponse", ".(*grainPID).paused"}

var c123ScopeFuncs = []string{".(*PID).doReceive", ".(*PID).runTurn", ".(*PID).finishOrReclaim", ".(*PID).dispatchOne",
	".(*PID).handleReceived", ".(*PID).Tell", ".restartSubtree", ".(*PID).doRestart", ".(*PID).Restart",
	".(*PID).restartChild", ".(*PID).handleRestartDirective", ".(*PID).recovery", ".(*PID).submitSupervision", ".(*PID).suspend", ".(*PID).fireSystemMessage"}

func c123Scope(file, fn string) bool {
	for _, f := range c123ScopeFiles {
		if strings.HasSuffix(file, f) {
			return true
		}
	}
	if strings.HasSuffix(file, "/actor/grain_mailbox.go") {
		return true
	}
	if strings.HasSuffix(file, "/actor/grain_pid.go") {
		for _, f := range c123ScopeFuncs2 {
			if strings.Contains(fn, f) {
				return true
			}
		}
	}
	if strings.HasSuffix(file, "/actor/pid.go") {
		for _, f := range c123ScopeFuncs {
			if strings.Contains(fn, f) {
				return true
			}
		}
	}
	return false
}

func c123Run(t *testing.T, sc c123Scenario, c *vsched.Chooser) (out vsched.Outcome) {
	vsync.ResetPools()
	c04ResetContextPool()
	h := &c123H{}
	p := vfBubble(t, func() {
		sys := vfNewSystem("c123", WithThroughputBudget(sc.throughput))
		var pid *PID
		var gid *GrainIdentity
		if sc.grain {
			id, err := sys.GrainIdentity(context.Background(), "g", func(context.Context) (Grain, error) { return &c123Grain{h: h}, nil }, WithLongLivedGrain())
			if err != nil {
				panic(err)
			}
			gid = id
		} else {
			opts := []SpawnOption{WithMailbox(sc.kind.mk()), WithLongLived()}
			if sc.suprestart {
				opts = append(opts, WithSupervisor(supervisor.NewSupervisor(supervisor.WithAnyErrorDirective(supervisor.RestartDirective))))
			}
			p0, err := sys.Spawn(context.Background(), "a", &c123Actor{h: h}, opts...)
			if err != nil {
				panic(err)
			}
			pid = p0
		}
		vfSettle()
		s := vsched.New(c)
		s.Auto = true
		s.Scope = c123Scope
		s.MaxSteps = 4000
		s.FairAfter = 400
		s.TimeStep, s.MaxIdleSteps = 10*time.Millisecond, 100
		accepted := map[[2]int]bool{}
		var amu sync.Mutex
		tellErr := ""
		s.OnDecide = func() {}
		for si, msgs := range sc.senders {
			si, msgs := si, msgs
			s.Go(fmt.Sprintf("s%d", si+1), func() {
				for i := range msgs {
					m := &msgs[i]
					var err error
					if sc.grain {
						err = sys.TellGrain(context.Background(), gid, m)
					} else {
						err = sys.NoSender().Tell(context.Background(), pid, m)
					}
					if err == nil {
						amu.Lock()
						accepted[[2]int{m.sender, m.seq}] = true
						amu.Unlock()
					} else if !sc.restart && !sc.suprestart {
						amu.Lock()
						tellErr = fmt.Sprintf("Tell s%d#%d: %v", m.sender, m.seq, err)
						amu.Unlock()
					}
				}
			})
		}
		restartErr := ""
		if sc.restart {
			s.Go("restarter", func() {
				if err := pid.Restart(context.Background()); err != nil {
					restartErr = err.Error()
				}
			})
		}
		s.Cleanup(func() { _ = vfStopSystem(sys) })
		s.Start()
		s.Run()
		if !s.AllDone() && os.Getenv("VERIF_DEBUG") != "" {
			fmt.Printf("DEBUG not all done: wedged=%q deadlock=%v livelock=%v blocked=%v threads=%s\n", s.Wedged, s.Deadlock, s.Livelock, s.Blocked, s.Describe())
			tr := c.Trace
			for i := 0; i < 70 && i < len(tr); i++ {
				fmt.Printf("   T %d %s\n", i, tr[i].Label)
			}
			fmt.Printf("   ...\n")
			for i := len(tr) - 40; i < len(tr); i++ {
				fmt.Printf("   T %d %s\n", i, tr[i].Label)
			}
		}
		s.Stop()
		// let virtual time pass so that anything waiting on timers (Restart's 10ms ticker) can finish
		for i := 0; i < 20 && !s.AllDone(); i++ {
			time.Sleep(50 * time.Millisecond)
		}
		vfSettle()
		var v []vsched.Violation
		h.mu.Lock()
		handled := append([]c123Msg(nil), h.handled...)
		overlap, maxIn := h.overlap, h.maxIn
		h.mu.Unlock()
		// ---- C01
		for _, tp := range s.ThreadPanics {
			v = append(v, vsched.Fail("C02:panic-in-client-thread/"+sc.kind.name, "%s", tp))
		}
		if overlap != "" || maxIn > 1 {
			v = append(v, vsched.Fail("C01:handler-overlap/"+sc.kind.name, "%s (max concurrently open handlers %d)", overlap, maxIn))
		}
		// ---- C02
		cnt := map[[2]int]int{}
		for _, m := range handled {
			cnt[[2]int{m.sender, m.seq}]++
		}
		for k, n := range cnt {
			if n > 1 {
				v = append(v, vsched.Fail("C02:message-handled-twice/"+sc.kind.name, "s%d#%d handled %d times; handled=%v", k[0], k[1], n, handled))
			}
			if !accepted[k] && !sc.restart && !sc.suprestart {
				v = append(v, vsched.Fail("C02:unaccepted-message-handled/"+sc.kind.name, "s%d#%d handled but its Tell did not succeed", k[0], k[1]))
			}
		}
		stalled := s.Wedged != "" || s.Livelock
		if !sc.restart && !sc.suprestart { // with a concurrent restart the "stays running" premise does not hold for every message
			for k := range accepted {
				if cnt[k] == 0 {
					sig := "C02:accepted-message-not-processed/"
					if stalled {
						sig = "C02:stall-workers-spin-without-processing/"
					}
					diag := ""
					if pid != nil {
						diag = fmt.Sprintf("mailbox len=%d isEmpty=%v schedState=%d", pid.mailbox.Len(), pid.mailbox.IsEmpty(), pid.schedState.Load())
					}
					v = append(v, vsched.Fail(sig+sc.kind.name, "s%d#%d accepted but not handled at quiescence (%s); handled=%v; threads: %s; wedged=%q", k[0], k[1], diag, handled, s.Describe(), s.Wedged))
					break
				}
			}
			if tellErr != "" && sc.kind.cap == 0 {
				v = append(v, vsched.Fail("C02:tell-rejected-by-running-actor/"+sc.kind.name, "%s", tellErr))
			}
		} else if stalled && !sc.suprestart {
			out.Invalid = "horizon reached in restart scenario: " + s.Wedged
		}
		if s.Deadlock {
			v = append(v, vsched.Fail("C02:client-blocked-forever/"+sc.kind.name, "client thread blocked: %v", s.Blocked))
		}
		_ = restartErr
		// ---- C03 (per-sender order among handled messages; also valid across a restart for the messages that were handled)
		if sc.kind.fifo {
			last := map[int]int{}
			for _, m := range handled {
				if prev, ok := last[m.sender]; ok && m.seq < prev {
					v = append(v, vsched.Fail("C03:per-sender-order-violated/"+sc.kind.name, "sender s%d: #%d handled after #%d; handled=%v", m.sender, m.seq, prev, handled))
					break
				}
				last[m.sender] = m.seq
			}
		}
		out.Violations = v
		var b strings.Builder
		for _, m := range handled {
			fmt.Fprintf(&b, "s%d#%d,", m.sender, m.seq)
		}
		fmt.Fprintf(&b, "|acc=%d", len(accepted))
		out.Obs = b.String()
		if err := vfStopSystem(sys); err != nil {
			out.Invalid = "system stop failed: " + err.Error()
		}
	})
	if p != nil {
		out.Violations = append(out.Violations, vsched.Fail("C02:panic/"+sc.kind.name, "panic in execution: %v", p))
	}
	return out
}

func c123Scenarios() []c123Scenario {
	var out []c123Scenario
	r := vsched.Rep()
	// supervised restart: the first message of s1 makes the handler panic; the Restart directive
	// re-initialises the actor while the same worker may still be inside the turn (later messages of
	// the turn, DESIGN 7.1); PostStart and further Tells must not get a second worker in meanwhile
	uk := c123Kinds()[0]
	out = append(out, c123Scenario{name: "Unbounded/supervised-restart", kind: uk, throughput: 4, suprestart: true, bound: vsched.Pick(1, 2),
		senders: [][]c123Msg{{{1, 1, c123PanicPrio}, {1, 2, 1}}, {{2, 1, 1}}}})
	// grains: TellGrain returns only after the grain handled the message, so each sender has one
	// message in flight at a time; two or three senders still race on the grain's mailbox/turn.
	gk := c123Kind{name: "Grain", fifo: true}
	out = append(out,
		c123Scenario{name: "Grain/2s-tp1", kind: gk, grain: true, throughput: 1, bound: vsched.Pick(1, 2),
			senders: [][]c123Msg{{{1, 1, 1}, {1, 2, 1}}, {{2, 1, 1}, {2, 2, 1}}}},
		c123Scenario{name: "Grain/3s-tp2", kind: gk, grain: true, throughput: 2, bound: vsched.Pick(1, 2),
			senders: [][]c123Msg{{{1, 1, 1}}, {{2, 1, 1}}, {{3, 1, 1}, {3, 2, 1}}}},
	)
	for _, k := range c123Kinds() {
		pb := vsched.Pick(1, 2)
		if k.name == "Unbounded" {
			pb = vsched.Pick(2, 3) // the default mailbox gets the deeper bound
		}
		out = append(out,
			c123Scenario{name: k.name + "/2s-tp1", kind: k, throughput: 1, bound: pb,
				senders: [][]c123Msg{{{1, 1, 2}, {1, 2, 1}}, {{2, 1, 1}, {2, 2, 2}}}},
			c123Scenario{name: k.name + "/1s3-tp2", kind: k, throughput: 2, bound: pb,
				senders: [][]c123Msg{{{1, 1, 1}, {1, 2, 1}, {1, 3, 1}}, {{2, 1, 1}}}},
		)
		if r.Thorough() || k.name == "Unbounded" || k.name == "UnboundedFair" || k.name == "Bounded8" {
			out = append(out, c123Scenario{name: k.name + "/restart", kind: k, throughput: 1, bound: 1, restart: true,
				senders: [][]c123Msg{{{1, 1, 1}, {1, 2, 1}}, {{2, 1, 1}}}})
		}
	}
	return out
}

// c123Test runs the shared exploration and keeps only the violations that belong to property prop.
func c123Test(t *testing.T, prop string) {
	defer vsched.Finish(t)
	r := vsched.Rep()
	r.Assumption("sequentially consistent interleavings at shimmed sync/atomic operations in the dispatch path (scope listed in the harness); the rest of the actor system runs atomically between points; 2 dispatcher workers; segmentSize=2, localQueueCap=3, contextPoolSize=2 (overridden constants)")
	var all []vsched.Scenario
	for _, sc := range c123Scenarios() {
		sc := sc
		if prop == "C03" && (!sc.kind.fifo || sc.grain) {
			continue
		}
		all = append(all, vsched.Scenario{
			Cfg: vsched.Config{Scenario: sc.name, Bound: sc.bound, Params: map[string]any{"mailbox": sc.kind.name, "senders": fmt.Sprint(sc.senders), "throughput": sc.throughput, "restart": sc.restart}},
			Run: func(c *vsched.Chooser) vsched.Outcome {
				o := c123Run(t, sc, c)
				var keep []vsched.Violation
				for _, v := range o.Violations {
					if strings.HasPrefix(v.Signature, prop+":") {
						keep = append(keep, v)
					}
				}
				o.Violations = keep
				return o
			},
		})
	}
	vsched.ExploreAll(all)
}

func TestVerifC01Turn(t *testing.T) { c123Test(t, "C01") }
func TestVerifC02Turn(t *testing.T) { c123Test(t, "C02") }
func TestVerifC03Turn(t *testing.T) { c123Test(t, "C03") }
