//go:build verif

package actor

import (
	"fmt"
	"sort"
	"strings"
	"testing"

	"github.com/tochemey/goakt/v4/internal/verif/vsched"
	"github.com/tochemey/goakt/v4/internal/verif/vsync"
)

// C05 — the dispatcher never loses or duplicates a scheduled actor.
// Real readyQueue + real worker.run loops under the controlled scheduler; localQueueCap (3) and
// globalQueueInitialCap (2) are overridden so spill, growth and stealHalf-into-full are reached.

type c05Item struct {
	long   bool // the turn stays open until the harness releases the hold
	id     int
	repush int // how many times runTurn re-schedules itself through the worker (pushLocal path)
	h      *c05Harness
}

type c05Harness struct {
	taken []string // "item@worker" in global order
	count map[int]int
	hold  *vsync.Mutex // held by the harness while "long turns" must stay open (nil = turns are instantaneous)
}

func (it *c05Item) runTurn(w *worker) {
	it.h.taken = append(it.h.taken, fmt.Sprintf("%d@w%d", it.id, w.id))
	it.h.count[it.id]++
	if it.h.hold != nil && it.long {
		// a long turn: the worker stays inside runTurn until the harness releases the hold
		it.h.hold.Lock()
		it.h.hold.Unlock()
	}
	if it.repush > 0 {
		it.repush--
		w.reschedule(it)
	}
}

type c05Scenario struct {
	name    string
	workers int
	pushers [][]int // per pusher: item ids pushed in order
	repush  map[int]int
	closer  bool
	bound   int
	prefill map[int][]int // worker id -> item ids placed in that worker's local ring before the window opens
	long    map[int]bool  // items whose turn stays open until every thread is quiescent (long handler)
}

func c05Queued(rq *readyQueue) []int {
	var out []int
	for _, l := range rq.locals {
		for i := 0; i < l.size; i++ {
			s := l.buf[(l.head+i)%localQueueCap]
			if s != nil {
				out = append(out, s.(*c05Item).id)
			} else {
				out = append(out, -1)
			}
		}
	}
	g := &rq.global
	for i := 0; i < g.size; i++ {
		s := g.buf[(g.head+i)%len(g.buf)]
		if s != nil {
			out = append(out, s.(*c05Item).id)
		} else {
			out = append(out, -1)
		}
	}
	sort.Ints(out)
	return out
}

func c05Run(t *testing.T, sc c05Scenario, c *vsched.Chooser) (out vsched.Outcome) {
	p := vsched.Bubble(t, func() {
		h := &c05Harness{count: map[int]int{}}
		d := newDispatcher(sc.workers, 1)
		rq := d.readyQueue
		s := vsched.New(c)
		expected := map[int]int{}
		workerDone := make([]bool, sc.workers)
		for i, w := range d.workers {
			i, w := i, w
			s.GoDaemon(fmt.Sprintf("w%d", i), func() { w.run(); workerDone[i] = true })
		}
		for wid, ids := range sc.prefill {
			for _, id := range ids {
				rq.pushLocal(wid, &c05Item{id: id, h: h, repush: sc.repush[id]})
				expected[id] = 1 + sc.repush[id]
			}
		}
		pushersDone := 0
		for pi, ids := range sc.pushers {
			ids := ids
			s.Go(fmt.Sprintf("p%d", pi), func() {
				for _, id := range ids {
					it := &c05Item{id: id, h: h, repush: sc.repush[id], long: sc.long[id]}
					d.schedule(it)
				}
				pushersDone++
			})
			for _, id := range ids {
				expected[id] = 1 + sc.repush[id]
			}
		}
		if sc.closer {
			s.Go("closer", func() { rq.close() })
		}
		s.Cleanup(func() {
			rq.close()
			rq.parkMu.Lock()
			rq.closed = true
			rq.cond.Broadcast()
			rq.parkMu.Unlock()
		})
		if len(sc.long) > 0 {
			h.hold = &vsync.Mutex{}
			h.hold.Lock()
		}
		s.Start()
		s.Run()
		var v []vsched.Violation
		if h.hold != nil {
			// first quiescence, long turns still open: "no worker stays parked while work is queued":
			// every item still sitting in a ring while some worker is parked in cond.Wait is a violation
			// (the workers inside a long turn are busy, the parked ones are idle).
			if q := c05Queued(rq); len(q) > 0 && rq.parked > 0 {
				v = append(v, vsched.Fail("worker-parked-while-work-queued", "items %v sit in the ready queue while %d worker(s) are parked and the others are inside long turns; taken=%v; threads: %s", q, rq.parked, h.taken, s.Describe()))
			}
			h.hold.Unlock()
			s.Run()
		}
		// ---- oracle (all controlled threads are parked, blocked or finished)
		queued := c05Queued(rq)
		if s.Wedged != "" {
			out.Invalid = "wedged: " + s.Wedged
		}
		if s.Livelock {
			v = append(v, vsched.Fail("livelock", "only spinning threads remain: %v", s.Blocked))
		}
		for _, tp := range s.ThreadPanics {
			v = append(v, vsched.Fail("panic-in-thread", "%s", tp))
		}
		// duplicates / phantom items
		for id, n := range h.count {
			if n > expected[id] {
				v = append(v, vsched.Fail("item-taken-too-often", "item %d ran %d turns, scheduled %d times; taken=%v", id, n, expected[id], h.taken))
			}
		}
		for _, q := range queued {
			if q == -1 {
				v = append(v, vsched.Fail("nil-slot-in-live-range", "a live ring slot holds nil; queued=%v", queued))
			}
		}
		closed := sc.closer
		if !closed {
			// no closer: every scheduled item must have run every one of its turns (no lost item, no
			// lost wake-up: an item sitting in a ring while every worker is parked is a violation).
			for id, n := range expected {
				if h.count[id] != n {
					v = append(v, vsched.Fail("item-lost-or-stranded", "item %d ran %d of %d turns; still queued=%v; threads: %s blocked=%v", id, h.count[id], n, queued, s.Describe(), s.Blocked))
					break
				}
			}
		} else {
			// with a closer: turns run + entries still queued account for every scheduling exactly;
			// and every worker must have exited.
			pending := map[int]int{}
			for _, q := range queued {
				pending[q]++
			}
			for id, n := range expected {
				it := h.count[id]
				// an item with a pending repush that never ran cannot have repushed: each queued
				// entry stands for the rest of its chain
				if it+pending[id] > n || (pending[id] == 0 && it != n) || pending[id] > 1 {
					v = append(v, vsched.Fail("item-accounting-at-close", "item %d: ran %d turns, %d queued entries, scheduled for %d turns; taken=%v queued=%v", id, it, pending[id], n, h.taken, queued))
					break
				}
			}
			for i, dn := range workerDone {
				if !dn {
					v = append(v, vsched.Fail("worker-not-exited-after-close", "worker %d did not exit after close; threads: %s", i, s.Describe()))
					break
				}
			}
		}
		if s.Deadlock {
			v = append(v, vsched.Fail("deadlock", "harness thread blocked forever: %v", s.Blocked))
		}
		out.Violations = v
		out.Obs = strings.Join(h.taken, ",") + fmt.Sprintf("|q=%v", queued)
		// teardown: wake every worker whatever close() does (a close that fails to wake them is a
		// violation reported above, it must not wedge the bubble)
		s.Stop()
		rq.close()
		rq.parkMu.Lock()
		rq.closed = true
		rq.cond.Broadcast()
		rq.parkMu.Unlock()
	})
	if p != nil {
		out.Violations = append(out.Violations, vsched.Fail("panic", "panic in execution: %v", p))
	}
	return out
}

func TestVerifC05(t *testing.T) {
	defer vsched.Finish(t)
	if localQueueCap != 3 || globalQueueInitialCap != 2 {
		t.Fatalf("constant override missing: localQueueCap=%d globalQueueInitialCap=%d", localQueueCap, globalQueueInitialCap)
	}
	pb := vsched.Pick(2, 3)
	scs := []c05Scenario{
		{name: "2w-1p3", workers: 2, pushers: [][]int{{1, 2, 3}}, bound: pb},
		{name: "2w-2p2-repush", workers: 2, pushers: [][]int{{1, 2}, {3, 4}}, repush: map[int]int{1: 1, 3: 2}, bound: pb},
		{name: "2w-1p4-repush-spill", workers: 2, pushers: [][]int{{1, 2, 3, 4}}, repush: map[int]int{1: 1, 2: 1, 3: 1, 4: 1}, bound: pb},
		{name: "3w-2p2-steal", workers: 3, pushers: [][]int{{1, 2, 3}, {4, 5}}, repush: map[int]int{1: 2, 2: 2, 4: 2}, bound: vsched.Pick(1, 2)},
		// long turns: two actors whose handlers stay open; each must get its own worker
		{name: "2w-2long-items", workers: 2, pushers: [][]int{{1, 2}}, long: map[int]bool{1: true, 2: true}, bound: pb},
		{name: "3w-2p-long+short", workers: 3, pushers: [][]int{{1, 2}, {3}}, long: map[int]bool{1: true, 3: true}, bound: vsched.Pick(1, 2)},
		// non-initial states: a worker's local ring already holds several actors (multi-item steal,
		// steal into a non-empty ring, local overflow spilling into the global ring)
		{name: "2w-prefill3-steal", workers: 2, pushers: [][]int{{4}}, prefill: map[int][]int{0: {1, 2, 3}}, bound: pb},
		{name: "3w-prefill3+2-steal-repush", workers: 3, pushers: [][]int{{6}}, prefill: map[int][]int{0: {1, 2, 3}, 1: {4, 5}}, repush: map[int]int{1: 1, 4: 1}, bound: vsched.Pick(1, 2)},
		{name: "2w-prefill4-overflow-spill", workers: 2, pushers: [][]int{{5}}, prefill: map[int][]int{0: {1, 2, 3, 4}}, repush: map[int]int{4: 1}, bound: pb},
		{name: "2w-prefill3-repush-spill", workers: 2, pushers: [][]int{{4}}, prefill: map[int][]int{0: {1, 2, 3}}, repush: map[int]int{1: 1, 2: 1, 3: 1}, bound: pb},
		{name: "2w-1p2-close", workers: 2, pushers: [][]int{{1, 2}}, repush: map[int]int{1: 1}, closer: true, bound: pb},
		{name: "3w-2p2-close", workers: 3, pushers: [][]int{{1, 2}, {3}}, repush: map[int]int{1: 1, 3: 1}, closer: true, bound: vsched.Pick(1, 2)},
	}
	vsched.Rep().Assumption("sequentially consistent interleavings at shimmed sync/atomic operations; localQueueCap=3, globalQueueInitialCap=2 (overridden constants)")
	var all []vsched.Scenario
	for _, sc := range scs {
		sc := sc
		all = append(all, vsched.Scenario{
			Cfg: vsched.Config{Scenario: sc.name, Bound: sc.bound, Params: map[string]any{"workers": sc.workers, "pushers": sc.pushers, "repush": fmt.Sprint(sc.repush), "closer": sc.closer}},
			Run: func(c *vsched.Chooser) vsched.Outcome { return c05Run(t, sc, c) },
		})
	}
	vsched.ExploreAll(all)
}
