//go:build verif

package actor

import (
	"context"
	"errors"
	"fmt"
	"sort"
	"strings"
	"sync"
	"testing"

	gerrors "github.com/tochemey/goakt/v4/errors"
	"github.com/tochemey/goakt/v4/internal/address"
	"github.com/tochemey/goakt/v4/internal/verif/vsched"
	"github.com/tochemey/goakt/v4/internal/verif/vsync"
)

// C04 — every mailbox implementation behaves like its sequential specification.
//
// Real mailboxes, 2–3 producer threads and one consumer thread under the controlled scheduler; every
// call/return is stamped with a global logical clock and after each execution a Wing–Gong search
// looks for a linearization against the mailbox's sequential specification. Two mailbox instances of
// the same type share the (deterministic, LIFO) context and segment pools so recycled objects can
// cross mailboxes. Final accounting: every accepted message is dequeued exactly once, from the
// mailbox it was put in.

type c04Msg struct {
	id     int // unique
	prio   int
	sender int
	box    int // mailbox index it was enqueued into
}

type c04Kind struct {
	name    string
	mk      func() Mailbox
	spec    string              // fifo | fair | prio | stable
	cap     int                 // 0 = unbounded (effective capacity)
	coarse  bool                // internals not instrumented (Workiva ring)
	private func(m Mailbox) int // number of messages physically held (-1 unknown)
}

func c04Less(a, b any) bool {
	x, ok1 := a.(*c04Msg)
	y, ok2 := b.(*c04Msg)
	if !ok1 || !ok2 { // a corrupted (recycled) context: keep going, the oracle reports it
		return ok1 && !ok2
	}
	return x.prio < y.prio
}

type c04Op struct {
	thread string
	kind   string // enq deq empty len
	box    int
	msg    *c04Msg // enq: argument; deq: result (nil = empty)
	full   bool    // enq rejected with ErrMailboxFull
	errstr string  // other error
	b      bool    // empty result
	n      int64   // len result
	call   int
	ret    int
}

func (o *c04Op) String() string {
	switch o.kind {
	case "enq":
		r := "ok"
		if o.full {
			r = "full"
		}
		return fmt.Sprintf("[%d,%d] %s enq(box%d,m%d p%d s%d)=%s", o.call, o.ret, o.thread, o.box, o.msg.id, o.msg.prio, o.msg.sender, r)
	case "deq":
		if o.msg == nil {
			return fmt.Sprintf("[%d,%d] %s deq(box%d)=nil", o.call, o.ret, o.thread, o.box)
		}
		return fmt.Sprintf("[%d,%d] %s deq(box%d)=m%d(from box%d)", o.call, o.ret, o.thread, o.box, o.msg.id, o.msg.box)
	case "empty":
		return fmt.Sprintf("[%d,%d] %s isEmpty(box%d)=%v", o.call, o.ret, o.thread, o.box, o.b)
	default:
		return fmt.Sprintf("[%d,%d] %s len(box%d)=%d", o.call, o.ret, o.thread, o.box, o.n)
	}
}

type c04Hist struct {
	mu    sync.Mutex
	clock int
	ops   []*c04Op
}

func (h *c04Hist) begin(thread, kind string, box int, msg *c04Msg) *c04Op {
	h.mu.Lock()
	defer h.mu.Unlock()
	h.clock++
	o := &c04Op{thread: thread, kind: kind, box: box, msg: msg, call: h.clock, ret: 1 << 30}
	h.ops = append(h.ops, o)
	return o
}

func (h *c04Hist) end(o *c04Op) {
	h.mu.Lock()
	h.clock++
	o.ret = h.clock
	h.mu.Unlock()
}

// ---- sequential specification ----------------------------------------------------------------

type c04Model struct {
	items []*c04Msg // arrival order
}

func (m *c04Model) key() string {
	var b strings.Builder
	for _, it := range m.items {
		fmt.Fprintf(&b, "%d,", it.id)
	}
	return b.String()
}

// apply checks op against the specification; relaxed excuses "looks empty"/len answers.
func (m *c04Model) apply(k *c04Kind, o *c04Op, excused bool) (*c04Model, bool) {
	switch o.kind {
	case "enq":
		if o.errstr != "" {
			return nil, false
		}
		if o.full {
			if k.cap > 0 && len(m.items) >= k.cap {
				return m, true
			}
			return nil, false
		}
		if k.cap > 0 && len(m.items) >= k.cap {
			return nil, false
		}
		n := &c04Model{items: append(append([]*c04Msg{}, m.items...), o.msg)}
		return n, true
	case "deq":
		if o.msg == nil {
			if len(m.items) == 0 || excused {
				return m, true
			}
			return nil, false
		}
		idx := -1
		for i, it := range m.items {
			if it == o.msg {
				idx = i
			}
		}
		if idx < 0 {
			return nil, false
		}
		switch k.spec {
		case "fifo":
			if idx != 0 {
				return nil, false
			}
		case "fair":
			for i := 0; i < idx; i++ {
				if m.items[i].sender == o.msg.sender {
					return nil, false
				}
			}
		case "prio":
			for _, it := range m.items {
				if it.prio < o.msg.prio {
					return nil, false
				}
			}
		case "stable":
			for i, it := range m.items {
				if it.prio < o.msg.prio || (it.prio == o.msg.prio && i < idx) {
					return nil, false
				}
			}
		}
		n := &c04Model{items: append(append([]*c04Msg{}, m.items[:idx]...), m.items[idx+1:]...)}
		return n, true
	case "empty":
		if o.b == (len(m.items) == 0) || (excused && o.b) {
			return m, true
		}
		return nil, false
	case "len":
		if int(o.n) == len(m.items) || excused {
			return m, true
		}
		return nil, false
	}
	return nil, false
}

// c04Linearizable: Wing–Gong search with memoisation on (done set, model state).
func c04Linearizable(k *c04Kind, ops []*c04Op, relaxed bool) bool {
	n := len(ops)
	if n > 30 {
		panic("history too long")
	}
	excused := make([]bool, n)
	if relaxed {
		for i, o := range ops {
			if o.kind == "enq" {
				continue
			}
			for _, e := range ops {
				if e.kind == "enq" && e.call < o.ret && o.call < e.ret {
					excused[i] = true // an enqueue was in flight during this operation
				}
			}
		}
	}
	memo := map[string]bool{}
	var rec func(done uint32, m *c04Model) bool
	rec = func(done uint32, m *c04Model) bool {
		if done == (1<<uint(n))-1 {
			return true
		}
		key := fmt.Sprintf("%d|%s", done, m.key())
		if memo[key] {
			return false
		}
		minRet := 1 << 30
		for i, o := range ops {
			if done&(1<<uint(i)) == 0 && o.ret < minRet {
				minRet = o.ret
			}
		}
		for i, o := range ops {
			if done&(1<<uint(i)) != 0 || o.call > minRet {
				continue
			}
			if nm, ok := m.apply(k, o, excused[i]); ok {
				if rec(done|(1<<uint(i)), nm) {
					return true
				}
			}
		}
		memo[key] = true
		return false
	}
	return rec(0, &c04Model{})
}

// c04OnlyOverRejection: the history becomes linearizable once ErrMailboxFull answers are accepted
// regardless of the queue size (the only defect is a rejection while not full).
func c04OnlyOverRejection(k *c04Kind, ops []*c04Op) bool {
	if k.cap == 0 {
		return false
	}
	var kept []*c04Op
	dropped := false
	for _, o := range ops {
		if o.kind == "enq" && o.full {
			dropped = true
			continue
		}
		kept = append(kept, o)
	}
	return dropped && c04Linearizable(k, kept, false)
}

// ---- scenario ---------------------------------------------------------------------------------

type c04Scenario struct {
	name      string
	kind      *c04Kind
	producers [][]c04Msg // per producer: messages (box, prio, sender filled in)
	consumer  []string   // ops on box 0: deq, empty, len
	consumer2 []string   // ops on box 1 (second consumer thread; nil = none)
	bound     int
}

func c04Held(m Mailbox) int {
	switch q := m.(type) {
	case *BoundedPriorityMailbox:
		n := q.heap.Len()
		for c := (*ReceiveContext)(q.intake.head); c != nil; c = (*ReceiveContext)(c.next) {
			n++
		}
		return n
	case *BoundedStablePriorityMailbox:
		n := len(q.heap.items)
		for c := (*ReceiveContext)(q.intake.head); c != nil; c = (*ReceiveContext)(c.next) {
			n++
		}
		return n
	case *NonBlockingBoundedMailbox:
		n := 0
		for i := range q.ring {
			if q.ring[i].ctx != nil {
				n++
			}
		}
		return n
	}
	return -1
}

func c04Run(t *testing.T, sc c04Scenario, c *vsched.Chooser) (out vsched.Outcome) {
	vsync.ResetPools()
	c04ResetContextPool()
	p := vsched.Bubble(t, func() {
		k := sc.kind
		boxes := []Mailbox{k.mk(), k.mk()}
		h := &c04Hist{}
		s := vsched.New(c)
		var accepted [2]map[int]bool
		accepted[0], accepted[1] = map[int]bool{}, map[int]bool{}
		var amu sync.Mutex
		capViol := ""
		s.OnDecide = func() {
			if k.cap > 0 && capViol == "" {
				for bi, b := range boxes {
					if held := c04Held(b); held > k.cap {
						capViol = fmt.Sprintf("box %d physically holds %d messages, capacity %d", bi, held, k.cap)
					}
				}
			}
		}
		for pi, msgs := range sc.producers {
			pi := pi
			msgs := msgs
			name := fmt.Sprintf("p%d", pi)
			s.Go(name, func() {
				for i := range msgs {
					m := &msgs[i]
					var sender *PID
					if m.sender > 0 {
						sender = c04Senders[m.sender]
					}
					ctx := getContext()
					ctx.build(context.Background(), sender, nil, m, true)
					o := h.begin(name, "enq", m.box, m)
					err := boxes[m.box].Enqueue(ctx)
					if err != nil {
						if errors.Is(err, gerrors.ErrMailboxFull) {
							o.full = true
						} else {
							o.errstr = err.Error()
						}
					} else {
						amu.Lock()
						accepted[m.box][m.id] = true
						amu.Unlock()
					}
					h.end(o)
				}
			})
		}
		consume := func(name string, box int, prog []string) {
			s.Go(name, func() {
				for _, kd := range prog {
					o := h.begin(name, kd, box, nil)
					switch kd {
					case "deq":
						if rc := boxes[box].Dequeue(); rc != nil {
							if m, ok := rc.Message().(*c04Msg); ok {
								o.msg = m
							} else {
								o.errstr = fmt.Sprintf("dequeued context carries %T", rc.Message())
							}
						}
					case "empty":
						o.b = boxes[box].IsEmpty()
					case "len":
						o.n = boxes[box].Len()
					}
					h.end(o)
				}
			})
		}
		consume("c0", 0, sc.consumer)
		if sc.consumer2 != nil {
			consume("c1", 1, sc.consumer2)
		}
		s.Start()
		s.Run()
		s.Stop()
		var v []vsched.Violation
		if s.Wedged != "" {
			out.Invalid = "wedged: " + s.Wedged
			return
		}
		if s.Deadlock || s.Livelock {
			v = append(v, vsched.Fail("deadlock-or-livelock/"+k.name, "threads blocked: %v", s.Blocked))
		}
		for _, tp := range s.ThreadPanics {
			v = append(v, vsched.Fail("panic-in-mailbox-operation/"+k.name, "%s", tp))
		}
		// ---- drain phase (sequential): whatever is left must come out, from the right mailbox.
		for bi, b := range boxes {
			misses := 0
			for misses < 3 {
				o := h.begin("drain", "deq", bi, nil)
				rc := b.Dequeue()
				if rc != nil {
					if m, ok := rc.Message().(*c04Msg); ok {
						o.msg = m
					} else {
						o.errstr = fmt.Sprintf("dequeued context carries %T", rc.Message())
					}
				} else {
					misses++
				}
				h.end(o)
			}
		}
		// ---- oracle 1: exactly once, same mailbox
		got := [2]map[int]int{{}, {}}
		for _, o := range h.ops {
			if o.errstr != "" {
				v = append(v, vsched.Fail("corrupt-context/"+k.name, "%s: %s", o, o.errstr))
			}
			if o.kind == "deq" && o.msg != nil {
				got[o.box][o.msg.id]++
				if o.msg.box != o.box {
					v = append(v, vsched.Fail("delivered-from-wrong-mailbox/"+k.name, "%s\nhistory:\n%s", o, c04Show(h.ops)))
				}
			}
		}
		for bi := 0; bi < 2; bi++ {
			for id := range accepted[bi] {
				if got[bi][id] == 0 {
					v = append(v, vsched.Fail("accepted-message-lost/"+k.name, "message m%d accepted by box %d was never dequeued from it (after drain)\nhistory:\n%s", id, bi, c04Show(h.ops)))
				}
			}
			for id, n := range got[bi] {
				if n > 1 {
					v = append(v, vsched.Fail("message-dequeued-twice/"+k.name, "message m%d dequeued %d times from box %d\nhistory:\n%s", id, n, bi, c04Show(h.ops)))
				}
				if !accepted[bi][id] && n > 0 {
					v = append(v, vsched.Fail("rejected-or-foreign-message-dequeued/"+k.name, "message m%d dequeued from box %d but never accepted there\nhistory:\n%s", id, bi, c04Show(h.ops)))
				}
			}
		}
		if capViol != "" {
			v = append(v, vsched.Fail("capacity-exceeded/"+k.name, "%s", capViol))
		}
		// ---- oracle 2: linearizability of the queue operations (Enqueue/Dequeue) per mailbox.
		// IsEmpty is checked by the property's own clause (oracle 3); Len is not part of the statement.
		if len(v) == 0 {
			for bi := 0; bi < 2; bi++ {
				var ops []*c04Op
				for _, o := range h.ops {
					if o.box == bi && (o.kind == "enq" || o.kind == "deq") {
						ops = append(ops, o)
					}
				}
				if len(ops) == 0 {
					continue
				}
				if !c04Linearizable(k, ops, false) {
					if c04Linearizable(k, ops, true) {
						v = append(v, vsched.Fail("dequeue-nil-inconsistent-while-enqueue-in-flight/"+k.name, "box %d: not linearizable to the %s queue; becomes linearizable when Dequeue()==nil answers given while another enqueue was in flight are excused (a completed enqueue was hidden behind an in-flight one)\nhistory:\n%s", bi, k.spec, c04Show(ops)))
					} else {
						sig := "not-linearizable/"
						if c04OnlyOverRejection(k, ops) {
							sig = "rejected-while-not-full/"
						}
						v = append(v, vsched.Fail(sig+k.name, "box %d: no linearization of the Enqueue/Dequeue history against the %s specification (cap=%d)\nhistory:\n%s", bi, k.spec, k.cap, c04Show(ops)))
					}
				}
			}
		}
		// ---- oracle 3: never reports empty while a completed enqueue has not been dequeued.
		// Conservative reading: IsEmpty()==true is wrong only if some message's accepted Enqueue
		// returned before IsEmpty was called and no Dequeue that returned it had even started
		// before IsEmpty returned.
		for _, o := range h.ops {
			if o.kind != "empty" || !o.b {
				continue
			}
			for _, e := range h.ops {
				if e.kind != "enq" || e.box != o.box || e.full || e.errstr != "" || e.ret >= o.call {
					continue
				}
				delivered := false
				for _, d := range h.ops {
					if d.kind == "deq" && d.msg == e.msg && d.call < o.ret {
						delivered = true
					}
				}
				if !delivered {
					inflight := false
					for _, f := range h.ops {
						if f.kind == "enq" && f.box == o.box && f.call < o.ret && o.call < f.ret {
							inflight = true
						}
					}
					sig := "isEmpty-true-while-completed-enqueue-undelivered/"
					if !inflight {
						sig = "isEmpty-true-with-no-enqueue-in-flight/"
					}
					v = append(v, vsched.Fail(sig+k.name, "%s although %s had completed and m%d was not dequeued\nhistory:\n%s", o, e, e.msg.id, c04Show(h.ops)))
					break
				}
			}
		}
		out.Violations = v
		out.Obs = c04Obs(h.ops)
	})
	if p != nil {
		out.Violations = append(out.Violations, vsched.Fail("panic/"+sc.kind.name, "panic in execution: %v", p))
	}
	return out
}

func c04Show(ops []*c04Op) string {
	var b strings.Builder
	for _, o := range ops {
		b.WriteString("  " + o.String() + "\n")
	}
	return b.String()
}

// c04Obs: results in return order (schedule dependent on purpose).
func c04Obs(ops []*c04Op) string {
	cp := append([]*c04Op{}, ops...)
	sort.SliceStable(cp, func(i, j int) bool { return cp[i].ret < cp[j].ret })
	var b strings.Builder
	for _, o := range cp {
		switch o.kind {
		case "enq":
			fmt.Fprintf(&b, "e%d%v;", o.msg.id, o.full)
		case "deq":
			if o.msg == nil {
				fmt.Fprintf(&b, "d%d-;", o.box)
			} else {
				fmt.Fprintf(&b, "d%d=%d;", o.box, o.msg.id)
			}
		case "empty":
			fmt.Fprintf(&b, "E%d%v;", o.box, o.b)
		case "len":
			fmt.Fprintf(&b, "L%d=%d;", o.box, o.n)
		}
	}
	return b.String()
}

// c04ResetContextPool restores the package-level context pool to its initial content so that no
// context crosses from one execution into the next.
func c04ResetContextPool() {
	for {
		select {
		case <-contextCh:
			continue
		default:
		}
		break
	}
	for i := 0; i < cap(contextCh); i++ {
		contextCh <- new(ReceiveContext)
	}
}

var c04Senders = func() map[int]*PID {
	m := map[int]*PID{}
	for i := 1; i <= 3; i++ {
		m[i] = &PID{path: newPath(address.New(fmt.Sprintf("s%d", i), "c04", "127.0.0.1", 1000))}
	}
	return m
}()

func c04Kinds() []*c04Kind {
	return []*c04Kind{
		{name: "Unbounded", mk: func() Mailbox { return NewUnboundedMailbox() }, spec: "fifo"},
		{name: "UnboundedSegmented", mk: func() Mailbox { return NewUnboundedSegmentedMailbox() }, spec: "fifo"},
		{name: "UnboundedFair", mk: func() Mailbox { return NewUnboundedFairMailbox() }, spec: "fair"},
		{name: "UnboundedPriority", mk: func() Mailbox { return NewUnboundedPriorityMailBox(c04Less) }, spec: "prio"},
		{name: "UnboundedStablePriority", mk: func() Mailbox { return NewUnboundedStablePriorityMailbox(c04Less) }, spec: "stable"},
		{name: "NonBlockingBounded2", mk: func() Mailbox { return NewNonBlockingBoundedMailbox(2) }, spec: "fifo", cap: 2},
		{name: "BoundedPriority2", mk: func() Mailbox { return NewBoundedPriorityMailbox(2, c04Less) }, spec: "prio", cap: 2},
		{name: "BoundedStablePriority2", mk: func() Mailbox { return NewBoundedStablePriorityMailbox(2, c04Less) }, spec: "stable", cap: 2},
		{name: "Bounded4", mk: func() Mailbox { return NewBoundedMailbox(4) }, spec: "fifo", cap: 4, coarse: true},
	}
}

func TestVerifC04(t *testing.T) {
	defer vsched.Finish(t)
	if segmentSize != 2 || contextPoolSize != 2 {
		t.Fatalf("constant override missing: segmentSize=%d contextPoolSize=%d", segmentSize, contextPoolSize)
	}
	r := vsched.Rep()
	r.Assumption("sequentially consistent interleavings at shimmed sync/atomic operations; segmentSize=2, contextPoolSize=2 (overridden constants); sync.Pool replaced by a shared LIFO free list; BoundedMailbox (Workiva ring) explored at whole-operation granularity only and never filled (its Put blocks by spinning)")
	var all []vsched.Scenario
	id := 0
	mk := func(box, prio, sender int) c04Msg { id++; return c04Msg{id: id, box: box, prio: prio, sender: sender} }
	for _, k := range c04Kinds() {
		k := k
		id = 0
		pb := vsched.Pick(2, 3)
		if k.coarse {
			pb = 3
		}
		scs := []c04Scenario{
			// two producers on box 0 (second shares a sender key with the first), consumer interleaved
			{name: k.name + "/2p-1c", kind: k, bound: pb,
				producers: [][]c04Msg{{mk(0, 2, 1), mk(0, 1, 1)}, {mk(0, 1, 1), mk(0, 2, 2)}},
				consumer:  []string{"deq", "empty", "deq", "len"}},
			// three messages from one producer through a segment/ring boundary, second box fed too
			{name: k.name + "/wrap-2boxes", kind: k, bound: pb,
				producers: [][]c04Msg{{mk(0, 1, 1), mk(0, 1, 1), mk(0, 2, 1)}, {mk(1, 1, 2), mk(0, 1, 2)}},
				consumer:  []string{"deq", "deq", "deq", "empty"}, consumer2: []string{"deq", "deq"}},
		}
		if k.name == "UnboundedSegmented" {
			// recycled-segment (ABA) window: a producer that loaded the tail of box 0 is overtaken while
			// the consumer recycles that segment and box 1 draws it from the shared pool.
			scs = append(scs, c04Scenario{name: k.name + "/recycled-segment-2boxes", kind: k, bound: vsched.Pick(1, 2),
				producers: [][]c04Msg{{mk(0, 1, 1), mk(0, 1, 1), mk(0, 1, 1)}, {mk(0, 1, 2)}, {mk(1, 1, 3), mk(1, 1, 3), mk(1, 1, 3)}},
				consumer:  []string{"deq", "deq", "deq"}, consumer2: []string{"deq", "deq", "deq", "deq"}})
		}
		if r.Thorough() {
			scs = append(scs, c04Scenario{name: k.name + "/3p-1c", kind: k, bound: 2,
				producers: [][]c04Msg{{mk(0, 2, 1), mk(0, 1, 1)}, {mk(0, 1, 2)}, {mk(0, 3, 1), mk(1, 1, 3)}},
				consumer:  []string{"deq", "deq", "empty", "deq"}, consumer2: []string{"deq"}})
		}
		for _, sc := range scs {
			sc := sc
			all = append(all, vsched.Scenario{
				Cfg: vsched.Config{Scenario: sc.name, Bound: sc.bound, Params: map[string]any{"kind": k.name, "spec": k.spec, "cap": k.cap, "producers": fmt.Sprint(sc.producers), "consumer": sc.consumer, "consumer2": sc.consumer2}},
				Run: func(c *vsched.Chooser) vsched.Outcome { return c04Run(t, sc, c) },
			})
		}
	}
	vsched.ExploreAll(all)
}
