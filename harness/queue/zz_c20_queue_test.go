//go:build verif

package queue

import (
	"fmt"
	"sort"
	"strings"
	"sync"
	"testing"

	"github.com/tochemey/goakt/v4/internal/verif/vsched"
	"github.com/tochemey/goakt/v4/internal/verif/vsync"
)

// C20 (a) — the subscriber queue (internal/queue, Michael–Scott queue with pooled nodes) under the
// controlled scheduler: enqueuers and dequeuers interleaved at every shimmed atomic / pool operation,
// pool = shared LIFO free list (a released node is handed to the very next getItem).
// Oracle: every enqueued value is dequeued exactly once by the end (after a sequential drain), no
// Dequeue returns a value that was never enqueued or nil for a node it unlinked, and the history is
// linearizable to a FIFO queue.

type c20qScenario struct {
	name string
	enq  [][]int // per enqueuer thread: values
	deq  []int   // per dequeuer thread: number of Dequeue calls
	pre  []int   // values enqueued sequentially before the window opens
	bound int
}

type c20qHist struct {
	mu    sync.Mutex
	clock int
	ops   []*vsched.LinOp
}

func (h *c20qHist) begin(thread string, enq bool, val int) *vsched.LinOp {
	h.mu.Lock()
	defer h.mu.Unlock()
	h.clock++
	o := &vsched.LinOp{Thread: thread, Enq: enq, Val: val, Call: h.clock, Ret: 1 << 30}
	h.ops = append(h.ops, o)
	return o
}

func (h *c20qHist) end(o *vsched.LinOp) {
	h.mu.Lock()
	h.clock++
	o.Ret = h.clock
	h.mu.Unlock()
}

func c20qRun(t *testing.T, sc c20qScenario, c *vsched.Chooser) (out vsched.Outcome) {
	vsync.ResetPools()
	p := vsched.Bubble(t, func() {
		q := NewQueue()
		h := &c20qHist{}
		for _, v := range sc.pre {
			o := h.begin("pre", true, v)
			q.Enqueue(v)
			h.end(o)
		}
		s := vsched.New(c)
		for i, vals := range sc.enq {
			vals := vals
			name := fmt.Sprintf("e%d", i)
			s.Go(name, func() {
				for _, v := range vals {
					o := h.begin(name, true, v)
					q.Enqueue(v)
					h.end(o)
				}
			})
		}
		badType := ""
		deqOnce := func(name string) {
			o := h.begin(name, false, 0)
			v := q.Dequeue()
			if v == nil {
				o.Nil = true
			} else if iv, ok := v.(int); ok {
				o.Val = iv
			} else {
				badType = fmt.Sprintf("%T", v)
			}
			h.end(o)
		}
		for i, n := range sc.deq {
			n := n
			name := fmt.Sprintf("d%d", i)
			s.Go(name, func() {
				for k := 0; k < n; k++ {
					deqOnce(name)
				}
			})
		}
		s.Start()
		s.Run()
		s.Stop()
		var v []vsched.Violation
		if s.Wedged != "" {
			out.Invalid = "wedged: " + s.Wedged
			return
		}
		if s.Deadlock || s.Livelock {
			v = append(v, vsched.Fail("queue-deadlock-or-livelock", "blocked: %v", s.Blocked))
		}
		for _, tp := range s.ThreadPanics {
			v = append(v, vsched.Fail("queue-panic-in-thread", "%s", tp))
		}
		lenBefore := q.Length()
		for misses := 0; misses < 2; {
			before := len(h.ops)
			deqOnce("drain")
			if h.ops[before].Nil {
				misses++
			}
		}
		all := make([]vsched.LinOp, len(h.ops))
		enq := map[int]int{}
		got := map[int]int{}
		for i, o := range h.ops {
			all[i] = *o
			if o.Enq {
				enq[o.Val]++
			} else if !o.Nil {
				got[o.Val]++
			}
		}
		if badType != "" {
			v = append(v, vsched.Fail("queue-foreign-value", "Dequeue returned a %s", badType))
		}
		for val, n := range enq {
			if got[val] < n {
				v = append(v, vsched.Fail("queue-value-lost", "value %d enqueued %d times, dequeued %d times (after drain; Length() before drain = %d)\nhistory:\n%s", val, n, got[val], lenBefore, vsched.ShowOps(all)))
				break
			}
		}
		for val, n := range got {
			if n > enq[val] {
				v = append(v, vsched.Fail("queue-value-duplicated", "value %d enqueued %d times, dequeued %d times\nhistory:\n%s", val, enq[val], n, vsched.ShowOps(all)))
				break
			}
		}
		if len(v) == 0 && !vsched.LinearizableFIFO(all, false) {
			if vsched.LinearizableFIFO(all, true) {
				v = append(v, vsched.Fail("queue-dequeue-nil-while-enqueue-in-flight", "not linearizable to a FIFO queue unless Dequeue()==nil answers overlapping an in-flight Enqueue are excused\nhistory:\n%s", vsched.ShowOps(all)))
			} else {
				v = append(v, vsched.Fail("queue-not-linearizable-fifo", "no linearization against the FIFO specification\nhistory:\n%s", vsched.ShowOps(all)))
			}
		}
		out.Violations = v
		cp := append([]vsched.LinOp{}, all...)
		sort.SliceStable(cp, func(i, j int) bool { return cp[i].Ret < cp[j].Ret })
		var b strings.Builder
		for _, o := range cp {
			if !o.Enq {
				fmt.Fprintf(&b, "%s=%d/%v;", o.Thread, o.Val, o.Nil)
			}
		}
		out.Obs = b.String()
	})
	if p != nil {
		out.Violations = append(out.Violations, vsched.Fail("queue-panic", "panic in execution: %v", p))
	}
	return out
}

func TestVerifC20Queue(t *testing.T) {
	defer vsched.Finish(t)
	vsched.Rep().Assumption("internal/queue: sequentially consistent interleavings at shimmed atomic/pool operations; sync.Pool replaced by a shared LIFO free list")
	pb := vsched.Pick(2, 3)
	scs := []c20qScenario{
		{name: "queue/1e2-2d", pre: []int{1, 2}, enq: [][]int{{3, 4}}, deq: []int{2, 2}, bound: pb},
		{name: "queue/2e-2d", pre: []int{1}, enq: [][]int{{2, 3}, {4}}, deq: []int{2, 1}, bound: pb},
		{name: "queue/2e2-1d", enq: [][]int{{1, 2}, {3, 4}}, deq: []int{3}, bound: pb},
	}
	var all []vsched.Scenario
	for _, sc := range scs {
		sc := sc
		all = append(all, vsched.Scenario{
			Cfg: vsched.Config{Scenario: sc.name, Bound: sc.bound, Params: map[string]any{"pre": sc.pre, "enq": sc.enq, "deq": sc.deq}},
			Run: func(c *vsched.Chooser) vsched.Outcome { return c20qRun(t, sc, c) },
		})
	}
	vsched.ExploreAll(all)
}
