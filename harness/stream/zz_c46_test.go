//go:build verif

package stream

// C46 — stream junctions preserve elements and per-branch order.
//
// Bounded-exhaustive enumeration of junction programs on a real actor system (same execution model
// as C45: one synctest bubble per shard process, fresh actor system per case, verdict at quiescence
// in virtual time; see zz_c45_common_test.go):
//
//	fan-in : Merge / Concat / Zip over k sources, every combination of source lengths, consumed
//	         either directly by a Collect sink or through Buffer(1) (a consumer that asks for one
//	         element at a time, so the junction's demand ledger and its internal buffer are used).
//	         Rig "of": sources Of(...) (Merge, Concat: every length combination; Zip: equal lengths).
//	         Rig "chan" (all three, every length combination): sources FromChannel; the harness delivers
//	         the elements in a chosen interleaving (source-major, reverse source-major, round-robin),
//	         waits for quiescence and then closes the channels in every possible order.
//	         (Zip over Of sources of unequal length is not run: when Zip completes early the still
//	         running sub-pipelines fail against the stopped Zip actor with input left in their
//	         internal BoundedMailbox, which triggers the dispatcher spin described in
//	         zz_c45_common_test.go and quiescence is never reached.)
//	fan-out: Broadcast / Balance / Partition(fn) with n branches over a source of every length; every
//	         branch is its own RunnableGraph ending in its own Collect sink. Rig "of": source
//	         Of(...), all branches consumed directly. Rig "chan": source FromChannel, closed by the
//	         harness only after all elements have been delivered (quiescence), every combination of
//	         direct / Buffer(1) consumers per branch.
//
// Source i of a fan-in emits 100*(i+1)+1, 100*(i+1)+2, ... and a fan-out source emits 1..len, so every
// element identifies its source and its position.
//
// Oracles = the statement of C46:
//
//	Merge     multiset of the output = union of the sources; the elements of each source appear in
//	          that source's order.
//	Concat    output = sources one after another.
//	Zip       output = positional tuples, as many as the shortest source has elements.
//	Broadcast every branch receives every element (in source order: "per-branch order").
//	Balance   every element is received by exactly one branch; each branch sees its elements in
//	          source order.
//	Partition branch b receives exactly the elements with fn(x)==b, in source order.
//
// plus: every stream of the case completes without error (decided at quiescence).
// Not covered (unspecified by the statement): partition functions returning an out-of-range branch,
// branches that cancel, junctions of zero sources / n<1.

import (
	"context"
	"fmt"
	"sort"
	"strings"
	"testing"
	"time"

	"github.com/tochemey/goakt/v4/internal/verif/vsched"
)

type c46Kind int

const (
	c46Merge c46Kind = iota
	c46Concat
	c46Zip
	c46Broadcast
	c46Balance
	c46PartMod  // fn(x) = x % n
	c46PartZero // fn(x) = 0
	c46PartHalf // fn(x) = (x/2) % n
)

var c46KindName = map[c46Kind]string{c46Merge: "Merge", c46Concat: "Concat", c46Zip: "Zip", c46Broadcast: "Broadcast",
	c46Balance: "Balance", c46PartMod: "Partition[x%n]", c46PartZero: "Partition[0]", c46PartHalf: "Partition[(x/2)%n]"}

func c46PartFn(k c46Kind, n int) func(int) int {
	switch k {
	case c46PartMod:
		return func(x int) int { return x % n }
	case c46PartZero:
		return func(int) int { return 0 }
	default:
		return func(x int) int { return (x / 2) % n }
	}
}

func c46SourceElems(i, n int) []int {
	out := make([]int, n)
	for j := range out {
		out[j] = 100*(i+1) + j + 1
	}
	return out
}

type c46Branch struct {
	done  bool
	err   error
	items []int
	tups  [][]int
}

// c46Consume attaches the consumer (direct Collect sink, or Buffer(1) then Collect) and runs it.
func c46Consume[T any](src Source[T], buffered bool) (RunnableGraph, *Collector[T]) {
	if buffered {
		src = src.Via(Buffer[T](1, BackpressureSource))
	}
	col, sink := Collect[T]()
	g := src.To(sink)
	c45UnboundedMailboxes(g.stages)
	return g, col
}

// c46RunFanIn runs one fan-in case; lens are the source lengths.
func c46RunFanIn(k c46Kind, lens []int, buffered bool) (b c46Branch) {
	sys := c45NewSystem()
	defer c45StopSystem(sys)
	srcs := make([]Source[int], len(lens))
	for i, n := range lens {
		srcs[i] = Of(c46SourceElems(i, n)...)
		c45UnboundedMailboxes(srcs[i].stages)
	}
	ctx := context.Background()
	if k == c46Zip {
		g, col := c46Consume(Zip(srcs...), buffered)
		h, err := g.Run(ctx, sys)
		if err != nil {
			panic(err)
		}
		b.done = c45Quiesce(h)
		b.tups = c45Items(col)
		if b.done {
			b.err = h.Err()
		}
		return b
	}
	var j Source[int]
	if k == c46Merge {
		j = Merge(srcs...)
	} else {
		j = Concat(srcs...)
	}
	g, col := c46Consume(j, buffered)
	h, err := g.Run(ctx, sys)
	if err != nil {
		panic(err)
	}
	b.done = c45Quiesce(h)
	b.items = c45Items(col)
	if b.done {
		b.err = h.Err()
	}
	return b
}

// c46RunFanOut runs one fan-out case: n = len(buffered) branches over a source of srcLen elements.
// chanRig: the source is a channel that the harness closes after all elements were delivered.
func c46RunFanOut(k c46Kind, srcLen int, buffered []bool, chanRig bool) []c46Branch {
	sys := c45NewSystem()
	defer c45StopSystem(sys)
	n := len(buffered)
	elems := make([]int, srcLen)
	for i := range elems {
		elems[i] = i + 1
	}
	var src Source[int]
	var ch chan int
	if chanRig {
		ch = make(chan int, srcLen+1)
		for _, x := range elems {
			ch <- x
		}
		src = FromChannel[int](ch)
	} else {
		src = Of(elems...)
	}
	c45UnboundedMailboxes(src.stages)
	var branches []Source[int]
	switch k {
	case c46Broadcast:
		branches = Broadcast(src, n)
	case c46Balance:
		branches = Balance(src, n)
	default:
		branches = Partition(src, n, c46PartFn(k, n))
	}
	ctx := context.Background()
	hs := make([]StreamHandle, n)
	cols := make([]*Collector[int], n)
	for i, br := range branches {
		g, col := c46Consume(br, buffered[i])
		h, err := g.Run(ctx, sys)
		if err != nil {
			panic(err)
		}
		hs[i], cols[i] = h, col
	}
	if chanRig {
		vsched.Settle() // everything that can be delivered before completion has been delivered
		close(ch)
	}
	c45Quiesce(hs...)
	out := make([]c46Branch, n)
	for i := range out {
		select {
		case <-hs[i].Done():
			out[i].done = true
			out[i].err = hs[i].Err()
		default:
		}
		out[i].items = c45Items(cols[i])
	}
	return out
}

// c46Perms returns all permutations of 0..n-1 in a fixed order.
func c46Perms(n int) [][]int {
	var out [][]int
	cur := []int{}
	used := make([]bool, n)
	var rec func()
	rec = func() {
		if len(cur) == n {
			out = append(out, append([]int(nil), cur...))
			return
		}
		for i := 0; i < n; i++ {
			if !used[i] {
				used[i] = true
				cur = append(cur, i)
				rec()
				cur = cur[:len(cur)-1]
				used[i] = false
			}
		}
	}
	rec()
	return out
}

// c46RunFanInChan: Merge / Concat / Zip over channel sources. delivery: 0 source-major, 1 reverse source-major,
// 2 round-robin; closeOrder: the order in which the channels are closed after delivery.
func c46RunFanInChan(kind c46Kind, lens []int, delivery int, closeOrder []int, buffered bool) (b c46Branch) {
	sys := c45NewSystem()
	defer c45StopSystem(sys)
	k := len(lens)
	chs := make([]chan int, k)
	srcs := make([]Source[int], k)
	for i, n := range lens {
		chs[i] = make(chan int, n+1)
		srcs[i] = FromChannel[int](chs[i])
		c45UnboundedMailboxes(srcs[i].stages)
	}
	var g RunnableGraph
	var colT *Collector[[]int]
	var colI *Collector[int]
	switch kind {
	case c46Zip:
		g, colT = c46Consume(Zip(srcs...), buffered)
	case c46Merge:
		g, colI = c46Consume(Merge(srcs...), buffered)
	default:
		g, colI = c46Consume(Concat(srcs...), buffered)
	}
	h, err := g.Run(context.Background(), sys)
	if err != nil {
		panic(err)
	}
	vsched.Settle()
	push := func(i, j int) {
		chs[i] <- c46SourceElems(i, lens[i])[j]
		vsched.Settle()
	}
	switch delivery {
	case 0:
		for i := 0; i < k; i++ {
			for j := 0; j < lens[i]; j++ {
				push(i, j)
			}
		}
	case 1:
		for i := k - 1; i >= 0; i-- {
			for j := 0; j < lens[i]; j++ {
				push(i, j)
			}
		}
	default:
		for j := 0; ; j++ {
			any := false
			for i := 0; i < k; i++ {
				if j < lens[i] {
					push(i, j)
					any = true
				}
			}
			if !any {
				break
			}
		}
	}
	for _, i := range closeOrder {
		close(chs[i])
		vsched.Settle()
	}
	b.done = c45Quiesce(h)
	if colT != nil {
		b.tups = c45Items(colT)
	} else {
		b.items = c45Items(colI)
	}
	if b.done {
		b.err = h.Err()
	}
	return b
}

func c46TupStr(t [][]int) string {
	p := make([]string, len(t))
	for i, x := range t {
		p[i] = c45Str(x)
	}
	return "[" + strings.Join(p, " ") + "]"
}

func c46JudgeFanIn(k c46Kind, lens []int, b c46Branch) (sig, detail string) {
	name := strings.ToLower(c46KindName[k])
	srcs := make([][]int, len(lens))
	var all []int
	for i, n := range lens {
		srcs[i] = c46SourceElems(i, n)
		all = append(all, srcs[i]...)
	}
	got := c45Str(b.items)
	if k == c46Zip {
		got = c46TupStr(b.tups)
	}
	if !b.done {
		return name + "-no-completion-at-quiescence", fmt.Sprintf("stream not done at quiescence; received %s; sources %v", got, srcs)
	}
	if b.err != nil {
		return name + "-unexpected-stream-error", fmt.Sprintf("stream ended with %v; received %s; sources %v", b.err, got, srcs)
	}
	switch k {
	case c46Concat:
		if c45Equal(b.items, all) {
			return "", ""
		}
		switch {
		case c45Equal(c45Sorted(b.items), c45Sorted(all)):
			sig = "concat-sources-not-one-after-another"
		case c45SubMultiset(b.items, all):
			sig = "concat-elements-missing"
		default:
			sig = "concat-foreign-or-duplicated-elements"
		}
		return sig, fmt.Sprintf("received %s, sources one after another give %s", got, c45Str(all))
	case c46Merge:
		if !c45Equal(c45Sorted(b.items), c45Sorted(all)) {
			if c45SubMultiset(b.items, all) {
				sig = "merge-elements-missing"
			} else {
				sig = "merge-foreign-or-duplicated-elements"
			}
			return sig, fmt.Sprintf("received %s, union of the sources is %s", got, c45Str(all))
		}
		for i := range srcs {
			var proj []int
			for _, x := range b.items {
				if x/100 == i+1 {
					proj = append(proj, x)
				}
			}
			if !c45Equal(proj, srcs[i]) {
				return "merge-source-order-not-preserved", fmt.Sprintf("received %s: elements of source %d appear as %s, source order is %s", got, i, c45Str(proj), c45Str(srcs[i]))
			}
		}
		return "", ""
	default: // Zip
		m := -1
		for _, n := range lens {
			if m < 0 || n < m {
				m = n
			}
		}
		want := make([][]int, m)
		for j := 0; j < m; j++ {
			for i := range srcs {
				want[j] = append(want[j], srcs[i][j])
			}
		}
		if len(b.tups) != len(want) {
			if len(b.tups) > len(want) {
				sig = "zip-more-tuples-than-shortest-source"
			} else {
				sig = "zip-tuples-missing"
			}
			return sig, fmt.Sprintf("received %s, positional pairing gives %s", got, c46TupStr(want))
		}
		for j := range want {
			if !c45Equal(b.tups[j], want[j]) {
				return "zip-tuple-not-positional", fmt.Sprintf("received %s, positional pairing gives %s", got, c46TupStr(want))
			}
		}
		return "", ""
	}
}

func c46JudgeFanOut(k c46Kind, srcLen int, bs []c46Branch) (sig, detail string) {
	n := len(bs)
	src := make([]int, srcLen)
	for i := range src {
		src[i] = i + 1
	}
	var gots []string
	for i, b := range bs {
		gots = append(gots, fmt.Sprintf("branch %d: %s", i, c45Str(b.items)))
	}
	got := strings.Join(gots, ", ")
	name := "broadcast"
	switch k {
	case c46Balance:
		name = "balance"
	case c46PartMod, c46PartZero, c46PartHalf:
		name = "partition"
	}
	for i, b := range bs {
		if !b.done {
			return name + "-no-completion-at-quiescence", fmt.Sprintf("branch %d not done at quiescence; %s; source %s", i, got, c45Str(src))
		}
		if b.err != nil {
			return name + "-unexpected-stream-error", fmt.Sprintf("branch %d ended with %v; %s; source %s", i, b.err, got, c45Str(src))
		}
	}
	switch k {
	case c46Broadcast:
		for i, b := range bs {
			if c45Equal(b.items, src) {
				continue
			}
			switch {
			case c45Equal(c45Sorted(b.items), c45Sorted(src)):
				sig = "broadcast-branch-order-differs"
			case c45SubMultiset(b.items, src):
				sig = "broadcast-branch-misses-elements"
			default:
				sig = "broadcast-branch-foreign-or-duplicated-elements"
			}
			return sig, fmt.Sprintf("branch %d; %s; source %s", i, got, c45Str(src))
		}
	case c46Balance:
		var all []int
		for _, b := range bs {
			all = append(all, b.items...)
		}
		if !c45Equal(c45Sorted(all), src) {
			if c45SubMultiset(all, src) {
				sig = "balance-element-delivered-to-no-branch"
			} else {
				sig = "balance-element-delivered-more-than-once"
			}
			return sig, fmt.Sprintf("%s; source %s", got, c45Str(src))
		}
		for i, b := range bs {
			if !sort.IntsAreSorted(b.items) {
				return "balance-branch-order-differs", fmt.Sprintf("branch %d; %s; source %s", i, got, c45Str(src))
			}
		}
	default:
		fn := c46PartFn(k, n)
		for i, b := range bs {
			var want []int
			for _, x := range src {
				if fn(x) == i {
					want = append(want, x)
				}
			}
			if c45Equal(b.items, want) {
				continue
			}
			switch {
			case c45Equal(c45Sorted(b.items), c45Sorted(want)):
				sig = "partition-branch-order-differs"
			case c45SubMultiset(b.items, want):
				sig = "partition-branch-misses-elements"
			default:
				sig = "partition-element-on-branch-not-selected-by-fn"
			}
			return sig, fmt.Sprintf("branch %d should receive %s; %s; source %s", i, c45Str(want), got, c45Str(src))
		}
	}
	return "", ""
}

// c46Tuples calls f for every tuple in {0..max}^k (fixed order).
func c46Tuples(k, max int, f func([]int)) {
	t := make([]int, k)
	var rec func(i int)
	rec = func(i int) {
		if i == k {
			f(t)
			return
		}
		for v := 0; v <= max; v++ {
			t[i] = v
			rec(i + 1)
		}
	}
	rec(0)
}

func c46ModeStr(b []bool) string {
	var p []string
	for _, x := range b {
		if x {
			p = append(p, "Buffer1")
		} else {
			p = append(p, "direct")
		}
	}
	return strings.Join(p, ",")
}

func TestVerifC46(t *testing.T) {
	defer vsched.Finish(t)
	r := vsched.Rep()
	maxLen := vsched.Pick(3, 5)
	maxFan := vsched.Pick(3, 4)
	var cur *vsched.Enum
	bud := c45StartBudget(func(reason string) {
		if cur != nil && cur.St.Capped == "" {
			cur.St.Capped = reason
		}
	})
	defer bud.done()
	replay := c45Replay()
	r.Assumption("one goroutine schedule per execution (Go runtime scheduler inside a synctest bubble, virtual time); the oracle only uses schedule-independent facts at quiescence")
	r.Assumption("every configurable stage actor gets goakt's UnboundedMailbox instead of the default BoundedMailbox (see c45UnboundedMailboxes); the junction-internal sinks/hubs keep their default mailbox")

	type scen struct {
		name string
		run  func(e *vsched.Enum, fails c45Failures, failing *int64)
	}
	// one case: Mine/replay/budget bookkeeping, execute, judge, re-execute on failure
	oneCase := func(e *vsched.Enum, scenario, caseStr string, nontrivial bool, fails c45Failures, failing *int64, exec func() (sig, detail, obs string)) {
		if replay != nil {
			if replay.skip(scenario, caseStr) {
				return
			}
		} else if !e.Mine() {
			return
		}
		if bud.expired.Load() {
			if e.St.Capped == "" {
				e.St.Capped = fmt.Sprintf("wall budget reached after %d cases", e.St.Executions)
			}
			return
		}
		bud.begin(caseStr)
		sig, detail, obs := exec()
		if replay != nil {
			fmt.Printf("REPLAY %s\n  observed: %s\n  verdict: %s %s\n", caseStr, obs, map[bool]string{true: "conforms", false: "VIOLATION " + sig}[sig == ""], detail)
		}
		if sig != "" {
			*failing++
			same := 1
			for i := 0; i < 2; i++ {
				if s2, _, _ := exec(); s2 == sig {
					same++
				}
			}
			if same >= 2 {
				fails.add(sig, caseStr, detail, same, len(caseStr))
			} else {
				// seen once in three executions of the same case: depends on the goroutine schedule, which
				// this engine does not control -> engine policy: recorded as nondeterminism, not reported
				e.St.Nondeterminism++
				r.Note("%s: %s failed once in 3 executions (%s: %s); schedule dependent, not reported", scenario, caseStr, sig, detail)
			}
		}
		e.Case(caseStr, obs, 1, nontrivial)
	}
	scens := []scen{
		{"fan-in", func(e *vsched.Enum, fails c45Failures, failing *int64) {
			for _, k := range []c46Kind{c46Merge, c46Concat, c46Zip} {
				for nsrc := 2; nsrc <= maxFan; nsrc++ {
					ml := maxLen
					if nsrc >= 4 && ml > 3 {
						ml = 3 // 4 sources: lengths 0..3 (the case count grows with 4! close orders)
					}
					c46Tuples(nsrc, ml, func(lens []int) {
						for _, buffered := range []bool{false, true} {
							lens := append([]int(nil), lens...)
							total, equal := 0, true
							for _, n := range lens {
								total += n
								equal = equal && n == lens[0]
							}
							// rig "chan": every delivery interleaving x every close order
							for delivery := 0; delivery < 3; delivery++ {
								for _, co := range c46Perms(nsrc) {
									co := co
									delivery := delivery
									caseStr := fmt.Sprintf("%s(FromChannel, source lengths %v, delivery %s, close order %v) > %s", c46KindName[k], lens,
										[]string{"source-major", "reverse-source-major", "round-robin"}[delivery], co, c46ModeStr([]bool{buffered}))
									oneCase(e, "fan-in", caseStr, total > 0, fails, failing, func() (string, string, string) {
										b := c46RunFanInChan(k, lens, delivery, co, buffered)
										sig, detail := c46JudgeFanIn(k, lens, b)
										obs := c45Str(b.items)
										if k == c46Zip {
											obs = c46TupStr(b.tups)
										}
										return sig, detail, fmt.Sprintf("%s %s done=%v err=%v", c46KindName[k], obs, b.done, b.err)
									})
								}
							}
							if k == c46Zip && !equal {
								continue // rig "of" only for equal lengths (see file comment)
							}
							caseStr := fmt.Sprintf("%s(Of, source lengths %v) > %s", c46KindName[k], lens, c46ModeStr([]bool{buffered}))
							oneCase(e, "fan-in", caseStr, total > 0, fails, failing, func() (string, string, string) {
								b := c46RunFanIn(k, lens, buffered)
								sig, detail := c46JudgeFanIn(k, lens, b)
								obs := c45Str(b.items)
								if k == c46Zip {
									obs = c46TupStr(b.tups)
								}
								return sig, detail, fmt.Sprintf("%s %s done=%v err=%v", c46KindName[k], obs, b.done, b.err)
							})
						}
					})
				}
			}
		}},
		{"fan-out", func(e *vsched.Enum, fails c45Failures, failing *int64) {
			kinds := []c46Kind{c46Broadcast, c46Balance, c46PartMod, c46PartZero}
			if r.Thorough() {
				kinds = append(kinds, c46PartHalf)
			}
			for _, k := range kinds {
				for n := 2; n <= maxFan; n++ {
					for srcLen := 0; srcLen <= maxLen; srcLen++ {
						// rig "of": all direct; rig "chan": every direct/Buffer1 combination
						type rig struct {
							chanRig  bool
							buffered []bool
						}
						rigs := []rig{{false, make([]bool, n)}}
						c46Tuples(n, 1, func(m []int) {
							b := make([]bool, n)
							for i, x := range m {
								b[i] = x == 1
							}
							rigs = append(rigs, rig{true, b})
						})
						for _, rg := range rigs {
							rg := rg
							src := "Of"
							if rg.chanRig {
								src = "FromChannel"
							}
							caseStr := fmt.Sprintf("%s(%s 1..%d, %d branches) > %s", c46KindName[k], src, srcLen, n, c46ModeStr(rg.buffered))
							oneCase(e, "fan-out", caseStr, srcLen > 0, fails, failing, func() (string, string, string) {
								bs := c46RunFanOut(k, srcLen, rg.buffered, rg.chanRig)
								sig, detail := c46JudgeFanOut(k, srcLen, bs)
								var obs []string
								for _, b := range bs {
									obs = append(obs, fmt.Sprintf("%s done=%v err=%v", c45Str(b.items), b.done, b.err))
								}
								return sig, detail, c46KindName[k] + " " + strings.Join(obs, " | ")
							})
						}
					}
				}
			}
		}},
	}
	// one bubble for the whole process (see zz_c45_common_test.go); the small scenario first
	scens[0], scens[1] = scens[1], scens[0]
	// The engine's per-bubble wall limit assumes one execution per bubble; here the bubble lives as long
	// as the process, and c45Budget's own watchdog bounds the real time of every single case.
	vsched.HangAfter = 1000 * time.Hour
	p := vsched.Bubble(t, func() {
		for _, sc := range scens {
			e := vsched.NewEnum(sc.name, map[string]any{"max_source_length": maxLen, "max_sources_or_branches": maxFan})
			cur = e
			fails := c45Failures{}
			var failing int64
			sc.run(e, fails, &failing)
			fails.report(e)
			r.Note("%s: failing cases in this shard: %d", sc.name, failing)
			e.Done()
		}
	})
	if p != nil {
		panic(p)
	}
}
