//go:build verif

package stream

import (
	"context"
	"fmt"
	"testing"
	"time"

	"github.com/tochemey/goakt/v4/actor"
	"github.com/tochemey/goakt/v4/log"
)

func TestVerifC45Probe(t *testing.T) {
	sys, err := actor.NewActorSystem("probe", actor.WithLogger(log.DiscardLogger))
	if err != nil {
		t.Fatal(err)
	}
	if err := sys.Start(context.Background()); err != nil {
		t.Fatal(err)
	}
	for i := 0; i < 5; i++ {
		col, sink := Collect[int]()
		src := Via(Via(Via(Of(3, 1, 2, 2, 5), Batch[int](2, time.Hour)), Buffer[[]int](1, BackpressureSource)), Flatten[int]())
		h, err := src.To(sink).Run(context.Background(), sys)
		if err != nil {
			t.Fatal(err)
		}
		<-h.Done()
		fmt.Println("default mailboxes, real time: items", col.Items(), "err", h.Err())
	}
}
