//go:build verif

package stream

// Helpers shared by the C45 (linear pipelines) and C46 (junctions) harnesses.
//
// Execution model. The stream stages are actors, so every case needs a real actor system. Each shard
// process runs ALL of its cases inside ONE testing/synctest bubble (vsched.Bubble):
//   - time is virtual, so Batch timers and the virtual-time sleeps inside ParallelMap functions cost
//     nothing and fire deterministically;
//   - vsched.Settle() (= synctest.Wait) returns exactly when every goroutine of the bubble is durably
//     blocked, i.e. when the pipeline is quiescent. "Has the stream completed?" is therefore decided at
//     quiescence (after additionally advancing virtual time far beyond every timer of the pipeline) and
//     never by a wall-clock deadline;
//   - every case gets a fresh actor system created through the public API and stopped at the end of
//     the case, so cases cannot influence each other through left-over stage actors.
// One bubble per process (instead of one per case) is used because package actor keeps package-level
// pools of channels/timers that must not travel from one bubble into another and cannot be reset from
// outside package actor.
//
// A non-remoting actor system leaves one goroutine behind after Stop
// (actorSystem.drainCoalescedFailures, ranging over actorSystem.coalescedFailureQueue); a bubble
// must not end with a blocked goroutine. c45StopSystem closes that channel through reflection after
// Stop has returned (at that point nothing can send on it: enqueueCoalescedFailure refuses while
// shuttingDown is set), which lets the goroutine return. If the field disappears the helper does
// nothing; a remaining goroutine would then crash the shard (visible as SHARD-CRASH, never as a verdict).
//
// Inside the bubble time.Now() is the fake clock, so the engine's wall budget test
// (Report.TimeLeft) can not see real time. c45Budget keeps a real-time flag that is set by a timer
// created OUTSIDE the bubble; the enumeration loops poll it and mark the scenario as capped.

import (
	"context"
	"encoding/json"
	"fmt"
	"os"
	"reflect"
	"sort"
	"strconv"
	"strings"
	"sync/atomic"
	"time"
	"unsafe"

	"github.com/tochemey/goakt/v4/actor"
	"github.com/tochemey/goakt/v4/internal/verif/vsched"
	"github.com/tochemey/goakt/v4/log"
)

// ---------------------------------------------------------------------------------------------
// replay support: an Enum replay file carries {"scenario":..., "case":{"input":...}}; when
// VERIF_REPLAY is set only that case is executed.

type c45ReplayReq struct {
	Scenario string `json:"scenario"`
	Case     struct {
		Input string `json:"input"`
	} `json:"case"`
}

func c45Replay() *c45ReplayReq {
	f := os.Getenv("VERIF_REPLAY")
	if f == "" {
		return nil
	}
	b, err := os.ReadFile(f)
	if err != nil {
		panic(err)
	}
	var r c45ReplayReq
	if err := json.Unmarshal(b, &r); err != nil {
		panic(err)
	}
	return &r
}

func (r *c45ReplayReq) skip(scenario, input string) bool {
	if r == nil {
		return false
	}
	return r.Scenario != scenario || r.Case.Input != input
}

// ---------------------------------------------------------------------------------------------
// real-time budget visible from inside the bubble

type c45Budget struct {
	expired atomic.Bool
	timer   *time.Timer
	// progress/watchdog: the case counter is bumped by the enumeration; a goroutine outside the
	// bubble notices when one case occupies the process for a very long REAL time (a spin inside
	// goakt that never quiesces). That is an engine cap: the partial result is flushed and the process
	// ends; it is never turned into a verdict.
	progress atomic.Int64
	current  atomic.Value // string: the case being executed
	stop     chan struct{}
}

// c45StartBudget must be called OUTSIDE the bubble (its timers must be real).
func c45StartBudget(capScenario func(reason string)) *c45Budget {
	b := &c45Budget{stop: make(chan struct{})}
	left := 3600.0
	if s := os.Getenv("VERIF_BUDGET_S"); s != "" {
		if f, err := strconv.ParseFloat(s, 64); err == nil {
			left = f
		}
	}
	b.timer = time.AfterFunc(time.Duration(left*float64(time.Second)), func() { b.expired.Store(true) })
	go func() {
		last := int64(-1)
		lastChange := time.Now()
		tk := time.NewTicker(500 * time.Millisecond)
		defer tk.Stop()
		for {
			select {
			case <-b.stop:
				return
			case <-tk.C:
			}
			p := b.progress.Load()
			if p != last {
				last, lastChange = p, time.Now()
				continue
			}
			if time.Since(lastChange) > 45*time.Second {
				cur, _ := b.current.Load().(string)
				capScenario(fmt.Sprintf("no quiescence within 45 s of real time in case %s (engine cap, no verdict)", cur))
				vsched.Rep().Note("watchdog: case %s did not quiesce in real time; shard result flushed and process ended (engine cap)", cur)
				vsched.Rep().Flush()
				os.Exit(0)
			}
		}
	}()
	return b
}

func (b *c45Budget) done() {
	b.timer.Stop()
	close(b.stop)
}

func (b *c45Budget) begin(c string) {
	b.current.Store(c)
	b.progress.Add(1)
}

// ---------------------------------------------------------------------------------------------
// actor system per case

var c45SysSeq int

func c45NewSystem() actor.ActorSystem {
	c45SysSeq++
	sys, err := actor.NewActorSystem(fmt.Sprintf("vstream%d", c45SysSeq), actor.WithLogger(log.DiscardLogger))
	if err != nil {
		panic(fmt.Sprintf("c45NewSystem: %v", err))
	}
	if err := sys.Start(context.Background()); err != nil {
		panic(fmt.Sprintf("c45NewSystem start: %v", err))
	}
	return sys
}

func c45StopSystem(sys actor.ActorSystem) {
	if err := sys.Stop(context.Background()); err != nil {
		panic(fmt.Sprintf("c45StopSystem: %v", err))
	}
	v := reflect.ValueOf(sys)
	if v.Kind() == reflect.Pointer && v.Elem().Kind() == reflect.Struct {
		f := v.Elem().FieldByName("coalescedFailureQueue")
		if f.IsValid() && f.Kind() == reflect.Chan && !f.IsNil() {
			reflect.NewAt(f.Type(), unsafe.Pointer(f.UnsafeAddr())).Elem().Close()
		}
	}
	vsched.Settle()
}

// c45UnboundedMailboxes gives every stage descriptor its own goakt UnboundedMailbox (the effect of the
// public Flow/Sink.WithMailbox knob, applied to the descriptors directly so that sources get one too).
// Reason: with the default BoundedMailbox a stage that shuts down while messages are still queued in
// its mailbox leaves a dispatcher worker spinning forever (Dispose()d ring buffer: Dequeue()==nil but
// IsEmpty()==false, PID.runTurn never releases the actor). That happens for every un-fused flow stage
// in front of a sink (flowActor sends streamComplete twice) and for every stage error with input still
// queued; inside a bubble a spinning worker means quiescence is never reached. The stage logic under
// test (demand ledger, output queue, fusion, resequencing heap, junction hubs) is unaffected by the
// mailbox type.
func c45UnboundedMailboxes(stages []*stage) {
	for _, st := range stages {
		st.config.Mailbox = actor.NewUnboundedMailbox()
	}
}

// c45Quiesce drives the bubble to quiescence and reports whether all handles are done. When some
// are not, virtual time is advanced in growing steps (far beyond every timer a pipeline of this
// harness can own: Batch maxWait 2 ms, ParallelMap sleeps < 10 ms) and quiescence is re-established;
// a handle that is still not done afterwards belongs to a stream that will never complete on its own.
func c45Quiesce(hs ...StreamHandle) bool {
	alldone := func() bool {
		for _, h := range hs {
			select {
			case <-h.Done():
			default:
				return false
			}
		}
		return true
	}
	vsched.Settle()
	for _, d := range []time.Duration{5 * time.Millisecond, 50 * time.Millisecond, time.Second, time.Minute} {
		if alldone() {
			return true
		}
		time.Sleep(d)
		vsched.Settle()
	}
	return alldone()
}

// c45Items reads what a Collect sink has received so far without waiting for completion.
func c45Items[T any](c *Collector[T]) []T {
	c.mu.Lock()
	defer c.mu.Unlock()
	return append([]T(nil), c.items...)
}

// ---------------------------------------------------------------------------------------------
// small list helpers for the reference models

func c45Str(xs []int) string {
	var b strings.Builder
	b.WriteByte('[')
	for i, x := range xs {
		if i > 0 {
			b.WriteByte(' ')
		}
		b.WriteString(strconv.Itoa(x))
	}
	b.WriteByte(']')
	return b.String()
}

func c45Equal(a, b []int) bool {
	if len(a) != len(b) {
		return false
	}
	for i := range a {
		if a[i] != b[i] {
			return false
		}
	}
	return true
}

func c45IsPrefix(p, full []int) bool {
	return len(p) <= len(full) && c45Equal(p, full[:len(p)])
}

func c45Sorted(a []int) []int {
	s := append([]int(nil), a...)
	sort.Ints(s)
	return s
}

// c45SubMultiset reports whether multiset a is contained in multiset b.
func c45SubMultiset(a, b []int) bool {
	m := map[int]int{}
	for _, x := range b {
		m[x]++
	}
	for _, x := range a {
		if m[x] == 0 {
			return false
		}
		m[x]--
	}
	return true
}

// c45IsSubsequence reports whether a is a (not necessarily contiguous) subsequence of b.
func c45IsSubsequence(a, b []int) bool {
	i := 0
	for _, x := range b {
		if i < len(a) && a[i] == x {
			i++
		}
	}
	return i == len(a)
}
